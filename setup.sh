#!/bin/bash
# Offline build of the whole framework from files on disk: translator -> full .vo build -> extraction -> driver.
set -e -o pipefail
cd "$(dirname "$0")"
export PYTHONPATH="${GBS_REPO:-/repo}/src:/verif/harness" PYTHONHASHSEED=0
mkdir -p build evidence replays
/venv/bin/python harness/translate.py "${GBS_REPO:-/repo}/src/gbigsmiles" coq/Src || true
cd coq
coq_makefile -f _CoqProject -o Makefile > /dev/null
# (a grep that filters every line exits 1: never let that decide the result of the build)
if ! timeout 3000 make -j"$(nproc)" > ../build/make.log 2>&1; then
  grep -v "^Closed under\|^COQC\|^COQDEP" ../build/make.log | tail -40 || true
  echo "setup: Coq build failed"
  exit 1
fi
cd ..
/venv/bin/python -c "import sys; sys.path.insert(0,'harness'); import framework; framework.build_driver(force=True); print('driver built')"
