(* Correspondence driver: runs the extracted Gallina model (build/model.ml) on cases read from
   stdin, one per line: <layer> TAB <hex field> TAB ...   and prints one canonical line per case.
   Trusted glue only: decoding, number conversion (zarith <-> inductive Z), float repr. *)
module ZZ = Z
module QQ = Q
open Model

let unhex (s : string) : string =
  let n = String.length s / 2 in
  String.init n (fun i -> Char.chr (int_of_string ("0x" ^ String.sub s (2 * i) 2)))
let explode s = List.init (String.length s) (String.get s)
let implode l = String.concat "" (List.map (String.make 1) l)

(* zarith <-> inductive numbers *)
let rec pos_of_zz (v : ZZ.t) : positive =
  if ZZ.equal v ZZ.one then XH
  else if ZZ.testbit v 0 then XI (pos_of_zz (ZZ.shift_right v 1)) else XO (pos_of_zz (ZZ.shift_right v 1))
let z_of_zz (v : ZZ.t) : z =
  if ZZ.sign v = 0 then Z0 else if ZZ.sign v > 0 then Zpos (pos_of_zz v) else Zneg (pos_of_zz (ZZ.neg v))
let rec zz_of_pos = function
  | XH -> ZZ.one
  | XO p -> ZZ.shift_left (zz_of_pos p) 1
  | XI p -> ZZ.succ (ZZ.shift_left (zz_of_pos p) 1)
let zz_of_z = function Z0 -> ZZ.zero | Zpos p -> zz_of_pos p | Zneg p -> ZZ.neg (zz_of_pos p)
let z_of_string s = z_of_zz (ZZ.of_string s)
let string_of_z v = ZZ.to_string (zz_of_z v)
let rec nat_of_int n = if n <= 0 then O else S (nat_of_int (n - 1))
let rec int_of_nat = function O -> 0 | S n -> 1 + int_of_nat n
(* "n/d" -> q *)
let q_of_string s =
  match String.index_opt s '/' with
  | None -> { qnum = z_of_string s; qden = XH }
  | Some i ->
    { qnum = z_of_string (String.sub s 0 i);
      qden = pos_of_zz (ZZ.of_string (String.sub s (i + 1) (String.length s - i - 1))) }
let string_of_q (x : q) =
  let g = QQ.make (zz_of_z x.qnum) (zz_of_pos x.qden) in QQ.to_string g
let num_of_string s =
  match s with "inf" -> PInf | "-inf" -> NInf | "nan" -> NaN | _ -> Fin (q_of_string s)
let string_of_num = function Fin x -> string_of_q x | PInf -> "inf" | NInf -> "-inf" | NaN -> "nan"

(* Python repr of the float nearest to a rational: the instantiation of the model's [fprint] oracle *)
let float_of_q (x : q) : float = QQ.to_float (QQ.make (zz_of_z x.qnum) (zz_of_pos x.qden))
let py_repr (f : float) : string =
  if Float.is_nan f then "nan" else if f = Float.infinity then "inf" else if f = Float.neg_infinity then "-inf"
  else if f = 0.0 then (if 1.0 /. f < 0.0 then "-0.0" else "0.0")
  else begin
    let rec shortest p = let s = Printf.sprintf "%.*e" (p - 1) f in
      if p >= 17 || float_of_string s = f then s else shortest (p + 1) in
    let s = shortest 1 in
    let neg = s.[0] = '-' in
    let s = if neg then String.sub s 1 (String.length s - 1) else s in
    let ei = String.index s 'e' in
    let mant = String.sub s 0 ei and ex = int_of_string (String.sub s (ei + 1) (String.length s - ei - 1)) in
    let digits = String.concat "" (String.split_on_char '.' mant) in
    (* strip trailing zeros, keep at least one digit *)
    let rec rstrip d = let n = String.length d in if n > 1 && d.[n - 1] = '0' then rstrip (String.sub d 0 (n - 1)) else d in
    let digits = rstrip digits in
    let nd = String.length digits in
    let body =
      if ex >= -4 && ex < 16 then begin
        if ex >= 0 then begin
          if nd <= ex + 1 then digits ^ String.make (ex + 1 - nd) '0' ^ ".0"
          else String.sub digits 0 (ex + 1) ^ "." ^ String.sub digits (ex + 1) (nd - ex - 1)
        end else "0." ^ String.make (- ex - 1) '0' ^ digits
      end else begin
        let m = if nd = 1 then digits else String.sub digits 0 1 ^ "." ^ String.sub digits 1 (nd - 1) in
        Printf.sprintf "%se%s%02d" m (if ex < 0 then "-" else "+") (abs ex)
      end in
    (if neg then "-" else "") ^ body
  end
let fprint (x : num) : str =
  explode (match x with Fin q -> py_repr (float_of_q q) | PInf -> "inf" | NInf -> "-inf" | NaN -> "nan")

let err_name = function
  | ERuntime -> "Runtime" | EValue -> "Value" | EIndex -> "Index" | EType -> "Type"
  | EZeroDiv -> "ZeroDivision" | EAttr -> "Attribute" | EOther -> "Other" | EFuel -> "OutOfFuel"
let order_name = function
  | OUnspec -> "UNSPECIFIED" | OSingle -> "SINGLE" | ODouble -> "DOUBLE" | OTriple -> "TRIPLE"
  | OQuad -> "QUADRUPLE" | OArom -> "ONEANDAHALF"
let opt f = function None -> "None" | Some x -> f x
let hex s = String.concat "" (List.map (fun c -> Printf.sprintf "%02x" (Char.code c)) (explode s))

let show_descr (d : descr) : string =
  String.concat "|"
    [ hex (implode d.d_sym); opt string_of_z d.d_id; string_of_num d.d_weight;
      opt (fun l -> String.concat "," (List.map string_of_num l)) d.d_trans;
      order_name d.d_order; hex (implode d.d_pre); opt string_of_z d.d_atom; string_of_z d.d_num;
      hex (implode (print_descr fprint true d)); hex (implode (print_descr fprint false d));
      (if generable_descr d then "T" else "F") ]


(* ---- tiny s-expression reader for structured inputs ---- *)
type sexp = A of string | L of sexp list

let fam_name = function FFlorySchulz -> "flory_schulz" | FGauss -> "gauss" | FUniform -> "uniform" | FSchulzZimm -> "schulz_zimm"
                      | FLogNormal -> "log_normal" | FPoisson -> "poisson"
let show_mol (m : pmolecule) : string =
  let el = function
    | MTok t -> "T:" ^ hex (implode (print_token fprint true t))
    | MStoch s -> Printf.sprintf "S:%s:%s:%s:%s:%d:%s" (hex (implode (print_descr fprint true s.ps_left))) (hex (implode (print_descr fprint true s.ps_right)))
                    (String.concat "+" (List.map (fun t -> hex (implode (print_token fprint true t))) s.ps_rep))
                    (String.concat "+" (List.map (fun t -> hex (implode (print_token fprint true t))) s.ps_end))
                    (List.length s.ps_bds) (match s.ps_dist with None -> "none" | Some (f, _) -> fam_name f) in
  let on = function None -> "-" | Some x -> string_of_num x in
  Printf.sprintf "elems=%s mix=%s gen=%s" (String.concat "," (List.map el m.ml_elems))
    (match m.ml_mix with None -> "none" | Some x -> on x.mx_abs ^ ";" ^ on x.mx_rel)
    (if molecule_generable m then "T" else "F")

let parse_sexp (s : string) : sexp =
  let n = String.length s in
  let pos = ref 0 in
  let rec skip () = if !pos < n && (s.[!pos] = ' ' || s.[!pos] = '\n') then (incr pos; skip ()) in
  let rec item () =
    skip ();
    if !pos >= n then failwith "sexp: eof"
    else if s.[!pos] = '(' then begin
      incr pos;
      let rec items acc = skip ();
        if !pos >= n then failwith "sexp: unclosed"
        else if s.[!pos] = ')' then (incr pos; List.rev acc) else items (item () :: acc) in
      L (items [])
    end else begin
      let st = !pos in
      while !pos < n && s.[!pos] <> ' ' && s.[!pos] <> '(' && s.[!pos] <> ')' do incr pos done;
      A (String.sub s st (!pos - st))
    end in
  item ()
let atom = function A s -> s | L _ -> failwith "sexp: atom expected"
let lst = function L l -> l | A _ -> failwith "sexp: list expected"
let q_of_num_string s = q_of_string s
let order_of_name = function
  | "UNSPECIFIED" -> OUnspec | "SINGLE" -> OSingle | "DOUBLE" -> ODouble | "TRIPLE" -> OTriple
  | "QUADRUPLE" -> OQuad | "ONEANDAHALF" -> OArom | s -> failwith ("order " ^ s)
(* (d sym id weight trans order atom num)  sym: E for "", id/atom/trans: N for None *)
let descr_of_sexp (x : sexp) : descr =
  match lst x with
  | [ A "d"; A sym; A id; A w; tr; A ord; A at; A num ] ->
    { d_sym = (if sym = "E" then [] else explode sym);
      d_id = (if id = "N" then None else Some (z_of_string id));
      d_weight = num_of_string w;
      d_trans = (match tr with A "N" -> None | L l -> Some (List.map (fun a -> num_of_string (atom a)) l) | _ -> failwith "trans");
      d_order = order_of_name ord; d_pre = [];
      d_atom = (if at = "N" then None else Some (z_of_string at)); d_num = z_of_string num }
  | _ -> failwith "descr sexp"
let gtoken_of_sexp (x : sexp) : gtoken =
  match lst x with
  | A "tok" :: A natoms :: A mass :: A ok :: bds ->
    { t_natoms = z_of_string natoms; t_mass = q_of_string mass; t_bds = List.map descr_of_sexp bds; t_ok = (ok = "T") }
  | _ -> failwith "token sexp"
let gelem_of_sexp (x : sexp) : gelem =
  match lst x with
  | A "tok" :: _ -> ETok (gtoken_of_sexp x)
  | [ A "st"; left; right; A gen; L (A "rep" :: reps); L (A "end" :: ends) ] ->
    EStoch { s_left = descr_of_sexp left; s_right = descr_of_sexp right; s_rep = List.map gtoken_of_sexp reps;
             s_end = List.map gtoken_of_sexp ends; s_generable = (gen = "T") }
  | _ -> failwith "element sexp"

let jlist f l = "[" ^ String.concat "," (List.map f l) ^ "]"
let jstr s = "\"" ^ s ^ "\""
let jq x = jstr (string_of_q x)
let kind_name = function KTok -> "tok" | KRep -> "rep" | KEnd -> "end"
let jref (r : rref) = Printf.sprintf "[%d,\"%s\",%d]" (int_of_nat r.r_elem) (kind_name r.r_kind) (int_of_nat r.r_idx)
let jobd (o : obd) =
  Printf.sprintf "{\"node\":%d,\"k\":%d,\"atom\":%s,\"sym\":%s,\"id\":%s,\"order\":%s,\"w\":%s}" (int_of_nat o.o_node) (int_of_nat o.o_k)
    (opt string_of_z o.o_d.d_atom |> fun s -> if s = "None" then "null" else s) (jstr (implode o.o_d.d_sym))
    (match o.o_d.d_id with None -> "null" | Some z -> string_of_z z) (jstr (order_name o.o_d.d_order)) (jstr (string_of_num o.o_d.d_weight))
let jmol (g : molgen) =
  Printf.sprintf "{\"res\":%s,\"natoms\":%s,\"log\":%s,\"open\":%s,\"mass\":%s}" (jlist (fun r -> jref (fst r)) g.m_res) (string_of_z g.m_natoms)
    (jlist (fun r -> Printf.sprintf "{\"self\":%s,\"other\":%s,\"ref\":%s}" (jobd r.a_self) (jobd r.a_other) (jref r.a_ref)) g.m_log)
    (jlist jobd g.m_open) (jq g.m_mass)
let jevent = function
  | EvChoice (c, p, k) -> Printf.sprintf "[\"c\",%s,%s,%d]" (jlist (fun n -> string_of_int (int_of_nat n)) c) (jlist jq p) (int_of_nat k)
  | EvDraw t -> Printf.sprintf "[\"d\",%s]" (jq t)
let jinfo (i : sinfo) =
  Printf.sprintf "{\"T\":%s,\"start\":%s,\"units\":%s,\"exhausted\":%b}" (jq i.si_target) (jq i.si_start) (jlist jq i.si_units) i.si_exhausted
let split_nonempty c s = List.filter (fun x -> x <> "") (String.split_on_char c s)

let handle (fields : string list) : string =
  match fields with
  | [ "descr"; raw; num; pre; atom ] ->
    let atom = if atom = "None" then None else Some (z_of_string atom) in
    (match parse_descr (explode (unhex raw)) (z_of_string num) (explode (unhex pre)) atom with
     | OK d -> "OK " ^ show_descr d
     | Err (e, _) -> "ERR " ^ err_name e)
  | [ "compat"; raw1; pre1; raw2; pre2 ] ->
    (match parse_descr (explode (unhex raw1)) Z0 (explode (unhex pre1)) (Some Z0),
           parse_descr (explode (unhex raw2)) Z0 (explode (unhex pre2)) (Some Z0) with
     | OK a, OK b -> if compatible a b then "T" else "F"
     | _, _ -> "ERR")
  | [ "gen"; elems; pk; tg ] ->
    let els = List.map gelem_of_sexp (lst (parse_sexp elems)) in
    let pk = List.map (fun x -> nat_of_int (int_of_string x)) (split_nonempty ',' pk) in
    let tg = List.map q_of_string (split_nonempty ',' tg) in
    (match run_gen els pk tg with
     | Done ((g, infos), st) ->
       Printf.sprintf "{\"r\":\"done\",\"mol\":%s,\"infos\":%s,\"trace\":%s,\"picks_left\":%d,\"targets_left\":%d}"
         (match g with None -> "null" | Some g -> jmol g) (jlist jinfo infos) (jlist jevent (List.rev st.trace))
         (List.length st.picks) (List.length st.targets)
     | GErr (e, m) -> Printf.sprintf "{\"r\":\"err\",\"class\":\"%s\",\"msg\":\"%s\"}" (err_name e) (implode m)
     | NeedPicks k -> Printf.sprintf "{\"r\":\"needpicks\",\"k\":%d}" (int_of_nat k)
     | NeedTarget -> "{\"r\":\"needtarget\"}"
     | BadPick -> "{\"r\":\"badpick\"}"
     | OutOfFuel -> "{\"r\":\"outoffuel\"}")
  | [ "sys"; comps; smw ] ->
    let comp_of s = match s with
      | "n" -> None
      | _ -> let v = q_of_string (String.sub s 2 (String.length s - 2)) in
        if s.[0] = 'a' then Some { x_abs = Some v; x_rel = None; x_sys = None }
        else if s.[0] = 'r' then Some { x_abs = None; x_rel = Some v; x_sys = None }
        else Some { x_abs = None; x_rel = None; x_sys = None } in
    let cs = List.map comp_of (split_nonempty ',' comps) in
    let oq = function None -> "-" | Some v -> string_of_q v in
    let show = function None -> "none" | Some m -> oq m.x_abs ^ ";" ^ oq m.x_rel ^ ";" ^ oq m.x_sys in
    (match estimate cs (if smw = "N" then None else Some (q_of_string smw)) with
     | OK (g, out) -> "OK " ^ (if g then "T" else "F") ^ " " ^ String.concat "," (List.map show out)
     | Err (e, _) -> "ERR " ^ err_name e)
  | [ "sysloop"; sm; stream ] ->
    let mem s = match String.split_on_char ':' s with
      | [c; m; f] -> { mb_comp = nat_of_int (int_of_string c); mb_mass = q_of_string m; mb_full = (f = "T") }
      | _ -> failwith "member" in
    let r = sys_loop (q_of_string sm) { qnum = Z0; qden = XH } (List.map mem (split_nonempty ',' stream)) in
    Printf.sprintf "%d %s" (List.length (yielded r)) (match ending r with LStop -> "stop" | LNeed -> "need" | LErr -> "err" | LYield _ -> "?")
  | [ "complaw"; rel ] -> String.concat "," (List.map string_of_q (comp_law (List.map q_of_string (split_nonempty ',' rel))))
  | [ "share"; p; m ] -> String.concat "," (List.map string_of_q (share (List.map q_of_string (split_nonempty ',' p)) (List.map q_of_string (split_nonempty ',' m))))
  | [ "ffsel"; rules; ms; natoms ] ->
    (* rules: id:len:type;...   ms: ruleid:atom,atom;...   *)
    let rl = List.map (fun x -> match String.split_on_char ':' x with
        | [i; l; t] -> { r_id = nat_of_int (int_of_string i); r_len = nat_of_int (int_of_string l); r_type = nat_of_int (int_of_string t) }
        | _ -> failwith "rule") (split_nonempty ';' rules) in
    let tbl = Hashtbl.create 64 in
    List.iter (fun x -> match String.split_on_char ':' x with
        | [i; atoms] -> Hashtbl.replace tbl (int_of_string i) (List.map (fun a -> nat_of_int (int_of_string a)) (split_nonempty ',' atoms))
        | _ -> failwith "matches") (split_nonempty ';' ms);
    let matches r = try Hashtbl.find tbl (int_of_nat r.r_id) with Not_found -> [] in
    (match assign rl matches (nat_of_int (int_of_string natoms)) with
     | FOk l -> "OK " ^ String.concat "," (List.map (fun r -> string_of_int (int_of_nat r.r_id)) l)
     | FPartial d -> "PARTIAL " ^ String.concat "," (List.map (function None -> "-" | Some r -> string_of_int (int_of_nat r.r_id)) d))
  | [ "plumb"; fam; args ] ->
    let f = (match fam with "flory_schulz" -> FFlorySchulz | "gauss" -> FGauss | "uniform" -> FUniform | "schulz_zimm" -> FSchulzZimm
                          | "log_normal" -> FLogNormal | "poisson" -> FPoisson | _ -> failwith "family") in
    (match plumb f (List.map q_of_string (split_nonempty ',' args)) with
     | LNorm (a, b) -> "norm " ^ string_of_q a ^ " " ^ string_of_q b
     | LUnif (a, b) -> "uniform " ^ string_of_q a ^ " " ^ string_of_q b
     | LPoisson a -> "poisson " ^ string_of_q a
     | LFlorySchulz a -> "flory_schulz " ^ string_of_q a
     | LSchulzZimm (a, b) -> "schulz_zimm " ^ string_of_q a ^ " " ^ string_of_q b
     | LLogNormal (a, b) -> "log_normal " ^ string_of_q a ^ " " ^ string_of_q b
     | LBad -> "bad")
  | [ "stopidx"; ms; t ] ->
    (match stop_index (List.map q_of_string (split_nonempty ',' ms)) (q_of_string t) with None -> "none" | Some n -> string_of_int (int_of_nat n))
  | [ "fs"; a; k ] ->
    let n = nat_of_int (int_of_string k) in
    string_of_q (fs_pmf (q_of_string a) n) ^ " " ^ string_of_q (fs_cdf (q_of_string a) n)
  | [ "rgraph"; elems ] ->
    let els = List.map gelem_of_sexp (lst (parse_sexp elems)) in
    let kn = function KProb -> "prob" | KTermP -> "term_prob" | KTransP -> "trans_prob" in
    String.concat ";" (List.map (fun e -> Printf.sprintf "%d.%d>%d.%d:%s:%s" (int_of_nat (fst e.e_src)) (int_of_nat (snd e.e_src))
                                     (int_of_nat (fst e.e_dst)) (int_of_nat (snd e.e_dst)) (kn e.e_kind) (string_of_q e.e_p)) (reaction_graph els))
  | [ "agraph"; elems ] ->
    let atok_of x = (match lst x with
        | [ A "atok"; t; L (A "bonds" :: bs) ] ->
          { k_tok = gtoken_of_sexp t;
            k_bonds = List.map (fun b -> match lst b with [A a; A c; A ty] -> ((z_of_string a, z_of_string c), z_of_string ty) | _ -> failwith "bond") bs }
        | _ -> failwith "atok sexp") in
    let aelem_of x = (match lst x with
        | A "atok" :: _ -> ATok (atok_of x)
        | [ A "ast"; l; r; L (A "rep" :: reps); L (A "end" :: ends) ] -> AStoch (descr_of_sexp l, descr_of_sexp r, List.map atok_of reps, List.map atok_of ends)
        | _ -> failwith "aelem sexp") in
    let (n, es) = atom_graph (List.map aelem_of (lst (parse_sexp elems))) in
    let kn = function WStatic -> "static" | WStoch -> "stochastic" | WTerm -> "termination" | WTrans -> "transition" in
    string_of_z n ^ " " ^ String.concat ";" (List.map (fun e -> Printf.sprintf "%s>%s:%s:%s:%s" (string_of_z e.a_u) (string_of_z e.a_v) (string_of_z e.a_bt) (kn e.a_kind) (string_of_q e.a_w)) es)
  | [ "agen"; nodes; statics; start; pk; tg ] ->
    (* nodes: ';'-separated  mass|mw|mn|T|E|S|adj ; edge lists: ','-separated v:bt:w ; adj: ','-separated ints *)
    let ni x = nat_of_int (int_of_string x) in
    let edges_of x = List.map (fun e -> match String.split_on_char ':' e with
        | [v; bt; w] -> { se_v = ni v; se_bt = z_of_string bt; se_w = q_of_string w } | _ -> failwith "sedge") (split_nonempty ',' x) in
    let node_of x = (match String.split_on_char '|' x with
        | [m; mw; mn; t; e; sc; adj] ->
          { sn_mass = q_of_string m; sn_key = (q_of_string mw, q_of_string mn); sn_T = edges_of t; sn_E = edges_of e; sn_S = edges_of sc;
            sn_adj = List.map ni (split_nonempty ',' adj) }
        | _ -> failwith "snode") in
    let g = { sg_nodes = List.map node_of (split_nonempty ';' nodes);
              sg_static = List.map (fun e -> match String.split_on_char ':' e with
                  | [u; v; bt] -> ((ni u, ni v), z_of_string bt) | _ -> failwith "static") (split_nonempty ',' statics) } in
    let pk = List.map ni (split_nonempty ',' pk) in
    let tg = List.map q_of_string (split_nonempty ',' tg) in
    (match run_agen g (ni start) pk tg with
     | Done (st, rs) ->
       Printf.sprintf "done nodes=%s edges=%s mw=%s trace=%s picks_left=%d targets_left=%d"
         (String.concat "," (List.map (fun n -> Printf.sprintf "%d@%d" (int_of_nat n.g_sn) (int_of_nat n.g_inst)) st.a_nodes))
         (String.concat ";" (List.map (fun e -> Printf.sprintf "%d-%d-%s-%s" (int_of_nat e.ge_a) (int_of_nat e.ge_b) (string_of_z e.ge_bt) (if e.ge_link then "L" else "S")) st.a_edges))
         (String.concat "," (List.map string_of_q (List.rev st.a_mw)))
         (String.concat "," (List.rev_map (function EvChoice (c, _, k) -> Printf.sprintf "c%d:%d" (List.length c) (int_of_nat k) | EvDraw _ -> "d") rs.trace))
         (List.length rs.picks) (List.length rs.targets)
     | GErr (e, m) -> "err " ^ err_name e ^ " " ^ implode m
     | NeedPicks k -> Printf.sprintf "needpicks %d" (int_of_nat k)
     | NeedTarget -> "needtarget"
     | BadPick -> "badpick"
     | OutOfFuel -> "outoffuel")
  | [ "stoch"; raw; valid ] ->
    let vs = List.map unhex (split_nonempty ',' valid) in
    let valid_atom (t : str) = List.mem (implode t) vs in
    (match parse_stoch valid_atom (explode (unhex raw)) with
     | Err (e, _) -> "ERR " ^ err_name e
     | OK s ->
       let fam = function FFlorySchulz -> "flory_schulz" | FGauss -> "gauss" | FUniform -> "uniform" | FSchulzZimm -> "schulz_zimm"
                        | FLogNormal -> "log_normal" | FPoisson -> "poisson" in
       let toks l = String.concat "," (List.map (fun t -> hex (implode (print_token fprint true t))) l) in
       Printf.sprintf "OK left=%s right=%s rep=%s end=%s nbds=%d bds=%s dist=%s gen=%s"
         (hex (implode (print_descr fprint true s.ps_left))) (hex (implode (print_descr fprint true s.ps_right)))
         (toks s.ps_rep) (toks s.ps_end) (List.length s.ps_bds) (String.concat ";" (List.map show_descr s.ps_bds))
         (match s.ps_dist with None -> "none" | Some (f, t) -> fam f ^ ":" ^ hex (implode t))
         (if stoch_generable s then "T" else "F"))
  | [ "mol"; raw; valid ] ->
    let vs = List.map unhex (split_nonempty ',' valid) in
    let valid_atom (t : str) = List.mem (implode t) vs in
    (match parse_molecule valid_atom fprint (explode (unhex raw)) with
     | Err (e, _) -> "ERR " ^ err_name e
     | OK m -> "OK " ^ show_mol m)
  | [ "system"; raw; valid; smw ] ->
    let vs = List.map unhex (split_nonempty ',' valid) in
    let valid_atom (t : str) = List.mem (implode t) vs in
    (match parse_system valid_atom fprint (explode (unhex raw)) (if smw = "N" then None else Some (q_of_string smw)) with
     | Err (e, _) -> "ERR " ^ err_name e
     | OK s ->
       let oq = function None -> "-" | Some v -> string_of_q v in
       let showc = function None -> "none" | Some m -> oq m.x_abs ^ ";" ^ oq m.x_rel ^ ";" ^ oq m.x_sys in
       Printf.sprintf "OK gen=%s comps=%s mols=%s" (if s.sy_generable then "T" else "F") (String.concat "," (List.map showc s.sy_comps))
         (String.concat "/" (List.map (fun m -> hex (show_mol m)) s.sy_mols)))
  | [ "kdescr"; raw; pre ] -> hex (implode (check_descr (explode (unhex raw)) (explode (unhex pre))))
  | [ "ktoken"; raw; valid ] -> hex (implode (check_token (List.map (fun v -> explode (unhex v)) (split_nonempty ',' valid)) (explode (unhex raw))))
  | [ "kmol"; raw; valid ] -> hex (implode (check_mol (List.map (fun v -> explode (unhex v)) (split_nonempty ',' valid)) (explode (unhex raw))))
  | [ "token"; raw; off; valid ] ->
    (* valid: comma separated hex of the bracket atoms RDKit accepts *)
    let vs = List.map unhex (split_nonempty ',' valid) in
    let valid_atom (t : str) = List.mem (implode t) vs in
    (match parse_token valid_atom (explode (unhex raw)) (z_of_string off) with
     | Err (e, _) -> "ERR " ^ err_name e
     | OK t ->
       let el = function TAtom a -> "a:" ^ hex (implode a) | TStr s -> "s:" ^ hex (implode s) | TBond d -> "b:" ^ hex (implode (print_descr fprint true d)) in
       let frag = (match fragment_string t with OK s -> "OK:" ^ hex (implode s) | Err (e, _) -> "ERR:" ^ err_name e) in
       "OK " ^ String.concat "," (List.map el t.k_elements) ^ " " ^ string_of_int (List.length t.k_atoms) ^ " "
       ^ String.concat ";" (List.map show_descr t.k_bds) ^ " " ^ hex (implode (print_token fprint true t)) ^ " " ^ hex (implode (print_token fprint false t))
       ^ " " ^ frag ^ " " ^ (if token_generable t then "T" else "F"))
  | [ "erase"; s ] -> hex (implode (erase_ext (explode (unhex s))))
  | [ "syssplit"; s ] ->
    (match system_pieces (explode (unhex s)) with
     | OK (ps, rest) -> "OK " ^ String.concat "," (List.map (fun p -> hex (implode p)) ps) ^ " " ^ hex (implode rest)
     | Err (e, _) -> "ERR " ^ err_name e)
  | [ "float"; s ] ->
    (match py_float (explode (unhex s)) with None -> "ERR" | Some x -> string_of_num x ^ " " ^ implode (fprint x))
  | [ "repr"; s ] -> py_repr (float_of_string s)
  | l -> "BADCASE " ^ String.concat "," l

let () =
  try
    while true do
      let line = input_line stdin in
      let r = try handle (String.split_on_char '\t' line) with
        | Stack_overflow -> "EXC stack_overflow"
        | e -> "EXC " ^ Printexc.to_string e in
      print_string r; print_newline ()
    done
  with End_of_file -> ()
