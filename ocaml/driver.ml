(* Correspondence driver: runs the extracted Gallina model (build/model.ml) on cases read from
   stdin, one per line: <layer> TAB <hex field> TAB ...   and prints one canonical line per case.
   Trusted glue only: decoding, number conversion (zarith <-> inductive Z), float repr. *)
module ZZ = Z
module QQ = Q
open Model

let unhex (s : string) : string =
  let n = String.length s / 2 in
  String.init n (fun i -> Char.chr (int_of_string ("0x" ^ String.sub s (2 * i) 2)))
let explode s = List.init (String.length s) (String.get s)
let implode l = String.concat "" (List.map (String.make 1) l)

(* zarith <-> inductive numbers *)
let rec pos_of_zz (v : ZZ.t) : positive =
  if ZZ.equal v ZZ.one then XH
  else if ZZ.testbit v 0 then XI (pos_of_zz (ZZ.shift_right v 1)) else XO (pos_of_zz (ZZ.shift_right v 1))
let z_of_zz (v : ZZ.t) : z =
  if ZZ.sign v = 0 then Z0 else if ZZ.sign v > 0 then Zpos (pos_of_zz v) else Zneg (pos_of_zz (ZZ.neg v))
let rec zz_of_pos = function
  | XH -> ZZ.one
  | XO p -> ZZ.shift_left (zz_of_pos p) 1
  | XI p -> ZZ.succ (ZZ.shift_left (zz_of_pos p) 1)
let zz_of_z = function Z0 -> ZZ.zero | Zpos p -> zz_of_pos p | Zneg p -> ZZ.neg (zz_of_pos p)
let z_of_string s = z_of_zz (ZZ.of_string s)
let string_of_z v = ZZ.to_string (zz_of_z v)
let rec nat_of_int n = if n <= 0 then O else S (nat_of_int (n - 1))
let rec int_of_nat = function O -> 0 | S n -> 1 + int_of_nat n
(* "n/d" -> q *)
let q_of_string s =
  match String.index_opt s '/' with
  | None -> { qnum = z_of_string s; qden = XH }
  | Some i ->
    { qnum = z_of_string (String.sub s 0 i);
      qden = pos_of_zz (ZZ.of_string (String.sub s (i + 1) (String.length s - i - 1))) }
let string_of_q (x : q) =
  let g = QQ.make (zz_of_z x.qnum) (zz_of_pos x.qden) in QQ.to_string g
let num_of_string s =
  match s with "inf" -> PInf | "-inf" -> NInf | "nan" -> NaN | _ -> Fin (q_of_string s)
let string_of_num = function Fin x -> string_of_q x | PInf -> "inf" | NInf -> "-inf" | NaN -> "nan"

(* Python repr of the float nearest to a rational: the instantiation of the model's [fprint] oracle *)
let float_of_q (x : q) : float = QQ.to_float (QQ.make (zz_of_z x.qnum) (zz_of_pos x.qden))
let py_repr (f : float) : string =
  if Float.is_nan f then "nan" else if f = Float.infinity then "inf" else if f = Float.neg_infinity then "-inf"
  else if f = 0.0 then (if 1.0 /. f < 0.0 then "-0.0" else "0.0")
  else begin
    let rec shortest p = let s = Printf.sprintf "%.*e" (p - 1) f in
      if p >= 17 || float_of_string s = f then s else shortest (p + 1) in
    let s = shortest 1 in
    let neg = s.[0] = '-' in
    let s = if neg then String.sub s 1 (String.length s - 1) else s in
    let ei = String.index s 'e' in
    let mant = String.sub s 0 ei and ex = int_of_string (String.sub s (ei + 1) (String.length s - ei - 1)) in
    let digits = String.concat "" (String.split_on_char '.' mant) in
    (* strip trailing zeros, keep at least one digit *)
    let rec rstrip d = let n = String.length d in if n > 1 && d.[n - 1] = '0' then rstrip (String.sub d 0 (n - 1)) else d in
    let digits = rstrip digits in
    let nd = String.length digits in
    let body =
      if ex >= -4 && ex < 16 then begin
        if ex >= 0 then begin
          if nd <= ex + 1 then digits ^ String.make (ex + 1 - nd) '0' ^ ".0"
          else String.sub digits 0 (ex + 1) ^ "." ^ String.sub digits (ex + 1) (nd - ex - 1)
        end else "0." ^ String.make (- ex - 1) '0' ^ digits
      end else begin
        let m = if nd = 1 then digits else String.sub digits 0 1 ^ "." ^ String.sub digits 1 (nd - 1) in
        Printf.sprintf "%se%s%02d" m (if ex < 0 then "-" else "+") (abs ex)
      end in
    (if neg then "-" else "") ^ body
  end
let fprint (x : num) : str =
  explode (match x with Fin q -> py_repr (float_of_q q) | PInf -> "inf" | NInf -> "-inf" | NaN -> "nan")

let err_name = function
  | ERuntime -> "Runtime" | EValue -> "Value" | EIndex -> "Index" | EType -> "Type"
  | EZeroDiv -> "ZeroDivision" | EAttr -> "Attribute" | EOther -> "Other" | EFuel -> "OutOfFuel"
let order_name = function
  | OUnspec -> "UNSPECIFIED" | OSingle -> "SINGLE" | ODouble -> "DOUBLE" | OTriple -> "TRIPLE"
  | OQuad -> "QUADRUPLE" | OArom -> "ONEANDAHALF"
let opt f = function None -> "None" | Some x -> f x
let hex s = String.concat "" (List.map (fun c -> Printf.sprintf "%02x" (Char.code c)) (explode s))

let show_descr (d : descr) : string =
  String.concat "|"
    [ hex (implode d.d_sym); opt string_of_z d.d_id; string_of_num d.d_weight;
      opt (fun l -> String.concat "," (List.map string_of_num l)) d.d_trans;
      order_name d.d_order; hex (implode d.d_pre); opt string_of_z d.d_atom; string_of_z d.d_num;
      hex (implode (print_descr fprint true d)); hex (implode (print_descr fprint false d));
      (if generable_descr d then "T" else "F") ]

let handle (fields : string list) : string =
  match fields with
  | [ "descr"; raw; num; pre; atom ] ->
    let atom = if atom = "None" then None else Some (z_of_string atom) in
    (match parse_descr (explode (unhex raw)) (z_of_string num) (explode (unhex pre)) atom with
     | OK d -> "OK " ^ show_descr d
     | Err (e, _) -> "ERR " ^ err_name e)
  | [ "compat"; raw1; pre1; raw2; pre2 ] ->
    (match parse_descr (explode (unhex raw1)) Z0 (explode (unhex pre1)) (Some Z0),
           parse_descr (explode (unhex raw2)) Z0 (explode (unhex pre2)) (Some Z0) with
     | OK a, OK b -> if compatible a b then "T" else "F"
     | _, _ -> "ERR")
  | [ "float"; s ] ->
    (match py_float (explode (unhex s)) with None -> "ERR" | Some x -> string_of_num x ^ " " ^ implode (fprint x))
  | [ "repr"; s ] -> py_repr (float_of_string s)
  | l -> "BADCASE " ^ String.concat "," l

let () =
  try
    while true do
      let line = input_line stdin in
      let r = try handle (String.split_on_char '\t' line) with
        | Stack_overflow -> "EXC stack_overflow"
        | e -> "EXC " ^ Printexc.to_string e in
      print_string r; print_newline ()
    done
  with End_of_file -> ()
