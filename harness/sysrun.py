"""Ensemble generation runs for C13 / C14: System.generator under the recording generator, component picks and
molecule boundaries observed through harness-side wrappers (no source hooks)."""
import random
from fractions import Fraction as Fr

import framework as fw
import genlayer as gl
from rng import RecRNG

MARK = ["F", "Cl", "Br", "I"]
SMALL = ["CCCCC{m}", "CCO{m}", "c1ccccc1{m}", "CC(C){m}"]
POLY = ["[H]{{[>][<]CC([>])c1ccccc1[<]}}|gauss({M}, {s})|{m}", "C{{[$][$]CC[$],[$]C(C)C[$][$]}}|uniform({lo}, {hi})|{m}",
        "{{[][<]OCC[>]; [<][H], [>]{m} []}}|gauss({M}, {s})|", "N{{[<][>]CC(C)[<][>]}}|poisson({M})|{m}"]
OPEN = "CC{{[$][$]CC({m})[$][$]}}|uniform(30, 60)|"     # never fully generated: no suffix for the open descriptor


def component(rnd, i, allow_open=False, scale=1.0):
    m = MARK[i]
    if allow_open and rnd.random() < 0.25:
        return OPEN.format(m=m), "open"
    if rnd.random() < 0.45:
        return rnd.choice(SMALL).format(m=m), "small"
    M = int(rnd.choice([80, 150, 300, 600]) * scale)
    return rnd.choice(POLY).format(M=M, s=max(1, M // 6), lo=M // 2, hi=M, m=m), "poly"


def make_system(rnd, allow_open=False, n=None, equal_small=False):
    n = n or rnd.choice([1, 2, 2, 3, 3, 4])
    comps = [component(rnd, i, allow_open) for i in range(n)]
    # a determined specification the pinned inference handles: percentages + one absolute, or all absolute
    cuts = sorted(rnd.sample(range(1, 16), n - 1)) if n > 1 else []
    pct = [Fr((b - a) * 100, 16) for a, b in zip([0] + cuts, cuts + [16])]
    S = rnd.choice([400, 900, 2500, 6000])
    mode = rnd.choice(["pct+abs", "all_abs", "pct+caller"])
    text = ""
    smw = None
    for i, ((c, kind), p) in enumerate(zip(comps, pct)):
        if mode == "all_abs" or (mode == "pct+abs" and i == n - 1):
            text += c + f".|{float(p * S / 100)}|"
        else:
            text += c + f".|{float(p)}%|"
    if mode == "pct+caller":
        smw = float(S)
    return text, smw, [k for _, k in comps], [float(p) for p in pct], float(S)


class SysRun:
    def __init__(self, text, smw, seed, max_yield=4000):
        import gbigsmiles

        self.text, self.smw, self.seed = text, smw, seed
        self.system = gbigsmiles.System(text, system_molweight=smw)
        self.rng = RecRNG(seed)
        self.calls = []      # (component index, index into rng.log of the pick that chose it)
        for ci, mol in enumerate(self.system._molecules):
            orig = mol.generate

            def wrap(prefix=None, rng=None, orig=orig, ci=ci):
                self.calls.append((ci, len(self.rng.log) - 1))
                return orig(prefix=prefix, rng=rng) if prefix is not None else orig(rng=rng)

            mol.generate = wrap
        self.yields = []
        self.error = None
        self.S = None
        try:
            with fw.time_limit(120):
                self.S = float(self.system.system_mass)
                gen = type(self.system).generator.fget(self.system, rng=self.rng)
                for mg in gen:
                    self.yields.append((float(mg.weight), bool(mg.fully_generated), mg.smiles))
                    if len(self.yields) > max_yield:
                        raise RuntimeError("harness: too many molecules")
        except Exception as e:  # noqa
            self.error = e

    def component_picks(self):
        out = []
        for ci, li in self.calls:
            cands, p, k = self.rng.log[li]
            out.append((ci, cands, p, k))
        return out


def marker_of(smiles):
    found = [m for m in MARK if m in smiles.replace("Cl", "Cl") and _has(smiles, m)]
    return found


def _has(smiles, m):
    if m == "F":
        return "F" in smiles
    if m == "I":
        return "I" in smiles
    return m in smiles
