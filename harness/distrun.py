"""Scripted-quantile generator and parameter grids for the distribution checks (C09, C11)."""
import numpy as np


class URNG(np.random.Generator):
    """every uniform / standard_normal / poisson request is answered from ONE scripted quantile u"""

    def __new__(cls, u):
        return super().__new__(cls, np.random.PCG64(0))

    def __init__(self, u):
        super().__init__(np.random.PCG64(0))
        self.u = u
        self.calls = []

    def _ret(self, v, size):
        return np.full(size, v) if size is not None else v

    def uniform(self, low=0.0, high=1.0, size=None):
        self.calls.append("uniform")
        return self._ret(low + (high - low) * self.u, size)

    def random(self, size=None, *a, **k):
        self.calls.append("random")
        return self._ret(self.u, size)

    def standard_normal(self, size=None, *a, **k):
        from scipy.stats import norm

        self.calls.append("standard_normal")
        return self._ret(norm.ppf(self.u), size)

    def poisson(self, lam=1.0, size=None):
        from scipy.stats import poisson

        self.calls.append("poisson")
        return self._ret(poisson.ppf(self.u, lam), size)


def grid(rnd, thorough=False):
    """(family, args, region) over small / large means, narrow / broad"""
    g = []
    for mean in ([60, 300, 2000] if not thorough else [40, 60, 150, 300, 900, 2000, 8000]):
        g += [("gauss", (mean, max(1, mean * 0.05)), "narrow"), ("gauss", (mean, mean * 0.4), "broad"),
              ("uniform", (int(mean * 0.5), int(mean * 1.5)), "broad"), ("uniform", (mean, mean + 10), "narrow"),
              ("schulz_zimm", (mean * 1.05, mean), "narrow"), ("schulz_zimm", (mean * 1.5, mean), "broad"), ("schulz_zimm", (mean * 3.0, mean), "z<1"),
              ("log_normal", (mean, 1.05), "narrow"), ("log_normal", (mean, 1.6), "broad"),
              ("poisson", (mean,), "mean")]
    # very narrow Gaussians (sigma far below a thousandth of the mean): still a law with two possible block sizes around a unit boundary
    g += [("gauss", (288.3, 0.25), "very_narrow"), ("gauss", (961.0, 0.6), "very_narrow"), ("gauss", (50000, 10), "very_narrow")]
    # laws with real probability mass below 1 (a support silently cut at 1 shows here and nowhere else)
    g += [("log_normal", (3, 2.0), "mass_below_1"), ("log_normal", (1.5, 1.3), "mass_below_1"), ("gauss", (2, 1.5), "mass_below_1"), ("uniform", (0, 3), "mass_below_1"),
          ("poisson", (0.5,), "mass_below_1"), ("poisson", (2,), "mass_below_1"), ("poisson", (7,), "mass_below_1"), ("flory_schulz", (0.6,), "mass_below_1")]
    # special shape values: Schulz-Zimm with dispersity exactly 2 (z = 1: the factor M**(z-1) is M**0 at M = 0), z = 2, and just beside them
    g += [("schulz_zimm", (2000, 1000), "z=1"), ("schulz_zimm", (600, 300), "z=1"), ("schulz_zimm", (2000.2, 1000.1), "z=1"), ("schulz_zimm", (2000, 1000.5), "z~1"),
          ("schulz_zimm", (1500, 1000), "z=2")]
    for a in ([0.5, 0.2, 0.1, 0.04] if not thorough else [0.9, 0.5, 0.35, 0.2, 0.1, 0.07, 0.04, 0.01]):
        g.append(("flory_schulz", (a,), "a<=0.05" if a <= 0.05 else "a"))
    for _ in range(4 if not thorough else 40):
        m = rnd.choice([50, 120, 700, 3000])
        g.append(("gauss", (m + rnd.random(), m * rnd.choice([0.1, 0.3])), "random"))
        g.append(("schulz_zimm", (m * (1 + rnd.choice([0.1, 0.4, 0.9])), m), "random"))
    return g


def text(fam, args):
    return f"|{fam}({', '.join(repr(float(a)) if not float(a).is_integer() else str(int(a)) for a in args)})|"
