"""Observation of the implementation and of the extracted model, layer by layer, in comparable form."""
import math
import os
from fractions import Fraction as Fr

import framework as fw


def _order_name(bt):
    from rdkit.Chem import rdchem

    return str(rdchem.BondType.values[int(bt)]).split(".")[-1]


def num_of_text(t):
    if t == "inf":
        return math.inf
    if t == "-inf":
        return -math.inf
    if t == "nan":
        return math.nan
    return Fr(t)


def num_close(model_text, impl_float, exact=True, rel=1e-9):
    """model number (exact rational text) against the implementation's binary64"""
    m = num_of_text(model_text)
    if isinstance(m, float):
        if math.isnan(m):
            return isinstance(impl_float, float) and math.isnan(impl_float)
        return m == impl_float
    try:
        mf = float(m)
    except OverflowError:
        return math.isinf(impl_float)
    if exact:
        return mf == float(impl_float)
    if mf == float(impl_float):
        return True
    return abs(mf - float(impl_float)) <= rel * max(abs(mf), abs(float(impl_float)))


# ------------------------------------------------------------------------------------------
# descriptor layer
def descr_line(raw, num, pre, atom):
    return "\t".join(["descr", fw.hx(raw), str(num), fw.hx(pre), "None" if atom is None else str(atom)])


def parse_model_descr(line):
    """driver output -> dict or ('ERR', class)"""
    if line.startswith("ERR "):
        return ("ERR", line[4:])
    if not line.startswith("OK "):
        return ("BAD", line)
    f = line[3:].split("|")
    return {
        "sym": fw.unhx(f[0]),
        "id": None if f[1] == "None" else int(f[1]),
        "weight": f[2],
        "trans": None if f[3] == "None" else ([] if f[3] == "" else f[3].split(",")),
        "order": f[4],
        "pre": fw.unhx(f[5]),
        "atom": None if f[6] == "None" else int(f[6]),
        "num": int(f[7]),
        "str_ext": fw.unhx(f[8]),
        "str_noext": fw.unhx(f[9]),
        "generable": f[10] == "T",
    }


def impl_descr_obj(bd):
    return {
        "sym": bd.descriptor,
        "id": None if bd.descriptor_id == "" else int(bd.descriptor_id),
        "weight": float(bd.weight),
        "trans": None if bd.transitions is None else [float(x) for x in bd.transitions],
        "order": _order_name(bd.bond_type),
        "pre": bd.preceding_characters,
        "atom": getattr(bd, "atom_bonding_to", None),
        "num": bd.descriptor_num,
        "str_ext": bd.generate_string(True),
        "str_noext": bd.generate_string(False),
        "generable": bool(bd.generable),
    }


def impl_descr(raw, num, pre, atom):
    from gbigsmiles.bond import BondDescriptor

    try:
        with fw.time_limit(5):
            bd = BondDescriptor(raw, num, pre, atom)
            return impl_descr_obj(bd)
    except Exception as e:  # noqa
        return ("ERR", fw.exc_class(e))


def descr_diff(m, i):
    """list of field names on which model and implementation observations differ"""
    if isinstance(m, tuple) or isinstance(i, tuple):
        if isinstance(m, tuple) and isinstance(i, tuple):
            return [] if (m[0] == "ERR" and i[0] == "ERR" and m[1] == i[1]) else ["error class"]
        return ["error vs object"]
    d = []
    for k in ("sym", "id", "order", "pre", "atom", "num", "str_ext", "str_noext", "generable"):
        if m[k] != i[k]:
            d.append(k)
    if not num_close(m["weight"], i["weight"], exact=(m["trans"] is None), rel=1e-12):
        d.append("weight")
    if (m["trans"] is None) != (i["trans"] is None):
        d.append("trans")
    elif m["trans"] is not None:
        if len(m["trans"]) != len(i["trans"]) or not all(num_close(a, b) for a, b in zip(m["trans"], i["trans"])):
            d.append("trans")
    return d


# ------------------------------------------------------------------------------------------
# token layer
import re as _re

_valid_cache = {}


def valid_bracket_atoms(text):
    """oracle data for the model: which bracket substrings of [text] RDKit accepts as exactly one atom (gbigsmiles.atom.Atom)"""
    from gbigsmiles.atom import Atom

    out = []
    # every substring that starts at a '[' and runs to the next ']' (also the ones that overlap an earlier, unclosed '[': the scanner of a
    # later token may start inside what a regular expression over the whole text takes for one group)
    cands = set()
    for i, c in enumerate(text):
        if c == "[":
            j = text.find("]", i)
            if j >= 0:
                cands.add(text[i:j + 1])
    for m in cands:
        if m not in _valid_cache:
            try:
                Atom(m)
                _valid_cache[m] = True
            except Exception:
                _valid_cache[m] = False
        if _valid_cache[m]:
            out.append(m)
    return out


def token_line(text, off=0):
    return "\t".join(["token", fw.hx(text), str(off), ",".join(fw.hx(v) for v in valid_bracket_atoms(text))])


def parse_model_token(line):
    if line.startswith("ERR "):
        return ("ERR", line[4:])
    if not line.startswith("OK "):
        return ("BAD", line)
    f = line[3:].split(" ")
    els = []
    for e in (f[0].split(",") if f[0] else []):
        k, h = e.split(":")
        els.append((k, fw.unhx(h)))
    bds = [parse_model_descr("OK " + b) for b in f[2].split(";")] if f[2] else []
    fk, fv = f[5].split(":")
    return {"elements": els, "natoms": int(f[1]), "bds": bds, "str_ext": fw.unhx(f[3]), "str_noext": fw.unhx(f[4]),
            "fragment": fw.unhx(fv) if fk == "OK" else ("ERR", fv), "generable": f[6] == "T"}


def impl_token(text, off=0):
    from gbigsmiles.atom import Atom
    from gbigsmiles.bond import BondDescriptor
    from gbigsmiles.token import SmilesToken

    try:
        with fw.time_limit(5):
            t = SmilesToken(text, off, 0)
    except Exception as e:  # noqa
        return ("ERR", fw.exc_class(e))
    els = [("s", e) if isinstance(e, str) else ("b", e.generate_string(True)) if isinstance(e, BondDescriptor) else ("a", e._raw_text) for e in t.elements]
    try:
        frag = t.generate_smiles_fragment()
    except Exception as e:  # noqa
        frag = ("ERR", fw.exc_class(e))
    return {"elements": els, "natoms": len(t.atoms), "bds": [impl_descr_obj(b) for b in t.bond_descriptors], "str_ext": t.generate_string(True),
            "str_noext": t.generate_string(False), "fragment": frag, "generable": bool(t.generable)}


def token_diff(m, i):
    if isinstance(m, tuple) or isinstance(i, tuple):
        if isinstance(m, tuple) and isinstance(i, tuple):
            return [] if (m[0] == i[0] == "ERR" and m[1] == i[1]) else ["error class"]
        return ["error vs object"]
    d = [k for k in ("elements", "natoms", "str_ext", "str_noext", "fragment", "generable") if m[k] != i[k]]
    if len(m["bds"]) != len(i["bds"]):
        d.append("number of descriptors")
    else:
        for n, (a, b) in enumerate(zip(m["bds"], i["bds"])):
            dd = descr_diff(a, b)
            if dd:
                d.append(f"descriptor {n}: " + ",".join(dd))
    return d


# --------------------------------------------------------------------------------------------
# stochastic-object layer (Model/Stoch.v)
def stoch_line(text):
    return "\t".join(["stoch", fw.hx(text), ",".join(fw.hx(v) for v in valid_bracket_atoms(text))])


def parse_model_stoch(line):
    if line.startswith("ERR "):
        return ("ERR", line[4:])
    if not line.startswith("OK "):
        return ("BAD", line)
    d = dict(p.split("=", 1) for p in line[3:].split(" "))
    dist = None if d["dist"] == "none" else (d["dist"].split(":")[0], fw.unhx(d["dist"].split(":")[1]))
    return {"left": fw.unhx(d["left"]), "right": fw.unhx(d["right"]), "rep": [fw.unhx(x) for x in d["rep"].split(",") if x],
            "end": [fw.unhx(x) for x in d["end"].split(",") if x], "nbds": int(d["nbds"]),
            "bds": [parse_model_descr("OK " + b) for b in d["bds"].split(";")] if d["bds"] else [],
            "family": None if dist is None else dist[0], "dist_text": None if dist is None else dist[1], "generable": d["gen"] == "T"}


FAMILY = {"FlorySchulz": "flory_schulz", "Gauss": "gauss", "Uniform": "uniform", "SchulzZimm": "schulz_zimm", "LogNormal": "log_normal", "Poisson": "poisson"}


def impl_stoch(text):
    """Stochastic(text, 0); an exception raised INSIDE a distribution constructor after the family was chosen (parameter parsing: not
    modelled) is reported as ('DISTPARAM', class)"""
    import traceback

    from gbigsmiles.stochastic import Stochastic

    try:
        with fw.time_limit(10):
            s = Stochastic(text, 0)
    except Exception as e:  # noqa
        frames = [(os.path.basename(f.filename), f.name) for f in traceback.extract_tb(e.__traceback__)]
        if any(fn == "distribution.py" and name == "__init__" for fn, name in frames) and not ("does not start with" in str(e)):
            return ("DISTPARAM", fw.exc_class(e))
        return ("ERR", fw.exc_class(e))
    return {"left": s.left_terminal.generate_string(True), "right": s.right_terminal.generate_string(True),
            "rep": [t.generate_string(True) for t in s.repeat_tokens], "end": [t.generate_string(True) for t in s.end_tokens],
            "nbds": len(s.bond_descriptors), "bds": [impl_descr_obj(b) for b in s.bond_descriptors],
            "family": None if s.distribution is None else FAMILY.get(type(s.distribution).__name__, type(s.distribution).__name__),
            "generable": bool(s.generable), "str_ext": s.generate_string(True), "str_noext": s.generate_string(False)}


def stoch_diff(m, i):
    if isinstance(i, tuple) and i[0] == "DISTPARAM":
        return []      # the distribution's parameters could not be parsed (ast.literal_eval / float): outside the model
    if isinstance(m, tuple) or isinstance(i, tuple):
        if isinstance(m, tuple) and isinstance(i, tuple):
            return [] if (m[0] == i[0] == "ERR" and m[1] == i[1]) else [f"error class (model {m[1]}, implementation {i[1]})"]
        return [f"error vs object (model {'error ' + m[1] if isinstance(m, tuple) else 'object'}, implementation {'error ' + i[1] if isinstance(i, tuple) else 'object'})"]
    d = [k for k in ("left", "right", "rep", "end", "nbds", "family", "generable") if m[k] != i[k]]
    if len(m["bds"]) == len(i["bds"]):
        for n, (a, b) in enumerate(zip(m["bds"], i["bds"])):
            dd = descr_diff(a, b)
            if dd:
                d.append(f"descriptor {n}: " + ",".join(dd))
    return d


# --------------------------------------------------------------------------------------------
# molecule layer (Model/Mol.v)
def mol_line(text):
    return "\t".join(["mol", fw.hx(text), ",".join(fw.hx(v) for v in valid_bracket_atoms(text))])


def parse_model_mol(line):
    if line.startswith("ERR "):
        return ("ERR", line[4:])
    if not line.startswith("OK "):
        return ("BAD", line)
    d = dict(p.split("=", 1) for p in line[3:].split(" "))
    els = []
    for e in (d["elems"].split(",") if d["elems"] else []):
        f = e.split(":")
        if f[0] == "T":
            els.append(("tok", fw.unhx(f[1])))
        else:
            els.append(("stoch", fw.unhx(f[1]), fw.unhx(f[2]), [fw.unhx(x) for x in f[3].split("+") if x], [fw.unhx(x) for x in f[4].split("+") if x], int(f[5]),
                        None if f[6] == "none" else f[6]))
    mix = None if d["mix"] == "none" else tuple(None if x == "-" else x for x in d["mix"].split(";"))
    return {"elems": els, "mix": mix, "generable": d["gen"] == "T"}


def impl_mol(text):
    import traceback

    import gbigsmiles
    from gbigsmiles.stochastic import Stochastic

    try:
        with fw.time_limit(10):
            m = gbigsmiles.Molecule(text)
    except fw.Timeout:
        return ("TIMEOUT", "timeout")
    except Exception as e:  # noqa
        frames = [(os.path.basename(f.filename), f.name) for f in traceback.extract_tb(e.__traceback__)]
        if any(fn == "distribution.py" and name == "__init__" for fn, name in frames) and not ("does not start with" in str(e)):
            return ("DISTPARAM", fw.exc_class(e))
        return ("ERR", fw.exc_class(e))
    els = []
    for e in m._elements:
        if isinstance(e, Stochastic):
            els.append(("stoch", e.left_terminal.generate_string(True), e.right_terminal.generate_string(True), [t.generate_string(True) for t in e.repeat_tokens],
                        [t.generate_string(True) for t in e.end_tokens], len(e.bond_descriptors),
                        None if e.distribution is None else FAMILY.get(type(e.distribution).__name__, type(e.distribution).__name__)))
        else:
            els.append(("tok", e.generate_string(True)))
    mix = None if m.mixture is None else (m.mixture.absolute_mass, m.mixture.relative_mass)
    return {"elems": els, "mix": mix, "generable": bool(m.generable)}


def mol_diff(m, i):
    if isinstance(i, tuple) and i[0] == "DISTPARAM":
        return []
    if isinstance(m, tuple) or isinstance(i, tuple):
        if isinstance(m, tuple) and isinstance(i, tuple):
            return [] if (m[0] == i[0] == "ERR" and m[1] == i[1]) else [f"error class (model {m[1]}, implementation {i[1]})"]
        return [f"error vs object (model {'error ' + m[1] if isinstance(m, tuple) else 'object'}, implementation {'error ' + i[1] if isinstance(i, tuple) else 'object'})"]
    d = [k for k in ("elems", "generable") if m[k] != i[k]]
    if (m["mix"] is None) != (i["mix"] is None):
        d.append("mixture")
    elif m["mix"] is not None:
        for a, b in zip(m["mix"], i["mix"]):
            if (a is None) != (b is None) or (a is not None and not num_close(a, b)):
                d.append(f"mixture value {a} vs {b}")
    return d


# --------------------------------------------------------------------------------------------
# system layer (Model/SystemM.v)
def system_line(text, smw=None):
    from fractions import Fraction
    q = "N" if smw is None else (lambda f: f"{f.numerator}/{f.denominator}")(Fraction(float(smw)))
    return "\t".join(["system", fw.hx(text), ",".join(fw.hx(v) for v in valid_bracket_atoms(text)), q])


def parse_model_system(line):
    if line.startswith("ERR "):
        return ("ERR", line[4:])
    if not line.startswith("OK "):
        return ("BAD", line)
    d = dict(p.split("=", 1) for p in line[3:].split(" "))
    mols = [parse_model_mol("OK " + fw.unhx(h)) for h in d["mols"].split("/")] if d["mols"] else []
    comps = [None if c == "none" else tuple(None if x == "-" else x for x in c.split(";")) for c in d["comps"].split(",")] if d["comps"] else []
    return {"generable": d["gen"] == "T", "mols": mols, "comps": comps}


def impl_system(text, smw=None):
    import traceback

    import gbigsmiles
    from gbigsmiles.stochastic import Stochastic

    try:
        with fw.time_limit(20):
            s = gbigsmiles.System(text, system_molweight=smw)
            gen = bool(s.generable)
    except fw.Timeout:
        return ("TIMEOUT", "timeout")
    except Exception as e:  # noqa
        frames = [(os.path.basename(f.filename), f.name) for f in traceback.extract_tb(e.__traceback__)]
        if any(fn == "distribution.py" and name == "__init__" for fn, name in frames) and not ("does not start with" in str(e)):
            return ("DISTPARAM", fw.exc_class(e))
        return ("ERR", fw.exc_class(e))
    mols = []
    for m in s._molecules:
        els = []
        for e in m._elements:
            if isinstance(e, Stochastic):
                els.append(("stoch", e.left_terminal.generate_string(True), e.right_terminal.generate_string(True), [t.generate_string(True) for t in e.repeat_tokens],
                            [t.generate_string(True) for t in e.end_tokens], len(e.bond_descriptors),
                            None if e.distribution is None else FAMILY.get(type(e.distribution).__name__, type(e.distribution).__name__)))
            else:
                els.append(("tok", e.generate_string(True)))
        mols.append(els)
    comps = [None if m.mixture is None else (m.mixture.absolute_mass, m.mixture.relative_mass, m.mixture.system_mass) for m in s._molecules]
    return {"generable": gen, "mols": mols, "comps": comps}


def system_diff(m, i):
    if isinstance(i, tuple) and i[0] == "DISTPARAM":
        return []
    if isinstance(m, tuple) and m[0] == "ERR" and m[1] == "Other":
        return []      # non-finite mixture values: outside the bookkeeping model
    if isinstance(m, tuple) or isinstance(i, tuple):
        if isinstance(m, tuple) and isinstance(i, tuple):
            return [] if (m[0] == i[0] == "ERR" and m[1] == i[1]) else [f"error class (model {m[1]}, implementation {i[1]})"]
        return [f"error vs object (model {'error ' + m[1] if isinstance(m, tuple) else 'object'}, implementation {'error ' + i[1] if isinstance(i, tuple) else 'object'})"]
    d = []
    if m["generable"] != i["generable"]:
        d.append(f"generable (model {m['generable']}, implementation {i['generable']})")
    if [x["elems"] for x in m["mols"]] != i["mols"]:
        d.append("molecules / elements")
    if len(m["comps"]) != len(i["comps"]):
        d.append("number of components")
    else:
        for k, (a, b) in enumerate(zip(m["comps"], i["comps"])):
            if (a is None) != (b is None):
                d.append(f"component {k}: mixture present")
            elif a is not None:
                for name, x, y in zip(("absolute", "relative", "system"), a, b):
                    if (x is None) != (y is None) or (x is not None and not num_close(x, y, exact=False)):
                        d.append(f"component {k}: {name} mass {x} vs {y}")
    return d
