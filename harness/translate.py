#!/usr/bin/env python3
"""Fail-closed translator: a few small pure functions of /repo's *current* source -> Gallina.

Regenerates coq/Src/*.v on every run (files are rewritten only when their content changes, so
that `make` stays incremental).  Anything outside the supported subset raises Unsupported and
the caller treats the tie as broken.

  bond.py       BondDescriptor.is_compatible          -> SrcBond.is_compatible
  bond.py       bond order from preceding characters  -> SrcBond.order_of_pre / order_empty
  distribution.py  get_distribution                   -> SrcDist.dispatch
  forcefield_helper.py  get_assignment_class          -> SrcFF.cache_step
  stochastic.py  Stochastic._validate                 -> SrcStoch.validate_bad / validate_count
  bond.py / token.py / stochastic.py / system.py  the descriptor, token, object and system parsers: every string expression and decision
                                                      -> SrcDescr / SrcToken / SrcStochParse / SrcSysParse (translate_sys.py)
  mol_gen.py  MolGen.attach_other (without the 3-D placement)  -> SrcAttach;  molecule.py  gen_reaction_graph -> SrcRGraph
  core.py, stochastic.py, token.py, molecule.py  selection, generation, generable chain -> SrcCore / SrcGen / SrcGenerable
  distribution.py  interval / point rules, mass function, shape parameter -> SrcDistLaw
  system.py + mixture.py  _estimate_system_molecular_weight and the two linked setters (translate_sys.py)
                                                      -> SrcSys.* (decision expressions; statement skeleton checked)
"""
import ast
import os
import sys

sys.path.insert(0, os.path.dirname(os.path.abspath(__file__)))
import translate_sys  # noqa: E402


class Unsupported(Exception):
    pass


def _cls(mod, name):
    r = [n for n in mod.body if isinstance(n, ast.ClassDef) and n.name == name]
    if len(r) != 1:
        raise Unsupported(f"class {name} not found exactly once")
    return r[0]


def _fn(body, name):
    r = [n for n in body if isinstance(n, ast.FunctionDef) and n.name == name]
    if len(r) != 1:
        raise Unsupported(f"function {name} not found exactly once")
    return r[0]


def coq_str(s):
    if '"' in s or "\n" in s:
        raise Unsupported("string constant with quote/newline")
    return "[]" if s == "" else f'(lit "{s}")'


# ----------------------------------------------------------------------------------------------
# is_compatible
FIELD = {
    "bond_type": ("d_order", "order_eqb"),
    "descriptor_id": ("d_id", "id_eqb"),
    "descriptor": ("d_sym", "str_eqb"),
}


def _operand(e):
    if (
        isinstance(e, ast.Attribute)
        and isinstance(e.value, ast.Name)
        and e.value.id in ("self", "other")
        and e.attr in FIELD
    ):
        f, eq = FIELD[e.attr]
        return f"({f} {e.value.id})", eq
    if isinstance(e, ast.Constant) and isinstance(e.value, str):
        return coq_str(e.value), "str_eqb"
    raise Unsupported("operand " + ast.dump(e))


def _bexpr(e):
    if isinstance(e, ast.BoolOp):
        op = " && " if isinstance(e.op, ast.And) else " || "
        return "(" + op.join(_bexpr(v) for v in e.values) + ")"
    if isinstance(e, ast.UnaryOp) and isinstance(e.op, ast.Not):
        return f"(negb {_bexpr(e.operand)})"
    if isinstance(e, ast.Compare) and len(e.ops) == 1:
        (a, ea), (b, eb) = _operand(e.left), _operand(e.comparators[0])
        if ea != eb:
            raise Unsupported("comparison of different kinds " + ast.dump(e))
        t = f"({ea} {a} {b})"
        if isinstance(e.ops[0], ast.Eq):
            return t
        if isinstance(e.ops[0], ast.NotEq):
            return f"(negb {t})"
    if isinstance(e, ast.Constant) and isinstance(e.value, bool):
        return "true" if e.value else "false"
    raise Unsupported("expression " + ast.dump(e))


def _bblock(stmts):
    if not stmts:
        raise Unsupported("fall through without return")
    s, rest = stmts[0], stmts[1:]
    if isinstance(s, ast.Expr) and isinstance(s.value, ast.Constant) and isinstance(s.value.value, str):
        return _bblock(rest)  # docstring
    if isinstance(s, ast.Return) and s.value is not None:
        return _bexpr(s.value)
    if isinstance(s, ast.If):
        thn = _bblock(s.body)
        els = _bblock(s.orelse) if s.orelse else _bblock(rest)
        return f"if {_bexpr(s.test)} then {thn} else\n  {els}"
    raise Unsupported("statement " + ast.dump(s))


ORDER = {
    "UNSPECIFIED": "OUnspec",
    "SINGLE": "OSingle",
    "DOUBLE": "ODouble",
    "TRIPLE": "OTriple",
    "QUADRUPLE": "OQuad",
    "ONEANDAHALF": "OArom",
}


def _bondtype(e):
    # rc.BondType.X
    if (
        isinstance(e, ast.Attribute)
        and isinstance(e.value, ast.Attribute)
        and e.value.attr == "BondType"
        and e.attr in ORDER
    ):
        return ORDER[e.attr]
    raise Unsupported("bond type " + ast.dump(e))


def _is_self_attr(e, name):
    return isinstance(e, ast.Attribute) and isinstance(e.value, ast.Name) and e.value.id == "self" and e.attr == name


def _mentions(node, attr):
    return any(isinstance(n, ast.Attribute) and n.attr == attr for n in ast.walk(node))


def translate_bond(path):
    mod = ast.parse(open(path).read())
    cls = _cls(mod, "BondDescriptor")
    fn = _fn(cls.body, "is_compatible")
    if [a.arg for a in fn.args.args] != ["self", "other"]:
        raise Unsupported("is_compatible signature")
    compat = _bblock(fn.body)

    init = _fn(cls.body, "__init__")
    if [a.arg for a in init.args.args] != ["self", "big_smiles_ext", "descr_num", "preceding_characters", "atom_bonding_to"]:
        raise Unsupported("__init__ signature")
    # every top-level statement of __init__ that touches bond_type, in order
    stm = [s for s in init.body if _mentions(s, "bond_type")]
    nested = [s for s in ast.walk(init) if isinstance(s, (ast.Assign, ast.AugAssign)) and _mentions(s, "bond_type")]
    if len(stm) < 2:
        raise Unsupported("bond_type statements")
    first, second, chain = stm[0], stm[1], stm[2:]
    for s in (first, second):
        if not (isinstance(s, ast.Assign) and len(s.targets) == 1 and _is_self_attr(s.targets[0], "bond_type")):
            raise Unsupported("bond_type initial assignment " + ast.dump(s))
    if len(nested) != 2 + len(chain):
        raise Unsupported("bond_type assigned in an unexpected place")
    # the early return for "[]" must lie between the two plain assignments
    i1, i2 = init.body.index(first), init.body.index(second)
    early = [
        s
        for s in init.body[i1:i2]
        if isinstance(s, ast.If) and len(s.body) == 1 and isinstance(s.body[0], ast.Return) and s.body[0].value is None
    ]
    if len(early) != 1:
        raise Unsupported("early return for [] not found between the bond_type assignments")
    t = early[0].test
    if not (
        isinstance(t, ast.Compare)
        and len(t.ops) == 1
        and isinstance(t.ops[0], ast.Eq)
        and _is_self_attr(t.left, "_raw_text")
        and isinstance(t.comparators[0], ast.Constant)
        and t.comparators[0].value == "[]"
    ):
        raise Unsupported("early return test " + ast.dump(t))
    # the value tested by the chain must be the constructor argument
    pc = [
        s
        for s in init.body[:i2]
        if isinstance(s, ast.Assign) and len(s.targets) == 1 and _is_self_attr(s.targets[0], "preceding_characters")
    ]
    if not pc or not (isinstance(pc[-1].value, ast.Name) and pc[-1].value.id == "preceding_characters"):
        raise Unsupported("preceding_characters is not the constructor argument where the bond type is computed")
    if any(
        isinstance(s, ast.Assign) and _mentions(s.targets[0], "preceding_characters") for s in init.body[i2:]
    ):
        raise Unsupported("preceding_characters re-assigned after the bond type chain started")
    lets = [f"let bt := {_bondtype(second.value)} in"]
    for s in chain:
        if not (
            isinstance(s, ast.If)
            and not s.orelse
            and len(s.body) == 1
            and isinstance(s.body[0], ast.Assign)
            and _is_self_attr(s.body[0].targets[0], "bond_type")
        ):
            raise Unsupported("bond_type chain " + ast.dump(s))
        c = s.test
        if not (
            isinstance(c, ast.Compare)
            and len(c.ops) == 1
            and isinstance(c.ops[0], ast.In)
            and isinstance(c.left, ast.Constant)
            and isinstance(c.left.value, str)
            and _is_self_attr(c.comparators[0], "preceding_characters")
        ):
            raise Unsupported("bond_type test " + ast.dump(c))
        lets.append(f"let bt := if contains {coq_str(c.left.value)} pre then {_bondtype(s.body[0].value)} else bt in")
    out = [
        f"(* generated by harness/translate.py from bond.py (is_compatible, bond order chain of __init__) -- do not edit *)",
        "From Coq Require Import Bool List String ZArith.",
        "From GBS Require Import Model.PyStr Model.Num Model.Bond.",
        "Import ListNotations. Open Scope string_scope. Open Scope bool_scope.",
        "Definition is_compatible (self other : descr) : bool :=\n  " + compat + ".",
        f"Definition order_empty : order := {_bondtype(first.value)}.",
        "Definition order_of_pre (pre : str) : order :=\n  " + "\n  ".join(lets) + "\n  bt.",
    ]
    return "\n".join(out) + "\n"


# ----------------------------------------------------------------------------------------------
# get_distribution
FAMILY = {
    "FlorySchulz": "FFlorySchulz",
    "Gauss": "FGauss",
    "Uniform": "FUniform",
    "SchulzZimm": "FSchulzZimm",
    "LogNormal": "FLogNormal",
    "Poisson": "FPoisson",
}


def translate_dist(path):
    mod = ast.parse(open(path).read())
    fn = _fn(mod.body, "get_distribution")
    if [a.arg for a in fn.args.args] != ["distribution_text"]:
        raise Unsupported("get_distribution signature")
    arms = []
    body = list(fn.body)
    if not body or not isinstance(body[-1], ast.Raise):
        raise Unsupported("get_distribution must end with raise")
    for s in body[:-1]:
        ok = (
            isinstance(s, ast.If)
            and not s.orelse
            and len(s.body) == 1
            and isinstance(s.body[0], ast.Return)
            and isinstance(s.body[0].value, ast.Call)
            and isinstance(s.body[0].value.func, ast.Name)
            and s.body[0].value.func.id in FAMILY
            and len(s.body[0].value.args) == 1
            and isinstance(s.body[0].value.args[0], ast.Name)
            and s.body[0].value.args[0].id == "distribution_text"
            and isinstance(s.test, ast.Compare)
            and len(s.test.ops) == 1
            and isinstance(s.test.ops[0], ast.In)
            and isinstance(s.test.left, ast.Constant)
            and isinstance(s.test.left.value, str)
            and isinstance(s.test.comparators[0], ast.Name)
            and s.test.comparators[0].id == "distribution_text"
        )
        if not ok:
            raise Unsupported("get_distribution arm " + ast.dump(s))
        arms.append((s.test.left.value, FAMILY[s.body[0].value.func.id]))
    # the prefix each class demands (startswith) and the prefix length it cuts
    prefixes = []
    for pyname, fam in FAMILY.items():
        c = _cls(mod, pyname)
        ini = _fn(c.body, "__init__")
        sw = [
            n
            for n in ast.walk(ini)
            if isinstance(n, ast.Call) and isinstance(n.func, ast.Attribute) and n.func.attr == "startswith"
        ]
        if len(sw) != 1 or not (isinstance(sw[0].args[0], ast.Constant) and isinstance(sw[0].args[0].value, str)):
            raise Unsupported(f"{pyname}.__init__ startswith check")
        prefixes.append((fam, sw[0].args[0].value))
    out = [
        f"(* generated by harness/translate.py from distribution.py -- do not edit *)",
        "From Coq Require Import Bool List String ZArith.",
        "From GBS Require Import Model.PyStr Model.DistFam.",
        "Import ListNotations. Open Scope string_scope. Open Scope bool_scope.",
        "Definition dispatch (t : str) : option family :=\n  "
        + "\n  ".join(f"if contains {coq_str(n)} t then Some {f} else" for n, f in arms)
        + "\n  None.",
        "Definition required_prefix (f : family) : str :=\n  match f with\n  "
        + "\n  ".join(f"| {f} => {coq_str(p)}" for f, p in prefixes)
        + "\n  end.",
    ]
    return "\n".join(out) + "\n"


# ----------------------------------------------------------------------------------------------
# get_assignment_class
G = {
    "_global_assignment_class": "g_cls",
    "_global_nonbonded_itp_file": "g_nb",
    "_global_smarts_rule_file": "g_smarts",
}


def translate_ff(path):
    mod = ast.parse(open(path).read())
    fn = _fn(mod.body, "get_assignment_class")
    ARGS = [a.arg for a in fn.args.args]
    if ARGS != ["smarts_filename", "nb_filename"]:
        raise Unsupported("get_assignment_class signature")
    # module-level initial values must be None
    for g in G:
        ini = [
            s
            for s in mod.body
            if isinstance(s, ast.Assign) and len(s.targets) == 1 and isinstance(s.targets[0], ast.Name) and s.targets[0].id == g
        ]
        if len(ini) != 1 or not (isinstance(ini[0].value, ast.Constant) and ini[0].value.value is None):
            raise Unsupported(f"module global {g} is not initialised to None exactly once")
    # nobody else writes the globals
    for f in ast.walk(mod):
        if isinstance(f, ast.FunctionDef) and f is not fn:
            if any(isinstance(s, ast.Global) for s in ast.walk(f)):
                raise Unsupported(f"function {f.name} declares globals")
    # the constructor's parameter order: SMARTS_ASSIGNMENTS(smarts_filename, nb_filename)
    ctor = _fn(_cls(mod, "SMARTS_ASSIGNMENTS").body, "__init__")
    if [a.arg for a in ctor.args.args] != ["self", "smarts_filename", "nb_filename"]:
        raise Unsupported("SMARTS_ASSIGNMENTS.__init__ signature")
    calls = [s.value for s in ctor.body if isinstance(s, ast.Expr) and isinstance(s.value, ast.Call)]
    want = [("_read_smarts_rules", "smarts_filename"), ("_read_nb_param", "nb_filename")]
    got = [
        (c.func.attr, c.args[0].id)
        for c in calls
        if isinstance(c.func, ast.Attribute) and len(c.args) == 1 and isinstance(c.args[0], ast.Name)
    ]
    if got != want or len(ctor.body) != 2:
        raise Unsupported("SMARTS_ASSIGNMENTS.__init__ body")

    def name(e, env):
        if isinstance(e, ast.Name):
            if e.id in env:
                return env[e.id]
            if e.id in ARGS:
                return e.id
        raise Unsupported("name " + ast.dump(e))

    def cond(e, env):
        if isinstance(e, ast.BoolOp):
            op = " || " if isinstance(e.op, ast.Or) else " && "
            return "(" + op.join(cond(v, env) for v in e.values) + ")"
        if isinstance(e, ast.Compare) and len(e.ops) == 1:
            l, r = e.left, e.comparators[0]
            if (
                isinstance(e.ops[0], (ast.Is, ast.IsNot))
                and isinstance(r, ast.Constant)
                and r.value is None
                and isinstance(l, ast.Name)
                and l.id == "_global_assignment_class"
            ):
                t = f"(is_none {env[l.id]})"
                return t if isinstance(e.ops[0], ast.Is) else f"(negb {t})"
            if isinstance(e.ops[0], ast.NotEq):
                return f"(negb (file_eqb {name(l, env)} {name(r, env)}))"
            if isinstance(e.ops[0], ast.Eq):
                return f"(file_eqb {name(l, env)} {name(r, env)})"
        raise Unsupported("condition " + ast.dump(e))

    body = [s for s in fn.body if not isinstance(s, ast.Global)]
    if not (
        len(body) == 2
        and isinstance(body[0], ast.If)
        and not body[0].orelse
        and isinstance(body[1], ast.Return)
        and isinstance(body[1].value, ast.Name)
        and body[1].value.id == "_global_assignment_class"
    ):
        raise Unsupported("get_assignment_class shape")
    env = {k: f"({v} st)" for k, v in G.items()}
    c = cond(body[0].test, env)
    lets = []
    env2 = dict(env)
    k = 0
    for s in body[0].body:
        if not (
            isinstance(s, ast.Assign) and len(s.targets) == 1 and isinstance(s.targets[0], ast.Name) and s.targets[0].id in G
        ):
            raise Unsupported("assignment " + ast.dump(s))
        t = s.targets[0].id
        k += 1
        v = f"v{k}"
        if (
            isinstance(s.value, ast.Call)
            and isinstance(s.value.func, ast.Name)
            and s.value.func.id == "SMARTS_ASSIGNMENTS"
            and len(s.value.args) == 2
            and not s.value.keywords
        ):
            rhs = f"Some (build {name(s.value.args[0], env2)} {name(s.value.args[1], env2)})"
        else:
            rhs = name(s.value, env2)
        lets.append(f"let {v} := {rhs} in")
        env2[t] = v
    out = [
        f"(* generated by harness/translate.py from forcefield_helper.py -- do not edit *)",
        "From Coq Require Import Bool.",
        "From GBS Require Import Model.FF.",
        "Open Scope bool_scope.",
        "Definition cache_step (st : cache) (smarts_filename nb_filename : file) : cache :=",
        f"  if {c} then\n    "
        + "\n    ".join(lets)
        + f"\n    {{| g_cls := {env2['_global_assignment_class']}; g_nb := {env2['_global_nonbonded_itp_file']}; g_smarts := {env2['_global_smarts_rule_file']} |}}\n  else st.",
    ]
    return "\n".join(out) + "\n"


# ----------------------------------------------------------------------------------------------
# Stochastic._validate
CMP = {
    ast.NotEq: "negb (Nat.eqb {a} {b})",
    ast.Eq: "Nat.eqb {a} {b}",
    ast.Gt: "Nat.ltb {b} {a}",
    ast.Lt: "Nat.ltb {a} {b}",
    ast.GtE: "Nat.leb {b} {a}",
    ast.LtE: "Nat.leb {a} {b}",
}


def _self_attr(e, name):
    return isinstance(e, ast.Attribute) and isinstance(e.value, ast.Name) and e.value.id == "self" and e.attr == name


def _len_of(e):
    if isinstance(e, ast.Call) and isinstance(e.func, ast.Name) and e.func.id == "len" and len(e.args) == 1:
        return e.args[0]
    return None


def translate_stoch(path):
    mod = ast.parse(open(path).read())
    fn = _fn(_cls(mod, "Stochastic").body, "_validate")
    if [a.arg for a in fn.args.args] != ["self"] or len(fn.body) != 2:
        raise Unsupported("_validate shape")
    loop, count = fn.body
    # for bd in self.bond_descriptors + [self.left_terminal, self.right_terminal]:
    ok = (isinstance(loop, ast.For) and isinstance(loop.target, ast.Name) and not loop.orelse and isinstance(loop.iter, ast.BinOp) and isinstance(loop.iter.op, ast.Add)
          and _self_attr(loop.iter.left, "bond_descriptors") and isinstance(loop.iter.right, ast.List) and len(loop.iter.right.elts) == 2
          and _self_attr(loop.iter.right.elts[0], "left_terminal") and _self_attr(loop.iter.right.elts[1], "right_terminal") and len(loop.body) == 1)
    if not ok:
        raise Unsupported("_validate loop header")
    v = loop.target.id
    st = loop.body[0]
    if not (isinstance(st, ast.If) and not st.orelse and len(st.body) == 1 and isinstance(st.body[0], ast.Raise)):
        raise Unsupported("_validate loop body")
    t = st.test
    # bd.transitions is not None and len(bd.transitions) <op> len(self.bond_descriptors)
    def is_tr(e):
        return isinstance(e, ast.Attribute) and isinstance(e.value, ast.Name) and e.value.id == v and e.attr == "transitions"
    ok = (isinstance(t, ast.BoolOp) and isinstance(t.op, ast.And) and len(t.values) == 2 and isinstance(t.values[0], ast.Compare) and is_tr(t.values[0].left)
          and len(t.values[0].ops) == 1 and isinstance(t.values[0].ops[0], ast.IsNot) and isinstance(t.values[0].comparators[0], ast.Constant) and t.values[0].comparators[0].value is None
          and isinstance(t.values[1], ast.Compare) and len(t.values[1].ops) == 1 and type(t.values[1].ops[0]) in CMP)
    if not ok:
        raise Unsupported("_validate condition " + ast.dump(t)[:200])
    la, lb = _len_of(t.values[1].left), _len_of(t.values[1].comparators[0])
    if la is None or lb is None or not is_tr(la) or not _self_attr(lb, "bond_descriptors"):
        raise Unsupported("_validate length comparison")
    cmp_ = CMP[type(t.values[1].ops[0])].format(a="(List.length tr)", b="(List.length bds)")
    # if not len(self.bond_descriptors) == len(self.end_bonds) + len(self.repeat_bonds): raise
    c = count
    ok = (isinstance(c, ast.If) and not c.orelse and len(c.body) == 1 and isinstance(c.body[0], ast.Raise) and isinstance(c.test, ast.UnaryOp) and isinstance(c.test.op, ast.Not)
          and isinstance(c.test.operand, ast.Compare) and len(c.test.operand.ops) == 1 and isinstance(c.test.operand.ops[0], ast.Eq))
    if ok:
        l0 = _len_of(c.test.operand.left)
        r0 = c.test.operand.comparators[0]
        ok = (l0 is not None and _self_attr(l0, "bond_descriptors") and isinstance(r0, ast.BinOp) and isinstance(r0.op, ast.Add)
              and {getattr(_len_of(r0.left), "attr", None), getattr(_len_of(r0.right), "attr", None)} == {"end_bonds", "repeat_bonds"})
    if not ok:
        raise Unsupported("_validate count check")
    out = [
        f"(* generated by harness/translate.py from stochastic.py -- do not edit *)",
        "From Coq Require Import Bool List Arith.",
        "From GBS Require Import Model.PyStr Model.Num Model.Bond.",
        "Import ListNotations. Open Scope bool_scope.",
        "(* true iff _validate raises in its loop over the descriptors and the two terminals *)",
        "Definition validate_bad (bds : list descr) (lft rgt : descr) : bool :=",
        f"  existsb (fun {v} => match d_trans {v} with Some tr => {cmp_} | None => false end) (bds ++ [lft; rgt]).",
        "(* the second test of _validate compares the descriptor table with the sum of its two halves *)",
        "Definition validate_count (nbds nend nrep : nat) : bool := negb (Nat.eqb nbds (nend + nrep)).",
    ]
    return "\n".join(out) + "\n"


TARGETS = {
    "SrcBond": ("bond.py", translate_bond),
    "SrcDist": ("distribution.py", translate_dist),
    "SrcFF": ("forcefield_helper.py", translate_ff),
    "SrcStoch": ("stochastic.py", translate_stoch),
    "SrcDistLaw": ("distribution.py", translate_sys.translate_distlaw),
    "SrcDescr": ("bond.py", translate_sys.translate_descr),
    "SrcToken": ("token.py", translate_sys.translate_token),
    "SrcStochParse": ("stochastic.py", translate_sys.translate_stochparse),
    "SrcSysParse": ("system.py", translate_sys.translate_sysparse),
    "SrcMolParse": ("molecule.py", translate_sys.translate_molparse),
    "SrcDescrPrint": ("bond.py", translate_sys.translate_descrprint),
    "SrcPrint": ("token.py", translate_sys.translate_printers),
    "SrcFFSel": ("forcefield_helper.py", translate_sys.translate_ffsel),
    "SrcAGen": ("graph_generate.py", translate_sys.translate_agen),
    "SrcAGraph": ("stochastic_atom_graph.py", translate_sys.translate_agraph),
    "SrcDistParams": ("distribution.py", translate_sys.translate_distparams),
    "SrcProb": ("mol_prob.py", translate_sys.translate_prob),
    "SrcAttach": ("mol_gen.py", translate_sys.translate_attach),
    "SrcRGraph": ("molecule.py", translate_sys.translate_rgraph),
    "SrcCore": ("core.py", translate_sys.translate_core),
    "SrcGen": ("stochastic.py", translate_sys.translate_gen),
    "SrcGenerable": ("stochastic.py", translate_sys.translate_generable),
    "SrcSysGen": ("system.py", translate_sys.translate_sysgen),
    "SrcSys": ("system.py", lambda path: translate_sys.translate_sys(path, os.path.join(os.path.dirname(path), "mixture.py"))),
}

STUB = "(* translator failed: {msg} *)\nFrom GBS Require Import Model.PyStr.\n"


def run(repo_src, outdir, which=None):
    """returns {name: None | error string}"""
    res = {}
    for name, (py, fn) in TARGETS.items():
        if which and name not in which:
            continue
        out = os.path.join(outdir, name + ".v")
        try:
            text = fn(os.path.join(repo_src, py))
            res[name] = None
        except (Unsupported, translate_sys.Unsupported, SyntaxError, OSError, AssertionError, IndexError, KeyError, ValueError, AttributeError) as exc:
            text = STUB.format(msg=str(exc).replace("*)", "* )")[:300])
            res[name] = f"{type(exc).__name__}: {exc}"
        old = open(out).read() if os.path.exists(out) else None
        if old != text:
            with open(out, "w") as f:
                f.write(text)
    return res


if __name__ == "__main__":
    r = run(sys.argv[1] if len(sys.argv) > 1 else "/repo/src/gbigsmiles", sys.argv[2] if len(sys.argv) > 2 else "/verif/coq/Src")
    for k, v in r.items():
        print(k, "ok" if v is None else "FAILED " + v)
    sys.exit(0 if all(v is None for v in r.values()) else 1)
