"""Structured description (AST) of a SMILES token with bond descriptors, an independent printer, and the DENOTATION the
property C02 refers to: which atom each descriptor is attached to and with what bond order, "as if the descriptor were an
atom written at that position of the SMILES".  Shares no code with the implementation or with coq/Model/Token.v.

chain  := [item, ...]
item   := ("atom", bond, text, rings)     bond in "", "-", "=", "#", ":"; rings = list of (bond, label) ring-bond marks
        | ("bd", bond, sym, id, wtext)    a bond descriptor "[" sym id wtext "]" preceded by bond
        | ("branch", chain)               "(" chain ")"
Well-formed (wf): every descriptor has exactly one neighbour -- it is the first item of the top chain and followed by an
atom, or nothing but descriptors / closed branches ... no: nothing but descriptors follow it in its chain.
"""
import random

ORDER = {"": "SINGLE", "-": "SINGLE", "=": "DOUBLE", "#": "TRIPLE", ":": "ONEANDAHALF"}
ATOMS = ["C", "C", "C", "N", "O", "S", "c", "n", "s", "o", "p", "Cl", "Br", "F", "[Si]", "[NH3+]", "[O-]", "[13CH3]", "P", "I", "B", "[Na+]", "[C@H]"]


def print_chain(chain, ws=lambda: ""):
    out = ""
    for it in chain:
        if it[0] == "atom":
            out += it[1] + it[2] + "".join(b + l for b, l in it[3])
        elif it[0] == "bd":
            out += it[1] + "[" + it[2] + it[3] + it[4] + "]"
        else:
            out += "(" + print_chain(it[1], ws) + ")"
    return out


def denote(chain):
    """list of descriptors in written order: dict(sym, id, wtext, atom, order); atoms numbered in written order"""
    res = []
    counter = [0]

    def walk(ch, prev, top):
        # prev: index of the atom a new item of this chain would bond to (None at the start of the top chain)
        pending_first = []
        for k, it in enumerate(ch):
            if it[0] == "atom":
                idx = counter[0]
                counter[0] += 1
                for d in pending_first:       # descriptor(s) written before the first atom bond to it
                    d["atom"] = idx
                    if d["order"] is None:
                        d["order"] = ORDER[it[1]]
                pending_first = []
                prev = idx
            elif it[0] == "bd":
                d = dict(sym=it[2], id=it[3], wtext=it[4], atom=prev, order=ORDER[it[1]])
                if prev is None:
                    # first item of the top chain: the bond character may also be written after the descriptor
                    d["order"] = ORDER[it[1]] if it[1] else None
                    pending_first.append(d)
                res.append(d)
            else:
                walk(it[1], prev, False)
        for d in pending_first:
            d["atom"] = 0
            d["order"] = d["order"] or "SINGLE"

    walk(chain, None, True)
    return res


def natoms(chain):
    return sum(1 if it[0] == "atom" else natoms(it[1]) if it[0] == "branch" else 0 for it in chain)


class Gen:
    def __init__(self, rnd, max_depth=3, explicit_h=False):
        self.r = rnd
        self.max_depth = max_depth
        self.ring = 0
        self.explicit_h = explicit_h

    def bd(self, bond=None):
        r = self.r
        sym = r.choice(["$", "<", ">"])
        ident = r.choice(["", "", "", "1", "2", "12", "7"])
        w = r.choice(["", "", "", "|2|", "|0.5|", "|3.|", "|1e1|", "|.25|", "| 2 |", "|1 2 3|", "|0 1|", "|1_0|"])
        return ("bd", r.choice(["", "", "", "-", "=", "#", ":"]) if bond is None else bond, sym, ident, w)

    def atom(self, first=False):
        r = self.r
        a = r.choice(ATOMS)
        if self.explicit_h and r.random() < 0.05:
            a = "[H]"
        b = "" if first else r.choice(["", "", "", "", "-", "=", "#"])
        if a in ("c", "n", "s", "o", "p"):
            b = "" if first else r.choice(["", "", ":"])
        return ["atom", b, a, []]

    def chain(self, depth, top, n_atoms):
        r = self.r
        ch = []
        if top and r.random() < 0.35:
            ch.append(self.bd(bond=""))      # bond order of a leading descriptor is written after it (on the next atom)
        first = True
        opened = []
        for k in range(n_atoms):
            a = self.atom(first and not ch)
            if first and ch:      # atom right after a leading descriptor may carry the bond character
                a[1] = r.choice(["", "", "=", "#"])
            first = False
            # ring closures: open or close
            if r.random() < 0.15 and len(opened) < 2:
                self.ring += 1
                lab = str(self.ring) if self.ring < 10 else "%" + str(self.ring)
                a[3].append(("", lab))
                opened.append((lab, len(ch)))
            elif opened and r.random() < 0.5 and len(ch) - opened[-1][1] >= 2:
                lab, _ = opened.pop()
                a[3].append(("", lab))
            ch.append(tuple(a[:3]) + (a[3],))
            # branches
            nb = 0
            while depth < self.max_depth and r.random() < 0.3 and nb < 2:
                nb += 1
                kind = r.random()
                if kind < 0.35:
                    ch.append(("branch", [self.bd()]))
                else:
                    ch.append(("branch", self.chain(depth + 1, False, r.randrange(1, 4))))
        # ring marks that were never closed are removed again
        for lab, pos in opened:
            it = ch[pos]
            ch[pos] = it[:3] + ([x for x in it[3] if x[1] != lab],)
        # trailing descriptors (last items of this chain)
        if r.random() < (0.55 if top else 0.3):
            ch.append(self.bd())
            if r.random() < 0.15:
                ch.append(self.bd())
        return ch

    def token(self):
        self.ring = 0
        return self.chain(0, True, self.r.randrange(1, 6))


def has_inner_h(chain):
    return natoms(chain) > 1 and "[H]" in print_chain(chain)


def weight_of(wtext):
    """(weight, transitions) denoted by the weight text of a descriptor: no text -> 1; one number; a list -> its sum"""
    t = wtext.strip("|").split()
    if not t:
        return 1.0, None
    vals = [float(x) for x in t]
    if len(vals) == 1:
        return vals[0], None
    return sum(vals), vals


def all_small(alphabet, max_items):
    """every chain of up to max_items items over a small alphabet of atoms / descriptors / one-level branches (exhaustive small scope)"""
    import itertools

    atoms = [("atom", "", "C", []), ("atom", "=", "N", [])]
    bds = [("bd", "", "$", "", ""), ("bd", "=", "<", "1", "|2|")]
    def chains(n, top):
        if n == 0:
            yield []
            return
        for rest in chains(n - 1, top):
            for a in atoms:
                yield [a] + rest
        # a branch as an item (after at least one atom): handled by the caller through wf filter
    out = []
    for n in range(1, max_items + 1):
        for ch in chains(n, True):
            out.append(ch)
            for b in bds:
                out.append(ch + [b])
                out.append([("bd", "", b[2], b[3], b[4])] + ch)
                out.append(ch + [("branch", [b])])
                if len(ch) >= 2:
                    out.append(ch[:1] + [("branch", [ch[1]])] + [("branch", [b])] + ch[2:])
                    out.append(ch[:1] + [("branch", [ch[1], b])] + ch[2:] + [b])
    return out
