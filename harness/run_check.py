import argparse
import importlib
import json
import os
import sys
import warnings

warnings.simplefilter("ignore")
sys.path.insert(0, os.path.dirname(os.path.abspath(__file__)))
import framework as fw


def main():
    # scipy's generic discrete ppf doubles its search bracket without bound when asked for a quantile above the (deficient) total mass of the
    # Schulz-Zimm law (C11's known finding): an address-space limit turns that into a MemoryError inside the draw instead of an OOM kill of the check
    try:
        import resource
        lim = int(os.environ.get("VERIF_MEM_GB", "6")) << 30
        resource.setrlimit(resource.RLIMIT_AS, (lim, lim))
    except Exception:
        pass
    ap = argparse.ArgumentParser()
    ap.add_argument("prop")
    ap.add_argument("--tier", default=os.environ.get("VERIF_TIER", "quick"), choices=["quick", "thorough"])
    ap.add_argument("--replay", default=None)
    ap.add_argument("--seed", type=int, default=int(os.environ.get("VERIF_SEED", "20260926")))
    a = ap.parse_args()
    mod = importlib.import_module("props." + a.prop.lower())
    if a.replay:
        case = json.load(open(a.replay))
        sys.exit(mod.replay(case))
    rep = fw.Report(a.prop, a.tier, a.seed)
    try:
        rc = mod.check(rep)
    except BaseException as e:  # noqa -- a crash of the machinery itself: the property is not shown to hold on this tree
        if isinstance(e, (KeyboardInterrupt, SystemExit)):
            raise
        import hashlib
        import traceback
        tb = traceback.format_exc()
        d = os.path.join(fw.VERIF, "replays", a.prop)
        os.makedirs(d, exist_ok=True)
        f = os.path.join(d, "harness-" + hashlib.sha1(tb.encode()).hexdigest()[:12] + ".json")
        json.dump({"property": a.prop, "stage": "harness", "what": f"the check itself failed with {type(e).__name__}: {str(e)[:300]}",
                   "broken": "the run of harness/props/" + a.prop.lower() + ".py (no theorem or correspondence could be evaluated)", "traceback": tb[-4000:]}, open(f, "w"), indent=1)
        print(tb[-1500:])
        print(f"VIOLATION property={a.prop} replay={os.path.relpath(f, fw.VERIF)} no-failing-input-found")
        rc = 1
    sys.exit(rc)


if __name__ == "__main__":
    main()
