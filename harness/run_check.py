import argparse
import importlib
import json
import os
import sys
import warnings

warnings.simplefilter("ignore")
sys.path.insert(0, os.path.dirname(os.path.abspath(__file__)))
import framework as fw


def main():
    ap = argparse.ArgumentParser()
    ap.add_argument("prop")
    ap.add_argument("--tier", default=os.environ.get("VERIF_TIER", "quick"), choices=["quick", "thorough"])
    ap.add_argument("--replay", default=None)
    ap.add_argument("--seed", type=int, default=int(os.environ.get("VERIF_SEED", "20260926")))
    a = ap.parse_args()
    mod = importlib.import_module("props." + a.prop.lower())
    if a.replay:
        case = json.load(open(a.replay))
        sys.exit(mod.replay(case))
    rep = fw.Report(a.prop, a.tier, a.seed)
    sys.exit(mod.check(rep))


if __name__ == "__main__":
    main()
