"""Common machinery of ./check: translator tie, Coq build + assumption audit, extracted-model
driver, known findings, verdict and evidence.  Runs under /venv/bin/python with PYTHONPATH
containing /repo/src (the implementation under test) and /verif/harness."""
import fcntl
import glob
import hashlib
import json
import os
import re
import signal
import subprocess
import sys
import time
from contextlib import contextmanager

VERIF = os.path.dirname(os.path.dirname(os.path.abspath(__file__)))
COQ = os.path.join(VERIF, "coq")
BUILD = os.path.join(VERIF, "build")
REPO = os.environ.get("GBS_REPO", "/repo")
REPO_SRC = os.path.join(REPO, "src", "gbigsmiles")
NCPU = os.cpu_count() or 4

# axioms of the Coq standard library that property theorems may depend on (named in DESIGN.md s9)
ALLOWED_AXIOMS = {
    "ClassicalDedekindReals.sig_forall_dec",
    "ClassicalDedekindReals.sig_not_dec",
    "FunctionalExtensionality.functional_extensionality_dep",
    "Classical_Prop.classic",
}
FORBIDDEN = re.compile(
    r"\b(Admitted|admit|Axiom|Axioms|Parameter|Parameters|Conjecture|Conjectures|Admit Obligations|"
    r"Unset Guard Checking|Unset Positivity Checking|Unset Universe Checking|bypass_check|"
    r"native_compute|Hypothesis|Hypotheses)\b"
)


@contextmanager
def build_lock():
    os.makedirs(BUILD, exist_ok=True)
    with open(os.path.join(BUILD, ".lock"), "w") as f:
        fcntl.flock(f, fcntl.LOCK_EX)
        try:
            yield
        finally:
            fcntl.flock(f, fcntl.LOCK_UN)


def sh(cmd, cwd=None, timeout=600, env=None):
    p = subprocess.run(cmd, cwd=cwd, shell=isinstance(cmd, str), stdout=subprocess.PIPE, stderr=subprocess.STDOUT,
                       timeout=timeout, env=env, text=True)
    return p.returncode, p.stdout


# --------------------------------------------------------------------------------------------
# Coq side
def run_translator(which=None):
    sys.path.insert(0, os.path.join(VERIF, "harness"))
    import translate

    return translate.run(REPO_SRC, os.path.join(COQ, "Src"), which)


def coq_makefile():
    mk = os.path.join(COQ, "Makefile")
    cp = os.path.join(COQ, "_CoqProject")
    if not os.path.exists(mk) or os.path.getmtime(mk) < os.path.getmtime(cp):
        rc, out = sh("coq_makefile -f _CoqProject -o Makefile", cwd=COQ, timeout=120)
        if rc != 0:
            raise RuntimeError("coq_makefile failed: " + out)


def forbidden_scan():
    """no Admitted/Axiom/... anywhere in the development (comments are stripped first)"""
    hits = []
    for f in sorted(glob.glob(os.path.join(COQ, "**", "*.v"), recursive=True)):
        txt = open(f).read()
        # strip (nested) comments
        out, depth, i = [], 0, 0
        while i < len(txt):
            if txt.startswith("(*", i):
                depth += 1
                i += 2
            elif txt.startswith("*)", i) and depth > 0:
                depth -= 1
                i += 2
            else:
                if depth == 0:
                    out.append(txt[i])
                elif txt[i] == "\n":
                    out.append("\n")
                i += 1
        code = "".join(out)
        in_section = 0
        for ln, line in enumerate(code.split("\n"), 1):
            if re.match(r"\s*Section\b", line):
                in_section += 1
            if re.match(r"\s*End\b", line) and in_section:
                in_section -= 1
            for m in FORBIDDEN.finditer(line):
                w = m.group(1)
                if w in ("Hypothesis", "Hypotheses") and in_section:
                    continue
                hits.append(f"{os.path.relpath(f, VERIF)}:{ln}: {w}")
            if re.match(r"\s*(Variable|Variables)\b", line) and not in_section:
                hits.append(f"{os.path.relpath(f, VERIF)}:{ln}: Variable outside a section")
    return hits


def theorem_names(vfile):
    txt = open(vfile).read()
    return re.findall(r"^\s*(?:Theorem|Lemma|Corollary|Example|Fact|Proposition)\s+([A-Za-z0-9_']+)", txt, re.M)


def enclosing_statement(vfile, line):
    name = None
    for ln, l in enumerate(open(vfile).read().split("\n"), 1):
        m = re.match(r"\s*(?:Theorem|Lemma|Corollary|Example|Fact|Proposition|Definition|Fixpoint)\s+([A-Za-z0-9_']+)", l)
        if m:
            if ln > line:
                break
            name = m.group(1)
    return name


class CoqResult:
    def __init__(self):
        self.ok = False
        self.translator = {}
        self.obligations = 0
        self.discharged = 0
        self.theorems = []
        self.assumptions = {}  # theorem -> list of axioms ([] = closed)
        self.bad_axioms = []
        self.forbidden = []
        self.error = None  # text of the first error
        self.broken = None  # (file, statement) that no longer checks
        self.wall = 0.0
        self.log = ""


def coq_check(prop, src_targets=()):
    """Tie (T) + proof: regenerate coq/Src from /repo, rebuild the closure of Props/<prop>.v, re-check
    the property file itself and audit its Print Assumptions output."""
    t0 = time.time()
    res = CoqResult()
    with build_lock():
        res.translator = run_translator(set(src_targets) if src_targets else None)
        coq_makefile()
        pv = os.path.join(COQ, "Props", prop + ".v")
        thms = [t for t in theorem_names(pv) if t.startswith(prop + "_")]
        res.theorems = thms
        res.obligations = len(thms)
        vo = pv + "o"
        if os.path.exists(vo):
            os.remove(vo)
        try:
            rc, out = sh(f"timeout 1500 make -j{NCPU} Props/{prop}.vo", cwd=COQ, timeout=1600)
        except subprocess.TimeoutExpired:
            rc, out = 124, "make timed out"
    res.log = out
    res.forbidden = forbidden_scan()
    failed_tr = {k: v for k, v in res.translator.items() if v is not None and (not src_targets or k in src_targets)}
    if rc != 0:
        m = re.search(r'File "\./([^"]+)", line (\d+)', out)
        if m:
            f, ln = m.group(1), int(m.group(2))
            res.broken = (f, enclosing_statement(os.path.join(COQ, f), ln))
        else:
            res.broken = (f"Props/{prop}.v", None)
        em = re.search(r"(Error:.*?)(?:\n\n|\nmake)", out, re.S)
        res.error = (em.group(1) if em else out[-800:]).strip()[:1500]
        if failed_tr:
            res.error = "translator: " + "; ".join(f"{k}: {v}" for k, v in failed_tr.items()) + "\n" + res.error
    else:
        # parse the Print Assumptions blocks, in order, one per `Print Assumptions X.` line of the file
        pa = re.findall(r"^Print Assumptions\s+([A-Za-z0-9_']+)\s*\.", open(pv).read(), re.M)
        # only the output of the property file itself (a dependency that is another property file may have been rebuilt in the same make)
        own = out[out.rfind(f"COQC Props/{prop}.v"):] if f"COQC Props/{prop}.v" in out else out
        blocks = re.split(r"(?=^Closed under the global context|^Axioms:)", own, flags=re.M)
        blocks = [b for b in blocks if b.startswith("Closed under") or b.startswith("Axioms:")]
        for name, b in zip(pa, blocks):
            if b.startswith("Closed under"):
                res.assumptions[name] = []
            else:
                ax = re.findall(r"^([A-Za-z0-9_.']+)\s*:", b.split("\n", 1)[1] if "\n" in b else "", re.M)
                res.assumptions[name] = ax
                for a in ax:
                    if a not in ALLOWED_AXIOMS:
                        res.bad_axioms.append(f"{name}: {a}")
        missing = [t for t in thms if t not in res.assumptions and not t.endswith("_example") and "_example" not in t and "Example" not in t]
        ex_names = set(re.findall(r"^\s*Example\s+([A-Za-z0-9_']+)", open(pv).read(), re.M))
        missing = [t for t in missing if t not in ex_names]
        if len(pa) != len(blocks):
            res.error = f"Print Assumptions output does not match the file ({len(pa)} commands, {len(blocks)} blocks)"
        elif missing:
            res.error = "theorems without Print Assumptions: " + ", ".join(missing)
        elif res.bad_axioms:
            res.error = "axioms outside the allowed standard-library list: " + "; ".join(res.bad_axioms)
        elif res.forbidden:
            res.error = "forbidden vernacular: " + "; ".join(res.forbidden[:5])
        elif failed_tr:
            res.error = "translator: " + "; ".join(f"{k}: {v}" for k, v in failed_tr.items())
        else:
            res.ok = True
            res.discharged = len(thms)
        if res.error and not res.broken:
            res.broken = (f"Props/{prop}.v", None)
    res.wall = time.time() - t0
    return res


# --------------------------------------------------------------------------------------------
# extracted model driver
def driver_stale():
    drv = os.path.join(BUILD, "driver")
    if not os.path.exists(drv):
        return True
    t = os.path.getmtime(drv)
    deps = glob.glob(os.path.join(COQ, "Model", "*.v")) + [os.path.join(COQ, "Extract.v"), os.path.join(VERIF, "ocaml", "driver.ml")]
    return any(os.path.getmtime(d) > t for d in deps)


def build_driver(force=False):
    with build_lock():
        if not force and not driver_stale():
            return
        coq_makefile()
        rc, out = sh(f"timeout 1500 make -j{NCPU} " + " ".join(
            os.path.relpath(f, COQ) + "o" for f in sorted(glob.glob(os.path.join(COQ, "Model", "*.v")))), cwd=COQ, timeout=1600)
        if rc != 0:
            raise RuntimeError("model build failed:\n" + out[-2000:])
        rc, out = sh("timeout 600 coqc -Q ../coq GBS ../coq/Extract.v", cwd=BUILD, timeout=700)
        if rc != 0:
            raise RuntimeError("extraction failed:\n" + out[-2000:])
        rc, out = sh("cp ../ocaml/driver.ml . && ocamlfind ocamlopt -package zarith -linkpkg -w -a -O2 model.mli model.ml driver.ml -o driver.tmp && mv driver.tmp driver",
                     cwd=BUILD, timeout=600)
        if rc != 0:
            raise RuntimeError("driver build failed:\n" + out[-2000:])


def hx(s):
    return s.encode("latin-1", "replace").hex()


def unhx(h):
    return bytes.fromhex(h).decode("latin-1")


def run_driver(lines, timeout=600):
    """lines: list of TAB-joined case lines; returns list of output lines (same length)"""
    build_driver()
    if not lines:
        return []

    def one(chunk):
        p = subprocess.run(["bash", "-c", "ulimit -s unlimited 2>/dev/null; exec ./driver"], cwd=BUILD, input="\n".join(chunk) + "\n",
                           stdout=subprocess.PIPE, stderr=subprocess.PIPE, text=True, timeout=timeout)
        out = p.stdout.split("\n")
        if out and out[-1] == "":
            out.pop()
        if len(out) != len(chunk):
            raise RuntimeError(f"driver returned {len(out)} lines for {len(chunk)} cases; stderr: {p.stderr[-500:]}")
        return out

    # large batches are cut into chunks that run in parallel (the time limit is per chunk)
    CH = 400
    if len(lines) <= CH:
        return one(lines)
    from concurrent.futures import ThreadPoolExecutor
    chunks = [lines[i:i + CH] for i in range(0, len(lines), CH)]
    with ThreadPoolExecutor(max_workers=min(8, NCPU)) as ex:
        outs = list(ex.map(one, chunks))
    return [o for chunk in outs for o in chunk]


# --------------------------------------------------------------------------------------------
# implementation helpers
def scipy_draw_failure(e):
    """scipy's generic discrete ppf fails for some quantiles of the Flory-Schulz / Schulz-Zimm laws (C11's known findings): it either gives up
    ('updating stopped, endless loop') or doubles its bracket until the address-space limit of run_check.py stops it (MemoryError)"""
    return e is not None and ("endless loop" in str(e) or isinstance(e, MemoryError))


class Timeout(Exception):
    pass


@contextmanager
def time_limit(seconds):
    def handler(signum, frame):
        raise Timeout()

    old = signal.signal(signal.SIGALRM, handler)
    signal.setitimer(signal.ITIMER_REAL, seconds)
    try:
        yield
    finally:
        signal.setitimer(signal.ITIMER_REAL, 0)
        signal.signal(signal.SIGALRM, old)


def exc_class(e):
    if isinstance(e, Timeout):
        return "Timeout"
    for cls, name in ((ZeroDivisionError, "ZeroDivision"), (IndexError, "Index"), (TypeError, "Type"), (AttributeError, "Attribute"),
                      (ValueError, "Value"), (RuntimeError, "Runtime")):
        if isinstance(e, cls):
            return name
    return "Other"


# --------------------------------------------------------------------------------------------
# findings / verdict / evidence
def load_findings(prop):
    p = os.path.join(VERIF, "known_findings.json")
    if not os.path.exists(p):
        return []
    return [f for f in json.load(open(p))["findings"] if f["property"] == prop]


class Failure:
    """one oracle failure or model/implementation disagreement"""

    def __init__(self, stage, what, case, expected=None, observed=None, tags=()):
        self.stage = stage  # 'oracle' | 'correspondence' | 'proof' | 'translator'
        self.what = what
        self.case = case
        self.expected = expected
        self.observed = observed
        self.tags = set(tags)  # trigger tags computed by the property module (see triggers in known_findings.json)
        self.finding = None

    def to_json(self):
        return {"stage": self.stage, "what": self.what, "case": self.case, "expected": self.expected,
                "observed": self.observed, "tags": sorted(self.tags), "known_finding": self.finding}


class Report:
    def __init__(self, prop, tier, seed):
        self.prop, self.tier, self.seed = prop, tier, seed
        self.t0 = time.time()
        self.failures = []
        self.coverage = {}
        self.assumptions = []
        self.notes = []

    def fail(self, *a, **k):
        self.failures.append(Failure(*a, **k))


def classify(prop, failures):
    """mark each failure with the known finding (status 'known') whose trigger tag it carries"""
    findings = load_findings(prop)
    hit = {}
    for f in failures:
        for kf in findings:
            if kf.get("status") != "known":
                continue
            if kf["trigger"] in f.tags:
                f.finding = kf["id"]
                hit.setdefault(kf["id"], kf)
                break
    return hit


def write_replay(prop, failure, extra=None):
    d = os.path.join(VERIF, "replays", prop)
    os.makedirs(d, exist_ok=True)
    body = failure.to_json()
    if extra:
        body.update(extra)
    body["property"] = prop
    body["rerun"] = f"./check {prop} --replay <this file>"
    h = hashlib.sha1(json.dumps(body, sort_keys=True, default=str).encode()).hexdigest()[:12]
    path = os.path.join(d, h + ".json")
    with open(path, "w") as f:
        json.dump(body, f, indent=1, default=str)
    return os.path.relpath(path, VERIF)


def finish(report, coq, trusted_base, checker_cmd):
    """classification, verdict, evidence; returns exit code"""
    prop = report.prop
    hit = classify(prop, report.failures)
    for kid, kf in hit.items():
        print(f"KNOWN-FINDING: property={prop} {kid}: {kf['what_fails']}")
    new = [f for f in report.failures if f.finding is None]
    oracle_new = [f for f in new if f.stage == "oracle"]
    other_new = [f for f in new if f.stage != "oracle"]
    violations = 0
    if oracle_new:
        seen = set()
        for f in oracle_new[:5]:
            key = f.what
            if key in seen:
                continue
            seen.add(key)
            path = write_replay(prop, f)
            print(f"VIOLATION property={prop} replay={path}")
            violations += 1
    elif (coq is not None and not coq.ok) or other_new:
        # a proof obligation, the translator tie or the correspondence no longer checks and the
        # search found no failing input
        if coq is not None and not coq.ok:
            f = Failure("proof", f"{coq.broken[0] if coq.broken else 'Props/' + prop + '.v'}: "
                        f"{coq.broken[1] if coq.broken and coq.broken[1] else 'build'} no longer checks", None,
                        expected="theorem accepted by coqc", observed=coq.error)
            path = write_replay(prop, f, {"names": {"file": coq.broken[0] if coq.broken else None,
                                                    "statement": coq.broken[1] if coq.broken else None},
                                          "translator": coq.translator, "log_tail": coq.log[-3000:]})
        else:
            f = other_new[0]
            path = write_replay(prop, f, {"names": {"correspondence_layer": f.what}})
        print(f"VIOLATION property={prop} replay={path} no-failing-input-found")
        violations += 1
    cov = dict(report.coverage)
    cov.setdefault("evaluations", 0)
    cov.setdefault("distinct_nontrivial", 0)
    cov.setdefault("samples", [])
    if coq is not None:
        cov["obligations"] = coq.obligations
        cov["discharged"] = coq.discharged
        cov["theorems"] = coq.theorems
        cov["print_assumptions"] = {k: (v if v else "Closed under the global context") for k, v in coq.assumptions.items()}
        cov["translator"] = {k: ("ok" if v is None else v) for k, v in coq.translator.items()}
        cov["coq_wall_s"] = round(coq.wall, 1)
    cov["checker_cmd"] = checker_cmd
    cov["trusted_base"] = trusted_base
    cov["known_findings_hit"] = sorted(hit)
    cov["failures_total"] = len(report.failures)
    cov["failures_unlisted"] = len(new)
    ev = {
        "property_id": prop,
        "tier": report.tier,
        "seed": report.seed,
        "level": "proof",
        "coverage": cov,
        "assumptions": report.assumptions,
        "wall_s": round(time.time() - report.t0, 2),
        "violations": violations,
    }
    os.makedirs(os.path.join(VERIF, "evidence"), exist_ok=True)
    with open(os.path.join(VERIF, "evidence", prop + ".json"), "w") as f:
        json.dump(ev, f, indent=1, default=str)
    print(f"[{prop}] tier={report.tier} seed={report.seed} obligations={cov.get('obligations')} discharged={cov.get('discharged')} "
          f"evaluations={cov['evaluations']} failures={len(report.failures)} unlisted={len(new)} wall={ev['wall_s']}s")
    return 1 if violations else 0


COMMON_TRUSTED = [
    "Coq 8.16.1 kernel (coqc), including its vm_compute machine; no native_compute",
    "no axioms declared; standard-library axioms a theorem depends on are listed under print_assumptions",
    "harness/translate.py (Python ast -> Gallina, fail-closed) for the regenerated coq/Src/*.v",
    "extraction (ExtrOcamlBasic, ExtrOcamlString only; no Extract Constant/Inductive of our own), OCaml 4.13.1, ocaml/driver.ml glue (zarith conversion, float repr)",
    "correspondence harness (generators, canonicalisation, tolerances) and implementation-level oracles",
]
