"""Stochastic atom graph layer: StochasticAtomGraph.graph of the implementation in canonical form, and the extracted AGraph model."""
from fractions import Fraction as Fr

import framework as fw
import genlayer as gl

_bcache = {}


def tok_bonds(tok):
    from rdkit import Chem

    key = str(tok)
    if key not in _bcache:
        m = Chem.MolFromSmiles(tok.generate_smiles_fragment())
        _bcache[key] = [] if m is None else [(b.GetBeginAtomIdx(), b.GetEndAtomIdx(), int(b.GetBondType())) for b in m.GetBonds()]
    return _bcache[key]


def sx_atok(tok):
    return "(atok " + gl.sx_token(tok) + " (bonds " + " ".join(f"({a} {b} {t})" for a, b, t in tok_bonds(tok)) + "))"


def sx_aelems(mol):
    from gbigsmiles.token import SmilesToken

    out = []
    for e in mol._elements:
        if isinstance(e, SmilesToken):
            out.append(sx_atok(e))
        else:
            out.append(f"(ast {gl.sx_descr(e.left_terminal)} {gl.sx_descr(e.right_terminal)} (rep {' '.join(sx_atok(t) for t in e.repeat_tokens)}) "
                       f"(end {' '.join(sx_atok(t) for t in e.end_tokens)}))")
    return "(" + " ".join(out) + ")"


KINDS = ("static", "stochastic", "termination", "transition")


def impl_graph(mol, expect=False):
    """sorted multiset of (u, v, bond_type, kind, weight) -- one entry per multi-edge"""
    sag = mol.gen_stochastic_atom_graph(expect)
    G = sag.graph
    edges = []
    for u, v, d in G.edges(data=True):
        ws = {k: float(d.get(k + "_weight", 0)) for k in KINDS}
        nz = [k for k in KINDS if ws[k] != 0]
        kind = nz[0] if len(nz) == 1 else ("none" if not nz else "+".join(nz))
        edges.append((int(u), int(v), int(d["bond_type"]), kind, ws[nz[0]] if len(nz) == 1 else 0.0))
    return G, sorted(edges)


def model_graph(mol):
    o = fw.run_driver(["agraph\t" + sx_aelems(mol)])[0]
    if o.startswith("EXC") or o.startswith("BADCASE"):
        return None, o
    n, _, rest = o.partition(" ")
    edges = []
    if rest:
        for e in rest.split(";"):
            uv, bt, kind, w = e.split(":")
            u, v = uv.split(">")
            edges.append((int(u), int(v), int(bt), kind, float(Fr(w))))
    return int(n), sorted(edges)
