#!/usr/bin/env python3
"""Writes /verif/MANIFEST.json from the table below (kept here so that it stays consistent)."""
import json, os
V = os.path.dirname(os.path.dirname(os.path.abspath(__file__)))
TECH = "Coq 8.16 theorems over an executable Gallina model; model tied to /repo by {tie}; implementation-level oracle searches failing inputs"
CLAIMED = {
 "C03": dict(
   text="Machine-checked theorems (Props/C03.v) over the is_compatible function and bond-order chain that the translator regenerates from bond.py on every run: iff-characterisation by the conjugation rule, symmetry, [] bonds nothing, weights irrelevant, order table; plus a kernel-computed theorem over the property's complete finite universe (840 texts, 705 600 pairs) through the descriptor-parser model. The parser model is tied to the code by an exhaustive differential run over that universe; the rule is also checked on all pairs on the implementation itself.",
   note="Trusted: Coq kernel incl. vm_compute; translator (Python ast subset); extraction + OCaml driver; Python float()/int() literal syntax as modelled. Modelled not verified: BondDescriptor.__init__ (hand model, exhaustively compared on the universe). No axioms (all theorems closed under the global context).",
   tie="translator (is_compatible, bond-order chain) + exhaustive correspondence (descriptor parser)", ref="7/C03", engine="translator+coq-model+correspondence"),
}
ALL = [f"C{i:02d}" for i in range(1, 21)]
NA_REASON = {}
def main():
    checks = []
    for p, c in CLAIMED.items():
        checks.append({
            "property_id": p,
            "quick_cmd": f"./check {p} --tier quick",
            "thorough_cmd": f"./check {p} --tier thorough",
            "evidence_file": f"/verif/evidence/{p}.json",
            "replay_cmd_template": f"./check {p} --replay {{path}}",
            "engine": c["engine"],
            "level_claimed": {"category": "proof", "text": c["text"], "design_ref": "DESIGN.md section " + c["ref"]},
            "level_note": c["note"],
            "technique": TECH.format(tie=c["tie"]),
        })
    na = [{"property_id": p, "reason": NA_REASON.get(p, "no check registered yet: the Coq model layer and correspondence for this property are not built at this commit (planned in DESIGN.md section 7); nothing is claimed")}
          for p in ALL if p not in CLAIMED]
    m = {
        "version": 1,
        "setup_cmd": "./setup.sh",
        "hooks": {"guard": "GBIGSMILES_VERIF", "enable": "no source hooks: randomness is scripted/recorded through a numpy Generator subclass passed as rng=, draws through harness-side wrappers",
                  "baseline_off_cmd": "cd /repo && /venv/bin/python -m pytest -ra -q -p no:cacheprovider --timeout=900 --continue-on-collection-errors",
                  "source_commits": [], "add_only": True},
        "engines": [
            {"name": "coq-model", "path": "coq/", "serves_properties": sorted(CLAIMED), "kind_free_text": "Coq 8.16.1 development: executable model (coq/Model), lemma libraries (coq/Proofs), property theorems (coq/Props), full .vo build"},
            {"name": "translator", "path": "harness/translate.py", "serves_properties": [p for p in ("C03", "C09", "C11", "C20") if p in CLAIMED], "kind_free_text": "Python ast -> Gallina, regenerates coq/Src/*.v from /repo on every run"},
            {"name": "correspondence", "path": "harness/ + ocaml/driver.ml", "serves_properties": sorted(CLAIMED), "kind_free_text": "extracted model (OCaml) vs implementation (/venv/bin/python, /repo/src) on the same cases; implementation-level oracles"},
        ],
        "checks": checks,
        "not_applicable": na,
        "notes": "Every claimed property is decided by Coq theorems about a model that is tied to /repo on every run (translator and/or correspondence). See DESIGN.md.",
    }
    json.dump(m, open(os.path.join(V, "MANIFEST.json"), "w"), indent=1)
main()
