#!/usr/bin/env python3
"""Writes /verif/MANIFEST.json from the table below (kept here so that it stays consistent)."""
import json, os
V = os.path.dirname(os.path.dirname(os.path.abspath(__file__)))
TECH = "Coq 8.16 theorems over an executable Gallina model; model tied to /repo by {tie}; implementation-level oracle searches failing inputs"
CLAIMED = {
 "C03": dict(
   text="Machine-checked theorems (Props/C03.v) over the is_compatible function and bond-order chain that the translator regenerates from bond.py on every run: iff-characterisation by the conjugation rule, symmetry, [] bonds nothing, weights irrelevant, order table; plus a kernel-computed theorem over the property's complete finite universe (840 texts, 705 600 pairs) through the descriptor-parser model. The parser model is tied to the code by an exhaustive differential run over that universe; the rule is also checked on all pairs on the implementation itself.",
   note="Trusted: Coq kernel incl. vm_compute; translator (Python ast subset); extraction + OCaml driver; Python float()/int() literal syntax as modelled. Modelled not verified: BondDescriptor.__init__ (hand model, exhaustively compared on the universe). No axioms (all theorems closed under the global context).",
   tie="translator (is_compatible, bond-order chain) + exhaustive correspondence (descriptor parser)", ref="7/C03", engine="translator+coq-model+correspondence"),
 "C04": dict(text="Theorems for ALL inputs, pick streams and drawn targets over the generator model: every bond joins a still-open descriptor of an earlier residue with a descriptor of the freshly created residue, the two satisfy the conjugation rule and share the bond order, both are copies of descriptors written on their tokens, the atoms lie in the two residues' ranges, no descriptor instance is used twice, an incompatible pair is an error. Invariant GInv proved by induction over the run monad (all of prefix attachment, growth, transition lists, capping, hand-over go through attach). Tie: trace validation of implementation runs (random mode + all choice sequences of bounded instances). Oracle: perfect matching of inter-residue bonds to compatible unused descriptors on the returned RDKit molecule.",
   note='Trusted: Coq kernel incl. vm_compute; extraction + OCaml driver; recording/scripting numpy Generator subclass; RDKit fragment data (atom counts, masses) entering the model as oracle data. Modelled not verified: mol_gen.py:26-184, stochastic.py:164-308, token.py:244-255, molecule.py:147-152, core.py:94-122 (Model/Gen.v, Model/Select.v follow them statement by statement; every run is trace-validated: same choice calls with the same candidates and p, same residues, bonds, edges, mass, open descriptors, error vs result). No axioms.',
   tie='correspondence (trace validation against the extracted model under a recording/scripted generator) + translator (is_compatible)', ref='7/C04', engine='coq-model+correspondence'),
 "C05": dict(text="Theorems for ALL inputs, pick streams and targets: atoms = concatenation of the residues' atoms in creation order; every residue is a copy of a token of the input; the residue graph has |V|-1 edges, edge k joins residue k+1 to an earlier one, every residue is linked to residue 0 (tree); one bond per residue edge; mass = sum of residue masses. PARTIAL: sanitisation, aromaticity and hydrogen counts are RDKit behaviour, checked by the oracle on every generated molecule, not proved.",
   note='Trusted: Coq kernel incl. vm_compute; extraction + OCaml driver; recording/scripting numpy Generator subclass; RDKit fragment data (atom counts, masses) entering the model as oracle data. Modelled not verified: mol_gen.py:26-184, stochastic.py:164-308, token.py:244-255, molecule.py:147-152, core.py:94-122 (Model/Gen.v, Model/Select.v follow them statement by statement; every run is trace-validated: same choice calls with the same candidates and p, same residues, bonds, edges, mass, open descriptors, error vs result). No axioms.',
   tie='correspondence (trace validation + final state) ', ref='7/C05', engine='coq-model+correspondence'),
 "C06": dict(text='PARTIAL. Proved for ALL inputs, pick streams and targets (safety half): a returned molecule without open descriptor used every descriptor instance of every residue exactly once; residues appear element by element in the written order (token once; object = optional start end group ++ >=1 growth units ++ capping end groups, all copies of its own tokens); finalisation leaves exactly the reserved descriptor (or none) open. NOT yet proved: termination and completion for every molecule accepted by the closability analysis well_posed; the implementation-level oracle checks completion, order, adjacency and leaf end groups on every run of every accepted input, including all choice sequences of bounded instances.',
   note='Trusted: Coq kernel incl. vm_compute; extraction + OCaml driver; recording/scripting numpy Generator subclass; RDKit fragment data (atom counts, masses) entering the model as oracle data. Modelled not verified: mol_gen.py:26-184, stochastic.py:164-308, token.py:244-255, molecule.py:147-152, core.py:94-122 (Model/Gen.v, Model/Select.v follow them statement by statement; every run is trace-validated: same choice calls with the same candidates and p, same residues, bonds, edges, mass, open descriptors, error vs result). No axioms. harness/wellposed.py decides which inputs the completion oracle applies to.',
   tie='correspondence (trace validation, all choice sequences of bounded instances)', ref='7/C06', engine='coq-model+correspondence'),
 "C07": dict(text="Theorems for ALL inputs, pick streams and targets (negative, tiny, huge): per stochastic object at least one unit, every compared value but the last <= target, the last exceeds it unless no descriptor was left open; the compared value is exactly the mass of the residues appended by this object's growth steps (not prefix, earlier elements, start group or capping residues); exactly one target consumed per object. Tie: trace validation with natural and FORCED targets. Oracle: stop rule read off residue masses and draws.",
   note='Trusted: Coq kernel incl. vm_compute; extraction + OCaml driver; recording/scripting numpy Generator subclass; RDKit fragment data (atom counts, masses) entering the model as oracle data. Modelled not verified: mol_gen.py:26-184, stochastic.py:164-308, token.py:244-255, molecule.py:147-152, core.py:94-122 (Model/Gen.v, Model/Select.v follow them statement by statement; every run is trace-validated: same choice calls with the same candidates and p, same residues, bonds, edges, mass, open descriptors, error vs result). No axioms.',
   tie='correspondence (trace validation with recorded and forced draws)', ref='7/C07', engine='coq-model+correspondence'),
 "C08": dict(text="Theorems: the selection law sums to 1 and is non-negative for every non-empty non-negative weight list, is proportional to the weights when they are not all equal, uniform when all equal (all zero included); explicit transition lists give listed weight / total; candidates are exactly the compatible descriptors; in EVERY run of the generator model every recorded decision took an option of positive probability. Tie: every rng.choice call (candidates, p) of every run against the model. Oracle: closed-form leaf probabilities of complete choice trees of a copolymer family; outcome masses sum to 1. PARTIAL: that numpy's choice realises p is an oracle.",
   note='Trusted: Coq kernel incl. vm_compute; extraction + OCaml driver; recording/scripting numpy Generator subclass; RDKit fragment data (atom counts, masses) entering the model as oracle data. Modelled not verified: mol_gen.py:26-184, stochastic.py:164-308, token.py:244-255, molecule.py:147-152, core.py:94-122 (Model/Gen.v, Model/Select.v follow them statement by statement; every run is trace-validated: same choice calls with the same candidates and p, same residues, bonds, edges, mass, open descriptors, error vs result). No axioms.',
   tie="correspondence (every rng.choice call against the model's Choice events)", ref='7/C08', engine='coq-model+correspondence'),
}
ALL = [f"C{i:02d}" for i in range(1, 21)]
NA_REASON = {}
def main():
    checks = []
    for p, c in CLAIMED.items():
        checks.append({
            "property_id": p,
            "quick_cmd": f"./check {p} --tier quick",
            "thorough_cmd": f"./check {p} --tier thorough",
            "evidence_file": f"/verif/evidence/{p}.json",
            "replay_cmd_template": f"./check {p} --replay {{path}}",
            "engine": c["engine"],
            "level_claimed": {"category": "proof", "text": c["text"], "design_ref": "DESIGN.md section " + c["ref"]},
            "level_note": c["note"],
            "technique": TECH.format(tie=c["tie"]),
        })
    na = [{"property_id": p, "reason": NA_REASON.get(p, "no check registered yet: the Coq model layer and correspondence for this property are not built at this commit (planned in DESIGN.md section 7); nothing is claimed")}
          for p in ALL if p not in CLAIMED]
    m = {
        "version": 1,
        "setup_cmd": "./setup.sh",
        "hooks": {"guard": "GBIGSMILES_VERIF", "enable": "no source hooks: randomness is scripted/recorded through a numpy Generator subclass passed as rng=, draws through harness-side wrappers",
                  "baseline_off_cmd": "cd /repo && /venv/bin/python -m pytest -ra -q -p no:cacheprovider --timeout=900 --continue-on-collection-errors",
                  "source_commits": [], "add_only": True},
        "engines": [
            {"name": "coq-model", "path": "coq/", "serves_properties": sorted(CLAIMED), "kind_free_text": "Coq 8.16.1 development: executable model (coq/Model), lemma libraries (coq/Proofs), property theorems (coq/Props), full .vo build"},
            {"name": "translator", "path": "harness/translate.py", "serves_properties": [p for p in ("C03", "C09", "C11", "C20") if p in CLAIMED], "kind_free_text": "Python ast -> Gallina, regenerates coq/Src/*.v from /repo on every run"},
            {"name": "correspondence", "path": "harness/ + ocaml/driver.ml", "serves_properties": sorted(CLAIMED), "kind_free_text": "extracted model (OCaml) vs implementation (/venv/bin/python, /repo/src) on the same cases; implementation-level oracles"},
        ],
        "checks": checks,
        "not_applicable": na,
        "notes": "Every claimed property is decided by Coq theorems about a model that is tied to /repo on every run (translator and/or correspondence). See DESIGN.md.",
    }
    json.dump(m, open(os.path.join(V, "MANIFEST.json"), "w"), indent=1)
main()
