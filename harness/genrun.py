"""Shared generation runs for C04-C08 (and C06/C13): the implementation's generator under the
recording / scripting generator, the extracted Gen.v model on the same picks and targets (tie K),
and implementation-level oracles that read only the returned RDKit molecule, MolGen.graph and the
parsed tokens."""
import itertools
import random
import time
from fractions import Fraction as Fr

import framework as fw
import gen_inputs as gi
import genlayer as gl


class Case:
    def __init__(self, archetype, text, seed, mode, run, forced=None, script=None):
        self.archetype, self.text, self.seed, self.mode, self.run = archetype, text, seed, mode, run
        self.forced = forced
        self.script = script
        self.mo = None
        self.diffs = []
        self.near = False

    def ident(self):
        return {"archetype": self.archetype, "text": self.text, "seed": self.seed, "mode": self.mode,
                "forced_targets": self.forced, "script": self.script,
                "picks": self.run.picks if self.run is not None else None,
                "targets": self.run.targets if self.run is not None else None}


def tokens_of(mol):
    from gbigsmiles.token import SmilesToken

    out = []
    for e in mol._elements:
        if isinstance(e, SmilesToken):
            out.append(e)
        else:
            out += list(e.repeat_tokens) + list(e.end_tokens)
    return out


def unit_masses(mol):
    """heavy-atom masses of the repeat tokens of each stochastic object (for forcing targets)"""
    from gbigsmiles.stochastic import Stochastic

    res = []
    for e in mol._elements:
        if isinstance(e, Stochastic):
            res.append([float(gl.token_data(t)[2]) for t in e.repeat_tokens])
    return res


def forced_targets(rnd, mol, kind):
    out = []
    for ms in unit_masses(mol):
        m = max(ms) if ms else 10.0
        if kind == "below":
            out.append(m * 0.3)
        elif kind == "negative":
            out.append(-rnd.choice([1.0, 50.0, 1e6]))
        elif kind == "units":
            n = rnd.randrange(1, 9)
            out.append(n * m + rnd.choice([-0.25, 0.25]) * min(ms or [m]))
        else:
            out.append(m * rnd.choice([20.37, 45.61]))
    return out


def impl_near(run, rel=1e-7):
    """is some run of consecutively created residues within rel of a drawn target? (then binary64 vs exact
    arithmetic may decide the stop differently: the case is discarded and counted)"""
    from rdkit.Chem import Descriptors

    if run.gen is None or not run.targets:
        return False
    g = run.gen
    ms = [Descriptors.HeavyAtomMolWt(_frag(g.graph.nodes[n]["smiles"])) for n in sorted(g.graph.nodes())]
    for T in run.targets:
        tol = rel * max(1.0, abs(T))
        for i in range(len(ms)):
            c = 0.0
            for j in range(i, len(ms)):
                c += ms[j]
                if abs(c - T) <= tol:
                    return True
                if c > T + tol:
                    break
    return False


def collect(rep, n_random, n_allseq, forced_kinds=(None,), archetypes=None, max_leaves=400, documented=True, budget_s=None, extra_natural=()):
    """runs of the implementation + model comparison; failures of the correspondence are recorded on rep.
    returns the list of cases (those where the draw itself failed -- scipy, a C11 matter -- are dropped and counted)"""
    rnd = random.Random(rep.seed)
    t0 = time.time()
    cases = []
    dropped_draw = 0
    parse_fail = 0
    inputs = []
    if documented:
        for text in gi.DOCUMENTED:
            for s in range(2):
                inputs.append(("documented", text, rnd.randrange(1 << 30)))
    inputs += gi.cases(rnd.randrange(1 << 30), n_random, archetypes)
    n_forced_cycle = len(inputs)
    inputs += list(extra_natural)       # always run with the distribution's own draws
    import gbigsmiles

    for k, (arche, text, seed) in enumerate(inputs):
        if budget_s and time.time() - t0 > budget_s:
            break
        kind = forced_kinds[k % len(forced_kinds)] if k < n_forced_cycle else None
        forced = None
        if kind is not None:
            try:
                with fw.time_limit(20):
                    forced = forced_targets(random.Random(seed), gbigsmiles.Molecule(text), kind)
            except Exception:
                parse_fail += 1
                continue
        try:
            r = gl.ImplRun(text, seed, forced_targets=forced)
        except Exception:
            parse_fail += 1
            continue
        if r.draw_error is not None:
            dropped_draw += 1
            continue
        cases.append(Case(arche, text, seed, "random" if kind is None else "forced:" + kind, r, forced))
    # all choice sequences of bounded instances
    explored = 0
    leaves_total = 0
    for arche, text, seed in gi.cases(rnd.randrange(1 << 30), n_allseq, archetypes):
        if budget_s and time.time() - t0 > budget_s:
            break
        try:
            with fw.time_limit(20):
                mol = gbigsmiles.Molecule(text)
        except Exception:
            parse_fail += 1
            continue
        ms = unit_masses(mol)
        targets = [max(m) * random.Random(seed).choice([0.5, 1.5, 2.5]) if m else 10.0 for m in ms]
        leaves, trunc = gl.explore(text, targets, max_leaves=max_leaves)
        explored += 1
        leaves_total += len(leaves)
        for script, r in leaves:
            c = Case(arche, text, seed, "allseq", r, targets, script)
            c.tree_truncated = trunc
            cases.append(c)
    # model side
    lines = [gl.model_line(c.run.mol, c.run.picks, c.run.targets) for c in cases]
    mos = gl.run_model(lines) if lines else []
    for c, mo in zip(cases, mos):
        c.mo = mo
        c.near = gl.near_threshold(mo) or impl_near(c.run)
        if c.near:
            continue
        c.diffs = gl.compare(c.run, mo)
        if c.diffs:
            rep.fail("correspondence", "generation layer: " + c.diffs[0][:160], c.ident(), expected=str(mo)[:600], observed=c.diffs[:4],
                     tags=case_tags(c))
    stats = {"runs": len(cases), "allseq_instances": explored, "allseq_leaves": leaves_total, "draw_failed_dropped": dropped_draw,
             "unparsable_inputs": parse_fail, "near_threshold_discarded": sum(1 for c in cases if c.near),
             "archetypes": hist(c.archetype for c in cases), "modes": hist(c.mode for c in cases),
             "residues_hist": hist(bucket(len(c.run.observe()["res"])) for c in cases if c.run.gen is not None),
             "outcomes": hist(outcome(c) for c in cases)}
    return cases, stats


def outcome(c):
    r = c.run
    if r.gen is not None:
        return "molecule" if r.gen.fully_generated else "molecule-open"
    if r.need is not None:
        return "needpick"
    return "error:" + fw.exc_class(r.error)


def hist(it):
    h = {}
    for x in it:
        h[x] = h.get(x, 0) + 1
    return dict(sorted(h.items(), key=lambda kv: str(kv[0])))


def bucket(n):
    for b in (1, 2, 4, 8, 16, 32, 64, 128):
        if n <= b:
            return f"<={b}"
    return ">128"


def case_tags(c):
    return set()


# ------------------------------------------------------------------------------------------------
# implementation-level view of a returned molecule
class View:
    """residue partition of the returned molecule, read from MolGen.graph / _mol and the parsed tokens only"""

    def __init__(self, run):
        from rdkit import Chem

        g = run.gen
        self.g = g
        self.mol = g._mol
        self.nodes = sorted(g.graph.nodes())
        self.ok = self.nodes == list(range(len(self.nodes)))
        toks = {}
        for t in tokens_of(run.mol):
            toks.setdefault(str(t), t)
        self.tokens = []
        for n in self.nodes:
            self.tokens.append(toks.get(g.graph.nodes[n]["big_smiles"]))
        self.frags = []
        for n in self.nodes:
            sm = g.graph.nodes[n]["smiles"]
            self.frags.append(_frag(sm))
        self.sizes = [f.GetNumAtoms() for f in self.frags]
        self.offs = [0]
        for s in self.sizes:
            self.offs.append(self.offs[-1] + s)
        self.res_of = {}
        for r, (a, b) in enumerate(zip(self.offs, self.offs[1:])):
            for x in range(a, b):
                self.res_of[x] = r
        self.inter = []
        self.internal = {r: set() for r in range(len(self.nodes))}
        for b in self.mol.GetBonds():
            a1, a2 = b.GetBeginAtomIdx(), b.GetEndAtomIdx()
            r1, r2 = self.res_of.get(a1), self.res_of.get(a2)
            if r1 is None or r2 is None or r1 != r2:
                self.inter.append((a1, a2, gl.order_name(b.GetBondType()), r1, r2))
            else:
                self.internal[r1].add((min(a1, a2) - self.offs[r1], max(a1, a2) - self.offs[r1], gl.order_name(b.GetBondType())))
        self.edges = [(u, v, gl.order_name(d["bond_type"])) for u, v, d in g.graph.edges(data=True)]


_frag_mols = {}


def _frag(smiles):
    from rdkit import Chem

    if smiles not in _frag_mols:
        _frag_mols[smiles] = Chem.MolFromSmiles(smiles)
    return _frag_mols[smiles]


CONJ = {("$", "$"), ("<", ">"), (">", "<")}


def rule_compatible(a, b):
    """the conjugation rule on (symbol, id, order) read off two BondDescriptor objects (property C03's rule)"""
    return ((a.descriptor, b.descriptor) in CONJ and a.descriptor_id == b.descriptor_id
            and gl.order_name(a.bond_type) == gl.order_name(b.bond_type))


def oracle_c04(v):
    """every inter-residue bond is explained by two compatible, still unused descriptors of its order"""
    bad = []
    avail = {}
    for r, t in enumerate(v.tokens):
        if t is None:
            bad.append(f"residue {r} is not a token of the input")
            return bad
        avail[r] = [(bd, int(bd.atom_bonding_to)) for bd in t.bond_descriptors]
    bonds = []
    for a1, a2, order, r1, r2 in v.inter:
        if r1 is None or r2 is None:
            bad.append(f"bond {a1}-{a2} touches an atom outside every residue")
            continue
        bonds.append((a1 - v.offs[r1], r1, a2 - v.offs[r2], r2, order))
    used = set()
    budget = [20000]

    def solve(k):
        if k == len(bonds):
            return True
        budget[0] -= 1
        if budget[0] < 0:
            return None
        l1, r1, l2, r2, order = bonds[k]
        for i1, (d1, at1) in enumerate(avail[r1]):
            if (r1, i1) in used or at1 != l1 or gl.order_name(d1.bond_type) != order:
                continue
            for i2, (d2, at2) in enumerate(avail[r2]):
                if (r2, i2) in used or at2 != l2 or not rule_compatible(d1, d2):
                    continue
                used.add((r1, i1)); used.add((r2, i2))
                s = solve(k + 1)
                if s or s is None:
                    return s
                used.discard((r1, i1)); used.discard((r2, i2))
        return False

    s = solve(0)
    if s is False:
        # name the first bond that has no explanation at all
        for l1, r1, l2, r2, order in bonds:
            ok = any(at1 == l1 and gl.order_name(d1.bond_type) == order and at2 == l2 and rule_compatible(d1, d2)
                     for d1, at1 in avail[r1] for d2, at2 in avail[r2])
            if not ok:
                bad.append(f"bond between residue {r1} ({v.tokens[r1]}) atom {l1} and residue {r2} ({v.tokens[r2]}) atom {l2}, order {order}: "
                           "no pair of compatible descriptors of that order on those atoms")
                break
        else:
            bad.append("bonds cannot be assigned to descriptors without using one descriptor twice")
    # open descriptors that remain must be unused ones
    if s is True:
        for bd in v.g.bond_descriptors:
            r = int(bd.node_idx)
            la = int(bd.atom_bonding_to) - v.offs[r] if r < len(v.nodes) else None
            if r >= len(v.nodes) or not any((r, i) not in used and at == la and d.descriptor == bd.descriptor for i, (d, at) in enumerate(avail[r])):
                bad.append(f"open descriptor {bd} on residue {r} atom {la} is not an unused descriptor of its token")
    return bad


def oracle_c05(v, run):
    import networkx as nx
    from rdkit import Chem
    from rdkit.Chem import Descriptors

    bad = []
    if not v.ok:
        bad.append("residue nodes are not 0..n-1")
    if v.offs[-1] != v.mol.GetNumAtoms():
        bad.append(f"atoms {v.mol.GetNumAtoms()} != sum of residue sizes {v.offs[-1]}")
        return bad
    for r, (tok, frag) in enumerate(zip(v.tokens, v.frags)):
        if tok is None:
            bad.append(f"residue {r}: {v.g.graph.nodes[r]['big_smiles']} is not a token written in the input")
            continue
        if v.g.graph.nodes[r]["smiles"] != tok.generate_smiles_fragment():
            bad.append(f"residue {r}: fragment {v.g.graph.nodes[r]['smiles']} is not the fragment of token {tok}")
        fa = [(a.GetAtomicNum(), a.GetFormalCharge(), a.GetIsotope()) for a in frag.GetAtoms()]
        ma = [(v.mol.GetAtomWithIdx(v.offs[r] + i).GetAtomicNum(), v.mol.GetAtomWithIdx(v.offs[r] + i).GetFormalCharge(),
               v.mol.GetAtomWithIdx(v.offs[r] + i).GetIsotope()) for i in range(v.sizes[r])]
        fb = {(min(b.GetBeginAtomIdx(), b.GetEndAtomIdx()), max(b.GetBeginAtomIdx(), b.GetEndAtomIdx()), gl.order_name(b.GetBondType()))
              for b in frag.GetBonds()}
        if fa != ma or fb != v.internal[r]:
            # a harmless re-ordering of atoms inside a residue: fall back to isomorphism
            g1, g2 = nx.Graph(), nx.Graph()
            for i, x in enumerate(fa):
                g1.add_node(i, k=x)
            for i, x in enumerate(ma):
                g2.add_node(i, k=x)
            for a, b, o in fb:
                g1.add_edge(a, b, o=o)
            for a, b, o in v.internal[r]:
                g2.add_edge(a, b, o=o)
            if not nx.is_isomorphic(g1, g2, node_match=lambda x, y: x["k"] == y["k"], edge_match=lambda x, y: x["o"] == y["o"]):
                bad.append(f"residue {r} ({tok}) is not an unmodified copy of its token: atoms {ma} bonds {sorted(v.internal[r])} vs token {fa} {sorted(fb)}")
    gg = nx.Graph()
    gg.add_nodes_from(v.nodes)
    gg.add_edges_from((u, w) for u, w, _ in v.edges)
    if len(v.nodes) and not nx.is_tree(gg):
        bad.append(f"residue graph is not a tree: {len(v.nodes)} nodes, {gg.number_of_edges()} edges, connected={nx.is_connected(gg)}")
    eb = sorted((min(r1, r2), max(r1, r2), o) for _, _, o, r1, r2 in v.inter if r1 is not None and r2 is not None)
    ee = sorted((min(u, w), max(u, w), o) for u, w, o in v.edges)
    if eb != ee:
        bad.append(f"inter-residue bonds {eb} do not biject with residue edges {ee}")
    try:
        m = Chem.Mol(v.mol)
        Chem.SanitizeMol(m)
    except Exception as e:  # noqa
        bad.append(f"sanitisation failed: {type(e).__name__}: {str(e)[:80]}")
        return bad
    if len(Chem.GetMolFrags(m)) != 1:
        bad.append(f"molecule has {len(Chem.GetMolFrags(m))} disconnected pieces")
    pt = Chem.GetPeriodicTable()
    for r, frag in enumerate(v.frags):
        for i, fa in enumerate(frag.GetAtoms()):
            a = m.GetAtomWithIdx(v.offs[r] + i)
            if not fa.GetNoImplicit():  # written without brackets
                if a.GetNoImplicit() or a.GetNumRadicalElectrons() != 0:
                    bad.append(f"atom {v.offs[r] + i} ({a.GetSymbol()}, residue {r}) written without brackets does not carry its normal hydrogens")
                    break
                if a.GetFormalCharge() == 0 and a.GetTotalValence() not in list(pt.GetValenceList(a.GetAtomicNum())):
                    bad.append(f"atom {v.offs[r] + i} ({a.GetSymbol()}) has valence {a.GetTotalValence()}")
                    break
    total = sum(Descriptors.HeavyAtomMolWt(f) for f in v.frags)
    if abs(Descriptors.HeavyAtomMolWt(v.mol) - total) > 1e-6 or abs(float(v.g.weight) - total) > 1e-6:
        bad.append(f"heavy-atom mass {Descriptors.HeavyAtomMolWt(v.mol)} / weight {v.g.weight} != sum of residue masses {total}")
    # the SMILES accessor is an observation point of its own: it must denote the same atoms (element, charge, isotope) and heavy-atom mass
    try:
        ps = Chem.SmilesParserParams()
        ps.removeHs = False
        ms = Chem.MolFromSmiles(v.g.smiles, ps)
        key = lambda a: (a.GetAtomicNum(), a.GetFormalCharge(), a.GetIsotope())
        from collections import Counter
        if ms is None:
            bad.append(f"MolGen.smiles {v.g.smiles!r} is not parsable")
        else:
            want = Counter(key(a) for a in v.mol.GetAtoms() if a.GetAtomicNum() != 1 or a.GetIsotope())
            got = Counter(key(a) for a in ms.GetAtoms() if a.GetAtomicNum() != 1 or a.GetIsotope())
            if want != got:
                bad.append(f"MolGen.smiles {v.g.smiles[:60]!r} denotes other atoms than MolGen.mol: missing {dict(want - got)}, extra {dict(got - want)}")
            elif abs(Descriptors.HeavyAtomMolWt(ms) - Descriptors.HeavyAtomMolWt(v.mol)) > 1e-6:
                bad.append(f"MolGen.smiles has heavy-atom mass {Descriptors.HeavyAtomMolWt(ms)}, MolGen.mol {Descriptors.HeavyAtomMolWt(v.mol)}")
    except Exception as e:  # noqa
        bad.append(f"MolGen.smiles raised {type(e).__name__}: {str(e)[:60]}")
    return bad


def element_blocks(v, run):
    """residues grouped by the element that wrote their token: list of (element index, [residue ids]); None if ambiguous"""
    from gbigsmiles.token import SmilesToken

    owner = {}
    amb = set()
    for ei, e in enumerate(run.mol._elements):
        ts = [e] if isinstance(e, SmilesToken) else list(e.repeat_tokens) + list(e.end_tokens)
        for t in ts:
            s = str(t)
            if s in owner and owner[s] != ei:
                amb.add(s)
            owner.setdefault(s, ei)
    seq = []
    for r in v.nodes:
        s = v.g.graph.nodes[r]["big_smiles"]
        if s in amb:
            return None
        seq.append(owner.get(s))
    return seq


def oracle_c07(v, run):
    """stop rule read off the residue masses in creation order and the recorded draws"""
    from rdkit.Chem import Descriptors
    from gbigsmiles.stochastic import Stochastic
    from gbigsmiles.token import SmilesToken

    bad = []
    seq = element_blocks(v, run)
    if seq is None or None in seq:
        return None  # same token text in two elements: blocks cannot be told apart from the result alone
    masses = [Descriptors.HeavyAtomMolWt(f) for f in v.frags]
    stoch = [ei for ei, e in enumerate(run.mol._elements) if isinstance(e, Stochastic)]
    if len(run.targets) != len(stoch):
        bad.append(f"{len(run.targets)} draws for {len(stoch)} stochastic objects")
        return bad
    for T, ei in zip(run.targets, stoch):
        e = run.mol._elements[ei]
        rs = [r for r in v.nodes if seq[r] == ei]
        if not rs:
            bad.append(f"element {ei}: no residue")
            continue
        end_strs = {str(t) for t in e.end_tokens}
        rep_strs = {str(t) for t in e.repeat_tokens}
        # growth residues come first (after a possible start end group when this is the first element without prefix),
        # capping residues (end tokens) last
        body = list(rs)
        if ei == 0 and str(e.left_terminal) == "[]":
            body = body[1:]
        # units = maximal prefix of body made of repeat tokens (lists can also pick end tokens; then we cannot tell: skip)
        units = []
        for r in body:
            if v.g.graph.nodes[r]["big_smiles"] in rep_strs:
                units.append(r)
            else:
                break
        if any(v.g.graph.nodes[r]["big_smiles"] in rep_strs for r in body[len(units):]):
            return None  # repeat unit after an end group: explicit lists, creation order is not growth order
        if has_lists(e):
            continue  # an explicit list may select an end group as a growth step: not decidable from the result alone (tie K covers it)
        if len(units) < 1:
            bad.append(f"element {ei}: no repeat unit was added")
            continue
        cum = list(itertools.accumulate(masses[r] for r in units))
        tol = 1e-7 * max(1.0, abs(T))
        if any(abs(c - T) <= tol for c in cum):
            return None  # at the threshold: float comparison decides
        for j, c in enumerate(cum[:-1]):
            if c > T:
                bad.append(f"element {ei}: growth continued after unit {j + 1} although added mass {c:.4f} > target {T:.4f} (units {len(cum)})")
                break
        later = any(seq[r] is not None and seq[r] > ei for r in v.nodes)
        if cum[-1] <= T and (len(body) > len(units) or later or len(v.g.bond_descriptors) > 0):
            bad.append(f"element {ei}: growth stopped after {len(cum)} units with added mass {cum[-1]:.4f} <= target {T:.4f} although descriptors were still open")
    return bad


def has_lists(e):
    return e.left_terminal.transitions is not None or any(bd.transitions is not None for t in list(e.repeat_tokens) + list(e.end_tokens) for bd in t.bond_descriptors)


def replay(case, oracle):
    """re-run one stored case (string, seed / script, forced targets) on the current tree"""
    c = case.get("case") or {}
    print("replay:", case.get("what"))
    if "text" not in c:
        print(case)
        return 1
    if str(c.get("mode", "")).startswith("element by element"):
        r = stepwise_observed(c["text"], c.get("seed", 0))
        print("element by element with the accessors read in between:", r)
        return 1 if (r is None or r[0] or r[1]) else 0
    if c.get("script") is not None:
        r = gl.ImplRun(c["text"], 0, script=c["script"], forced_targets=c.get("forced_targets"))
    else:
        r = gl.ImplRun(c["text"], c.get("seed", 0), forced_targets=c.get("forced_targets"))
    print("implementation: picks", r.picks, "targets", r.targets, "error", r.error)
    mo = gl.run_model([gl.model_line(r.mol, r.picks, r.targets)])[0]
    d = gl.compare(r, mo) if not gl.near_threshold(mo) else []
    print("model vs implementation:", d or "agree")
    bad = []
    if r.gen is not None:
        bad = oracle(View(r), r) or []
        print("oracle:", bad or "holds")
    return 1 if (bad or d) else 0


def stepwise_observed(text, seed):
    """Generate element by element -- exactly what Molecule.generate does -- but read every accessor of the growing molecule between
    the elements.  Returns (c05_bad, c10_bad): an accessor that does not describe the molecule held at that moment (C05), and a final
    molecule that differs from the one-shot generation with the same seed because accessors were read (C10).  None when the input
    cannot be generated at all."""
    import gbigsmiles
    import numpy as np
    from rdkit import Chem
    from rdkit.Chem import Descriptors

    try:
        with fw.time_limit(60):
            one = gbigsmiles.Molecule(text).generate(rng=np.random.default_rng(seed))
            m2 = gbigsmiles.Molecule(text)
            rng = np.random.default_rng(seed)
            g = None
            c05, c10 = [], []
            for i, el in enumerate(m2._elements):
                g = el.generate(g, rng)
                s, w = g.smiles, float(g.weight)
                _ = (g.fully_generated, g.graph.number_of_nodes())
                ref = Chem.MolToSmiles(g.mol)
                if s != ref:
                    c05.append(f"after element {i} of {len(m2._elements)}: .smiles = {s!r} but the molecule held (.mol) is {ref!r}")
                ms = Chem.MolFromSmiles(s)
                if ms is not None and abs(Descriptors.HeavyAtomMolWt(ms) - w) > 1e-6 * max(1.0, w):
                    c05.append(f"after element {i}: heavy-atom mass of .smiles {Descriptors.HeavyAtomMolWt(ms):.3f} != .weight {w:.3f}")
            if one is None or g is None:
                return None
            a, b = Chem.MolToSmiles(one.mol), Chem.MolToSmiles(g.mol)
            if a != b:
                c10.append(f"same string, same seed: one-shot generation gives {a}, element-by-element generation with the accessors read in between gives {b}")
            if one.smiles != g.smiles:
                c10.append(f"same string, same seed: .smiles is {one.smiles!r} after one-shot generation and {g.smiles!r} when it was also read while the molecule grew")
            return c05, c10
    except Exception:  # not generable, scipy draw failure, time limit: decided elsewhere
        return None
