"""Structured description of stochastic objects / molecules / systems for C02 (and C01): built from token ASTs (tokast), printed
by an independent printer with whitespace variation, together with the structure the notation denotes."""
import random

import tokast

FAMS = {"gauss": lambda r: (r.choice([100, 250.5, 1500]), r.choice([5, 20.25])), "uniform": lambda r: (r.choice([12, 100]), r.choice([172, 300])),
        "schulz_zimm": lambda r: (r.choice([1500, 4500.0]), r.choice([1000, 1400])), "log_normal": lambda r: (r.choice([50, 800]), r.choice([1.1, 1.5])),
        "poisson": lambda r: (r.choice([65, 300]),), "flory_schulz": lambda r: (r.choice([0.1, 0.25, 9e-2]),)}
NUMFMT = [lambda x: repr(float(x)), lambda x: str(int(x)) if float(x).is_integer() else repr(float(x)), lambda x: ("%e" % x) if float("%e" % x) == float(x) else repr(float(x))]


class MolGenAst:
    def __init__(self, rnd):
        self.r = rnd
        self.tg = tokast.Gen(rnd, max_depth=2)

    def ws(self):
        return self.r.choice(["", "", " ", "  "])

    def unit(self, syms, ident, n_bd=2):
        """a token chain whose descriptors are exactly: leading syms[0], trailing syms[1] (a linear repeat unit)"""
        r = self.r
        body = [it for it in self.tg.chain(1, False, r.randrange(1, 4)) if it[0] != "bd"]
        body = [it if it[0] != "branch" else ("branch", [x for x in it[1] if x[0] != "bd"] or [("atom", "", "C", [])]) for it in body]
        w = lambda: r.choice(["", "", "|2|", "|0.5|", "|3.5|"])
        ch = [("bd", "", syms[0], ident, w())] + body
        if n_bd > 1:
            ch.append(("bd", "", syms[1], ident, w()))
        return ch

    def end(self, sym, ident):
        r = self.r
        body = [("atom", "", r.choice(["[H]", "C", "O", "F", "Cl", "[Si]"]), [])]
        return [("bd", "", sym, ident, r.choice(["", "", "|2|"]))] + body if r.random() < 0.7 else body + [("bd", "", sym, ident, "")]

    def dist(self):
        r = self.r
        fam = r.choice(sorted(FAMS))
        args = FAMS[fam](r)
        return fam, args, fam + "(" + ("," + self.ws()).join(r.choice(NUMFMT)(a) for a in args) + ")"

    def stochastic(self, left_open, right_open):
        r = self.r
        a, b = r.choice([("$", "$"), ("<", ">"), (">", "<")])
        conj = {"$": "$", "<": ">", ">": "<"}
        ident = r.choice(["", "", "1", "12", "0"])
        reps = [self.unit((a, b), ident) for _ in range(r.choice([1, 2, 3]))]
        ends = [self.end(r.choice([conj[a], conj[b]]), ident) for _ in range(r.choice([0, 1, 2]))]
        if not left_open or not right_open:
            ends = ends or [self.end(conj[a], ident), self.end(conj[b], ident)]
        left = "[" + conj[a] + ident + "]" if left_open else "[]"
        right = "[" + conj[b] + ident + "]" if right_open else "[]"
        fam, args, dtext = self.dist()
        text = "{" + left + self.ws() + ("," + self.ws()).join(tokast.print_chain(c) for c in reps)
        if ends:
            text += self.ws() + ";" + self.ws() + ("," + self.ws()).join(tokast.print_chain(c) for c in ends)
        text += self.ws() + right + "}" + "|" + dtext + "|"
        return text, dict(left=left, right=right, reps=reps, ends=ends, family=fam, args=args)

    def molecule(self):
        r = self.r
        n = r.choice([1, 1, 2, 3])
        parts = []
        struct = []
        first_open = r.random() < 0.7
        for k in range(n):
            lo = first_open if k == 0 else True
            ro = True if k < n - 1 else r.random() < 0.7
            if k == 0 and lo:
                pre = r.choice(["C", "CC", "[H]", "OC", "c1ccccc1C"])
                parts.append(pre)
                struct.append(("tok", pre))
            elif k > 0 and r.random() < 0.5:
                con = r.choice(["CC", "COOC", "C"])
                parts.append(con)
                struct.append(("tok", con))
            t, s = self.stochastic(lo, ro)
            parts.append(t)
            struct.append(("stoch", s))
            if k == n - 1 and ro:
                suf = r.choice(["C", "[H]", "O", "CO", "[Br]"])
                parts.append(suf)
                struct.append(("tok", suf))
        return "".join(parts), struct
