"""Structured generator of G-BigSMILES inputs by archetype.  Every random choice derives from the
random.Random instance passed in; each case carries its own sub-seed so that it replays alone."""
import random

# repeat units with two descriptors: {a} and {b} are replaced by descriptor texts
UNITS2 = [
    "{a}CC{b}", "{a}CC({b})c1ccccc1", "{a}C(C){b}", "{a}CC(C(=O)OC){b}", "{a}OCC{b}", "{a}C(=O)CCCCC(=O){b}",
    "{a}NCCCCCCN{b}", "{a}[Si](C)(C)O{b}", "{a}CC(Cl){b}", "{a}Cc1ccc(C{b})cc1", "{a}CC(C#N){b}", "{a}C(F)(F)C(F)(F){b}",
    "{a}CC(c1ccc2ccccc2c1){b}", "{a}CC([NH3+]){b}", "{a}C{b}", "{a}CC(O{b})C", "{a}C(N)C{b}", "{a}CSC{b}", "{a}CC(Br){b}",
    "{a}C([13CH3])C{b}", "{a}c1ccc({b})cc1", "{a}CC(=O)OC{b}",
    # hetero-aromatic rings: every lower-case ring atom (s, o, n) is an atom of its own, also BEFORE the atom a descriptor binds to
    "{a}c1scc(c1)CC{b}", "{a}c1sc({b})cc1", "{a}Cc1nc(cs1)C{b}", "{a}c1ccc(o1)C{b}", "{a}Cc1cncc(c1){b}",
]
# branching units with three descriptors
UNITS3 = ["{a}C(C{b})(C{c})", "{a}CC(CC{b})(CC{c})", "{a}N(CC{b})CC{c}", "{a}c1cc({b})cc({c})c1", "{a}C(C{b})C{c}"]
ENDS = ["{a}[H]", "{a}C", "{a}O", "{a}[Br]", "{a}F", "{a}N(C)C", "{a}C(=O)O", "{a}c1ccccc1", "{a}OC", "{a}CCCC", "{a}Cl", "{a}[Si](C)(C)C", "C(C)(C){a}", "OC{a}", "{a}S"]
PREFIX = ["C", "CC", "[H]", "OC", "CCOC(=O)C(C)(C)", "c1ccccc1C", "N", "F", "CCCC", "OCC", "[Br]C", "C[Si](C)(C)", "NC"]
SUFFIX = ["C", "[H]", "O", "[Br]", "F", "CC", "CO", "N", "c1ccccc1", "C(C)CC(c1ccccc1)c1ccccc1", "[Si](C)(C)C", "OC"]
CONNECT = ["CC", "COOC", "C", "CC[Si]CC", "OCCO", "c1ccc(cc1)", "CCN(C)CC"]
NUMFMT = [lambda x: repr(float(x)), lambda x: str(int(x)) if float(x).is_integer() else repr(float(x)),
          lambda x: (str(int(x)) + ".") if float(x).is_integer() else repr(float(x)),
          lambda x: repr(float(x)).lstrip("0") if 0 < float(x) < 1 else repr(float(x)),
          lambda x: ("%e" % float(x)) if float("%e" % float(x)) == float(x) else repr(float(x))]


class Gen:
    def __init__(self, rnd, small=True, trailing_dot=False, family=None):
        self.r = rnd
        self.small = small
        self.family = family  # force one distribution family (C18: schulz_zimm)
        # "2." directly before a '|' is taken for a mixture specifier by Molecule/System (finding C01-c):
        # generation-level checks avoid that number format, C01/C02 use it
        self.fmts = NUMFMT if trailing_dot else [f for k, f in enumerate(NUMFMT) if k != 2]

    # ---- pieces
    def num(self, x):
        return self.r.choice(self.fmts)(x)

    def ws(self):
        return self.r.choice(["", "", "", " "])

    def dist(self, mean=None):
        r = self.r
        mean = mean or r.choice([40, 80, 150, 300] if self.small else [100, 500, 2000])
        fam = r.choice(["gauss", "gauss", "uniform", "schulz_zimm", "log_normal", "poisson", "flory_schulz"])
        fam = self.family or fam
        if fam == "gauss_wide":      # sigma larger than the mean: a good share of the draws is negative
            return f"|gauss({self.num(mean)},{self.ws()}{self.num(mean * r.choice([1.5, 2.5]))})|"
        if fam == "gauss":
            return f"|gauss({self.num(mean)},{self.ws()}{self.num(r.choice([1, mean * 0.1, mean * 0.4]))})|"
        if fam == "uniform":
            lo = int(mean * r.choice([0.2, 0.5, 0.9]))
            return f"|uniform({lo},{self.ws()}{lo + int(mean * r.choice([0.2, 1.0]))})|"
        if fam == "schulz_zimm":
            mn = mean
            return f"|schulz_zimm({self.num(int(mn * r.choice([1.05, 1.3, 1.8])))},{self.ws()}{self.num(mn)})|"
        if fam == "log_normal":
            return f"|log_normal({self.num(mean)},{self.ws()}{self.num(r.choice([1.05, 1.2, 1.6]))})|"
        if fam == "poisson":
            return f"|poisson({self.num(mean)})|"
        return f"|flory_schulz({self.num(r.choice([0.1, 0.2, 0.35, 0.06]))})|"

    def bd(self, sym, ident="", weight=None, lst=None):
        s = "[" + sym + str(ident)
        if lst is not None:
            s += "|" + " ".join(self.num(x) for x in lst) + "|"
        elif weight is not None:
            s += "|" + self.ws() + self.num(weight) + self.ws() + "|"
        return s + "]"

    def weight(self):
        return self.r.choice([None, None, None, 1, 2, 0.5, 3, 10.5, 0.25])

    def pair(self):
        """(left symbol of a unit, right symbol) for a linear chain: $/$ or </>"""
        return self.r.choice([("$", "$"), ("<", ">"), (">", "<")])

    def ident(self):
        return self.r.choice(["", "", "", "", 1, 2, 7, 12, 23, 0])     # 0 is a written id like any other ([$0] is not [$])

    # ---- stochastic objects
    def linear_object(self, left_open, right_open, n_units=None, ends=True, ident=None, pair=None):
        """a linear chain object; left_open/right_open: terminals non-empty (prefix/suffix expected)"""
        r = self.r
        a, b = pair or self.pair()
        ident = self.ident() if ident is None else ident
        n_units = n_units or r.choice([1, 1, 2, 2, 3])
        units = []
        for _ in range(n_units):
            t = r.choice(UNITS2)
            units.append(t.format(a=self.bd(a, ident, self.weight()), b=self.bd(b, ident, self.weight())))
        conj = {"$": "$", "<": ">", ">": "<"}
        egs = []
        need = set()
        if not left_open:
            need.add(conj[a])            # the start group bonds to the a side
        if not right_open:
            need.add(conj[b])            # open b descriptors are capped
            if not left_open:
                need.add(conj[a])
        if left_open and right_open and ends:
            need.add(r.choice([conj[a], conj[b]]))
        for s in sorted(need):
            for _ in range(r.choice([1, 1, 2])):
                egs.append(r.choice(ENDS).format(a=self.bd(s, ident, self.weight())))
        # the prefix's open descriptor must *equal* the left terminal and is conjugate to what it bonds to;
        # a chain written a...b grows from a descriptor conj(a)
        left = self.bd(conj[a], ident) if left_open else "[]"
        # a weight on the right terminal has no effect on generation; it must survive printing and re-parsing next to a connector token
        right = self.bd(conj[b], ident, r.choice([None, None, 3, 0.5])) if right_open else "[]"
        body = left + self.ws() + ("," + self.ws()).join(units)
        if egs:
            body += self.ws() + ";" + self.ws() + ("," + self.ws()).join(egs)
        return "{" + body + self.ws() + right + "}" + self.dist(), (conj[a], conj[b], ident)

    def homopolymer(self):
        r = self.r
        lo, ro = r.choice([(True, True), (True, True), (False, False), (True, False), (False, True)])
        obj, (la, rb, ident) = self.linear_object(lo, ro, n_units=1)
        return (r.choice(PREFIX) if lo else "") + obj + (r.choice(SUFFIX) if ro else "")

    def random_copolymer(self):
        r = self.r
        lo, ro = r.choice([(True, True), (False, False), (True, False)])
        obj, _ = self.linear_object(lo, ro, n_units=r.choice([2, 3]))
        return (r.choice(PREFIX) if lo else "") + obj + (r.choice(SUFFIX) if ro else "")

    def block_copolymer(self):
        r = self.r
        n = r.choice([2, 2, 3])
        s = r.choice(PREFIX)
        pair = self.pair()
        for k in range(n):
            connector = k < n - 1 and r.random() < 0.6
            self._pair = pair
            obj, _ = self.linear_object(True, True, n_units=r.choice([1, 2]), ends=r.random() < 0.3, ident="", pair=pair)
            s += obj
            if connector:
                s += r.choice(CONNECT)
                pair = self.pair()
        return s + r.choice(SUFFIX)

    def alternating(self):
        """explicit transition lists force strict alternation (SI style)"""
        r = self.r
        u1, u2 = r.sample(UNITS2, 2)
        w = r.choice([1, 3, 7])
        # descriptors: 0 <A 1 >A 2 <B 3 >B ; >A must go to <B (idx 2), >B to <A (idx 0); <X entries mirror
        t1 = u1.format(a=self.bd("<", "", lst=[0, 0, 0, w]), b=self.bd(">", "", lst=[0, 0, w, 0]))
        t2 = u2.format(a=self.bd("<", "", lst=[0, w, 0, 0]), b=self.bd(">", "", lst=[w, 0, 0, 0]))
        return r.choice(PREFIX) + "{[>]" + t1 + ", " + t2 + " [<]}" + self.dist() + r.choice(SUFFIX)

    def markov_copolymer(self):
        """transition lists with two positive entries per row: the next unit is a genuinely random pick along the list"""
        r = self.r
        u1, u2 = r.sample(UNITS2, 2)
        p, q, p2, q2 = (r.choice([1, 2, 0.5, 3]) for _ in range(4))
        # descriptors: 0 <A 1 >A 2 <B 3 >B ; a '>' may go to either '<' (idx 0 or 2), a '<' to either '>' (idx 1 or 3)
        t1 = u1.format(a=self.bd("<", "", lst=[0, p, 0, q]), b=self.bd(">", "", lst=[p, 0, q, 0]))
        t2 = u2.format(a=self.bd("<", "", lst=[0, p2, 0, q2]), b=self.bd(">", "", lst=[q2, 0, p2, 0]))
        return r.choice(PREFIX) + "{[>]" + t1 + ", " + t2 + " [<]}" + self.dist() + r.choice(SUFFIX)

    def list_handover(self):
        """an object whose growing descriptor carries a transition list, DIRECTLY followed (no connector token) by an object without lists:
        the descriptor that stays open at the hand-over must take the second object's left terminal weight, not keep its list"""
        r = self.r
        u1, u2, u3 = r.sample(UNITS2, 3)
        p, q = r.choice([1, 2, 0.5, 3]), r.choice([1, 2, 3])
        tA = u1.format(a=self.bd("<", "", lst=[0, p]), b=self.bd(">", "", lst=[q, 0]))
        tB1 = u2.format(a=self.bd("<", "", self.weight()), b=self.bd(">", "", self.weight()))
        tB2 = u3.format(a=self.bd("<", "", r.choice([None, 0, 3])), b=self.bd(">", "", self.weight()))
        return r.choice(PREFIX) + "{[>]" + tA + " [<]}" + self.dist() + "{[>]" + self.ws() + tB1 + ", " + tB2 + " [<]}" + self.dist() + r.choice(SUFFIX)

    def branched_list_endgroup(self):
        """a branching unit whose descriptors all carry a list with weight on a HEAVY end group: growth steps may attach end groups while other
        arms stay open; every such residue counts towards the drawn mass"""
        r = self.r
        w = r.choice([1, 2, 3])
        lst = [1, 1, 1, w]
        d = lambda: self.bd("$", "", lst=lst)
        unit = r.choice(["{a}CC({b}){c}", "{a}C({b})C{c}", "{a}CC({b})C{c}"]).format(a=d(), b=d(), c=d())
        eg = r.choice(["[$]Br", "[$]Cl", "[$]OC", "[$]c1ccccc1"])
        fam = r.choice(["uniform", "gauss"])
        dist = f"|uniform({self.num(150)},{self.ws()}{self.num(400)})|" if fam == "uniform" else f"|gauss({self.num(250)},{self.ws()}{self.num(40)})|"
        return "{[]" + unit + "; " + eg + "[]}" + dist

    def mixed_arms_handover(self):
        """a branching unit that leaves open descriptors of BOTH kinds ('<' and '>') when the object hands over through a non-empty right terminal"""
        r = self.r
        unit = r.choice(["[<]CC([>])[>]", "[<]C([>])C[>]", "[<]CC([>])C[>]"])
        second = r.choice(["", ", [<]C([<])C[>]"])
        ends = "[<][H]" + (", [>]Cl" if second or r.random() < 0.5 else "")
        tail = r.choice(["O", "CO", "F"]) if r.random() < 0.6 else "{[<] [<]C(F)C[>]; [>]Br []}" + self.dist(r.choice([80, 150]))
        return r.choice(["N", "C", "OC"]) + "{[<] " + unit + second + "; " + ends + " [>]}" + self.dist(r.choice([80, 150])) + tail

    def chain_stopper(self):
        """a mono-functional unit listed among the REPEAT units: a growth step may consume the last open descriptor (the 'premature end' of
        the growth loop), at any step, long before the drawn mass is reached"""
        r = self.r
        a, b, c = r.choice([("<", ">", ">"), (">", "<", "<"), ("$", "$", "$")])
        unit = r.choice(["{a}CC{b}", "{a}C(C)C{b}", "{a}CC(F){b}", "{a}COC{b}"]).format(a=self.bd(a), b=self.bd(b, "", self.weight()))
        stopper = self.bd(c, "", r.choice([0.25, 0.5, 1, 2])) + r.choice(["Cl", "Br", "OC", "N(C)C"])
        second = r.choice(["", "", ", " + r.choice(["{a}C(N)C{b}", "{a}CC(=O){b}"]).format(a=self.bd(a), b=self.bd(b))])
        cap = self.bd(c) + r.choice(["[H]", "O", "S"])
        mean = r.choice([150, 300, 400])
        dist = f"|gauss({self.num(mean)},{self.ws()}{self.num(20)})|" if r.random() < 0.6 else f"|uniform({self.num(mean // 2)},{self.ws()}{self.num(mean)})|"
        return r.choice(["F", "C", "CO", "N"]) + "{" + self.bd(a) + " " + unit + second + ", " + stopper + "; " + cap + " []}" + dist

    def lone_zero_weight(self):
        """a pick whose ONLY compatible candidate has weight 0 (the growing end of a head-to-tail chain, the single start end group, the last
        open descriptor at capping): equal weights -- a single one included -- mean a uniform pick, so it is taken with probability 1"""
        r = self.r
        k = r.choice([0, 1, 2, 3])
        u = r.choice(["CC(C)", "CC", "COC", "C(F)C"])
        if k == 0:      # growing end of weight 0
            return r.choice(["[H]", "C", "N"]) + "{[>] [<]" + u + "[>|0|] [<]}" + self.dist(r.choice([80, 150])) + r.choice(["O", "F", "CO"])
        if k == 1:      # the single start end group has weight 0
            return "{[] [$]" + u + "[$] ; [$|0|]" + r.choice(["O", "N", "Cl"]) + " []}" + self.dist(r.choice([60, 120]))
        if k == 2:      # '<' end of weight 0 met from the other side: the only candidate for the growing '>' ... and a weighted capping group
            return r.choice(["C", "CO"]) + "{[<] [>]" + u + "[<|0|]; [>]" + r.choice(["[H]", "F"]) + " []}" + self.dist(r.choice([80, 150]))
        # two-descriptor end group whose only compatible descriptor has weight 0
        return "{[] [<]" + u + "[>]; [>|0|]" + r.choice(["OC", "N"]) + ", [<]" + r.choice(["[H]", "Cl"]) + " []}" + self.dist(r.choice([80, 150]))

    def twin_units(self):
        """two repeat units with the SAME text but different transition lists: a unit is what stands at its position, not its text"""
        r = self.r
        u = r.choice(["CC", "CC(C)", "COC", "CC(Cl)"])
        a, b, c, d = [r.choice([0, 1, 2, 3, 5]) for _ in range(4)]
        if a + b == 0:
            a = 1
        if c + d == 0:
            d = 2
        if (a, b) == (c, d):
            c, d = d + 1, c
        return r.choice(["C", "[H]", "CCOC(=O)C(C)(C)"]) + "{[>] [<]" + u + f"[>|{a} 0 {b} 0|], [<]" + u + f"[>|{c} 0 {d} 0|] [<]}}" + self.dist(r.choice([150, 300])) + \
            r.choice(["[Br]", "F", "[H]"])

    def labelled_units(self):
        """isotope-labelled hydrogens written BEFORE the atom a descriptor binds to: RDKit keeps them as atoms of the fragment, so they count"""
        r = self.r
        u = r.choice(["C([2H])([2H])C([2H])([2H])", "C([2H])C", "C([3H])([2H])C(C)", "C([2H])([2H])C(c1ccccc1)"])
        if r.random() < 0.5:
            return r.choice(["C", "[H]"]) + "{[$] [$]" + u + "[$] [$]}" + self.dist(r.choice([60, 120])) + r.choice(["C", "O"])
        return "[H]{[>] [<]" + u + "[>] [<]}" + self.dist(r.choice([100, 200])) + "[H]"

    def mixed_id_zero(self):
        """descriptors without id next to descriptors with the id 0 in one object: two classes that never bond with each other"""
        r = self.r
        return "{[] [$]" + r.choice(["CC", "CC(C)"]) + "[$], [$0]" + r.choice(["OCC", "NCC"]) + "[$0]; [$]" + r.choice(["F", "[H]"]) + ", [$0]" + r.choice(["Cl", "O"]) + " []}" + \
            self.dist(r.choice([100, 200]))

    def step_growth(self):
        r = self.r
        aa = r.choice(["[<]C(=O)CCCCC(=O)[<]", "[<]C(=O)c1ccc(cc1)C(=O)[<]", "[<]OCCO[<]"])
        bb = r.choice(["[>]NCCCCCCN[>]", "[>]OCCO[>]", "[>]Nc1ccc(N[>])cc1"])
        return "{[]" + aa + "," + self.ws() + bb + "; [<][H], [>]O []}" + self.dist()

    def star(self):
        r = self.r
        arms = r.choice([3, 3, 4])
        hub = {3: "[$]C(C[<])(C[<])", 4: "[$]C(C[<])(C[<])(C[<])"}[arms]
        unit = r.choice(["[>]CC[<]", "[>]CC(C)[<]", "[>]OCC[<]"])
        return "[H]{[$] " + hub + ", " + unit + "; [>][H] []}" + self.dist()

    def graft(self):
        r = self.r
        u3 = r.choice(UNITS3).format(a="[$]", b="[$]", c="[$]")
        u2 = r.choice(UNITS2).format(a="[$]", b="[$]")
        e = r.choice(ENDS).format(a="[$]")
        w = self.r.choice(["", "", "|0.3|", "|2|"])
        u3 = u3.replace("[$]", "[$" + w + "]", 1)
        return r.choice(PREFIX) + "{[$]" + u3 + "," + u2 + "; " + e + "[$]}" + self.dist(r.choice([40, 80])) + r.choice(SUFFIX)

    def end_initiated(self):
        r = self.r
        a, b = r.choice([("<", ">"), ("$", "$")])
        conj = {"$": "$", "<": ">", ">": "<"}
        units = [r.choice(UNITS2).format(a=self.bd(a, "", self.weight()), b=self.bd(b, "", self.weight())) for _ in range(r.choice([1, 2]))]
        egs = [r.choice(ENDS).format(a=self.bd(conj[a], "", self.weight()))]
        if conj[b] != conj[a]:
            egs.append(r.choice(ENDS).format(a=self.bd(conj[b], "", self.weight())))
        if r.random() < 0.4:
            egs.append(r.choice(ENDS).format(a=self.bd(r.choice([conj[a], conj[b]]), "", self.weight())))
        return "{[]" + ", ".join(units) + "; " + ", ".join(egs) + "[]}" + self.dist()

    def two_ids(self):
        """hyper-branched with a second descriptor id"""
        return self.r.choice([
            "[H]{[$][$]C(C[<])(C[<])(C[<2]), [>]CC[<], [>2]OCO[<2]; [>][H], [>2]O []}" + self.dist(),
            "[H]{[$][$]C(C[<7])(C[<7])(C[<]), [>7]CC(C)[<7], [>]OCC[<]; [>7][H], [>]F []}" + self.dist(),
        ])

    def defective_list(self):
        """a transition list that puts positive weight on an INCOMPATIBLE descriptor (itself, a wrong id, a wrong symbol):
        the pick of that entry must end in an error, never in a bond (C04 / C15)"""
        r = self.r
        u = r.choice(["CC(C)", "CC", "OCC", "CC(c1ccccc1)"])
        kind = r.choice(["self", "self", "id", "end"])
        w = r.choice([1, 2, 5])
        if kind == "self":      # descriptors: 0 [<]unit  1 [>|..|]unit  2 [<][H]  3 [>][H]
            lst = [19, w, 0, 0]
            return "C{[>] [<]" + u + self.bd(">", "", lst=lst) + "; [<][H], [>][H] []}" + self.dist(r.choice([80, 150]))
        if kind == "id":        # 0 [<]  1 [>|..|]  2 [<2]X  3 [>2]  4 [<][H] 5 [>][H]: weight on the id-2 descriptor
            lst = [9, 0, w, 0, 0, 0]
            return "C{[>] [<]" + u + self.bd(">", "", lst=lst) + ", [<2]N[>2]; [<][H], [>][H] []}" + self.dist(r.choice([80, 150]))
        lst = [9, 0, 0, w]      # weight on the end group of the same symbol
        return "C{[>] [<]" + u + self.bd(">", "", lst=lst) + "; [<][H], [>][H] []}" + self.dist(r.choice([80, 150]))

    def plain(self):
        return self.r.choice(["CCO", "CCCCC", "c1ccccc1", "OCC(O)CO", "CC(=O)O", "[NH4+]", "C1CCCCC1"])

    ARCHETYPES = ["homopolymer", "random_copolymer", "block_copolymer", "alternating", "step_growth", "star", "graft",
                  "end_initiated", "two_ids", "defective_list", "markov_copolymer", "list_handover", "branched_list_endgroup", "mixed_arms_handover", "chain_stopper", "lone_zero_weight",
                  "twin_units", "labelled_units", "mixed_id_zero"]

    def molecule(self, archetype=None):
        a = archetype or self.r.choice(self.ARCHETYPES)
        return a, getattr(self, a)()


def cases(seed, n, archetypes=None, small=True, family=None):
    """n (archetype, text, subseed) cases"""
    master = random.Random(seed)
    out = []
    for i in range(n):
        sub = master.randrange(1 << 30)
        g = Gen(random.Random(sub), small=small, family=family)
        arche = None if archetypes is None else archetypes[i % len(archetypes)]
        if archetypes is None:
            arche = Gen.ARCHETYPES[i % len(Gen.ARCHETYPES)]
        a, t = g.molecule(arche)
        out.append((a, t, sub))
    return out


DOCUMENTED = [
    # strings quoted in README.md, SI.md and tests/ that are single molecules and generable on the pinned tree
    "CC{[$][$]CC[$],[$|2|]C(O)C[$]; [$][H][$]}|gauss(160,35)|O",
    "[H]{[$][$]C(C[<])(C[<])(C[<2]), [>]CC[<], [>2]OCO[<2]; [>][H], [>2]O []}|gauss(200, 50)|",
    "CCOC(=O)C(C)(C){[>][<|0 0 0 1|]CC([>|0 0 1 0|])c1ccccc1, [<|0 1 0 0|]CC([>|1 0 0 0|])C(=O)OC [<]}|schulz_zimm(1000, 900)|[Br]",
    "C{[$|1 2|][$]CC[$][$]}|gauss(30,1)|C",
    "{[][<]C(=O)CCCCC(=O)[<],[>]NCCCCCCN[>]; [<][H], [>]O []}|flory_schulz(1e-1)|",
    "NC{[$][$]C[$][$]}|uniform(12, 72)|COOC{[$][$]C[$][$]}|uniform(12, 72)|CO",
    "[H]{[$] [$]C(C[<])(C[<])(C[<]), [>]CC[<]; [>][H] []}|gauss(200, 50)|",
    "C{[$][$]CC(CC[$])(CC[$]),[$]CC[$]; [$][H][$]}|flory_schulz(1e-1)|[H]",
    "OCC{[<][<]C(N)C[>], [<]CC(C(=O)C[<])[>] ;[H][>] [>]}|gauss(50, 10)|CC[Si]",
    "[H]{[<][<]C(N)C[>]; [>]CO []}|uniform(500, 600)|",
    "{[][<]C(N)C[>]; [<][H], [>]CO []}|uniform(500, 600)|",
    "OC{[>] [<]CC[>], [<|.5|]C(N[>|.1 0 0 0 0 0 0|])C[>]; [<][H], [<]C [<]}|schulz_zimm(500, 400)|COOC{[<] [<]COC[>], [<]C(ON)C[>] [>]}|schulz_zimm(500, 450)|{[<] [<]COCOC[>], [<]CONOC[>] [>]}|schulz_zimm(170, 160)|F",
    "{[] CC([$])=NCC[$]; [H][$][]}|schulz_zimm(1000, 900)|",
    "CCCCC",
]
