"""Static closability analysis `well_posed` (DESIGN.md section 7/C06) over an abstract view of a parsed
molecule.  Conservative: it rejects some molecules that do complete; C06 is only claimed for those it accepts."""
from fractions import Fraction as Fr

import genlayer as gl


def D(bd):
    return dict(sym=bd.descriptor, id=bd.descriptor_id, w=Fr(float(bd.weight)),
                tr=None if bd.transitions is None else [Fr(float(t)) for t in bd.transitions],
                order=int(bd.bond_type))


def T(tok):
    ok, nat, mass = gl.token_data(tok)
    return dict(text=str(tok), natoms=nat, mass=mass, bds=[D(b) for b in tok.bond_descriptors], generable=bool(tok.generable) and ok)


def S(st):
    return dict(left=D(st.left_terminal), right=D(st.right_terminal), leftstr=st.left_terminal.generate_string(False),
                rightstr=str(st.right_terminal), rep=[T(t) for t in st.repeat_tokens], end=[T(t) for t in st.end_tokens],
                generable=bool(st.generable))


def abstract(m):
    from gbigsmiles.token import SmilesToken

    return [("tok", T(e)) if isinstance(e, SmilesToken) else ("st", S(e)) for e in m._elements]


def compat(a, b):
    if a["order"] != b["order"] or a["id"] != b["id"] or a["sym"] == "" or b["sym"] == "":
        return False
    return (a["sym"], b["sym"]) in (("$", "$"), ("<", ">"), (">", "<"))


def noext(d):
    return "[" + d["sym"] + str(d["id"]) + "]"


def law(w):
    if len(w) > 0 and all(x == w[0] for x in w):
        w = [x + 1 for x in w]
    s = sum(w)
    if s == 0:
        return [Fr(0) for _ in w]
    return [x / s for x in w]


def kind(d):
    return (d["sym"], d["id"], d["order"], d["w"], None if d["tr"] is None else tuple(d["tr"]))


def asd(k):
    return dict(sym=k[0], id=k[1], order=k[2], w=k[3], tr=None if k[4] is None else list(k[4]))


def pos(cands):
    if not cands:
        return []
    return [i for i, x in enumerate(law([c["w"] for c in cands])) if x > 0]


def well_posed(elems, why=None):
    def fail(msg):
        if why is not None:
            why.append(msg)
        return False

    n = len(elems)
    if n == 0:
        return fail("empty")
    O = None
    for ei, (k, e) in enumerate(elems):
        last = ei == n - 1
        if k == "tok":
            if not e["generable"] or any(b["w"] < 0 for b in e["bds"]):
                return fail("M token")
            if O is None:
                if len(e["bds"]) != (0 if last else 1):
                    return fail("E first token descriptor count")
                O = "closed" if last else {kind(b) for b in e["bds"]}
            elif O == "closed":
                return fail("E element after closed molecule")
            else:
                if len(e["bds"]) - 1 != (0 if last else 1):
                    return fail("E token descriptor count")
                newO = set()
                for c in O:
                    idx = [j for j, b in enumerate(e["bds"]) if compat(asd(c), b)]
                    if not idx:
                        return fail("E token has no compatible descriptor")
                    for jj in pos([e["bds"][j] for j in idx]):
                        newO |= {kind(b) for j2, b in enumerate(e["bds"]) if j2 != idx[jj]}
                O = "closed" if last else newO
            continue
        st = e
        if not st["generable"]:
            return fail("M stochastic not generable")
        rep = [b for t in st["rep"] for b in t["bds"]]
        end = [b for t in st["end"] for b in t["bds"]]
        tokof = [("rep", t) for t in st["rep"] for _ in t["bds"]] + [("end", t) for t in st["end"] for _ in t["bds"]]
        allb = rep + end
        if any(b["w"] < 0 for b in allb):
            return fail("M negative weight")
        if any(not t["generable"] or not t["mass"] > 0 for t in st["rep"]):
            return fail("M repeat token")
        if any(not t["generable"] for t in st["end"]):
            return fail("M end token")
        if O == "closed":
            return fail("E element after closed molecule")

        def end_token_of(b):
            return [t for t in st["end"] if any(x is b for x in t["bds"])][0]

        if O is None:
            if st["leftstr"] != "[]":
                return fail("E no prefix but left terminal")
            if not end:
                return fail("E no end group to start")
            entry = set()
            for jj in pos(end):
                if len(end_token_of(end[jj])["bds"]) != 1:
                    return fail("E start end token not single")
                entry.add(kind(end[jj]))
        else:
            entry = set()
            for c in O:
                if noext(asd(c)) != st["leftstr"]:
                    return fail("E prefix descriptor != left terminal")
                entry.add((c[0], c[1], c[2], st["left"]["w"], None if st["left"]["tr"] is None else tuple(st["left"]["tr"])))
        inv = None
        if st["rightstr"] != "[]":
            inv = dict(st["right"])
            inv["order"] = 1
        elif not last:
            return fail("E [] right terminal but elements follow")

        def TC(kd):
            return inv is not None and compat(inv, asd(kd))

        def partners(kd):
            d = asd(kd)
            if d["tr"] is not None:
                if len(d["tr"]) != len(allb):
                    return None, "G list length"
                if any(x < 0 for x in d["tr"]) or sum(d["tr"]) <= 0:
                    return None, "G list sum"
                if any(x > 0 and not compat(allb[j], d) for j, x in enumerate(d["tr"])):
                    return None, "G list reaches incompatible"
                return [j for j, x in enumerate(d["tr"]) if x > 0], None
            idx = [j for j, b in enumerate(rep) if compat(d, b)]
            if not idx:
                return None, "G no compatible repeat descriptor"
            return [idx[jj] for jj in pos([rep[j] for j in idx])], None

        K = set(entry)
        work = list(entry)
        adm = {}
        Ktok = set()
        while work:
            kd = work.pop()
            ps, msg = partners(kd)
            if ps is None:
                return fail(msg)
            adm[kd] = ps
            for j in ps:
                where, t = tokof[j]
                if where == "end" and len(t["bds"]) != 1:
                    return fail("C end token not single (list)")
                for b in t["bds"]:
                    if b is not allb[j]:
                        kb = kind(b)
                        Ktok.add(kb)
                        if kb not in K:
                            K.add(kb)
                            work.append(kb)
        if inv is not None:
            for kd in K:
                for j in adm[kd]:
                    rest = [b for b in tokof[j][1]["bds"] if b is not allb[j]]
                    if (kd in entry or TC(kd)) and not any(TC(kind(b)) for b in rest):
                        return fail("T terminal-compatible descriptor may vanish")
        linear = inv is not None and all(tokof[j][0] == "rep" and len(tokof[j][1]["bds"]) == 2 for kd in K for j in adm[kd])
        if not linear:
            for kd in Ktok:
                idx = [j for j, b in enumerate(end) if compat(asd(kd), b)]
                if not idx:
                    return fail("C no end group for an open class")
                for jj in pos([end[j] for j in idx]):
                    if len(end_token_of(end[idx[jj]])["bds"]) != 1:
                        return fail("C capping end token not single")
        if inv is None:
            O = "closed"
        else:
            O = {kd for kd in Ktok if TC(kd)}
            if not O:
                return fail("T nothing terminal-compatible")
    if O != "closed":
        return fail("E molecule ends with an open descriptor")
    return True
