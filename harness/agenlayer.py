"""Atom-graph generation: runs of graph_generate.AtomGraph under a recording / scripted generator, the extracted
Coq model (Model/AGen.v, driver command 'agen') on the same graph, picks and draws, and the implementation-level
oracle of C18 (whole residues, links along non-static edges, tree, sanitisable, deterministic)."""
import warnings
from fractions import Fraction as Fr

import networkx as nx

import framework as fw
from rng import NeedPick, RecRNG

warnings.simplefilter("ignore")


def frs(x):
    f = Fr(float(x))
    return f"{f.numerator}/{f.denominator}"


class AGRun:
    """one run of the implementation; script = pick positions (None: PRNG of the seed); forced = scripted draws (None: real draws)"""

    def __init__(self, sag, seed=0, script=None, forced=None, timeout=60):
        import gbigsmiles
        import gbigsmiles.graph_generate as gg

        self.draws = []
        self.need = None
        self.need_p = None
        self.error = None
        self.timed_out = False
        self.draw_failed = False
        orig = gg.SchulzZimm.draw_mw
        left = None if forced is None else list(forced)
        run = self

        def wrap(dist, rng=None):
            if left is None:
                try:
                    v = orig(dist, rng)
                except Exception:
                    # scipy's generic discrete ppf gives up for some quantiles: the Schulz-Zimm draw itself fails (C11's known finding),
                    # no molecule is attempted -- outside what C18 speaks about
                    run.draw_failed = True
                    raise
            else:
                if not left:
                    raise NeedTargetErr()
                v = left.pop(0)
            run.draws.append(float(v))
            return v

        gg.SchulzZimm.draw_mw = wrap
        fill_orig = gg.AtomGraph._fill_static_edges
        uid = [0]

        def fill(agself, cur):
            # mark, inside the graph itself (so that the swap-back discards the marks with the atoms), which atoms one static completion
            # produced and which bonds it added: that is the residue instance
            before_n = set(agself.graph.nodes)
            before_e = {frozenset(e) for e in agself.graph.edges}
            fill_orig(agself, cur)
            uid[0] += 1
            for n in (set(agself.graph.nodes) - before_n) | {cur}:
                agself.graph.nodes[n].setdefault("_inst", []).append(uid[0])
            for e in agself.graph.edges:
                if frozenset(e) not in before_e:
                    agself.graph.edges[e]["_static"] = True

        gg.AtomGraph._fill_static_edges = fill
        try:
            self.rng = RecRNG(seed, script=script)
            self.ag = gbigsmiles.AtomGraph(sag, rng=self.rng)
            try:
                with fw.time_limit(timeout):
                    self.ag.generate()
            except NeedPick as e:
                self.need, self.need_p = e.n, e.p
            except NeedTargetErr:
                self.need = -1
            except (TimeoutError, fw.Timeout):
                self.timed_out = True
            except Exception as e:  # noqa
                self.error = e
        finally:
            gg.SchulzZimm.draw_mw = orig
            gg.AtomGraph._fill_static_edges = fill_orig

    @property
    def picks(self):
        return [l[2] for l in self.rng.log]

    def nodes(self):
        return [d["stochastic_node"] for _, d in sorted(self.ag.graph.nodes(data=True))]

    def edges(self):
        """(a, b, order, 'S' if added by a static completion else 'L')"""
        return sorted((min(a, b), max(a, b), int(d["bond_type"]), "S" if d.get("_static") else "L") for a, b, d in self.ag.graph.edges(data=True))

    def inst(self):
        """per atom the first atom of the static completion it belongs to (itself if none)"""
        first = {}
        out = []
        for n, d in sorted(self.ag.graph.nodes(data=True)):
            m = d.get("_inst")
            out.append(first.setdefault(m[0], n) if m else n)
        return out


class NeedTargetErr(Exception):
    pass


def static_from_sag(ag):
    """the static bonds of the stochastic atom graph, built by the harness itself from the graph handed to AtomGraph (not read from
    AtomGraph.static_graph, which is the implementation's own product): one undirected bond per pair of atoms that has a static
    multi-edge, with THAT edge's bond type, in the order of the graph's edge iteration (this fixes networkx's adjacency order)"""
    if getattr(ag, "_verif_static", None) is None:
        G = ag.stochastic_graph
        SG = nx.Graph()
        SG.add_nodes_from(G.nodes())
        for u, v in G.edges():
            valid = next((d for d in G.get_edge_data(u, v).values() if d["static_weight"] != 0), None)
            if valid is not None and not SG.has_edge(u, v):
                SG.add_edge(u, v, bond_type=valid["bond_type"])
        ag._verif_static = SG
    return ag._verif_static


def graph_fields(ag):
    """the oracle data handed to the model: per stochastic node its mass, (Mw, Mn) key, out-edge lists by kind in networkx order,
    static adjacency in networkx order; the static bonds; the start node"""
    from gbigsmiles.chem_resource import atomic_masses

    G = ag.stochastic_graph
    order = list(G.nodes())
    idx = {n: i for i, n in enumerate(order)}
    keys = {}
    nodes = []
    for n in order:
        d = G.nodes[n]
        key = keys.setdefault((d["mw"], d["mn"]), len(keys))
        T, E, S = [], [], []
        for _, v, ed in G.out_edges(n, data=True):
            if ed["transition_weight"] != 0:
                T.append(f"{idx[v]}:{int(ed['bond_type'])}:{frs(ed['transition_weight'])}")
            if ed["termination_weight"] != 0:
                E.append(f"{idx[v]}:{int(ed['bond_type'])}:{frs(ed['termination_weight'])}")
            if ed["stochastic_weight"] != 0:
                S.append(f"{idx[v]}:{int(ed['bond_type'])}:{frs(ed['stochastic_weight'])}")
        adj = ",".join(str(idx[m]) for m in static_from_sag(ag).adj[n])
        nodes.append("|".join([frs(atomic_masses[d["atomic_num"]]), str(key), "0", ",".join(T), ",".join(E), ",".join(S), adj]))
    statics = ",".join(f"{idx[u]}:{idx[v]}:{int(d['bond_type'])}" for u, v, d in static_from_sag(ag).edges(data=True))
    start = ag._find_start_source()
    return ";".join(nodes), statics, (None if start is None else idx[start]), idx


def model_line(ag, picks, draws):
    nodes, statics, start, idx = graph_fields(ag)
    if start is None:
        return None
    return "\t".join(["agen", nodes, statics, str(start), ",".join(str(k) for k in picks), ",".join(frs(d) for d in draws)])


def parse_model(out):
    """'done nodes=.. edges=.. mw=.. trace=.. picks_left=.. targets_left=..' -> dict"""
    parts = out.split(" ")
    if parts[0] != "done":
        return {"r": out}
    d = dict(p.split("=", 1) for p in parts[1:])
    return {"r": "done", "nodes": [int(x.split("@")[0]) for x in d["nodes"].split(",") if x], "inst": [int(x.split("@")[1]) for x in d["nodes"].split(",") if x],
            "edges": sorted((min(int(a), int(b)), max(int(a), int(b)), int(bt), k) for a, b, bt, k in (e.split("-") for e in d["edges"].split(";") if e)),
            "mw": [Fr(x) for x in d["mw"].split(",") if x], "trace": [x for x in d["trace"].split(",") if x],
            "picks_left": int(d["picks_left"]), "targets_left": int(d["targets_left"])}


def near_threshold(ag_run, tol=1e-7):
    """a draw within float noise of an accumulated element mass: the exact-rational model may decide the comparison differently"""
    for m in ag_run.ag.mw:
        for t in ag_run.draws:
            if abs(m - t) <= tol * max(1.0, abs(t)):
                return True
    return False


def oracle(ag_run, idx):
    """C18 on the implementation's output; returns a list of (what, detail, tag)"""
    from rdkit import Chem

    ag = ag_run.ag
    out = []
    G = ag.graph
    SG = static_from_sag(ag)
    MG = ag.stochastic_graph
    if G.number_of_nodes() == 0:
        return [("no atoms generated", None, None)]
    if not nx.is_connected(G):
        out.append(("the generated molecule is not connected", nx.number_connected_components(G), None))
    comp_of = {}
    comps = [sorted(c) for c in nx.connected_components(SG)]
    for ci, c in enumerate(comps):
        for n in c:
            comp_of[n] = ci
    static_bt = {}
    for u, v, d in SG.edges(data=True):
        static_bt[(u, v)] = static_bt[(v, u)] = int(d["bond_type"])
    sn = {n: d["stochastic_node"] for n, d in G.nodes(data=True)}
    # residue instances: the atoms of one static completion (marked by the wrapper); an atom no completion touched is alone
    groups = {}
    for n, d in G.nodes(data=True):
        marks = d.get("_inst")
        if marks is not None and len(marks) > 1:
            out.append((f"atom {n} belongs to {len(marks)} static completions", None, None))
        groups.setdefault(("i", marks[0]) if marks else ("single", n), []).append(n)
    inst = [sorted(c) for c in groups.values()]
    inst_of = {n: i for i, c in enumerate(inst) for n in c}
    links = []
    internal = {}
    for a, b, d in G.edges(data=True):
        if d.get("_static") and inst_of[a] == inst_of[b]:
            internal.setdefault(inst_of[a], []).append((min(sn[a], sn[b]), max(sn[a], sn[b]), int(d["bond_type"])))
        else:
            links.append((a, b, int(d["bond_type"])))
            if inst_of[a] == inst_of[b]:
                out.append((f"bond {a}-{b} closes a ring inside one residue instance without being a bond of its token", None, None))
    for i, c in enumerate(inst):
        token = comps[comp_of[sn[c[0]]]]
        got = sorted(sn[n] for n in c)
        if got != token:
            missing = sorted(set(token) - set(got))
            tag = "end_group_truncated" if len(c) == 1 and missing else None
            out.append((f"residue instance at atoms {c[:6]} holds stochastic nodes {[idx[x] for x in got[:8]]} but its token has {[idx[x] for x in token[:8]]}", [idx[x] for x in missing], tag))
            continue
        want = sorted((min(u, v), max(u, v), static_bt[(u, v)]) for u, v in SG.subgraph(token).edges())
        if want != sorted(internal.get(i, [])):
            out.append((f"residue instance at atoms {c[:6]} does not have exactly the internal bonds of its token", None, None))
    for a, b, bt in links:
        ok = False
        for u, v in ((sn[a], sn[b]), (sn[b], sn[a])):
            if MG.has_edge(u, v):
                for ed in MG.get_edge_data(u, v).values():
                    if ed["static_weight"] == 0 and int(ed["bond_type"]) == bt and (ed["stochastic_weight"] != 0 or ed["termination_weight"] != 0 or ed["transition_weight"] != 0):
                        ok = True
        if not ok:
            out.append((f"bond between residues {a}-{b} (order {bt}) joins stochastic nodes {idx[sn[a]]}, {idx[sn[b]]} with no non-static edge of that order between them", None, None))
    Q = nx.MultiGraph()
    Q.add_nodes_from(range(len(inst)))
    Q.add_edges_from((inst_of[a], inst_of[b]) for a, b, _ in links)
    if not (Q.number_of_edges() == len(inst) - 1 and nx.is_connected(Q)):
        out.append((f"{len(inst)} residues joined by {len(links)} bonds: not a tree", None, None))
    try:
        mol = ag.to_mol()
        if mol.GetNumAtoms() != G.number_of_nodes():
            out.append(("to_mol() atom count differs from the graph", None, None))
        if len(Chem.GetMolFrags(mol)) != 1:
            out.append(("to_mol() gives several fragments", None, None))
    except Exception as e:  # noqa
        trunc = any(t == "end_group_truncated" for _, _, t in out)
        out.append((f"to_mol() raises {type(e).__name__}: {str(e)[:80]}", None, "end_group_truncated" if trunc else None))
    return out, len(inst), len(links)


def explore(sag, forced, max_leaves=400, timeout=30):
    """all choice sequences of the implementation for the forced draws, depth first"""
    stack = [[]]
    leaves = []
    while stack:
        script = stack.pop()
        r = AGRun(sag, 0, script=script, forced=forced, timeout=timeout)
        if r.need is not None and r.need >= 0:
            for k in reversed(range(r.need)):
                if r.need_p is None or r.need_p[k] > 1e-200:
                    stack.append(script + [k])
        else:
            leaves.append((script, r))
            if len(leaves) >= max_leaves or sum(1 for _, x in leaves if x.timed_out) >= 3:
                return leaves, True
    return leaves, False
