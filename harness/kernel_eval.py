"""Kernel evaluation vs extracted code: the same model functions are evaluated (a) by coqc with vm_compute and (b) by the extracted OCaml
driver, on the same inputs; the .v file carries the driver's answers and the kernel computes the list of positions where its own answers
differ.  A check of the extraction and of the driver glue (not a proof)."""
import os
import re
import subprocess

import framework as fw
import layers


def coq_lit(s):
    if any(ord(c) < 32 or ord(c) > 126 for c in s):
        return None
    return 'lit "' + s.replace('"', '""') + '"'


def run(descrs, tokens, mols, tag="kernel"):
    """descrs: [(raw, pre)], tokens: [text], mols: [text]; returns dict(layer -> (n, mismatching positions)) or raises"""
    descrs = [d for d in descrs if coq_lit(d[0]) and coq_lit(d[1]) is not None]
    tokens = [t for t in tokens if coq_lit(t)]
    mols = [t for t in mols if coq_lit(t)]
    out_d = [fw.unhx(o) for o in fw.run_driver(["\t".join(["kdescr", fw.hx(r), fw.hx(p)]) for r, p in descrs])]
    val_t = [layers.valid_bracket_atoms(t) for t in tokens]
    out_t = [fw.unhx(o) for o in fw.run_driver(["\t".join(["ktoken", fw.hx(t), ",".join(fw.hx(v) for v in vs)]) for t, vs in zip(tokens, val_t)])]
    val_m = [layers.valid_bracket_atoms(t) for t in mols]
    out_m = [fw.unhx(o) for o in fw.run_driver(["\t".join(["kmol", fw.hx(t), ",".join(fw.hx(v) for v in vs)]) for t, vs in zip(mols, val_m)])]
    L = lambda xs: "[" + "; ".join(xs) + "]"
    v = ["From Coq Require Import List ZArith String.", "From GBS Require Import Model.PyStr Check.Show.", "Import ListNotations. Open Scope string_scope.",
         "Definition got_d := map (fun c => check_descr (fst c) (snd c)) " + L(f"({coq_lit(r)}, {coq_lit(p)})" for r, p in descrs) + ".",
         "Definition want_d := " + L(coq_lit(o) for o in out_d) + ".",
         "Definition got_t := map (fun c => check_token (fst c) (snd c)) " + L("(" + L(coq_lit(x) for x in vs) + f", {coq_lit(t)})" for t, vs in zip(tokens, val_t)) + ".",
         "Definition want_t := " + L(coq_lit(o) for o in out_t) + ".",
         "Definition got_m := map (fun c => check_mol (fst c) (snd c)) " + L("(" + L(coq_lit(x) for x in vs) + f", {coq_lit(t)})" for t, vs in zip(mols, val_m)) + ".",
         "Definition want_m := " + L(coq_lit(o) for o in out_m) + ".",
         "Eval vm_compute in (mismatches 0 got_d want_d, mismatches 0 got_t want_t, mismatches 0 got_m want_m)."]
    # one file per process: two checks of the same property may run at the same time
    stem = os.path.join(fw.BUILD, f"{tag}_cases_{os.getpid()}")
    path = stem + ".v"
    open(path, "w").write("\n".join(v) + "\n")
    try:
        p = subprocess.run(["bash", "-c", f"ulimit -s unlimited 2>/dev/null; timeout 600 coqc -Q {fw.COQ} GBS {path}"], stdout=subprocess.PIPE, stderr=subprocess.STDOUT, text=True, timeout=700)
    finally:
        for ext in (".v", ".vo", ".vok", ".vos", ".glob"):
            try:
                os.remove(stem + ext)
            except OSError:
                pass
        try:
            os.remove(os.path.join(fw.BUILD, "." + os.path.basename(stem) + ".aux"))
        except OSError:
            pass
    m = re.search(r"=\s*\((\[[^\]]*\]),\s*(\[[^\]]*\]),\s*(\[[^\]]*\])\)", p.stdout.replace("\n", " "))
    if p.returncode != 0 or not m:
        raise RuntimeError("kernel evaluation failed: " + p.stdout[-600:])
    pos = [[int(x) for x in re.findall(r"\d+", g)] for g in m.groups()]
    return {"descriptor": (len(descrs), pos[0], descrs), "token": (len(tokens), pos[1], tokens), "molecule": (len(mols), pos[2], mols)}
