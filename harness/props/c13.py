"""C13 -- Ensemble generation yields complete member molecules up to the system mass.

proof:          coq/Props/C13.v: the accumulate-until-system-mass loop for every stream of generated molecules
correspondence: System.generator under the recording generator vs the extracted loop model on the observed stream of
                (component, mass, fully generated?) -- where iteration stops / that it ends in an error at a molecule that is
                not fully generated; the guards of both entry points on non-generable systems
oracle/search:  yields all fully generated; each is an instance of the component that was picked (unique hetero atom per component);
                mass before the last molecule < system mass <= total; non-generable systems refuse generator and generate()
"""
import random

import framework as fw
import genlayer as gl
import sysrun


def stream_line(S, stream):
    """the loop model works in exact rationals; to reproduce the implementation's binary64 accumulation exactly it is fed the
    increments of the float partial sums (they telescope to the float sums)"""
    from fractions import Fraction as Fr

    acc = 0.0
    parts = []
    for c, w, f in stream:
        new = acc + w
        inc = Fr(new) - Fr(acc)
        parts.append(f"{c}:{inc.numerator}/{inc.denominator}:{'T' if f else 'F'}")
        acc = new
    return "\t".join(["sysloop", gl.fq(S), ",".join(parts)])


def check(rep):
    coq = fw.coq_check("C13", ["SrcSysGen"])
    quick = rep.tier == "quick"
    rnd = random.Random(rep.seed + 13)
    n_sys = 45 if quick else 2500
    evaluations = 0
    distinct = set()
    lines, runs = [], []
    hist = {}
    for _ in range(n_sys):
        text, smw, kinds, pct, S = sysrun.make_system(rnd, allow_open=True)
        seed = rnd.randrange(1 << 30)
        ident = {"text": text, "system_molweight": smw, "seed": seed}
        try:
            r = sysrun.SysRun(text, smw, seed)
        except Exception as e:  # noqa
            rep.fail("oracle", f"generable system could not be constructed: {type(e).__name__}: {e}", ident, expected="a system", observed=fw.exc_class(e))
            continue
        evaluations += 1
        if not r.system.generable:
            rep.fail("oracle", "determined system reported not generable", ident, expected="generable", observed="not generable")
            continue
        ys = r.yields
        has_open = "open" in kinds
        hist["open component" if has_open else "complete components"] = hist.get("open component" if has_open else "complete components", 0) + 1
        if r.error is not None and not isinstance(r.error, RuntimeError):
            if "Draw" in type(r.error).__name__ or fw.scipy_draw_failure(r.error):
                continue  # scipy's sampler failed: C11
            rep.fail("oracle", f"iteration failed with {type(r.error).__name__}: {str(r.error)[:100]}", ident, expected="molecules", observed=fw.exc_class(r.error))
            continue
        # oracle
        if any(not f for _, f, _ in ys):
            rep.fail("oracle", "a molecule that is not fully generated was yielded", ident, expected="only fully generated molecules", observed=[y[2] for y in ys if not y[1]][:3])
        tot = 0.0
        for k, (w, f, smi) in enumerate(ys):
            if tot >= r.S:
                rep.fail("oracle", f"molecule {k} was generated although the accumulated mass {tot} had reached the system mass {r.S}", ident,
                         expected="stop", observed=len(ys))
                break
            tot += w
        if r.error is None and tot < r.S:
            rep.fail("oracle", f"iteration stopped at accumulated mass {tot} < system mass {r.S}", ident, expected="continue", observed=len(ys))
        if r.error is not None:
            # only legitimate reason: the molecule generated last was not fully generated
            ci = r.calls[-1][0] if r.calls else None
            if ci is None or kinds[ci] != "open" or len(r.calls) != len(ys) + 1:
                rep.fail("oracle", f"iteration raised {str(r.error)[:80]} without a partially generated molecule", ident, expected="molecules", observed=str(r.error)[:100])
        elif len(r.calls) != len(ys):
            rep.fail("oracle", f"{len(r.calls)} molecules generated, {len(ys)} yielded", ident, expected="equal", observed=len(ys))
        for (ci, _), (w, f, smi) in zip(r.calls, ys):
            marks = [m for m in sysrun.MARK if sysrun._has(smi, m)]
            if marks != [sysrun.MARK[ci]]:
                rep.fail("oracle", f"yielded molecule {smi} is not an instance of the picked component {ci}", ident, expected=sysrun.MARK[ci], observed=marks)
                break
        # tie K: the loop model on the observed stream
        stream = [(ci, w, f) for (ci, _), (w, f, _) in zip(r.calls, ys)]
        if r.error is not None:
            stream.append((r.calls[-1][0], 1.0, False))
        lines.append(stream_line(r.S, stream))
        runs.append((ident, len(ys), "err" if r.error is not None else "stop"))
        if len(ys) > 1:
            distinct.add((text, seed))
    # ---- exact landing: the caller-supplied system mass is the accumulated mass after j molecules of a replayed run (same seed):
    # iteration must stop exactly there ("to the system mass or beyond")
    landing = 0
    for _ in range(12 if quick else 400):
        text, smw, kinds, pct, S = sysrun.make_system(rnd, allow_open=False)
        if "%|" not in text or any(("|" in part and "%" not in part) for part in text.split(".|")[1:]):
            continue          # needs a percent-only specification so that the caller's mass decides
        seed = rnd.randrange(1 << 30)
        try:
            r0 = sysrun.SysRun(text, 5000.0, seed)
        except Exception:
            continue
        if r0.error is not None or len(r0.yields) < 3:
            continue
        j = rnd.randrange(1, min(len(r0.yields), 8))
        acc = 0.0
        for w, _, _ in r0.yields[:j]:
            acc += w
        try:
            r1 = sysrun.SysRun(text, acc, seed)
        except Exception:
            continue
        evaluations += 1
        landing += 1
        ident = {"text": text, "system_molweight": acc, "seed": seed, "landing_after": j}
        if r1.error is None and len(r1.yields) != j:
            rep.fail("oracle", f"system mass {acc} is reached exactly by the first {j} molecules, but {len(r1.yields)} were yielded", ident, expected=j, observed=len(r1.yields))
        stream = [(ci, w, f) for (ci, _), (w, f, _) in zip(r1.calls, r1.yields)]
        lines.append(stream_line(acc, stream))
        runs.append((ident, len(r1.yields), "err" if r1.error is not None else "stop"))
    for (ident, ny, end), out in zip(runs, fw.run_driver(lines)):
        if out != f"{ny} {end}":
            rep.fail("correspondence", f"system loop: implementation yielded {ny} and ended with {end}, model: {out}", ident, expected=out, observed=f"{ny} {end}")
    # schedules: two (three) iterations of ONE system object alive at once, advanced in a random interleaving; each iteration, judged on
    # its own yields, is exactly the iteration obtained alone from a fresh object with the same generator seed
    import gbigsmiles
    import numpy as np
    interleaved = 0
    for _ in range(12 if quick else 400):
        text, smw, kinds, pct, S = sysrun.make_system(rnd, allow_open=False)
        seeds = [rnd.randrange(1 << 30) for _ in range(rnd.choice([2, 2, 3]))]

        def alone(seed):
            sysobj = gbigsmiles.System(text, system_molweight=smw)
            return [(round(float(m.weight), 6), m.smiles) for m in type(sysobj).generator.fget(sysobj, rng=np.random.default_rng(seed))]

        try:
            with fw.time_limit(240):
                want = [alone(sd) for sd in seeds]
                sysobj = gbigsmiles.System(text, system_molweight=smw)
                if not sysobj.generable:
                    continue
                gens = [type(sysobj).generator.fget(sysobj, rng=np.random.default_rng(sd)) for sd in seeds]
                got = [[] for _ in seeds]
                alive = list(range(len(seeds)))
                order = []
                while alive:
                    k = rnd.choice(alive)
                    order.append(k)
                    try:
                        m = next(gens[k])
                        got[k].append((round(float(m.weight), 6), m.smiles))
                    except StopIteration:
                        alive.remove(k)
                    if len(order) > 20000:
                        raise RuntimeError("harness: too many molecules")
        except Exception as e:  # noqa
            if fw.scipy_draw_failure(e):
                continue
            rep.fail("oracle", f"interleaved iterations of one system raised {type(e).__name__}: {str(e)[:80]}", {"text": text, "system_molweight": smw, "seeds": seeds, "mode": "interleaved"},
                     expected="molecules", observed=fw.exc_class(e))
            continue
        interleaved += 1
        evaluations += 1
        Sm = float(sysobj.system_mass)
        for k, sd in enumerate(seeds):
            tot = sum(w for w, _ in got[k])
            before = tot - (got[k][-1][0] if got[k] else 0.0)
            if got[k] != want[k] or not (before < Sm <= tot + 1e-9):
                rep.fail("oracle", f"iteration {k} of {len(seeds)} interleaved iterations of one system object yielded {len(got[k])} molecules (accumulated mass {tot:.2f}, system mass {Sm}); "
                         f"alone, with the same seed, it yields {len(want[k])}", {"text": text, "system_molweight": smw, "seeds": seeds, "order": order[:200], "mode": "interleaved"},
                         expected=f"{len(want[k])} molecules, mass {sum(w for w, _ in want[k]):.2f}", observed=f"{len(got[k])} molecules, mass {tot:.2f}")
                break
    # refusal of non-generable systems
    refusals = 0
    for text in ["CCOF.|50%|CCCCl.|50%|", "CCOF.|20%|CCCCl.|30%|CCCBr", "CCOF.|100|CCCCl", "CCOF.|40%|CCCCl.|60%|", "CCCF",
                 # masses known, but one component has a stochastic object without distribution
                 "CCO.|50%|NC{[>][<]CC[>][<]}CN.|500|", "NC{[>][<]CC[>][<]}CN.|50%|CCO.|500|",
                 "CCO.|40%|NC{[>][<]CC[>][<]}CN.|20%|OC{[>][<]CC[>][<]}|uniform(12, 48)|CO.|600|", "NC{[>][<]CC[>][<]}CN.|500|"]:
        try:
            s = gbigsmiles.System(text)
        except Exception:
            continue
        # every probe is not generable BY CONSTRUCTION (unknown masses, or a component without distribution): the flag must say so ...
        if s.generable:
            rep.fail("oracle", f"system {text} reports generable although it is not (unknown masses or a component that cannot be generated)", {"text": text, "call": "generable"},
                     expected="generable == False", observed="True")
        refusals += 1
        # ... and neither way of generating may hand out a molecule, whatever the random stream
        for sd in range(6):
            for name, fn in (("generator", lambda: next(type(s).generator.fget(s, rng=np.random.default_rng(sd)))), ("generate", lambda: s.generate(rng=np.random.default_rng(sd)))):
                try:
                    res = fn()
                    rep.fail("oracle", f"non-generable system {text} did not refuse {name}() (seed {sd}): returned {getattr(res, 'smiles', res)}", {"text": text, "call": name, "seed": sd},
                             expected="an error", observed=str(getattr(res, "smiles", res)))
                    break
                except Exception:
                    pass
    rep.coverage.update({"evaluations": evaluations + refusals, "distinct_nontrivial": len(distinct), "systems": evaluations, "non_generable_systems_tried": refusals,
                         "interleaved_schedules": interleaved, "molecules_yielded": sum(n for _, n, _ in runs), "exact_landing_systems": landing, "systems_by_kind": hist, "loop_runs_validated_against_model": len(runs),
                         "rule": "systems of 1-4 components (small molecules, four polymer archetypes, one never-complete polymer), each with its own hetero atom, "
                                 "system masses 400-6000, specifications {percent + one absolute, all absolute, percent + caller mass}; distinct_nontrivial = "
                                 "distinct (system, seed) that yielded >= 2 molecules",
                         "samples": [r[0] for r in runs[:3]]})
    rep.assumptions = ["molecule generation itself is C04-C08; here it is a stream of (component, mass, fully generated?)"]
    return fw.finish(rep, coq, fw.COMMON_TRUSTED + ["modelled, not verified: system.py:156-186 (Model/SysGen.v)"],
                     "make -C coq Props/C13.vo (coqc 8.16.1, full .vo build) + Print Assumptions audit")


def replay(case):
    c = case.get("case") or {}
    print("replay:", case.get("what"))
    if "call" in c:
        import gbigsmiles, numpy as np
        s = gbigsmiles.System(c["text"])
        try:
            print("generate() returned", s.generate(rng=np.random.default_rng(1)).smiles)
            return 1
        except Exception as e:
            print("refused:", e)
            return 0
    if c.get("mode") == "interleaved":
        import gbigsmiles, numpy as np
        text, smw, seeds = c["text"], c.get("system_molweight"), c["seeds"]
        alone = []
        for sd in seeds:
            so = gbigsmiles.System(text, system_molweight=smw)
            alone.append(len(list(type(so).generator.fget(so, rng=np.random.default_rng(sd)))))
        so = gbigsmiles.System(text, system_molweight=smw)
        gens = [type(so).generator.fget(so, rng=np.random.default_rng(sd)) for sd in seeds]
        got = [0] * len(seeds)
        alive = set(range(len(seeds)))
        order = list(c.get("order", [])) + [k for _ in range(20000) for k in range(len(seeds))]
        for k in order:
            if not alive:
                break
            if k not in alive:
                continue
            try:
                next(gens[k]); got[k] += 1
            except StopIteration:
                alive.discard(k)
        print("molecules per iteration, alone:", alone, "interleaved on one object:", got)
        return 0 if alone == got else 1
    r = sysrun.SysRun(c["text"], c.get("system_molweight"), c.get("seed", 0))
    print("yields", len(r.yields), "system mass", r.S, "total", sum(y[0] for y in r.yields), "error", r.error)
    return 1
