"""C17 -- The stochastic atom graph encodes all atoms, static bonds and admissible links.

proof:          coq/Props/C17.v over Model/AGraph.v: node count, static edges <-> internal bonds, links sound / complete / not from end groups
                for descriptors without list, transition edges sound; two REFUTATIONS (known findings)
correspondence: StochasticAtomGraph.graph (networkx MultiDiGraph) node count and every multi-edge vs the extracted model, for every molecule
                (with and without Schulz-Zimm distributions)
oracle/search:  the graph built independently from the parsed tokens and RDKit fragments: one node per atom with element, charge,
                aromaticity; static edges = internal bonds in both directions with their order; every other edge = attachment atoms of two
                compatible descriptors with the source's order and the stated weight kind; none missing; none leaving an end group
"""
import random

import agraphlayer as al
import framework as fw
import gen_inputs as gi
import genlayer as gl
import genrun


def spec_graph(mol):
    """expected nodes and edges from the property text, from parsed tokens + RDKit fragments"""
    from rdkit import Chem
    from gbigsmiles.bond import BondDescriptor, _create_compatible_bond_text
    from gbigsmiles.stochastic import Stochastic
    from gbigsmiles.token import SmilesToken

    nodes = []
    edges = set()
    layout = []      # per element: list of (token, offset, is_repeat)
    off = 0
    for e in mol._elements:
        toks = [(e, True)] if isinstance(e, SmilesToken) else [(t, True) for t in e.repeat_tokens] + [(t, False) for t in e.end_tokens]
        lay = []
        for t, isrep in toks:
            m = Chem.MolFromSmiles(t.generate_smiles_fragment())
            for a in m.GetAtoms():
                nodes.append((a.GetAtomicNum(), a.GetFormalCharge(), a.GetIsAromatic()))
            for b in m.GetBonds():
                x, y, ty = b.GetBeginAtomIdx(), b.GetEndAtomIdx(), int(b.GetBondType())
                edges.add((off + x, off + y, ty, "static", 1.0))
                edges.add((off + y, off + x, ty, "static", 1.0))
            lay.append((t, off, isrep))
            off += m.GetNumAtoms()
        layout.append(lay)
    lists = False
    for e, lay in zip(mol._elements, layout):
        if not isinstance(e, Stochastic):
            continue
        for t, o, isrep in lay:
            if not isrep:
                continue          # nothing leaves an end group
            for d in t.bond_descriptors:
                flat = [(t2, o2, r2, d2) for t2, o2, r2 in lay for d2 in t2.bond_descriptors]
                if d.transitions is not None:
                    lists = True
                    for (t2, o2, r2, d2), p in zip(flat, d.transitions):
                        if genrun.rule_compatible(d, d2) and float(p) > 0:
                            edges.add((o + int(d.atom_bonding_to), o2 + int(d2.atom_bonding_to), int(d.bond_type), "stochastic" if r2 else "termination", float(p)))
                    continue
                for t2, o2, r2, d2 in flat:
                    if genrun.rule_compatible(d, d2) and float(d2.weight) > 0:
                        edges.add((o + int(d.atom_bonding_to), o2 + int(d2.atom_bonding_to), int(d.bond_type), "stochastic" if r2 else "termination", float(d2.weight)))
    for k in range(len(mol._elements) - 1):
        L, R = mol._elements[k], mol._elements[k + 1]
        for tl, ol, repl in layout[k]:
            if isinstance(L, Stochastic) and not repl:
                continue          # nothing leaves an end group
            for dl in tl.bond_descriptors:
                for tr, orr, repr_ in layout[k + 1]:
                    if isinstance(R, Stochastic) and not repr_:
                        continue
                    for dr in tr.bond_descriptors:
                        if not genrun.rule_compatible(dl, dr):
                            continue
                        ok = True
                        if isinstance(R, Stochastic):
                            inv = BondDescriptor(_create_compatible_bond_text(R.left_terminal), 0, "", None)
                            ok = ok and genrun.rule_compatible(inv, dr)
                        if isinstance(L, Stochastic):
                            inv = BondDescriptor(_create_compatible_bond_text(L.right_terminal), 0, "", None)
                            ok = ok and genrun.rule_compatible(inv, dl)
                        if ok:
                            w = float(dr.weight)
                            edges.add((ol + int(dl.atom_bonding_to), orr + int(dr.atom_bonding_to), int(dl.bond_type), "transition" if w != 0 else "none", w))
    return nodes, edges, layout, lists


def graph_dump(G):
    nodes = sorted((int(i), d.get("atomic_num"), d.get("formal_charge"), d.get("aromatic")) for i, d in G.nodes(data=True))
    edges = sorted((int(u), int(v), int(d["bond_type"]), tuple(sorted((k, float(x)) for k, x in d.items() if k.endswith("_weight")))) for u, v, d in G.edges(data=True))
    return nodes, edges


def rebuilt_graph_differs(mol, expect):
    """the graph is a function of the molecule: building it again on the same object (generate() is public and is what the constructor
    calls) must give the same nodes and edges.  Returns a description of the first difference or None."""
    sag = mol.gen_stochastic_atom_graph(expect)
    first = graph_dump(sag.graph)
    try:
        sag.generate()
    except Exception as e:  # noqa
        return f"second generate() on the same StochasticAtomGraph raised {type(e).__name__}: {str(e)[:60]}"
    second = graph_dump(sag.graph)
    if first == second:
        return None
    if first[0] != second[0]:
        return f"second generate() on the same StochasticAtomGraph: nodes {second[0][:3]}... instead of {first[0][:3]}..."
    return f"second generate() on the same StochasticAtomGraph: edges differ, e.g. {sorted(set(second[1]) ^ set(first[1]))[:2]}"


def check(rep):
    import gbigsmiles

    coq = fw.coq_check("C17", ["SrcBond", "SrcAGraph"])
    quick = rep.tier == "quick"
    rnd = random.Random(rep.seed + 17)
    texts = [("documented", t) for t in gi.DOCUMENTED] + [(a, t) for a, t, _ in gi.cases(rnd.randrange(1 << 30), 220 if quick else 10000)]
    texts += [("end_group_two_descriptors", "CC{[$][$]CC[$]; [$]OCCN[$]}|schulz_zimm(80,60)|O"),
              ("end_group_two_descriptors", "C{[<][>]CC[<]; [>]OC[<], [<][H] [>]}|schulz_zimm(90,60)|N")]
    evaluations = nn = ne = 0
    distinct = set()
    for arche, text in texts:
        ident = {"archetype": arche, "text": text}
        try:
            with fw.time_limit(20):
                mol = gbigsmiles.Molecule(text)
                if any(gl.token_data(t)[0] is False for t in genrun.tokens_of(mol)):
                    continue
        except Exception:
            continue
        sz = all(type(e.distribution).__name__ == "SchulzZimm" for e in mol._elements if hasattr(e, "distribution"))
        try:
            G, ie = al.impl_graph(mol, expect=bool(sz and mol.generable))
        except Exception as e:  # noqa
            rep.fail("oracle", f"stochastic atom graph raised {type(e).__name__}: {str(e)[:80]}", ident, expected="a graph", observed=fw.exc_class(e))
            continue
        evaluations += 1
        nm, me = al.model_graph(mol)
        me = sorted((u, v, bt, (k if w != 0 else "none"), w) for u, v, bt, k, w in me) if nm is not None else None
        close = lambda a, b: a[:4] == b[:4] and abs(a[4] - b[4]) <= 1e-9 * max(1, abs(b[4]))
        agree = nm == G.number_of_nodes() and me is not None and len(ie) == len(me) and all(close(a, b) for a, b in zip(ie, me))
        if not agree:
            rep.fail("correspondence", f"atom graph layer: nodes {G.number_of_nodes()} vs model {nm}; edges only in implementation {sorted(set(ie) - set(me or []))[:3]}, "
                     f"only in model {sorted(set(me or []) - set(ie))[:3]}", ident, expected=f"{nm} nodes, {len(me or [])} edges", observed=f"{G.number_of_nodes()} nodes, {len(ie)} edges")
        nodes, want, layout, lists = spec_graph(mol)
        nn += len(nodes)
        ne += len(ie)
        got_nodes = [(G.nodes[i]["atomic_num"], G.nodes[i]["formal_charge"], G.nodes[i]["aromatic"]) if i in G else None for i in range(len(nodes))]
        if G.number_of_nodes() != len(nodes) or got_nodes != nodes:
            rep.fail("oracle", f"nodes: {G.number_of_nodes()} for {len(nodes)} atoms, or element/charge/aromaticity differ", ident, expected=len(nodes), observed=G.number_of_nodes())
            continue
        got = set(ie)
        end_atoms = set()
        rep_atoms = set()
        for e, lay in zip(mol._elements, layout):
            for t, o, isrep in lay:
                n_at = gl.token_data(t)[1]
                (rep_atoms if isrep or e is t else end_atoms).update(range(o, o + n_at))
        for x in sorted(got - want):
            tags = set()
            if agree and x[0] in end_atoms and x[3] in ("transition", "none"):
                tags = {"transition_leaves_end_group"}
            elif agree and lists and (x[3] == "termination" or (x[3] == "stochastic" and x[1] in end_atoms)):
                tags = {"list_descriptor_termination_duplicate"}
            rep.fail("oracle", f"edge {x[0]} -> {x[1]} ({x[3]}, weight {x[4]}, order {x[2]}) is not an admissible link of the notation", {**ident, "edge": list(x)},
                     expected="absent", observed=list(x), tags=tags)
        for x in sorted(want - got):
            # multi-edges with identical attributes collapse in the set view: compare on the underlying pair
            rep.fail("oracle", f"admissible link {x[0]} -> {x[1]} ({x[3]}, weight {x[4]}) is missing", {**ident, "edge": list(x)}, expected=list(x), observed="absent",
                     tags={"list_descriptor_termination_duplicate"} if (agree and lists and x[3] in ("stochastic", "termination")) else set())
        try:
            why = rebuilt_graph_differs(mol, bool(sz and mol.generable))
        except Exception as e:  # noqa
            why = f"rebuilding the graph raised {type(e).__name__}"
        if why:
            rep.fail("oracle", why, {**ident, "history": "gen_stochastic_atom_graph(); .generate()"}, expected="the same graph", observed="another graph")
        if len(ie) > 4:
            distinct.add(text)
    rep.coverage.update({"evaluations": evaluations, "distinct_nontrivial": len(distinct), "nodes_checked": nn, "edges_checked": ne,
                         "rule": "documented strings + structured generator (10 archetypes) + two molecules whose end groups carry two descriptors; with Schulz-Zimm "
                                 "distributions (expect=True) where the input has them, otherwise expect=False; distinct_nontrivial = distinct molecules with > 4 edges",
                         "samples": [{"text": t} for _, t in texts[:2] + texts[-1:]]})
    rep.assumptions = ["token fragments (atoms, internal bonds) are RDKit oracle data on both sides", "networkx MultiDiGraph container semantics"]
    return fw.finish(rep, coq, fw.COMMON_TRUSTED + ["modelled, not verified: stochastic_atom_graph.py (Model/AGraph.v), compared node count and edge by edge on every run"],
                     "make -C coq Props/C17.vo (coqc 8.16.1, full .vo build) + Print Assumptions audit")


def replay(case):
    import gbigsmiles
    c = case.get("case") or {}
    print("replay:", case.get("what"))
    mol = gbigsmiles.Molecule(c["text"])
    G, ie = al.impl_graph(mol, False)
    nodes, want, layout, lists = spec_graph(mol)
    print("not admissible:", sorted(set(ie) - want)[:6])
    print("missing:", sorted(want - set(ie))[:6])
    print("rebuilt on the same object:", rebuilt_graph_differs(mol, False))
    return 1
