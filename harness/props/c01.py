"""C01 -- Canonical notation round-trips: fixed point, same object, extensions erasable.

proof:          coq/Props/C01.v: printing without extensions IS the erasure of every |...| segment of the canonical string, for every
                rendering built from bar-free chunks and extension segments (descriptor, token, object, molecule, system printers are such
                renderings); descriptor printer/parser round trip on the complete finite universe of C03 (kernel computation); PARTIAL: the
                round trip for all strings of the upper layers is not a theorem
correspondence: descriptor and token printers (both forms) vs the implementation on every generated text (as C02/C03)
oracle/search:  on the implementation: s1 = str(P(s)); P(s1) accepted; str(P(s1)) == s1; same object (elements, tokens, descriptors, weights,
                distributions, mixture); identical molecule under one seed; generate_string(False) == s1 with every |...| erased, no '|',
                keeps all tokens / descriptors; for single molecules it is accepted again and denotes the same tokens and descriptors
"""
import json
import os
import random
import re

import numpy as np

import framework as fw
import gen_inputs as gi
import genlayer as gl
import molast
import tokast


_erase_cache = {}


def erase_ext(s):
    """the erasure of every |...| segment, evaluated with the EXTRACTED Coq function erase_ext (Model/Render.v); the Python regex is
    only a cross-check of the glue"""
    if s not in _erase_cache:
        out = fw.unhx(fw.run_driver(["erase\t" + fw.hx(s)])[0])
        if s.count("|") % 2 == 0 and out != re.sub(r"\|[^|]*\|", "", s):
            raise RuntimeError("erase_ext glue mismatch on " + repr(s))
        _erase_cache[s] = out
    return _erase_cache[s]


def dump_descr(b):
    return (b.descriptor, str(b.descriptor_id), float(b.weight), None if b.transitions is None else tuple(float(x) for x in b.transitions),
            gl.order_name(b.bond_type), getattr(b, "atom_bonding_to", None))


def dump_token(t, weights=True):
    ds = [dump_descr(b) for b in t.bond_descriptors]
    if not weights:
        ds = [(d[0], d[1], d[4], d[5]) for d in ds]
    return ("tok", t.generate_string(False), tuple(ds))


def dump_mol(m, weights=True):
    from gbigsmiles.token import SmilesToken

    out = []
    for e in m._elements:
        if isinstance(e, SmilesToken):
            out.append(dump_token(e, weights))
        else:
            lt, rt = dump_descr(e.left_terminal), dump_descr(e.right_terminal)
            if not weights:
                lt, rt = (lt[0], lt[1]), (rt[0], rt[1])
            out.append(("stoch", lt, rt, tuple(dump_token(t, weights) for t in e.repeat_tokens), tuple(dump_token(t, weights) for t in e.end_tokens),
                        (str(e.distribution) if e.distribution is not None else None) if weights else None))
    mix = None
    if weights and m.mixture is not None:
        mix = (m.mixture.absolute_mass, m.mixture.relative_mass)
    return (tuple(out), mix)


def dump_sys(s):
    return tuple(dump_mol(m) for m in s._molecules)


def same_dump(a, b, rel=1e-9):
    """structural equality; floats (weights, mixture masses -- one of which is re-derived by a division after re-parsing) up to a relative 1e-9"""
    if isinstance(a, float) or isinstance(b, float):
        if a is None or b is None or isinstance(a, str) or isinstance(b, str):
            return a == b
        return a == b or abs(float(a) - float(b)) <= rel * max(abs(float(a)), abs(float(b)))
    if isinstance(a, (tuple, list)) and isinstance(b, (tuple, list)):
        return len(a) == len(b) and all(same_dump(x, y, rel) for x, y in zip(a, b))
    return a == b


def classify_exc(e, stage):
    """trigger tags for the defects recorded in known_findings.json"""
    import traceback

    tb = traceback.extract_tb(e.__traceback__)
    where = [(os.path.basename(f.filename), f.name, f.line or "") for f in tb]
    tags = set()
    if isinstance(e, TypeError) and any(f == "molecule.py" and "bond_descriptors[0]" in l for f, _, l in where):
        tags.add("connector_descriptor_iteration")
    if isinstance(e, IndexError) and any(f == "molecule.py" and "stochastic_text[end_pos]" in l for f, _, l in where):
        tags.add("lookahead_past_end")
    if isinstance(e, RuntimeError) and "only has incompatible bond descriptors with previous element" in str(e):
        tags.add("connector_check_inverted")
    return tags


def roundtrip(rep, ctor, dump, text, ident, single_molecule, seed):
    """returns True if the text is accepted (the property's domain)"""
    try:
        with fw.time_limit(20):
            o = ctor(text)
    except Exception:
        return False
    s1 = str(o)
    try:
        with fw.time_limit(20):
            o1 = ctor(s1)
    except Exception as e:  # noqa
        rep.fail("oracle", f"canonical string {s1!r} (printed from {text!r}) is rejected on re-parsing: {type(e).__name__}: {str(e)[:70]}", {**ident, "canonical": s1},
                 expected="accepted", observed=fw.exc_class(e), tags=classify_exc(e, "reparse"))
        o1 = None
    if o1 is not None:
        s2 = str(o1)
        if s2 != s1:
            rep.fail("oracle", f"canonical string is not a fixed point: {s1!r} prints to {s2!r}", {**ident, "canonical": s1}, expected=s1, observed=s2)
        if not same_dump(dump(o), dump(o1)):
            rep.fail("oracle", f"re-parsed canonical string {s1!r} denotes a different object", {**ident, "canonical": s1}, expected=str(dump(o))[:300], observed=str(dump(o1))[:300])
        if hasattr(o, "generable") and o.generable and hasattr(o, "generate") and seed is not None:
            try:
                a = o.generate(rng=np.random.default_rng(seed))
                b = o1.generate(rng=np.random.default_rng(seed))
                if (a.smiles, round(float(a.weight), 6)) != (b.smiles, round(float(b.weight), 6)):
                    rep.fail("oracle", f"{text!r} and its canonical string generate different molecules under seed {seed}", {**ident, "canonical": s1, "seed": seed},
                             expected=a.smiles, observed=b.smiles)
            except Exception:
                pass
    ne = o.generate_string(False)
    if ne != erase_ext(s1).strip() and ne != erase_ext(s1):
        rep.fail("oracle", f"extension-free form {ne!r} is not the canonical string {s1!r} with every |...| erased", {**ident, "canonical": s1}, expected=erase_ext(s1), observed=ne)
    if "|" in ne:
        rep.fail("oracle", f"extension-free form {ne!r} contains '|'", {**ident, "canonical": s1}, expected="no '|'", observed=ne)
    if single_molecule and getattr(o, "mixture", None) is None:
        try:
            with fw.time_limit(20):
                o2 = ctor(ne)
            if dump_mol(o, False) != dump_mol(o2, False):
                rep.fail("oracle", f"extension-free form {ne!r} denotes other tokens / descriptors than {s1!r}", {**ident, "noext": ne}, expected=str(dump_mol(o, False))[:300],
                         observed=str(dump_mol(o2, False))[:300])
        except Exception as e:  # noqa
            rep.fail("oracle", f"extension-free form {ne!r} of {text!r} is rejected: {type(e).__name__}: {str(e)[:70]}", {**ident, "noext": ne}, expected="accepted",
                     observed=fw.exc_class(e), tags=classify_exc(e, "noext"))
    return True


def check(rep):
    import gbigsmiles
    from gbigsmiles.bond import BondDescriptor
    from gbigsmiles.token import SmilesToken

    coq = fw.coq_check("C01", ["SrcBond", "SrcDescr", "SrcDescrPrint", "SrcPrint"])
    quick = rep.tier == "quick"
    rnd = random.Random(rep.seed + 1)
    evaluations = accepted = 0
    distinct = set()
    by_layer = {}

    def run(layer, ctor, dump, text, single, seed=None, source=None):
        nonlocal evaluations, accepted
        evaluations += 1
        ok = roundtrip(rep, ctor, dump, text, {"layer": layer, "text": text, "source": source}, single, seed)
        accepted += ok
        by_layer[layer] = by_layer.get(layer, 0) + ok
        if ok:
            distinct.add((layer, text))

    # documented corpus first
    corpus = [json.loads(l) for l in open(os.path.join(fw.VERIF, "corpus", "documented.jsonl"))]
    for c in corpus:
        t = c["text"]
        if re.fullmatch(r"\[[$<>]?[^\]]*\]", t):
            run("descriptor", lambda x: BondDescriptor(x, 0, "", 0), dump_descr, t, False, source=c["source"])
        elif ".|" in t and not t.startswith(".|"):
            run("system", gbigsmiles.System, dump_sys, t, False, source=c["source"])
        if "{" in t:
            run("molecule", gbigsmiles.Molecule, dump_mol, t, True, seed=7, source=c["source"])
    # descriptors and tokens
    tg = tokast.Gen(rnd, max_depth=3)
    for _ in range(300 if quick else 20000):
        d = tg.bd()
        run("descriptor", lambda x: BondDescriptor(x, 0, d[1], 0), dump_descr, "[" + d[2] + d[3] + d[4] + "]", False)
    # scalar weights and list entries that need all their digits, very small and very large ones
    for t in ["[$|0.3333333333333333|]", "[<|0.123456789|]", "[>2|4e-09|]", "[$|1e-12|]", "[$|0.1 0.3333333333333333 1e-12|]", "[<7|12345678.123456789|]",
              "[$|2.5e-07 7.5e-07|]", "[>|1e+22|]", "[$|0.30000000000000004|]"]:
        run("descriptor", lambda x: BondDescriptor(x, 0, "", 0), dump_descr, t, False, source="digits")
    for t in ["[$||]", "[<1| |]", "[>|0|]", "[$12|1e1 .5|]", "[$|1_0|]"]:
        run("descriptor", lambda x: BondDescriptor(x, 0, "", 0), dump_descr, t, False, source="probe")
    for _ in range(600 if quick else 40000):
        run("token", lambda x: SmilesToken(x, 0, 0), lambda t: dump_token(t), tokast.print_chain(tg.token()), False)
    # molecules of every archetype + whitespace / number-format variants
    mg = molast.MolGenAst(rnd)
    mols = [(a, t, s) for a, t, s in gi.cases(rnd.randrange(1 << 30), 150 if quick else 15000) if a != "defective_list"]
    mols += [("molast", mg.molecule()[0], rnd.randrange(1 << 30)) for _ in range(80 if quick else 6000)]
    for a, t, s in mols:
        run("molecule", gbigsmiles.Molecule, dump_mol, t, True, seed=s % 1000)
    # stochastic objects WITHOUT repeat units (only end groups, or nothing between the terminals): accepted by the parser, so in the domain
    for t in ["{[$]; [$]O [$]}|gauss(10,1)|", "{[$] ; [$]O, [$]N [$]}|gauss(10,1)|", "{[<] [>]}|gauss(10,1)|", "{[]; [$]O, [$]N []}|gauss(10,1)|",
              "C{[$]; [$]O [$]}|uniform(5, 20)|N", "{[>]; [<]F, [>]Cl [<]}|poisson(30)|CC"]:
        run("molecule", gbigsmiles.Molecule, dump_mol, t, False, source="no_repeat_units")
    for t in ["{[] [$|1e-9|]CC[$|1e-9|], [$|3e-9|]CC(C)[$|3e-9|]; [$][H] []}|gauss(300, 20)|", "C{[$|0.3333333333333333|][$]CC[$|0.6666666666666666|][$]}|uniform(40, 90)|O"]:
        run("molecule", gbigsmiles.Molecule, dump_mol, t, True, seed=3, source="digits")
    # systems
    import sysrun
    for _ in range(60 if quick else 3000):
        text, smw, kinds, pct, S = sysrun.make_system(rnd, allow_open=False)
        if smw is None:
            run("system", gbigsmiles.System, dump_sys, text, False)
    # mixture numbers with many decimals (written and derived): the printed value must denote the same number
    for text in ["CCO.|33.333%|CCN.|33.333%|CCC", "CCO.|1234.5678|", "CCO.|250.125|CCC.|749.875|", "CCCCC.|12.345%|[H]{[>][<]CC([>])c1ccccc1[<]}|gauss(500, 50)|[H].|50000|",
                 "CCO.|0.004|CCC.|1000|", "CCO.|33.3%|CCN.|33.3%|CCC", "CCO.|0.1%|CCC.|3e-3|", "CCO.|66.66666666666667%|CCC"]:
        run("system", gbigsmiles.System, dump_sys, text, False, source="decimals")
    for _ in range(40 if quick else 2000):
        a, b = round(rnd.uniform(1, 60), rnd.choice([3, 5, 9])), round(rnd.uniform(1, 39), rnd.choice([3, 4, 7]))
        run("system", gbigsmiles.System, dump_sys, f"CCO.|{a}%|CCN.|{b}%|CCC" if rnd.random() < 0.5 else f"CCO.|{a * 10}|CCN.|{b}%|", False, source="decimals")
    # mixture specifiers WITHOUT a number (accepted with a warning: "the system will not be generable"), and numbers in every float syntax
    import warnings
    with warnings.catch_warnings():
        warnings.simplefilter("ignore")
        for text in ["CC.|x|", "CCO.|.|", "CC.| |", "C{[$][$]CC[$][$]}|gauss(100, 10)|C.|n/a|", "CC.|1,5|", "CC.|5 g|"]:
            run("molecule", gbigsmiles.Molecule, dump_mol, text, False, source="mixture_without_number")
        for text in ["CC.|x|CCO.|10|", "CCO.|10|CC.|?|", "CC.|x|CCO.|y|"]:
            run("system", gbigsmiles.System, dump_sys, text, False, source="mixture_without_number")
        for num in [".5", "5.", "5e-1", "+7", "1_0", " 2.50 ", "0", "1e2", "12.5", "0.30000000000000004", "1e-12"]:
            run("molecule", gbigsmiles.Molecule, dump_mol, f"CCO.|{num}|", False, source="mixture_number_syntax")
            run("molecule", gbigsmiles.Molecule, dump_mol, f"CCO.|{num}%|", False, source="mixture_number_syntax")
    # hypothesis of C01_mixture_round_trip / C01_descriptor_round_trip on the real float printer: repr reads back, is not empty, has no blank, bar,
    # bracket or percent sign
    n_repr = 0
    for _ in range(2000 if quick else 100000):
        x = rnd.choice([rnd.uniform(0, 100), rnd.uniform(0, 1e6), 10 ** rnd.uniform(-12, 22), float(rnd.randrange(0, 100000)), rnd.random() / 3])
        r = repr(float(x))
        n_repr += 1
        if float(r) != x or not r or any(c in r for c in " |[]%"):
            rep.fail("oracle", f"the float printer does not meet the hypothesis of the round-trip theorems on {x!r}: {r!r}", {"layer": "float_printer", "text": r},
                     expected="reads back; no blank, bar, bracket, percent sign", observed=r)
    rep.coverage["float_printer_hypothesis_checked"] = n_repr
    rep.coverage.update({"evaluations": evaluations, "accepted_strings": accepted, "accepted_by_layer": by_layer, "distinct_nontrivial": len(distinct),
                         "documented_corpus": len(corpus),
                         "rule": "the 119 strings quoted in README / SI.md / tests, then descriptors, token ASTs, molecules of every archetype (structured generator + AST "
                                 "molecules with whitespace / number-format variants) and multi-component systems; distinct_nontrivial = distinct accepted (layer, string)",
                         "samples": [{"text": corpus[3]["text"], "source": corpus[3]["source"]}, {"text": mols[0][1]}, {"text": mols[-1][1]}]})
    rep.assumptions = ["Python float(repr(x)) == x (oracle law of the number printer)", "the erasure oracle deletes every shortest |...| segment"]
    return fw.finish(rep, coq, fw.COMMON_TRUSTED + ["modelled, not verified: the printers of bond.py / token.py (Model/Bond.v, Model/Token.v); upper-layer printers enter the erasure "
                                                    "theorem only through their shape (bar-free chunks and extension segments)"],
                     "make -C coq Props/C01.vo (coqc 8.16.1, full .vo build) + Print Assumptions audit")


def replay(case):
    import gbigsmiles
    c = case.get("case") or {}
    print("replay:", case.get("what"))
    ctor = {"molecule": gbigsmiles.Molecule, "system": gbigsmiles.System}.get(c.get("layer"))
    if ctor is None:
        print(c)
        return 1
    o = ctor(c["text"])
    s1 = str(o)
    print("canonical:", s1)
    try:
        o1 = ctor(s1)
        print("re-parsed, prints to itself:", str(o1) == s1)
    except Exception as e:
        print("re-parse raises", type(e).__name__, e)
        return 1
    try:
        ne = o.generate_string(False)
        print("extension-free:", ne, "== erasure:", ne == erase_ext(s1))
        if c.get("layer") == "molecule":
            ctor(ne)
    except Exception as e:
        print("extension-free form raises", type(e).__name__, e)
        return 1
    return 0
