"""C05 -- A generated molecule is a tree of whole, unmodified copies of the written tokens.

proof:          coq/Props/C05.v: partition, residues are tokens, residue graph is a tree, one bond per edge, additive mass
correspondence: as C04 (trace validation, final state incl. atom count, bonds, edges, mass)
oracle/search:  on the RDKit molecule: residue partition, each residue an unmodified copy of its token fragment, tree,
                bonds <-> edges, sanitisation, hydrogens on unbracketed atoms, mass additivity
"""
import framework as fw
import genrun


def check(rep):
    coq = fw.coq_check("C05", ["SrcBond", "SrcAttach"])
    quick = rep.tier == "quick"
    cases, stats = genrun.collect(rep, 140 if quick else 6000, 10 if quick else 300, max_leaves=120 if quick else 2000,
                                  budget_s=120 if quick else 1500)
    mols = 0
    distinct = set()
    for c in cases:
        if c.run.gen is None:
            continue
        mols += 1
        v = genrun.View(c.run)
        for b in genrun.oracle_c05(v, c.run):
            rep.fail("oracle", b, c.ident(), expected="tree of whole, unmodified token copies; sanitisable; additive mass", observed=b)
        if len(v.nodes) > 1:
            distinct.add((c.text, tuple(c.run.picks), tuple(c.run.targets)))
    # the accessors on a molecule that is still growing (MolGen.smiles / weight / mol between the elements of the string)
    stepwise = 0
    seen = set()
    for c in cases:
        if c.text in seen or c.run.gen is None or len(seen) >= (60 if rep.tier == "quick" else 1500):
            continue
        seen.add(c.text)
        r = genrun.stepwise_observed(c.text, 1000 + len(seen))
        if r is None:
            continue
        stepwise += 1
        for b in r[0]:
            rep.fail("oracle", b, {"text": c.text, "seed": 1000 + len(seen), "mode": "element by element, accessors read in between"},
                     expected="every accessor describes the molecule held", observed=b)
    stats = {**stats, "stepwise_generations_observed": stepwise}
    rep.coverage.update({"evaluations": len(cases), "molecules_checked": mols, "distinct_nontrivial": len(distinct),
                         "rule": "as C04; distinct_nontrivial = distinct (string, picks, targets) whose molecule has >= 2 residues",
                         "traces_validated_against_model": sum(1 for c in cases if not c.near), **stats,
                         "samples": [c.ident() for c in cases[:2] + cases[-1:]]})
    rep.assumptions = ["sanitisation, aromaticity perception and hydrogen counts are RDKit behaviour: oracle-checked on every molecule, not proved"]
    return fw.finish(rep, coq, fw.COMMON_TRUSTED + ["modelled, not verified: mol_gen.py (Model/Gen.v); RDKit fragment atoms/masses enter the model as oracle data"],
                     "make -C coq Props/C05.vo (coqc 8.16.1, full .vo build) + Print Assumptions audit")


def replay(case):
    return genrun.replay(case, lambda v, run: genrun.oracle_c05(v, run))
