"""C15 -- Ill-formed notation and misuse are rejected, never silently reinterpreted.

proof:          coq/Props/C15.v: the descriptor parser and the token parser TERMINATE on every string (no fuel exhaustion), the system-level
                splitting loop terminates on every string; rejection theorems for the descriptor rules (symbol, bars, nested brackets, stereo),
                unbalanced branches, negative weight -> not generable
correspondence: descriptor and token layers, error class vs object, on the malformed stream (as C02/C03) -- run here on the broken inputs
oracle/search:  every valid instance x every breaking operator (one rule violated): the implementation must answer with an exception (or
                generable == False / an exception on generate for the misuse rules), within 2 s; byte-level mutations for termination
"""
import random
import re

import numpy as np

import framework as fw
import gen_inputs as gi
import layers


def outside_brackets(text):
    """positions of characters that are not inside [...] or |...|"""
    pos = []
    depth = 0
    bar = False
    for i, c in enumerate(text):
        if c == "|":
            bar = not bar
        elif not bar and c == "[":
            depth += 1
        elif not bar and c == "]":
            depth = max(0, depth - 1)
        elif not bar and depth == 0:
            pos.append(i)
    return pos


def op_paren(rnd, t):
    ps = [i for i in outside_brackets(t) if t[i] in "CNO" and "{" in t[:i] and "}" in t[i:]]
    if not ps:
        return None
    i = rnd.choice(ps)
    return t[: i + 1] + rnd.choice("()") + t[i + 1:], "parse"


def op_bracket(rnd, t):
    ms = [m for m in re.finditer(r"\[[$<>][^\]]*\]", t)]
    ms = [m for m in ms if "{" in t[: m.start()] and "}" in t[m.end():] and t[m.end(): m.end() + 1] not in ("}", "")]
    if not ms:
        return None
    m = rnd.choice(ms)
    return t[: m.end() - 1] + t[m.end():], "parse"


def op_two_atoms(rnd, t):
    ms = [m for m in re.finditer(r"\[[$<>][^\]]*\](?=[,;])", t)]
    if not ms:
        return None
    m = rnd.choice(ms)
    return t[: m.end()] + "C" + t[m.end():], "parse"


def op_symbol(rnd, t):
    ms = [m for m in re.finditer(r"\[[$<>]", t)]
    if not ms:
        return None
    m = rnd.choice(ms)
    return t[: m.start()] + "[" + rnd.choice("%&!?") + t[m.end():], "parse"


def op_dist(rnd, t):
    ms = list(re.finditer(r"\|(gauss|uniform|schulz_zimm|log_normal|poisson|flory_schulz)\(", t))
    if not ms:
        return None
    m = rnd.choice(ms)
    return t[: m.start(1)] + rnd.choice(["weibull", "normal", "gamma", "Gauss"]) + t[m.end(1):], "parse"


def token_descriptors(t):
    """matches of plain descriptors that sit on tokens inside a stochastic object (not its two terminal descriptors),
    with the number of token descriptors of that object"""
    out = []
    for om in re.finditer(r"\{[^{}]*\}", t):
        body = om.group(0)
        lt = re.match(r"\{\s*(\[[^\]]*\])", body)
        rt = re.search(r"(\[[^\]]*\])\s*\}$", body)
        if not lt or not rt or lt.start(1) == rt.start(1):
            continue
        ds = [m for m in re.finditer(r"\[[$<>][^\]]*\]", body) if m.start() not in (lt.start(1), rt.start(1))]
        for m in ds:
            if re.fullmatch(r"\[[$<>]\d*\]", m.group(0)):
                out.append((om.start() + m.start(), om.start() + m.end(), len(ds)))
    return out


def op_list_len(rnd, t):
    ms = token_descriptors(t)
    if not ms:
        return None
    a, b, n = rnd.choice(ms)
    k = rnd.choice([x for x in (1, n - 1, n + 1, n + 4) if x >= 1 and x != n])
    if k == 1:
        k = n + 2          # a single number is a plain weight, not a list
    return t[: b - 1] + "|" + " ".join("1" for _ in range(k)) + "|]" + t[b:], "parse"


def op_neg_weight(rnd, t):
    ms = token_descriptors(t)
    if not ms:
        return None
    a, b, n = rnd.choice(ms)
    return t[: b - 1] + "|-2|]" + t[b:], "not_generable"


def op_mixture_tail(rnd, t):
    return t + ".|50%|" + rnd.choice(["CC", "C{[$][$]CC[$][$]}|gauss(50,5)|C", "x"]), "parse_molecule"


def op_pct(rnd, t):
    return t + ".|" + rnd.choice(["150", "100.5", "-5", "-0.1"]) + "%|", "parse_molecule"


def op_no_dist(rnd, t):
    m = re.search(r"\}\|[a-z_]+\([^)]*\)\|", t)
    if not m:
        return None
    return t[: m.start() + 1] + t[m.end():], "not_generable"


def op_missing_prefix(rnd, t):
    m = re.match(r"^[^{]+\{\[[$<>]", t)
    if not m:
        return None
    return t[t.index("{"):], "generate"


def op_wrong_prefix(rnd, t):
    m = re.match(r"^([^{\[]+)\{\[([$<>])(\d*)\]", t)
    if not m:
        return None
    wrong = {"$": "<", "<": "$", ">": "$"}[m.group(2)]
    return m.group(1) + "[" + wrong + m.group(3) + "]" + t[t.index("{"):], "parse_or_generate"


def op_prefix_id(rnd, t):
    """the prefix keeps a descriptor of the terminal's symbol (still compatible with the repeat units), the left terminal gets another id"""
    m = re.match(r"^([^{\[]+)\{\[([$<>])(\d*)\]", t)
    if not m:
        return None
    other = str(int(m.group(3) or "0") + rnd.choice([1, 2, 7]))
    return m.group(1) + "[" + m.group(2) + m.group(3) + "]{[" + m.group(2) + other + "]" + t[m.end():], "parse_or_generate"


OPS = [op_paren, op_bracket, op_two_atoms, op_symbol, op_dist, op_list_len, op_neg_weight, op_mixture_tail, op_pct, op_no_dist, op_missing_prefix, op_wrong_prefix, op_prefix_id]


def run_impl(text, expect, system=False):
    """returns ('error', class) | ('timeout',) | ('object', details)"""
    import gbigsmiles

    try:
        with fw.time_limit(2):
            obj = gbigsmiles.System(text) if system else gbigsmiles.Molecule(text)
    except fw.Timeout:
        return ("timeout",)
    except Exception as e:  # noqa
        return ("error", fw.exc_class(e))
    if expect in ("parse", "parse_molecule"):
        return ("object", "accepted")
    if expect == "not_generable":
        if obj.generable:
            return ("object", "generable")
    try:
        with fw.time_limit(20):
            g = obj.generate(rng=np.random.default_rng(1))
        return ("object", "generated " + str(getattr(g, "smiles", g))[:60])
    except fw.Timeout:
        return ("timeout",)
    except Exception as e:  # noqa
        if fw.scipy_draw_failure(e):
            return ("error", "scipy")
        return ("error", fw.exc_class(e))


def check(rep):
    import gbigsmiles

    coq = fw.coq_check("C15", ["SrcBond", "SrcDist", "SrcStoch", "SrcGenerable", "SrcDescr", "SrcToken", "SrcStochParse", "SrcSysParse", "SrcMolParse", "SrcSys"])
    quick = rep.tier == "quick"
    rnd = random.Random(rep.seed + 15)
    base = [t for t in gi.DOCUMENTED] + [t for a, t, _ in gi.cases(rnd.randrange(1 << 30), 80 if quick else 3000) if a != "defective_list"]
    evaluations = 0
    distinct = set()
    ophist = {}
    for text in base:
        for op in OPS:
            r = op(rnd, text)
            if r is None:
                continue
            broken, expect = r
            evaluations += 1
            ident = {"text": broken, "operator": op.__name__, "from": text}
            res = run_impl(broken, expect)
            key = op.__name__ + ":" + res[0]
            ophist[key] = ophist.get(key, 0) + 1
            distinct.add((op.__name__, broken))
            if res[0] == "timeout":
                rep.fail("oracle", f"{op.__name__}: parsing / generating {broken!r} does not terminate within the time limit", ident, expected="an error", observed="timeout")
            elif res[0] == "object":
                tags = set()
                rep.fail("oracle", f"{op.__name__}: {broken!r} is answered with an object ({res[1]}) instead of an error", ident, expected="an error", observed=res[1], tags=tags)
    # a negative weight on ANY descriptor of a token outside a stochastic object (stand-alone token, prefix, connector, suffix): not generable
    NEG = ["[$]CC[$|-0.5|]", "[$|-0.5|]CC[$]", "[<]CC(C)[>|-1|]", "[$]CC([$|-2|])[$]", "[$]CC([$])[$|-2|]", "[$]CC([$|-1|])[$|3|]", "CC[$|-1|]",
           "OC{[>] [<]CC[>]; [<][H] [<]}|uniform(30,60)|[<]COOC[>|-0.5|]{[>] [<]COC[>] [<]}|uniform(30,60)|[<]F",
           "OC{[>] [<]CC[>]; [<][H] [<]}|uniform(30,60)|[<|-0.5|]COOC[>]{[>] [<]COC[>] [<]}|uniform(30,60)|[<]F",
           "C[$]{[$][$]CC[$][$]}|uniform(30,60)|[$]CO[$|-3|]{[$][$]CN[$][$]}|uniform(30,60)|[$]F",
           "CC[>|-1|]{[>][<]CC[>][<]}|uniform(30,60)|[<]F", "CC[>]{[>][<]CC[>][<]}|uniform(30,60)|[<|-1|]F",
           "N[<]{[<][>]CC([<|-2|])[<][>]}|uniform(30,60)|[>]O"]
    for text in NEG:
        evaluations += 1
        res = run_impl(text, "not_generable")
        ophist["neg_weight_token:" + res[0]] = ophist.get("neg_weight_token:" + res[0], 0) + 1
        if res[0] == "timeout":
            rep.fail("oracle", f"negative weight: {text!r} does not terminate", {"text": text, "operator": "neg_weight_token"}, expected="an error", observed="timeout")
        elif res[0] == "object":
            rep.fail("oracle", f"negative weight on a token descriptor: {text!r} is answered with an object ({res[1]}) instead of an error", {"text": text, "operator": "neg_weight_token"},
                     expected="not generable / an error", observed=res[1])
    # a left terminal carrying a list of the wrong length
    for text in ["C{[$|1 2 3 4 5|][$]CC[$][$]}|gauss(30,1)|C", "C{[>|1 1 1|][<]CC[>][<]}|gauss(30,1)|C"]:
        evaluations += 1
        res = run_impl(text, "parse")
        if res[0] != "error":
            rep.fail("oracle", f"left terminal with a transition list of the wrong length: {text!r} is answered with an object", {"text": text, "operator": "terminal_list_len"},
                     expected="an error", observed=str(res), tags={"terminal_list_length_unchecked"})
    # system level: text after a specifier that never closes, byte-level mutations (termination)
    for text in ["CC.|50", "CC.|", "CC.|50%|CCC.|", "C{[$][$]CC[$][$]}|gauss(5,1)|C.|1e3", ".|", "CC.|5|.|"]:
        evaluations += 1
        res = run_impl(text, "parse", system=True)
        if res[0] == "timeout":
            rep.fail("oracle", f"System({text!r}) does not terminate", {"text": text, "operator": "system_unclosed_specifier", "system": True}, expected="an error", observed="timeout")
        elif res[0] == "object":
            rep.fail("oracle", f"System({text!r}) is accepted", {"text": text, "operator": "system_unclosed_specifier", "system": True}, expected="an error", observed=str(res))
    muts = 0
    alphabet = "[]{}()|.,;$<>%CNO 1=#-"
    for _ in range(600 if quick else 60000):
        text = rnd.choice(base)
        k = rnd.randrange(len(text))
        kind = rnd.choice(["ins", "del", "rep", "dup"])
        if kind == "ins":
            m = text[:k] + rnd.choice(alphabet) + text[k:]
        elif kind == "del":
            m = text[:k] + text[k + 1:]
        elif kind == "rep":
            m = text[:k] + rnd.choice(alphabet) + text[k + 1:]
        else:
            j = rnd.randrange(k, min(len(text), k + 6))
            m = text[:j] + text[k:j] + text[j:]
        evaluations += 1
        muts += 1
        for system in (False, True):
            try:
                with fw.time_limit(2):
                    (gbigsmiles.System if system else gbigsmiles.Molecule)(m)
            except fw.Timeout:
                rep.fail("oracle", f"{'System' if system else 'Molecule'}({m!r}) does not terminate within 2 s", {"text": m, "operator": "byte_mutation", "system": system},
                         expected="termination", observed="timeout")
            except Exception:
                pass
    # tie K on broken descriptor / token texts
    toks = []
    for text in base[:60]:
        for m in re.finditer(r"[^{},;|]*\[[$<>][^\]]*\][^{},;|]*", text):
            s = m.group(0).strip()
            if s:
                toks.append(s)
                k = rnd.randrange(len(s))
                toks.append(s[:k] + rnd.choice("()[]$.|") + s[k:])
                toks.append(s[:k] + s[k + 1:])
    # negative weights on each descriptor in turn (the generable flag of a token is part of the comparison)
    for s in list(dict.fromkeys(toks))[:120]:
        ds = list(re.finditer(r"\[[$<>]\d*\]", s))
        for m in ds[:3]:
            toks.append(s[: m.end() - 1] + "|-2|]" + s[m.end():])
    toks = [t for t in NEG if "{" not in t] + toks
    toks = list(dict.fromkeys(toks))[: (1100 if quick else 20000)]
    for t, o in zip(toks, fw.run_driver([layers.token_line(t) for t in toks])):
        evaluations += 1
        d = layers.token_diff(layers.parse_model_token(o), layers.impl_token(t))
        if d:
            rep.fail("correspondence", f"token layer on {t!r}: " + "; ".join(d[:3]), {"layer": "token", "text": t}, expected=o[:300], observed=str(layers.impl_token(t))[:300])
    # tie K on stochastic objects: the '{...}|dist|' pieces of the valid instances, as written and broken (byte mutations, list lengths)
    objs = []
    for text in base[:80]:
        for m in re.finditer(r"\{[^{}]*\}(\|[^|]*\|)?", text):
            s = m.group(0)
            objs.append(s)
            for _ in range(3):
                k = rnd.randrange(len(s))
                objs.append(s[:k] + rnd.choice("{}[];,|$<> 1") + s[k:])
                objs.append(s[:k] + s[k + 1:])
            objs.append(re.sub(r"\[([$<>])\]", lambda mm: "[" + mm.group(1) + "|1 2|]", s, count=1))
    objs += ["", "{", "{}", "{[]}", "{[$]}", "x{[$][$]C[$][$]}", "{[$][$]C[$][$]}|foo(1)|", "{[$][$]C[$][$]}|gauss|", "{[$] , ; [$]}", "{[$][$]C[$][$]", "{[$][$]C[$];[$]}"]
    objs = list(dict.fromkeys(objs))[: (900 if quick else 20000)]
    obj_hist = {}
    for t, o in zip(objs, fw.run_driver([layers.stoch_line(t) for t in objs])):
        evaluations += 1
        mo, io = layers.parse_model_stoch(o), layers.impl_stoch(t)
        k = "accepted" if isinstance(io, dict) else io[0] + ":" + io[1]
        obj_hist[k] = obj_hist.get(k, 0) + 1
        d = layers.stoch_diff(mo, io)
        if d:
            rep.fail("correspondence", f"stochastic-object layer on {t!r}: " + "; ".join(d[:3]), {"layer": "stochastic", "text": t}, expected=str(mo)[:300], observed=str(io)[:300])
    # tie K on whole molecules: valid instances and byte-level mutations of them (error class vs elements / mixture / generability)
    mols_k = []
    for text in base[:120]:
        mols_k.append(text)
        for _ in range(4):
            k = rnd.randrange(len(text))
            mols_k.append(text[:k] + rnd.choice("{}[];,|$<>. 1%") + text[k:])
            mols_k.append(text[:k] + text[k + 1:])
    mols_k += ["", "CC", "CC.|5|", "CC.|5%|", "CC.|500%|", "CC.|x|", "CC.|5|C", "CC.|", ".|5|", "{", "C{", "C{[$]", "C{[$][$]C[$][$]}|gauss(1,2)", "C{[$][$]C[$][$]}C{[$][$]C[$][$]}C",
               "C[$]{[$][$]C[$][$]}[<]C", "CC.|-5|", "CC.|nan%|", "C.|1e400|"]
    mols_k = list(dict.fromkeys(mols_k))[: (900 if quick else 25000)]
    mol_hist = {}
    for t, o in zip(mols_k, fw.run_driver([layers.mol_line(t) for t in mols_k])):
        evaluations += 1
        mo, io = layers.parse_model_mol(o), layers.impl_mol(t)
        k = "accepted" if isinstance(io, dict) else io[0] + ":" + io[1]
        mol_hist[k] = mol_hist.get(k, 0) + 1
        if isinstance(io, tuple) and io[0] == "TIMEOUT":
            rep.fail("oracle", f"Molecule({t!r}) does not terminate within 10 s", {"text": t, "operator": "byte_mutation", "system": False}, expected="termination", observed="timeout")
            continue
        d = layers.mol_diff(mo, io)
        if d:
            rep.fail("correspondence", f"molecule layer on {t!r}: " + "; ".join(d[:3]), {"layer": "molecule", "text": t}, expected=str(mo)[:300], observed=str(io)[:300])
    # tie K on whole systems: generated systems (with and without caller-supplied mass) and byte-level mutations of them
    import sysrun
    syss = []
    for _ in range(60 if quick else 2500):
        text, smw, kinds, pct, S = sysrun.make_system(rnd, allow_open=True)
        syss.append((text, smw))
        for _ in range(3):
            k = rnd.randrange(len(text))
            syss.append((text[:k] + rnd.choice("{}[];,|$<>. 1%") + text[k:], smw))
            syss.append((text[:k] + text[k + 1:], smw))
    syss += [("", None), ("CC", None), ("CC.|5|", None), ("CC.|50%|CCO.|50%|", None), ("CC.|50%|CCO.|50%|", 1000.0), ("CC.|50%|CCO.|60%|", 1000.0), ("CC.|50", None), ("CC.|500|CCO.|300|", 900.0), ("CC.|x|CCO", None)]
    sys_hist = {}
    for (t, smw), o in zip(syss, fw.run_driver([layers.system_line(t, smw) for t, smw in syss])):
        evaluations += 1
        mo, io = layers.parse_model_system(o), layers.impl_system(t, smw)
        k = "accepted" if isinstance(io, dict) else io[0] + ":" + io[1]
        sys_hist[k] = sys_hist.get(k, 0) + 1
        if isinstance(io, tuple) and io[0] == "TIMEOUT":
            rep.fail("oracle", f"System({t!r}) does not terminate within 20 s", {"text": t, "operator": "byte_mutation", "system": True}, expected="termination", observed="timeout")
            continue
        d = layers.system_diff(mo, io)
        if d:
            rep.fail("correspondence", f"system layer on {t!r} (system_molweight={smw}): " + "; ".join(d[:3]), {"layer": "system", "text": t, "system_molweight": smw, "system": True},
                     expected=str(mo)[:300], observed=str(io)[:300])
    rep.coverage.update({"evaluations": evaluations, "distinct_nontrivial": len(distinct), "valid_instances": len(base), "operators": [o.__name__ for o in OPS],
                         "system_texts_vs_model": len(syss), "system_outcomes": dict(sorted(sys_hist.items())),
                         "molecule_texts_vs_model": len(mols_k), "molecule_outcomes": dict(sorted(mol_hist.items())),
                         "object_texts_vs_model": len(objs), "object_outcomes": dict(sorted(obj_hist.items())),
                         "operator_outcomes": dict(sorted(ophist.items())), "byte_mutations": muts, "token_texts_vs_model": len(toks),
                         "rule": "every valid instance (documented + structured generator) x 12 breaking operators (one rule violated at a random position) + terminal-list and "
                                 "system-level probes + byte-level mutations (insert / delete / replace / duplicate) under a 2 s limit; distinct_nontrivial = distinct (operator, broken text)",
                         "samples": [{"text": op_paren(random.Random(1), base[0])[0], "operator": "op_paren"}, {"text": "CC.|50", "operator": "system_unclosed_specifier"}]})
    rep.assumptions = ["termination is a theorem for the descriptor parser, the token parser, the stochastic-object parser, the molecule parser and the system parser (models tied by "
                       "correspondence); on the implementation it is additionally checked by byte-level mutations under a time limit",
                       "an exception raised inside a distribution constructor while parsing its parameters (ast.literal_eval, float) is outside the model: such texts are not compared"]
    return fw.finish(rep, coq, fw.COMMON_TRUSTED + ["modelled, not verified: bond.py:26-118, token.py:37-199, stochastic.py:24-141, mixture.py:25-52, molecule.py:22-152, system.py:15-140"],
                     "make -C coq Props/C15.vo (coqc 8.16.1, full .vo build) + Print Assumptions audit")


def replay(case):
    c = case.get("case") or {}
    print("replay:", case.get("what"))
    res = run_impl(c["text"], "parse", system=bool(c.get("system")))
    print("implementation:", res)
    return 0 if res[0] == "error" else 1
