"""C20 -- Force-field typing is total, element-consistent, numbering- and history-free.

proof:          coq/Props/C20.v: cache transparency for every request history over the cache step REGENERATED from
                forcefield_helper.get_assignment_class (tie T); total-or-error, longest-rule / first-on-ties selection and
                numbering independence of the selection logic over an abstract matcher
correspondence: (T) translator; (K) request histories over {default, A, B} x {default, A', B'} files (all of length <= 2, random longer
                ones): the assigner actually returned vs one freshly built from the requested files; selection model vs
                get_type_assignments with RDKit's matches as oracle data
oracle/search:  typing of generated molecules of typable chemistry: one parameter set per atom incl. H, mass = element mass, invariance
                under random renumbering and under earlier calls, copies of the bundled files = defaults, partial molecules refused;
                element-mass consistency of all rules of the bundled tables
"""
import itertools
import os
import random
import re

import numpy as np

import framework as fw

TEXTS = [
    "CC{[$][$]CC[$][$]}|uniform(30, 80)|CO", "[H]{[>][<]CC([>])c1ccccc1[<]}|gauss(300, 30)|[H]", "C{[<][>]OCC[<][>]}|uniform(60, 150)|O",
    "CCCCC", "CCO", "c1ccccc1C", "CC(C)O", "{[][<]OCC[>]; [<][H], [>]C []}|gauss(150, 20)|", "CC(=O)OC", "CCN",
    "C{[$][$]CC(C)[$][$]}|uniform(40, 90)|C", "NCCO",
]


def make_files(d):
    from importlib.resources import files

    os.makedirs(d, exist_ok=True)
    par = open(files("gbigsmiles").joinpath("data", "opls.par")).read().split("\n")
    itp = open(files("gbigsmiles").joinpath("data", "ffnonbonded.itp")).read().split("\n")
    rule_lines = [i for i, l in enumerate(par) if l.strip() and l.strip()[0] != "*"]
    out = {}
    # exact copies
    for name, lines in (("copy.par", par), ("copy.itp", itp)):
        open(os.path.join(d, name), "w").write("\n".join(lines))
    # A: last 40 rules dropped; B: first 25 rules dropped
    open(os.path.join(d, "A.par"), "w").write("\n".join(l for i, l in enumerate(par) if i not in set(rule_lines[-40:])))
    open(os.path.join(d, "B.par"), "w").write("\n".join(l for i, l in enumerate(par) if i not in set(rule_lines[:25])))

    def scaled(lines, k):
        res = []
        for l in lines:
            f = l.split()
            if l and l[0] not in "[;" and len(f) >= 8 and f[0].startswith("opls_"):
                f[4] = repr(float(f[4]) + k)
                l = " " + "  ".join(f)
            res.append(l)
        return res

    open(os.path.join(d, "A.itp"), "w").write("\n".join(scaled(itp, 0.125)))
    open(os.path.join(d, "B.itp"), "w").write("\n".join(scaled(itp, -0.25)))
    return {k: os.path.join(d, k) for k in ("copy.par", "copy.itp", "A.par", "B.par", "A.itp", "B.itp")}


def tables(a):
    return (dict(a._rule_dict), dict(a._type_dict), {k: (v.mass, v.charge, v.sigma, v.epsilon, v.bond_type_name, v.bond_type_id) for k, v in a._type_param.items()})


def check(rep):
    import gbigsmiles
    from gbigsmiles import forcefield_helper as ffh
    from rdkit import Chem

    coq = fw.coq_check("C20", ["SrcFF", "SrcFFSel"])
    quick = rep.tier == "quick"
    rnd = random.Random(rep.seed + 20)
    F = make_files(os.path.join(fw.BUILD, "ff"))
    rules = [None, F["A.par"], F["B.par"]]
    nbs = [None, F["A.itp"], F["B.itp"]]
    reqs = list(itertools.product(rules, nbs))
    fresh = {}

    def fresh_tables(r):
        if r not in fresh:
            fresh[r] = tables(ffh.SMARTS_ASSIGNMENTS(*r))
        return fresh[r]

    histories = [[r] for r in reqs] + [[a, b] for a in reqs for b in reqs]
    for _ in range(40 if quick else 1500):
        histories.append([rnd.choice(reqs) for _ in range(rnd.randrange(3, 6))])
    evaluations = 0
    distinct = set()
    for h in histories:
        ffh._global_assignment_class = None
        ffh._global_nonbonded_itp_file = None
        ffh._global_smarts_rule_file = None
        evaluations += 1
        ident = {"history": [[None if x is None else os.path.basename(x) for x in r] for r in h]}
        try:
            got = None
            for r in h:
                got = ffh.get_assignment_class(*r)
                if tables(got) != fresh_tables(r):
                    rep.fail("oracle", f"after the request history {ident['history']} the returned assigner is not the one built from the requested files", ident,
                             expected="tables of SMARTS_ASSIGNMENTS(last request)", observed="different rule / parameter tables")
                    break
        except Exception as e:  # noqa
            rep.fail("oracle", f"request history {ident['history']} raised {type(e).__name__}: {str(e)[:80]}", ident, expected="an assigner", observed=fw.exc_class(e))
        if len(h) > 1:
            distinct.add(tuple(map(tuple, ident["history"])))
    # ---- typing of generated molecules
    ffh._global_assignment_class = None
    ffh._global_nonbonded_itp_file = None
    ffh._global_smarts_rule_file = None
    pt = Chem.GetPeriodicTable()
    typed = 0
    lines, expect = [], []
    n_mol = 14 if quick else 400
    for k in range(n_mol):
        text = TEXTS[k % len(TEXTS)]
        seed = rnd.randrange(1 << 30)
        ident = {"text": text, "seed": seed}
        try:
            mg = gbigsmiles.Molecule(text).generate(rng=np.random.default_rng(seed))
        except Exception:
            continue
        if not mg.fully_generated:
            continue
        evaluations += 1
        try:
            d, mol = mg.forcefield_types
        except ffh.FfAssignmentError as e:
            if not isinstance(e.incomplete_ff_dict, dict):
                rep.fail("oracle", "FfAssignmentError without the partial assignment", ident, expected="dict", observed=str(type(e.incomplete_ff_dict)))
            continue
        except Exception as e:  # noqa
            rep.fail("oracle", f"typing raised {type(e).__name__}: {str(e)[:80]}", ident, expected="assignment or FfAssignmentError", observed=fw.exc_class(e))
            continue
        typed += 1
        distinct.add((text, seed))
        if sorted(d) != list(range(mol.GetNumAtoms())):
            rep.fail("oracle", f"assignment covers {len(d)} of {mol.GetNumAtoms()} atoms", ident, expected="every atom, hydrogens included", observed=len(d))
            continue
        for a in mol.GetAtoms():
            if abs(d[a.GetIdx()].mass - pt.GetAtomicWeight(a.GetAtomicNum())) > 0.05:
                rep.fail("oracle", f"atom {a.GetIdx()} ({a.GetSymbol()}) got a parameter set of mass {d[a.GetIdx()].mass}", ident,
                         expected=pt.GetAtomicWeight(a.GetAtomicNum()), observed=d[a.GetIdx()].mass)
                break
        assigner = ffh.get_assignment_class(None, None)
        # numbering independence
        for _ in range(2 if quick else 6):
            perm = list(range(mol.GetNumAtoms()))
            rnd.shuffle(perm)
            m2 = Chem.RenumberAtoms(mol, perm)
            try:
                d2 = assigner.get_type_assignments(m2)
            except Exception as e:  # noqa
                rep.fail("oracle", f"typing fails after renumbering: {type(e).__name__}", {**ident, "perm": perm}, expected="same assignment", observed=fw.exc_class(e))
                break
            if any(d2[i] != d[perm[i]] for i in range(len(perm))):
                rep.fail("oracle", "assignment depends on atom numbering", {**ident, "perm": perm}, expected="same parameter set per atom", observed="different")
                break
        # history independence and copies of the bundled files
        try:
            mg.get_forcefield_types(F["A.par"], F["A.itp"])
        except Exception:
            pass
        d3, _ = mg.get_forcefield_types(F["copy.par"], F["copy.itp"])
        d4, _ = mg.forcefield_types
        if d3 != d or d4 != d:
            rep.fail("oracle", "typing depends on earlier calls / explicit copies of the bundled files differ from the defaults", ident, expected="same", observed="different")
        # tie K for the selection logic: RDKit's matches as oracle data
        if k < (6 if quick else 60):
            rl = list(assigner._rule_dict)
            types = sorted(set(assigner._rule_dict.values()))
            ms = []
            for i, rule in enumerate(rl):
                at = sorted({m[0] for m in mol.GetSubstructMatches(Chem.MolFromSmarts(rule))})
                if at:
                    ms.append(f"{i}:" + ",".join(map(str, at)))
            lines.append("\t".join(["ffsel", ";".join(f"{i}:{len(r)}:{types.index(assigner._rule_dict[r])}" for i, r in enumerate(rl)), ";".join(ms), str(mol.GetNumAtoms())]))
            expect.append((ident, [assigner._rule_dict[r] for r in rl], [assigner.get_type(0) and None] and d, assigner, rl))
    for (ident, rtypes, d, assigner, rl), out in zip(expect, fw.run_driver(lines)):
        if not out.startswith("OK "):
            rep.fail("correspondence", f"selection layer: model says {out[:60]}, implementation assigned every atom", ident, expected=out[:200], observed="OK")
            continue
        ids = [int(x) for x in out[3:].split(",")]
        for a, rid in enumerate(ids):
            if assigner.get_ffparam(assigner.get_type(rtypes[rid])) != d[a]:
                rep.fail("correspondence", f"selection layer: atom {a}: model picks rule {rid} ({rtypes[rid]}), implementation another parameter set", ident,
                         expected=rtypes[rid], observed=str(d[a]))
                break
    # partial molecules are refused
    part = gbigsmiles.Molecule("CC{[$][$]CC[$][$]}|uniform(30, 80)|").generate(rng=np.random.default_rng(3))
    try:
        part.forcefield_types
        rep.fail("oracle", "a partially generated molecule was typed", {"text": "CC{[$][$]CC[$][$]}|uniform(30, 80)|"}, expected="refusal", observed="assignment")
    except RuntimeError:
        pass
    # element consistency of the bundled tables, rule by rule.  Informational: a rule whose type belongs to another element is a
    # violation only if it can win the selection for some atom, which the typed molecules above (and the ionic probes) decide.
    a0 = ffh.SMARTS_ASSIGNMENTS(None, None)
    unparsed = 0
    table_inconsistent = []
    for rule, typ in a0._rule_dict.items():
        m = re.match(r"^\[\$\(\[(#\d+|[A-Z][a-z]?|[a-z])", rule)
        z = None
        if m:
            h = m.group(1)
            for cand in ([h] if h[0] != "#" else []) + ([h[0]] if len(h) == 2 and h[0] != "#" else []):
                try:
                    z = pt.GetAtomicNumber(cand.capitalize())
                    if len(cand) == 2 and cand[1] in "HDXR":   # C followed by a H-count / degree primitive
                        continue
                    break
                except Exception:
                    z = None
            if h[0] == "#":
                z = int(h[1:])
        if z is None:
            unparsed += 1
            continue
        evaluations += 1
        if typ in a0._type_param and abs(a0._type_param[typ].mass - pt.GetAtomicWeight(z)) > 0.05:
            # two-letter guess may be wrong ("CH3" is C then H3): retry with the first letter only
            z1 = None
            try:
                z1 = pt.GetAtomicNumber(m.group(1)[0].upper()) if m.group(1)[0] != "#" else None
            except Exception:
                pass
            if z1 is not None and abs(a0._type_param[typ].mass - pt.GetAtomicWeight(z1)) <= 0.05:
                continue
            table_inconsistent.append({"rule": rule, "type": typ, "mass": a0._type_param[typ].mass})
    # ionic / small probes: whatever rule wins, the mass must be the element's
    # plus hetero-aromatic rings and functional groups for which several rules of different elements / environments compete
    PROBES = ["C[S-]", "C[O-]", "CC(=O)[O-]", "C[NH3+]", "CS", "CSC", "CCl", "CBr", "CF", "c1ccncc1", "CC#N", "CC(N)=O", "OC(=O)C", "C=C", "CS(C)=O",
              "Cc1cscn1", "c1ccsn1", "c1ccc2scnc2c1", "c1cocn1", "c1ccsc1", "c1ccoc1", "c1cnc[nH]1", "c1cc[nH]c1", "Cc1ccon1", "CS(C)(=O)=O", "CSSC", "CS(N)(=O)=O",
              "C[N+](=O)[O-]", "CC(=O)OC", "CC(=O)N(C)C", "COC", "CC=O", "CN", "c1ccccc1O", "c1ccccc1N", "FC(F)(F)C", "ClC(Cl)Cl", "CC(C)=O", "C#C", "CN=C=O", "c1ccc2[nH]ccc2c1",
              "CCC(C){[>][<]CC([>])c1cscn1[<]}|uniform(300, 500)|[H]"]
    probe_lines, probe_expect = [], []
    # every type a rule can assign has a parameter set: otherwise typing an atom that matches the rule ends in a bare KeyError, which is
    # neither an assignment nor the dedicated error (exhaustive over the bundled table)
    for rule, typ in a0._rule_dict.items():
        try:
            a0.get_ffparam(a0.get_type(typ))
        except Exception as e:  # noqa
            rep.fail("oracle", f"rule {rule} assigns type {typ}, for which the bundled parameter table gives no parameter set ({type(e).__name__}): typing a matching atom "
                     "is neither total nor refused with FfAssignmentError", {"rule": rule, "type": typ}, expected="a parameter set", observed=fw.exc_class(e))
    PROBES += ["C[Si](C)(C)C", "C[Si](C)(C)C[Si](C)(C)C", "[Cu+2]", "[Fe+2]", "[Na+]", "[Cl-]", "[Zn+2]", "[Mg+2]", "[K+]", "[Li+]", "[Ca+2]", "[F-]", "[Br-]", "[I-]",
               "[H]{[>][<]CC([>])c1ccccc1[<]}|gauss(300, 30)|CCC[Si](C)(C)C"]
    for smi in PROBES:
        try:
            mg = gbigsmiles.Molecule(smi).generate(rng=np.random.default_rng(1))
        except Exception:
            continue
        try:
            d, mol = mg.forcefield_types
        except ffh.FfAssignmentError:
            continue
        except Exception as e:  # noqa
            rep.fail("oracle", f"{smi}: typing raised {type(e).__name__}: {str(e)[:60]} -- neither a parameter set per atom nor FfAssignmentError", {"text": smi},
                     expected="assignment or FfAssignmentError", observed=fw.exc_class(e))
            continue
        evaluations += 1
        for a in mol.GetAtoms():
            if a.GetIdx() in d and abs(d[a.GetIdx()].mass - pt.GetAtomicWeight(a.GetAtomicNum())) > 0.05:
                rep.fail("oracle", f"{smi}: atom {a.GetIdx()} ({a.GetSymbol()}) got a parameter set of mass {d[a.GetIdx()].mass}", {"text": smi},
                         expected=pt.GetAtomicWeight(a.GetAtomicNum()), observed=d[a.GetIdx()].mass)
        # the selection rule itself (longest rule text wins, first on ties: Model/FFSel.v) on the probe, RDKit's matches as oracle data
        asg = ffh.get_assignment_class(None, None) if hasattr(ffh, "get_assignment_class") else a0
        rl = list(asg._rule_dict)
        types = sorted(set(asg._rule_dict.values()))
        ms = []
        for i, rule in enumerate(rl):
            at = sorted({m[0] for m in mol.GetSubstructMatches(Chem.MolFromSmarts(rule))})
            if at:
                ms.append(f"{i}:" + ",".join(map(str, at)))
        probe_lines.append("\t".join(["ffsel", ";".join(f"{i}:{len(r)}:{types.index(asg._rule_dict[r])}" for i, r in enumerate(rl)), ";".join(ms), str(mol.GetNumAtoms())]))
        probe_expect.append((smi, [asg._rule_dict[r] for r in rl], d, asg))
    for (smi, rtypes, d, asg), out in zip(probe_expect, fw.run_driver(probe_lines)):
        if not out.startswith("OK "):
            continue
        for a, rid in enumerate(int(x) for x in out[3:].split(",")):
            if a in d and asg.get_ffparam(asg.get_type(rtypes[rid])) != d[a]:
                rep.fail("correspondence", f"selection layer on {smi}: atom {a}: the selection rule of the model picks {rtypes[rid]}, the implementation assigned another parameter set", {"text": smi},
                         expected=rtypes[rid], observed=str(d[a]))
                break
    rep.coverage.update({"evaluations": evaluations, "distinct_nontrivial": len(distinct), "request_histories": len(histories), "histories_exhaustive_up_to_length": 2,
                         "molecules_typed": typed, "selection_cases_vs_model": len(lines) + len(probe_lines), "probe_molecules": len(PROBES), "rules_element_checked": len(a0._rule_dict) - unparsed, "rules_head_unparsed": unparsed,
                         "table_rules_with_foreign_element_type_informational": table_inconsistent,
                         "rule": "request histories over 3 rule files x 3 parameter files (defaults and two modified copies each): all of length 1 and 2, random ones of "
                                 "length 3-5; generated molecules of typable chemistry x random renumberings; distinct_nontrivial = distinct histories of length >= 2 plus typed molecules",
                         "samples": [{"history": [["A.par", None], [None, "B.itp"]]}, {"text": TEXTS[1]}]})
    rep.assumptions = ["SMARTS matching is RDKit (oracle); its equivariance under renumbering is exercised, not proved",
                       "module globals of forcefield_helper are reset by the harness between histories"]
    return fw.finish(rep, coq, fw.COMMON_TRUSTED + ["modelled, not verified: forcefield_helper.py:116-145 (Model/FFSel.v); regenerated: get_assignment_class (Src/SrcFF.v)"],
                     "make -C coq Props/C20.vo (coqc 8.16.1, full .vo build) + Print Assumptions audit")


def replay(case):
    print("replay:", case.get("what"))
    print(case.get("case"))
    return 1
