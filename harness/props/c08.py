"""C08 -- Every random decision follows the weights written in the notation.

proof:          coq/Props/C08.v: the law is normalised / proportional / uniform on equal weights, list transitions, candidates =
                compatible descriptors, zero-probability options never taken in any run
correspondence: every rng.choice call of every run (candidates and p) against the model's Choice events
oracle/search:  (a) every p handed to the generator is a probability vector and the taken option has p > 0;
                (b) copolymer family with random weights (zeros, equal weights included): the probability of EVERY leaf of the
                    implementation's complete choice tree = closed form prod w_i / sum w read from the notation, leaves sum to 1;
                (c) explicit transition lists: leaf probabilities = products of listed weights / their sum
"""
import math
import random
from fractions import Fraction as Fr

import framework as fw
import genlayer as gl
import gen_inputs as gi
import genrun

UNITS = ["CC", "C(C)C", "OCC", "C(F)C", "NC", "SC"]


def copolymer_case(rnd):
    n = rnd.choice([2, 2, 3])
    units = rnd.sample(UNITS, n)
    mode = rnd.choice(["random", "random", "equal", "zeros", "one_zero"])
    if mode == "equal":
        w = [rnd.choice([0.5, 1, 2, 7])] * n
    elif mode == "zeros":
        w = [0] * n
    elif mode == "one_zero":
        w = [rnd.choice([1, 2, 3]) for _ in range(n)]
        w[rnd.randrange(n)] = 0
    else:
        w = [rnd.choice([0.25, 0.5, 1, 2, 3, 5.5]) for _ in range(n)]
    fmt = lambda x: repr(float(x)) if rnd.random() < 0.5 else (str(int(x)) if float(x).is_integer() else repr(float(x)))
    toks = [f"[<|{fmt(wi)}|]{u}[>]" for u, wi in zip(units, w)]
    text = "C{[>] " + ", ".join(toks) + " [<]}|gauss(100,10)|[H]"
    return text, units, [Fr(x) for x in w]


def closed_form(w, seq):
    n = len(w)
    if all(x == w[0] for x in w):
        p = [Fr(1, n)] * n
    else:
        p = [x / sum(w) for x in w]
    r = Fr(1)
    for s in seq:
        r *= p[s]
    return r


def check(rep):
    coq = fw.coq_check("C08", ["SrcBond", "SrcCore", "SrcGen"])
    quick = rep.tier == "quick"
    rnd = random.Random(rep.seed + 8)
    cases, stats = genrun.collect(rep, 120 if quick else 6000, 10 if quick else 300, max_leaves=150 if quick else 2000,
                                  budget_s=100 if quick else 1500,
                                  extra_natural=gi.cases(rep.seed + 88, 16 if quick else 400, archetypes=["lone_zero_weight", "twin_units"]))   # rare triggers: a fixed share
    choices = 0
    distinct = set()
    # (d) the law of the notation at EVERY decision: the model's Choice events are that law (C08_law_proportional, C08_transition_list,
    # C08_candidates are theorems about exactly these values); a decision whose candidates or probabilities differ is a failing input of C08
    for c in cases:
        mo = getattr(c, "mo", None)
        if mo is None or getattr(c, "near", False) or not isinstance(mo, dict) or "trace" not in mo:
            continue
        mch = [ev for ev in mo["trace"] if ev[0] == "c"]      # ["c", cands, p, k]
        for n, ((cands, p, k), ev) in enumerate(zip(c.run.rng.log, mch)):
            mp = [float(Fr(x)) for x in ev[2]]
            mc = ev[1]
            if p is None or mc is None:
                continue
            if list(cands) != list(mc) or len(mp) != len(p) or any(abs(a - b) > 1e-9 for a, b in zip(p, mp)):
                rep.fail("oracle", f"decision {n}: the generator was handed candidates {list(cands)} with p={[round(x, 6) for x in p]}; the notation's law there is candidates {list(mc)} "
                         f"with p={[round(x, 6) for x in mp]}", {**c.ident(), "decision": n}, expected=f"{list(mc)} {[round(x, 6) for x in mp]}", observed=f"{list(cands)} {[round(x, 6) for x in p]}")
                break
    for c in cases:
        for n, (cands, p, k) in enumerate(c.run.rng.log):
            choices += 1
            if p is None:
                continue
            if len(p) != len(cands) or any(x < 0 or math.isnan(x) for x in p) or abs(sum(p) - 1) > 1e-9 or not p[k] > 0:
                rep.fail("oracle", f"choice {n}: p={p} over {len(cands)} candidates, taken position {k}", c.ident(),
                         expected="probability vector, taken option has positive probability", observed=p)
            if len(p) > 1 and len(set(p)) > 1:
                distinct.add((c.text, tuple(c.run.picks[:n + 1])))
    # a decision that cannot be made at all: the probability vector handed to the generator is not one (nan, negative, not normalised) and numpy
    # refuses it -- the run ends with that error before the decision is recorded
    for c in cases:
        err = getattr(c.run, "error", None)
        if err is not None and "robabilit" in str(err):
            rep.fail("oracle", f"a random decision was handed an invalid probability vector ({type(err).__name__ if not isinstance(err, str) else 'error'}: {str(err)[:80]}) "
                     f"after {len(c.run.rng.log)} recorded decision(s)", c.ident(), expected="a probability vector following the written weights", observed=str(err)[:80])
    # (b) closed-form family, complete choice trees
    fam = 0
    fam_leaves = 0
    for _ in range(25 if quick else 600):
        text, units, w = copolymer_case(rnd)
        import gbigsmiles

        mol = gbigsmiles.Molecule(text)
        masses = genrun.unit_masses(mol)[0]
        target = max(masses) * rnd.choice([1.5, 2.5])
        leaves, trunc = gl.explore(text, [target], max_leaves=3000)
        if trunc:
            continue
        fam += 1
        total = Fr(0)
        strs = ["[<" + "|" for _ in units]
        for script, r in leaves:
            fam_leaves += 1
            pr = Fr(1)
            for cands, p, k in r.rng.log:
                pr *= Fr(p[k]) if p is not None else Fr(1, len(cands))
            total += pr
            if r.gen is None:
                rep.fail("oracle", f"copolymer leaf failed: {r.error}", {"text": text, "script": script, "forced_targets": [target]},
                         expected="molecule", observed=str(r.error))
                continue
            v = genrun.View(r)
            seq = []
            reps = [str(t) for t in mol.elements[1].repeat_tokens]
            for n_ in v.nodes:
                s = v.g.graph.nodes[n_]["big_smiles"]
                if s in reps:
                    seq.append(reps.index(s))
            want = closed_form(w, seq)
            if abs(float(pr) - float(want)) > 1e-9:
                rep.fail("oracle", f"copolymer {text}: monomer sequence {seq} has probability {float(pr):.9f}, the notation says {float(want):.9f}",
                         {"text": text, "script": script, "forced_targets": [target], "weights": [str(x) for x in w]},
                         expected=float(want), observed=float(pr))
            distinct.add((text, tuple(script)))
        if abs(float(total) - 1) > 1e-9:
            rep.fail("oracle", f"copolymer {text}: leaf probabilities sum to {float(total)}", {"text": text, "forced_targets": [target]},
                     expected=1.0, observed=float(total))
    # outcome mass of the all-sequence instances of the generic archetypes
    trees = {}
    for c in cases:
        if c.mode == "allseq" and not getattr(c, "tree_truncated", True):
            pr = 1.0
            for cands, p, k in c.run.rng.log:
                pr *= p[k] if p is not None else 1.0 / len(cands)
            trees[c.text] = trees.get(c.text, 0.0) + pr
    for text, tot in trees.items():
        if abs(tot - 1) > 1e-9:
            rep.fail("oracle", f"outcome probabilities of {text} sum to {tot}", {"text": text}, expected=1.0, observed=tot)
    rep.coverage.update({"evaluations": len(cases) + fam_leaves, "choice_calls_checked": choices, "closed_form_instances": fam, "closed_form_leaves": fam_leaves,
                         "complete_choice_trees": len(trees), "distinct_nontrivial": len(distinct),
                         "rule": "every rng.choice call of random-mode and all-sequence runs (as C04) + copolymer family (2-3 directed units, random / equal / "
                                 "all-zero / one-zero weights, two number formats) with complete choice trees; distinct_nontrivial = distinct decision "
                                 "prefixes with a non-uniform p plus distinct closed-form leaves",
                         "traces_validated_against_model": sum(1 for c in cases if not c.near), **stats,
                         "samples": [c.ident() for c in cases[:1]] + [{"copolymer": copolymer_case(random.Random(1))[0]}]})
    rep.assumptions = ["numpy Generator.choice samples according to the p it is given (oracle; not proved)"]
    return fw.finish(rep, coq, fw.COMMON_TRUSTED + ["modelled, not verified: core.py:102-122, stochastic.py:202-230, 268-301 (Model/Select.v, Model/Gen.v)"],
                     "make -C coq Props/C08.vo (coqc 8.16.1, full .vo build) + Print Assumptions audit")


def replay(case):
    c = case.get("case") or {}
    print("replay:", case.get("what"))
    if "script" in c and c.get("script") is not None:
        r = gl.ImplRun(c["text"], 0, script=c["script"], forced_targets=c.get("forced_targets"))
        pr = 1.0
        for cands, p, k in r.rng.log:
            pr *= p[k]
        print("implementation leaf probability:", pr, " expected:", case.get("expected"))
        return 0 if case.get("expected") is not None and abs(pr - float(case["expected"])) < 1e-9 else 1
    return genrun.replay(case, lambda v, run: [])
