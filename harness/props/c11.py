"""C11 -- Each molecular-weight distribution is one coherent probability law.

proof:          coq/Props/C11.v: Flory-Schulz non-negative, closed form of all partial sums (Q), series = 1 (R); interval rule = cdf
                difference for any mass function; unknown names rejected / names reach their family (regenerated dispatch)
correspondence: (T) get_distribution; (K) Flory-Schulz pmf and cdf of the implementation vs the model's exact rationals on a grid
oracle/search:  numeric, on the implementation, for six families x parameter grids: non-negativity, sum / integral = 1, interval
                probability = cdf difference (= sum of masses for the discrete laws), scripted quantiles: draws finite, in the support,
                consistent with the cdf; text form reproduces the parameters; unknown name rejected
known findings: scipy's discrete ppf bisection raising for some quantiles (Flory-Schulz a <= 0.05, Schulz-Zimm);
                Schulz-Zimm with z < 1 (Mw > 2 Mn): the density used as a mass function is infinite at 0
"""
import math
import random
from fractions import Fraction as Fr

import numpy as np

import distrun
import framework as fw
import genlayer as gl

DISCRETE = ("flory_schulz", "schulz_zimm", "poisson")


def tags_for(fam, args, region, exc=None):
    t = set()
    if exc is not None and "endless loop" in str(exc) and fam in ("flory_schulz", "schulz_zimm"):
        t.add("scipy_discrete_ppf_endless_loop")
    return t


def interval(lo, hi):
    """the (value, previous) pair mol_prob.py hands to prob_mw for the mass interval (lo, hi]"""
    from gbigsmiles.mol_prob import RememberAdd

    r = RememberAdd(lo)
    r += hi - lo
    return r


def check(rep):
    import gbigsmiles
    from gbigsmiles.distribution import get_distribution
    from gbigsmiles.mol_prob import RememberAdd
    from scipy import integrate

    coq = fw.coq_check("C11", ["SrcDist", "SrcDistLaw"])
    quick = rep.tier == "quick"
    rnd = random.Random(rep.seed + 11)
    evaluations = 0
    distinct = set()
    # ---- tie K: Flory-Schulz pmf / cdf against exact rationals
    lines, exp = [], []
    for a in ([0.5, 0.2, 0.1] if quick else [0.9, 0.5, 0.35, 0.2, 0.1, 0.07]):
        d = get_distribution(f"|flory_schulz({a})|")
        for k in ([1, 2, 3, 7, 12, 20, 30] if quick else list(range(1, 41)) + [50, 60]):
            # the model gets the decimal fraction written in the notation (the implementation its binary64 neighbour)
            lines.append("\t".join(["fs", str(Fr(str(a))), str(k)]))
            exp.append((a, k, float(d._distribution.pmf(k, a=a)), float(d._distribution.cdf(k, a=a))))
    for (a, k, pm, cd), out in zip(exp, fw.run_driver(lines)):
        evaluations += 1
        mp, mc = (float(Fr(x)) for x in out.split(" "))
        if abs(mp - pm) > 1e-9 * max(1e-12, abs(mp)) + 1e-15 or abs(mc - cd) > 1e-9:
            rep.fail("correspondence", f"flory_schulz({a}) at k={k}: implementation pmf {pm} cdf {cd}, model {mp} {mc}", {"a": a, "k": k}, expected=[mp, mc], observed=[pm, cd])
    # ---- oracle on the implementation
    G = distrun.grid(rnd, not quick)
    totals = {}
    us = [0.001, 0.05, 0.3, 0.5, 0.77, 0.95, 0.999] if quick else [i / 200 for i in range(1, 200)] + [0.0005, 0.9995]
    for fam, args, region in G:
        t = distrun.text(fam, args)
        ident = {"text": t, "region": region}
        try:
            d = get_distribution(t)
        except Exception as e:  # noqa
            rep.fail("oracle", f"{t} rejected: {type(e).__name__}", ident, expected="a distribution", observed=fw.exc_class(e))
            continue
        distinct.add((fam, args))
        # text form reproduces the parameters
        d2 = get_distribution(str(d))
        if str(d2) != str(d) or {k: v for k, v in vars(d2).items() if k.startswith("_") and isinstance(v, (int, float))} != \
                {k: v for k, v in vars(d).items() if k.startswith("_") and isinstance(v, (int, float))}:
            rep.fail("oracle", f"text form {d} does not reproduce the parameters of {t}", ident, expected=str(d), observed=str(d2))
        evaluations += 1
        mean = {"gauss": lambda: args[0], "uniform": lambda: (int(args[0]) + int(args[1])) / 2, "schulz_zimm": lambda: args[1],
                "log_normal": lambda: args[0], "poisson": lambda: args[0], "flory_schulz": lambda: 2 / args[0] - 1}[fam]()
        spread = {"gauss": lambda: args[1], "uniform": lambda: int(args[1]) - int(args[0]), "schulz_zimm": lambda: math.sqrt(max(1e-9, args[0] * args[1] - args[1] ** 2)),
                  "log_normal": lambda: args[0] * math.sqrt(max(1e-9, args[1] - 1)), "poisson": lambda: math.sqrt(args[0]), "flory_schulz": lambda: 2 / args[0]}[fam]()
        lo, hi = (mean - 12 * spread if fam == "gauss" else max(0.0, mean - 12 * spread)), mean + 40 * spread
        try:
            if fam in DISCRETE:
                ks = np.arange(0 if fam != "flory_schulz" else 1, int(hi) + 2)
                pm = np.array([d.prob_mw(int(k)) for k in ks], dtype=float)
                if np.any(~np.isfinite(pm)) or np.any(pm < 0):
                    bad = ks[(~np.isfinite(pm)) | (pm < 0)][:3]
                    rep.fail("oracle", f"{t}: mass function is negative or not finite at {bad.tolist()}", ident, expected="finite, >= 0", observed=pm[(~np.isfinite(pm)) | (pm < 0)][:3].tolist(),
                             tags={"schulz_zimm_density_as_pmf"} if fam == "schulz_zimm" and bad.tolist() == [0] and args[0] > 2 * args[1] else set())   # z < 1 only: M**(z-1) at M = 0
                    continue
                tot = float(pm.sum())
                totals[t] = tot
                if abs(tot - 1) > 2e-3:
                    rep.fail("oracle", f"{t}: masses sum to {tot}", ident, expected=1.0, observed=tot,
                             tags={"schulz_zimm_density_as_pmf"} if fam == "schulz_zimm" else set())
                # interval rule
                civ = [(int(rnd.uniform(max(1, mean - 2 * spread), mean + spread)), rnd.randrange(1, max(2, int(spread) + 2))) for _ in range(4)]
                civ += [(int(mean + k * spread), max(1, int(0.5 * spread))) for k in (2.0, 2.6, 3.2, 4.0)]
                civ += [(0, 1), (0, max(1, int(mean))), (0, max(2, int(mean + spread)))]      # the first interval of a block starts at 0
                for a_, w_ in civ:
                    b_ = a_ + w_
                    if b_ >= ks[-1]:
                        continue
                    iv = float(d.prob_mw(interval(a_, b_)))
                    want = float(pm[(ks > a_) & (ks <= b_)].sum())
                    if abs(iv - want) > 1e-6:
                        rep.fail("oracle", f"{t}: probability of ({a_}, {b_}] is {iv}, the masses in it sum to {want}", ident, expected=want, observed=iv,
                                 tags={"schulz_zimm_density_as_pmf"} if fam == "schulz_zimm" and args[0] > 2 * args[1] else set())
            else:
                f = lambda x: float(d.prob_mw(x))
                pts = np.linspace(lo, hi, 400)
                vals = np.array([f(x) for x in pts if not (fam == "log_normal" and x <= 0)])
                if np.any(~np.isfinite(vals)) or np.any(vals < 0):
                    rep.fail("oracle", f"{t}: density negative or not finite", ident, expected="finite, >= 0", observed="nan/negative")
                    continue
                tot = integrate.quad(f, max(lo, 1e-9) if fam == "log_normal" else lo, hi, limit=400, points=[mean] if lo < mean < hi else None)[0]
                if fam == "uniform":
                    tot = integrate.quad(f, int(args[0]), int(args[1]))[0]
                if abs(tot - 1) > 2e-3:
                    rep.fail("oracle", f"{t}: density integrates to {tot}", ident, expected=1.0, observed=tot)
                ivs = [(rnd.uniform(max(lo, mean - 2 * spread), mean + spread), rnd.uniform(0.1, 1.5) * spread) for _ in range(4)]
                ivs += [(mean + k * spread, 0.5 * spread) for k in (2.0, 2.6, 3.2, -2.5, -3.2)]      # both tails
                if fam == "uniform":
                    ivs += [(int(args[0]) + q * (int(args[1]) - int(args[0])), 0.004 * (int(args[1]) - int(args[0]))) for q in (0.001, 0.5, 0.991, 0.995)]
                for a_, w_ in ivs:
                    b_ = a_ + w_
                    if fam == "log_normal" and a_ <= 0:
                        continue
                    iv = float(d.prob_mw(interval(a_, b_)))
                    # the uniform density jumps at its two ends: tell the quadrature where (otherwise its own error exceeds the tolerance)
                    brk = [float(x) for x in (args[0], args[1]) if a_ < float(x) < b_] if fam == "uniform" else []
                    want = integrate.quad(f, a_, b_, points=brk or None)[0]
                    if abs(iv - want) > 1e-5 or iv < -1e-12:
                        rep.fail("oracle", f"{t}: probability of ({a_:.3f}, {b_:.3f}] is {iv}, the density integrates to {want} there", ident, expected=want, observed=iv)
                # a partition of the support must add up to 1
                cuts = np.linspace((max(lo, 1e-9) if fam == "log_normal" else lo) if fam != "uniform" else int(args[0]) - 1, hi if fam != "uniform" else int(args[1]) + 1, 41)
                part = sum(float(d.prob_mw(interval(x, y))) for x, y in zip(cuts, cuts[1:]) if not (fam == "log_normal" and x <= 0))
                if abs(part - 1) > 2e-3:
                    rep.fail("oracle", f"{t}: interval probabilities over a partition of the support add up to {part}", ident, expected=1.0, observed=part)
        except Exception as e:  # noqa
            rep.fail("oracle", f"{t}: probability evaluation raised {type(e).__name__}: {str(e)[:80]}", ident, expected="a number", observed=fw.exc_class(e), tags=tags_for(fam, args, region, e))
            continue
        # scripted quantiles
        for u in us:
            evaluations += 1
            try:
                with fw.time_limit(4):
                    v = float(d.draw_mw(distrun.URNG(u)))
            except fw.Timeout:
                rep.fail("oracle", f"{t}: the draw for quantile {u} does not return within 4 s", {**ident, "u": u}, expected="a finite mass in the support", observed="timeout",
                         tags={"schulz_zimm_density_as_pmf"} if fam == "schulz_zimm" and (args[0] > 2 * args[1] or u > totals.get(t, 1.0) - 1e-6) else set())
                break
            except Exception as e:  # noqa
                rep.fail("oracle", f"{t}: the draw for quantile {u} raised {type(e).__name__}: {str(e)[:60]}", {**ident, "u": u}, expected="a finite mass in the support",
                         observed=fw.exc_class(e), tags=tags_for(fam, args, region, e))
                continue
            smin = {"uniform": int(args[0]), "log_normal": 0.0, "poisson": 0.0, "flory_schulz": 1.0, "schulz_zimm": 0.0}.get(fam, -math.inf)
            smax = int(args[1]) if fam == "uniform" else math.inf
            if not math.isfinite(v) or v < smin - 1e-9 or v > smax + 1e-9:
                rep.fail("oracle", f"{t}: the draw for quantile {u} is {v}, outside the support", {**ident, "u": u}, expected=f"[{smin}, {smax}]", observed=v,
                         tags=tags_for(fam, args, region))
                continue
            # consistency with the same law's cdf
            try:
                if fam in DISCRETE:
                    c1 = float(d.prob_mw(interval(-1, v)))
                    c0 = float(d.prob_mw(interval(-1, v - 1))) if v - 1 >= 0 else 0.0
                    if not (c0 - 1e-7 <= u <= c1 + 1e-7):
                        rep.fail("oracle", f"{t}: the draw for quantile {u} is {v} but cdf({v - 1})={c0}, cdf({v})={c1}", {**ident, "u": u}, expected="cdf(v-1) < u <= cdf(v)", observed=[c0, c1],
                                 tags=tags_for(fam, args, region))
                elif fam != "gauss":
                    c = float(d.prob_mw(interval(lo if fam != "uniform" else int(args[0]) - 1, v)))
                    base = 0.0 if fam == "uniform" else float(d.prob_mw(interval(0, lo))) if fam == "log_normal" and lo > 0 else 0.0
                    if abs(c + base - u) > 1e-5:
                        rep.fail("oracle", f"{t}: the draw for quantile {u} is {v} but the law gives it cumulative probability {c + base}", {**ident, "u": u}, expected=u, observed=c + base)
            except Exception:
                pass
    # unknown name
    for bad in ["|weibull(1, 2)|", "|normal(100, 10)|", "|Gauss(1,2)|"]:
        evaluations += 1
        try:
            get_distribution(bad)
            rep.fail("oracle", f"unknown distribution {bad} accepted", {"text": bad}, expected="an error", observed="object")
        except Exception:
            pass
    rep.coverage.update({"evaluations": evaluations, "distinct_nontrivial": len(distinct), "parameter_sets": len(G), "quantiles_per_set": len(us),
                         "flory_schulz_exact_points": len(exp),
                         "rule": "six families x regions {narrow, broad, random, z<1, a<=0.05} x small/large means; per set: normalisation, 4 random intervals, scripted "
                                 "quantile grid; distinct_nontrivial = distinct (family, parameters)",
                         "samples": [{"text": distrun.text(*G[i][:2]), "region": G[i][2]} for i in (0, 5, len(G) - 1)]})
    rep.assumptions = ["PARTIAL: normalisation of Gaussian / log-normal / Gamma laws and scipy's cdf / ppf / rvs are checked numerically, not proved",
                       "tolerances: 2e-3 on normalisation (Schulz-Zimm is a continuous density summed over integers), 1e-5 / 1e-6 on intervals"]
    return fw.finish(rep, coq, fw.COMMON_TRUSTED + ["Coq standard-library real-number axioms for C11_fs_sums_to_one (listed under print_assumptions)",
                                                    "modelled, not verified: Flory-Schulz mass function (distribution.py:100) in Model/Dist.v and Proofs/FSReal.v"],
                     "make -C coq Props/C11.vo (coqc 8.16.1, full .vo build) + Print Assumptions audit")


def replay(case):
    from gbigsmiles.distribution import get_distribution
    c = case.get("case") or {}
    print("replay:", case.get("what"))
    if "text" in c and "u" in c:
        d = get_distribution(c["text"])
        try:
            print("draw:", d.draw_mw(distrun.URNG(c["u"])))
            return 0
        except Exception as e:
            print("raises", type(e).__name__, e)
            return 1
    print(c)
    return 1
