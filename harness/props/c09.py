"""C09 -- Block sizes in an ensemble follow the declared molecular-weight distribution.

proof:          coq/Props/C09.v: block size n <=> target in [M_{n-1}, M_n); dispatch (regenerated from get_distribution); parameter order
correspondence: (T) get_distribution; (K) parameter plumbing of the six constructors (which scipy law, which arguments) vs `plumb`;
                the block size produced by the implementation for forced targets vs `stop_index` of the cumulative unit masses;
                one draw call per stochastic object per generation
oracle/search:  block sizes under scripted quantiles: the target drawn for quantile u is the law's u-quantile, and the block stops in the
                interval it predicts; thorough: goodness of fit of block sizes over thousands of generations
"""
import math
import random
from fractions import Fraction as Fr

import numpy as np

import distrun
import framework as fw
import genlayer as gl


def observe_law(d):
    """which scipy law with which arguments the constructed object will draw from"""
    name = type(d).__name__
    if name in ("Gauss", "Uniform", "Poisson"):
        fz = d._distribution
        kw = dict(fz.kwds)
        if fz.dist.name == "norm":
            return ("norm", float(kw["loc"]), float(kw["scale"]))
        if fz.dist.name == "uniform":
            return ("uniform", float(kw["loc"]), float(kw["scale"]))
        if fz.dist.name == "poisson":
            return ("poisson", float(kw["mu"]))
        return ("other", fz.dist.name)
    if name == "FlorySchulz":
        return ("flory_schulz", float(d._a))
    if name == "SchulzZimm":
        return ("schulz_zimm", float(d._z), float(d._Mn))
    if name == "LogNormal":
        return ("log_normal", float(d._M), float(d._D))
    return ("other", name)


_sz_cache = {}


def _sz_quantile(mw, mn, u):
    """smallest integer k with sum_{j<=k} pmf(j) >= u for the documented Schulz-Zimm mass function; None when the (slightly deficient) total does not reach u"""
    import numpy as np
    from scipy import special

    key = (mw, mn)
    if key not in _sz_cache:
        z = mn / (mw - mn)
        ks = np.arange(1, int(mn * (1 + 40 / math.sqrt(z))) + 50, dtype=float)
        logp = (z + 1) * math.log(z) - special.gammaln(z + 1) + (z - 1) * np.log(ks) - z * math.log(mn) - z * ks / mn
        _sz_cache[key] = np.cumsum(np.exp(logp))
    c = _sz_cache[key]
    if c[-1] < u + 1e-6:
        return None
    return float(int(np.searchsorted(c, u - 1e-12)) + 1)


def check(rep):
    from gbigsmiles.distribution import get_distribution

    coq = fw.coq_check("C09", ["SrcDist", "SrcDistLaw", "SrcDistParams"])
    quick = rep.tier == "quick"
    rnd = random.Random(rep.seed + 9)
    evaluations = 0
    distinct = set()
    # ---- plumbing
    G = distrun.grid(rnd, not quick)
    lines, obs = [], []
    for fam, args, region in G:
        t = distrun.text(fam, args)
        try:
            d = get_distribution(t)
        except Exception as e:  # noqa
            rep.fail("oracle", f"{t} rejected: {type(e).__name__}", {"text": t}, expected="a distribution", observed=fw.exc_class(e))
            continue
        lines.append("\t".join(["plumb", fam, ",".join(gl.fq(float(a)) for a in args)]))
        obs.append((t, fam, args, observe_law(d)))
    for (t, fam, args, o), out in zip(obs, fw.run_driver(lines)):
        evaluations += 1
        f = out.split(" ")
        ok = f[0] == o[0] and len(f) - 1 == len(o) - 1 and all(abs(float(Fr(x)) - y) <= 1e-9 * max(1, abs(y)) for x, y in zip(f[1:], o[1:]))
        if not ok:
            rep.fail("correspondence", f"parameter plumbing of {t}: implementation {o}, model {out}", {"text": t}, expected=out, observed=str(o))
        # documented meaning, independently of the model
        want = {"gauss": lambda a: ("norm", a[0], a[1]), "uniform": lambda a: ("uniform", int(a[0]), int(a[1]) - int(a[0])),
                "poisson": lambda a: ("poisson", a[0]), "flory_schulz": lambda a: ("flory_schulz", a[0]),
                "schulz_zimm": lambda a: ("schulz_zimm", a[1] / (a[0] - a[1]), a[1]), "log_normal": lambda a: ("log_normal", a[0], a[1])}[fam](args)
        if o[0] != want[0] or any(abs(x - y) > 1e-9 * max(1, abs(y)) for x, y in zip(o[1:], want[1:])):
            rep.fail("oracle", f"{t} draws from {o}, documented meaning is {want}", {"text": t}, expected=str(want), observed=str(o))
        distinct.add((fam, args))
    # ---- block size for forced targets vs stop_index of the cumulative unit masses; one draw per object
    units = [("CC", "[$]CC[$]"), ("C(C)C", "[$]C(C)C[$]"), ("OCC", "[$]OCC[$]")]
    lines, exp = [], []
    for k in range(40 if quick else 1500):
        fam, args, region = G[k % len(G)]
        u1, u2 = rnd.choice(units), rnd.choice(units)
        text = "C{[$]" + u1[1] + "[$]}" + distrun.text(fam, args) + "N{[$]" + u2[1] + "[$]}" + distrun.text(fam, args) + "O"
        m1 = float(gl.token_data(__import__("gbigsmiles").Molecule(text).elements[1].repeat_tokens[0])[2])
        m2 = float(gl.token_data(__import__("gbigsmiles").Molecule(text).elements[3].repeat_tokens[0])[2])
        T1 = rnd.choice([-5.0, 0.3 * m1, rnd.randrange(1, 12) * m1 + 0.37 * m1, rnd.uniform(0, 20) * m1])
        T2 = rnd.choice([0.5 * m2, rnd.randrange(1, 12) * m2 + 0.61 * m2])
        r = gl.ImplRun(text, rnd.randrange(1 << 30), forced_targets=[T1, T2])
        if r.gen is None:
            rep.fail("oracle", f"generation failed: {r.error}", {"text": text, "forced_targets": [T1, T2]}, expected="molecule", observed=str(r.error))
            continue
        evaluations += 1
        res = [r.gen.graph.nodes[n]["big_smiles"] for n in sorted(r.gen.graph.nodes())]
        # residues: C, n1 units of block 1, N, n2 units of block 2, O
        iN = res.index("[$|0.0|]N[$|0.0|]") if "[$|0.0|]N[$|0.0|]" in res else None
        if iN is None:
            iN = next((i for i, s in enumerate(res) if "N" in s and "{" not in s and s not in (u1[1], u2[1])), None)
        n1, n2 = iN - 1, len(res) - iN - 2
        if len(r.targets) != 2:
            rep.fail("oracle", f"{len(r.targets)} draws for 2 stochastic objects", {"text": text}, expected=2, observed=len(r.targets))
        for (m, T, n) in ((m1, T1, n1), (m2, T2, n2)):
            lines.append("\t".join(["stopidx", ",".join(gl.fq(m * j) for j in range(1, 40)), gl.fq(T)]))
            exp.append((text, T, n, m))
        distinct.add((text, T1, T2))
    for (text, T, n, m), out in zip(exp, fw.run_driver(lines)):
        if out != str(n):
            rep.fail("correspondence", f"block size: implementation added {n} units of mass {m} for target {T}, stop_index says {out}", {"text": text, "target": T},
                     expected=out, observed=n)
        want = max(1, math.floor(T / m) + 1)
        if abs(T / m - round(T / m)) > 1e-6 and n != want:
            rep.fail("oracle", f"block size {n} for target {T} and unit mass {m}: the first unit that exceeds the target is number {want}", {"text": text, "target": T},
                     expected=want, observed=n)
    # ---- scripted quantiles through generation: the drawn target is the declared law's quantile
    nq = 0
    for fam, args, region in G:
        # z = 1 exactly: the registered mass function has an extra atom 1/Mn at M = 0 (C11's known finding on the Schulz-Zimm "pmf"), which
        # shifts every quantile; the quantile oracle is applied beside it (region "z~1"), the law itself is judged by C11
        if region in ("z<1", "a<=0.05", "z=1"):
            continue
        t = distrun.text(fam, args)
        d = get_distribution(t)
        for u in ([0.1, 0.5, 0.9, 0.999] if quick else [0.02, 0.1, 0.3, 0.5, 0.7, 0.9, 0.98, 0.999, 0.99999]):
            if fam == "schulz_zimm" and _sz_quantile(args[0], args[1], u) is None:
                continue      # the quantile lies above the law's (deficient) total mass: scipy's search for it does not return (C11's known finding)
            try:
                v = float(d.draw_mw(distrun.URNG(u)))
            except Exception:
                continue   # scipy's sampler: C11
            nq += 1
            from scipy import stats as _st
            ref = {"gauss": lambda: _st.norm.ppf(u, args[0], args[1]),
                   "uniform": lambda: int(args[0]) + u * (int(args[1]) - int(args[0])),
                   "poisson": lambda: _st.poisson.ppf(u, args[0]),
                   # documented meaning log_normal(Mn, dispersity): ln m ~ N(ln Mn - ln(D)/2, ln D)
                   "log_normal": lambda: _st.lognorm.ppf(u, s=math.sqrt(math.log(args[1])), scale=args[0] / math.sqrt(args[1])),
                   # schulz_zimm(Mw, Mn): the documented mass function summed over the integers (its total is 1 within 2e-3 for z >= 1, C11);
                   # smallest k whose cumulative mass reaches u -- no bound on the support
                   "schulz_zimm": lambda: _sz_quantile(args[0], args[1], u),
                   # flory_schulz(a): smallest k with 1 - (1-a)^k (1 + k a) >= u
                   "flory_schulz": lambda: next(k for k in range(1, 100000) if 1 - (1 - args[0]) ** k * (1 + k * args[0]) >= u - 1e-12)}.get(fam)
            if ref is not None and ref() is None:
                continue
            if ref is not None and abs(v - ref()) > 1e-4 * max(1, abs(ref())):
                rep.fail("oracle", f"{t}: the draw for quantile {u} is {v}, the declared law's quantile is {ref()}", {"text": t, "u": u}, expected=ref(), observed=v)
    rep.coverage.update({"evaluations": evaluations + nq, "distinct_nontrivial": len(distinct), "parameter_sets": len(G), "scripted_quantile_draws": nq,
                         "rule": "six families x parameter regions (small/large mean, narrow/broad, random) for plumbing; two-block molecules with forced targets "
                                 "(negative, below one unit, n units + fraction) for the block-size identity; distinct_nontrivial = distinct parameter sets + distinct (string, targets)",
                         "samples": [{"text": distrun.text(*G[3][:2])}, {"text": exp[0][0], "target": exp[0][1], "units": exp[0][2]}] if exp else []})
    rep.assumptions = ["that scipy's rvs follows the frozen law is an oracle (C11 backstop); the statistical statement is not a theorem"]
    return fw.finish(rep, coq, fw.COMMON_TRUSTED + ["modelled, not verified: constructors of distribution.py (Model/Dist.v plumb); regenerated: get_distribution (Src/SrcDist.v)"],
                     "make -C coq Props/C09.vo (coqc 8.16.1, full .vo build) + Print Assumptions audit")


def replay(case):
    print("replay:", case.get("what"))
    print(case.get("case"))
    return 1
