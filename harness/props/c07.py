"""C07 -- A stochastic object stops growing at the first unit that exceeds its drawn mass.

proof:          coq/Props/C07.v: stop rule, what counts, one draw per object -- all picks, all targets
correspondence: trace validation with natural draws and FORCED targets (below one unit, negative, n units +- margin, huge)
oracle/search:  stop rule read off residue masses in creation order and the recorded / forced draw
"""
import framework as fw
import genrun


EXACT_TEXTS = ["{[] [$]CC[$]; [$]C []}|gauss(150, 10)|", "N#C{[<] [>]CC[<] [>]}|gauss(150, 10)|F", "C{[$] [$]CC(C)[$] [$]}|uniform(100, 200)|O",
               "[H]{[>] [<]COC[>] [<]}|gauss(200, 20)|F", "OC{[<] [>]C(F)C[<], [>]CC[<] [>]}|gauss(200, 20)|N"]


def exact_hit_probe(rep, quick):
    """The boundary of the stop rule at the implementation's own floats: the drawn target is set to EXACTLY the mass the first k units add (the
    number stochastic.py itself computes, recorded by a proxy around its rdDescriptors).  Growth continues while the added mass does not exceed
    the target, so k + 1 units must be attached.  No rational model is involved: both runs use the same float arithmetic."""
    import numpy as np
    import gbigsmiles
    import gbigsmiles.stochastic as st
    from gbigsmiles.stochastic import Stochastic

    class Rec:
        def __init__(self, orig):
            self.orig, self.vals = orig, []

        def HeavyAtomMolWt(self, m):
            v = self.orig.HeavyAtomMolWt(m)
            self.vals.append(v)
            return v

        def __getattr__(self, n):
            return getattr(self.orig, n)

    def run(text, seed, target):
        mol = gbigsmiles.Molecule(text)
        for e in mol._elements:
            if isinstance(e, Stochastic):
                e.distribution.draw_mw = (lambda rng=None, T=target: T)
        rec = Rec(st.rdDescriptors)
        st.rdDescriptors = rec
        try:
            with fw.time_limit(30):
                g = mol.generate(rng=np.random.default_rng(seed))
        finally:
            st.rdDescriptors = rec.orig
        return g, rec.vals

    n = 0
    for ti, text in enumerate(EXACT_TEXTS):
        for seed in ((3,) if quick else (3, 4, 5, 6)):
            try:
                _, vals = run(text, seed, 115.0)      # a first run to learn the masses after each unit
            except Exception:
                continue
            added = [v - vals[0] for v in vals[1:]]
            for k in range(1, min(4, len(added))):
                T = added[k - 1]
                try:
                    g, vals2 = run(text, seed, T)
                except Exception as e:  # noqa
                    rep.fail("oracle", f"generation with the target set to the mass of {k} unit(s) raised {type(e).__name__}", {"text": text, "seed": seed, "mode": "exact_hit", "k": k},
                             expected="a molecule", observed=fw.exc_class(e))
                    continue
                n += 1
                units = len(vals2) - 1
                if units != k + 1:
                    rep.fail("oracle", f"target = {T!r}, exactly the mass added by {k} unit(s): growth ended after {units} unit(s); the added mass {added[units - 1] if 0 < units <= len(added) else '?'} "
                             f"{'does not exceed' if units <= k else 'exceeded'} the target{'' if units <= k else ' earlier'}",
                             {"text": text, "seed": seed, "mode": "exact_hit", "k": k, "target": T}, expected=f"{k + 1} units", observed=f"{units} units")
    return n


def long_growth_probe(rep, quick, only=None):
    """Growth has no bound of its own: a target that needs more than 1000 units of the lightest kind is reached -- the last unit is the first
    whose added mass exceeds the target.  (The masses are those stochastic.py computes, recorded by a proxy around its rdDescriptors.)"""
    import numpy as np
    import gbigsmiles
    import gbigsmiles.stochastic as st
    from gbigsmiles.stochastic import Stochastic

    class Rec:
        def __init__(self, orig):
            self.orig, self.vals = orig, []

        def HeavyAtomMolWt(self, m):
            v = self.orig.HeavyAtomMolWt(m)
            self.vals.append(v)
            return v

        def __getattr__(self, n):
            return getattr(self.orig, n)

    n = 0
    for text, T in [("F{[$][$]C[$][$]}|gauss(100, 10)|Cl", 12017.0055)] + ([] if quick else [("C{[>][<]CC[>][<]}|uniform(10, 20)|O", 42100.0)]):
        ident = {"text": text, "mode": "long_growth", "target": T, "seed": 1}
        if only is not None and only != text:
            continue
        mol = gbigsmiles.Molecule(text)
        for e in mol._elements:
            if isinstance(e, Stochastic):
                e.distribution.draw_mw = (lambda rng=None, T=T: T)
        rec = Rec(st.rdDescriptors)
        st.rdDescriptors = rec
        try:
            with fw.time_limit(400):
                g = mol.generate(rng=np.random.default_rng(1))
        except Exception as e:  # noqa
            rep.fail("oracle", f"generation towards the target {T} raised {type(e).__name__}: {str(e)[:80]}", ident, expected="a molecule", observed=fw.exc_class(e))
            continue
        finally:
            st.rdDescriptors = rec.orig
        n += 1
        added = [v - rec.vals[0] for v in rec.vals[1:]]
        if not added or not (added[-1] > T) or (len(added) > 1 and added[-2] > T):
            rep.fail("oracle", f"target {T}: growth ended after {len(added)} unit(s) with the added mass {added[-1] if added else 0.0}"
                     f"{' which does not exceed the target' if added and not added[-1] > T else ''}", ident, expected="the first unit whose added mass exceeds the target",
                     observed=f"{len(added)} units, added mass {added[-1] if added else 0.0}")
        elif not g.fully_generated:
            rep.fail("oracle", f"target {T}: the molecule of {len(added)} units is not fully generated", ident, expected="fully generated", observed="open descriptors")
    return n


def check(rep):
    coq = fw.coq_check("C07", ["SrcBond", "SrcCore", "SrcGen"])
    quick = rep.tier == "quick"
    import gen_inputs as gi
    # natural draws of wide Gaussians: negative first draws happen by themselves (one draw per object, growth obeys THAT draw)
    wide = [(a + ":gauss_wide", t, s) for a, t, s in gi.cases(rep.seed + 77, 60 if quick else 2000, archetypes=["homopolymer", "random_copolymer", "end_initiated", "block_copolymer"], family="gauss_wide")]
    cases, stats = genrun.collect(rep, 200 if quick else 8000, 8 if quick else 200, forced_kinds=(None, "below", "negative", "units", "units", "huge"),
                                  max_leaves=100 if quick else 1500, budget_s=120 if quick else 1500, extra_natural=wide)
    mols = 0
    skipped = 0
    distinct = set()
    # objects with transition lists cannot be judged from the molecule alone (a growth step may attach an end group); for them the stop point
    # is read from the model run on the implementation's own picks: by C07_stop_rule the model stops at the first step whose accumulated
    # mass exceeds the target, so an implementation that goes on taking random decisions after that point has grown past it
    for c in cases:
        mo = getattr(c, "mo", None)
        if not isinstance(mo, dict) or getattr(c, "near", False) or mo.get("r") != "done" or c.run.gen is None:
            continue
        if mo.get("picks_left", 0) > 0 and not mo.get("targets_left", 0):
            infos = mo.get("infos", [])
            rep.fail("oracle", f"growth went on after the stop point: with the same picks the stop rule ends every object at targets / accumulated masses "
                     f"{[(i.get('T'), i.get('units')) for i in infos][:3]}, the implementation took {mo['picks_left']} more random decisions", c.ident(),
                     expected="stop at the first unit whose added mass exceeds the target", observed=f"{mo['picks_left']} further decisions")
    for c in cases:
        if c.run.gen is None:
            continue
        v = genrun.View(c.run)
        res = genrun.oracle_c07(v, c.run)
        if res is None:
            skipped += 1
            continue
        mols += 1
        for b in res:
            rep.fail("oracle", b, c.ident(), expected="stop right after the first unit whose added mass exceeds the target", observed=b)
        if c.run.targets:
            distinct.add((c.text, tuple(c.run.picks), tuple(c.run.targets)))
    stats = {**stats, "exact_hit_probes": exact_hit_probe(rep, quick), "long_growth_probes": long_growth_probe(rep, quick)}
    rep.coverage.update({"evaluations": len(cases), "molecules_checked": mols, "oracle_undecidable_skipped": skipped, "distinct_nontrivial": len(distinct),
                         "rule": "as C04 plus forced targets per stochastic object: below one unit / negative / n units +- 0.25 unit / 20-45 units; "
                                 "distinct_nontrivial = distinct (string, picks, targets) with at least one stochastic object decided by the oracle",
                         "traces_validated_against_model": sum(1 for c in cases if not c.near), **stats,
                         "samples": [c.ident() for c in cases[:2] + cases[-1:]]})
    rep.assumptions = ["float comparison at the threshold: cases within 1e-7 (relative) of the target are discarded and counted"]
    return fw.finish(rep, coq, fw.COMMON_TRUSTED + ["modelled, not verified: stochastic.py:232-266 (Model/Gen.v grow_loop); masses are oracle data (RDKit HeavyAtomMolWt)"],
                     "make -C coq Props/C07.vo (coqc 8.16.1, full .vo build) + Print Assumptions audit")


def replay(case):
    c = case.get("case") or {}
    if c.get("mode") == "exact_hit":
        class _R:
            def __init__(self):
                self.n = 0

            def fail(self, stage, what, ident, **kw):
                if ident.get("text") == c["text"] and ident.get("k") == c["k"]:
                    self.n += 1
                    print("replay:", what)
        r = _R()
        exact_hit_probe(r, True)
        print("exact-hit probe:", "fails" if r.n else "holds")
        return 1 if r.n else 0
    if c.get("mode") == "long_growth":
        class _R2:
            n = 0

            def fail(self, stage, what, ident, **kw):
                self.n += 1
                print("replay:", what)
        r2 = _R2()
        long_growth_probe(r2, False, only=c["text"])
        print("long-growth probe:", "fails" if r2.n else "holds")
        return 1 if r2.n else 0
    return genrun.replay(case, lambda v, run: genrun.oracle_c07(v, run) or [])
