"""C02 -- Parsing recovers exactly the structure the notation denotes.

proof:          coq/Props/C02.v: for ALL raw strings the descriptor parser gives weight 1 without a weight text, the sum for a list, the symbol,
                id and order table; every descriptor of every token the token model accepts sits on an atom of that token; the former
                defect witnesses as kernel computations on the model of the repaired code.  PARTIAL: the denotation theorem for all
                well-formed ASTs (C02_parse_denotes) is stated, not proved.
correspondence: token layer -- SmilesToken vs the extracted Token model (elements, atoms, every descriptor field, both printed forms, the
                fragment string, generable, error class) on ASTs printed by the independent printer and on random strings over a token alphabet
oracle/search:  the DENOTATION computed from the AST (harness/tokast.py, shares no code with the parser): atom and bond order of every
                descriptor "as if it were an atom at that position", symbol, id, weight (default 1, list = sum); exhaustive small ASTs +
                random deep ones; for stochastic objects / molecules: terminals, repeat and end tokens in order, distribution family and
                parameters
"""
import random

import framework as fw
import gen_inputs as gi
import layers
import molast
import tokast


def impl_descrs(t):
    from rdkit import Chem

    return [dict(sym=b.descriptor, id=b.descriptor_id if b.descriptor_id == "" else str(int(b.descriptor_id)), atom=b.atom_bonding_to,
                 order=str(Chem.BondType.values[int(b.bond_type)]), weight=float(b.weight),
                 trans=None if b.transitions is None else [float(x) for x in b.transitions]) for b in t.bond_descriptors]


def check_token(rep, ch, text, ident):
    from gbigsmiles.token import SmilesToken

    want = tokast.denote(ch)
    try:
        with fw.time_limit(5):
            t = SmilesToken(text, 0, 0)
    except Exception as e:  # noqa
        rep.fail("oracle", f"well-formed token {text!r} rejected: {type(e).__name__}: {str(e)[:70]}", ident, expected="accepted", observed=fw.exc_class(e))
        return None
    got = impl_descrs(t)
    tags = {"inner_explicit_hydrogen"} if tokast.has_inner_h(ch) else set()
    if len(t.atoms) != tokast.natoms(ch):
        rep.fail("oracle", f"token {text!r}: {len(t.atoms)} atoms parsed, {tokast.natoms(ch)} written", ident, expected=tokast.natoms(ch), observed=len(t.atoms))
    if len(got) != len(want):
        rep.fail("oracle", f"token {text!r}: {len(got)} descriptors parsed, {len(want)} written", ident, expected=len(want), observed=len(got))
        return t
    for k, (g, w) in enumerate(zip(got, want)):
        ww, wt = tokast.weight_of(w["wtext"])
        exp = dict(sym=w["sym"], id=w["id"], atom=w["atom"], order=w["order"], weight=ww, trans=wt)
        if g != exp:
            bad = [f for f in exp if g[f] != exp[f]]
            rep.fail("oracle", f"token {text!r}: descriptor {k} parsed with {', '.join(f'{f}={g[f]}' for f in bad)}; the notation denotes {', '.join(f'{f}={exp[f]}' for f in bad)}",
                     {**ident, "descriptor": k}, expected={f: exp[f] for f in bad}, observed={f: g[f] for f in bad})
            break
    return t


def check(rep):
    import gbigsmiles
    from rdkit import Chem

    coq = fw.coq_check("C02", ["SrcBond", "SrcDescr", "SrcToken", "SrcStochParse", "SrcMolParse"])
    quick = rep.tier == "quick"
    rnd = random.Random(rep.seed + 2)
    evaluations = 0
    distinct = set()
    depth_hist = {}
    # ---- tokens: exhaustive small scope + random deep ASTs
    small = tokast.all_small(None, 3 if quick else 4)
    g = tokast.Gen(rnd, max_depth=4)
    asts = [("small", ch) for ch in small] + [("random", g.token()) for _ in range(2500 if quick else 100000)]
    texts = []
    for kind, ch in asts:
        text = tokast.print_chain(ch)
        ident = {"layer": "token", "text": text, "kind": kind}
        evaluations += 1
        if check_token(rep, ch, text, ident) is not None and any(it[0] == "bd" for it in ch) or "(" in text:
            distinct.add(text)
        texts.append(text)
        n = tokast.natoms(ch)
        depth_hist["<=3 atoms" if n <= 3 else "<=12" if n <= 12 else ">12"] = depth_hist.get("<=3 atoms" if n <= 3 else "<=12" if n <= 12 else ">12", 0) + 1
    # ---- the token's atom numbering must be the numbering of the fragment generation works on (RDKit): explicit-hydrogen probes
    from gbigsmiles.token import SmilesToken
    for text in ["C([H])C([$])C", "C([H])C[$]", "[$]C([H])(C)C[$]", "CC([H])[$]", "[<]CC([>])c1ccccc1", "[$]C(Cl)C[$]", "C([2H])C([$])C"]:
        evaluations += 1
        try:
            t = SmilesToken(text, 0, 0)
            frag = Chem.MolFromSmiles(t.generate_smiles_fragment())
        except Exception:
            continue
        if frag is not None and frag.GetNumAtoms() != len(t.atoms):
            rep.fail("oracle", f"token {text!r}: descriptors are attached by written atom number ({len(t.atoms)} atoms) but the fragment used for generation has "
                     f"{frag.GetNumAtoms()} atoms (explicit hydrogens are merged), so atom numbers shift", {"layer": "token", "text": text},
                     expected=len(t.atoms), observed=frag.GetNumAtoms(), tags={"inner_explicit_hydrogen"} if "[H]" in text and len(t.atoms) > 1 else set())
    # ---- tie K: token layer, model vs implementation (AST prints + random strings over a token alphabet)
    ALPH = ["C", "N", "O", "c", "Cl", "[Si]", "[H]", "[O-]", "(", ")", "(", ")", "=", "#", "1", "2", ".", "[$]", "[<]", "[>]", "[$1]", "[<|2|]", "[>|1 2|]", "[", "]", "$", " ",
            "-", ":", "%12", "/", "Br", "[x]", "|", "[$|-1|]", "[$|a|]", "[>12|0 3.5|]"]
    texts = texts[: (1500 if quick else 40000)] + ["".join(rnd.choice(ALPH) for _ in range(rnd.randint(1, 9))) for _ in range(3000 if quick else 60000)]
    outs = fw.run_driver([layers.token_line(t) for t in texts])
    acc = 0
    for t, o in zip(texts, outs):
        m = layers.parse_model_token(o)
        i = layers.impl_token(t)
        evaluations += 1
        acc += isinstance(i, dict)
        d = layers.token_diff(m, i)
        if d:
            rep.fail("correspondence", f"token layer on {t!r}: " + "; ".join(d[:3]), {"layer": "token", "text": t}, expected=str(m)[:400], observed=str(i)[:400])
    # ---- tie K: stochastic-object layer, model (Model/Stoch.v) vs Stochastic(text, 0): terminals, tokens in order, descriptor table, family
    import re
    mg0 = molast.MolGenAst(random.Random(rep.seed + 202))
    objs = []
    for _ in range(150 if quick else 5000):
        text, _struct = mg0.molecule()
        objs += [m.group(0) for m in re.finditer(r"\{[^{}]*\}(\|[^|]*\|)?", text)]
    objs = list(dict.fromkeys(objs))
    n_obj = 0
    for t, o in zip(objs, fw.run_driver([layers.stoch_line(t) for t in objs])):
        evaluations += 1
        mo, io = layers.parse_model_stoch(o), layers.impl_stoch(t)
        n_obj += isinstance(io, dict)
        d = layers.stoch_diff(mo, io)
        if d:
            rep.fail("correspondence", f"stochastic-object layer on {t!r}: " + "; ".join(d[:3]), {"layer": "stochastic", "text": t}, expected=str(mo)[:400], observed=str(io)[:400])
    # ---- tie K: molecule layer, model (Model/Mol.v) vs Molecule(text): elements in order (tokens with the descriptors added automatically,
    # objects with terminals / tokens / family), mixture values, generability
    mtexts = [mg0.molecule()[0] for _ in range(200 if quick else 6000)] + list(gi.DOCUMENTED) + [t for _, t, _ in gi.cases(rep.seed + 203, 110 if quick else 3000)]
    mtexts = list(dict.fromkeys(mtexts))
    n_molk = 0
    for t, o in zip(mtexts, fw.run_driver([layers.mol_line(t) for t in mtexts])):
        evaluations += 1
        mo, io = layers.parse_model_mol(o), layers.impl_mol(t)
        n_molk += isinstance(io, dict)
        d = layers.mol_diff(mo, io)
        if d:
            rep.fail("correspondence", f"molecule layer on {t!r}: " + "; ".join(d[:3]), {"layer": "molecule-model", "text": t}, expected=str(mo)[:400], observed=str(io)[:400])
    # ---- extraction check: the kernel (vm_compute inside coqc) and the extracted OCaml code evaluate the SAME model functions on the same texts
    import kernel_eval
    kd = []
    tgk = tokast.Gen(random.Random(rep.seed + 204), max_depth=3)
    for _ in range(60 if quick else 600):
        d = tgk.bd()
        kd.append(("[" + d[2] + d[3] + d[4] + "]", d[1]))
    kd += [("[$||]", ""), ("[<1| |]", "="), ("[$", ""), ("[>|1e1 .5|]", "#")]
    kt = [tokast.print_chain(tgk.token()) for _ in range(60 if quick else 600)] + ["C(", "[$]CC(=[$])C", "C[x]"]
    km = mtexts[: (50 if quick else 500)] + ["CC.|5|C", "{", "C{[$][$]C[$][$]}|gauss(1,2)|C.|5%|"]
    try:
        kr = kernel_eval.run(kd, kt, km, tag="C02_kernel")
        rep.coverage["kernel_vs_extraction"] = {k: {"cases": v[0], "mismatches": len(v[1])} for k, v in kr.items()}
        for layer, (n, pos, items) in kr.items():
            for i in pos[:3]:
                rep.fail("correspondence", f"extraction: the kernel's evaluation of the {layer} model differs from the extracted code on {items[i]!r}", {"layer": "extraction:" + layer, "text": str(items[i])},
                         expected="identical renderings", observed="different")
    except Exception as e:  # noqa
        rep.fail("correspondence", f"extraction check could not be evaluated: {str(e)[:200]}", {"layer": "extraction"}, expected="kernel evaluation", observed=fw.exc_class(e))
    # ---- the mixture specification: the mass (or percentage) of Molecule(text).mixture is the number written between the bars, in every float
    # syntax; a specifier without a number gives a mixture without masses
    import warnings
    n_mix = 0
    for body in ["CC", "C{[$][$]CC[$][$]}|gauss(100, 10)|C", "OC{[<][<]CCO[>][>]}|poisson(65)|[H]"]:
        for num in ["2", "0.5", "3.", "1e1", ".25", " 2 ", "1_0", ".5", "5.", "5e-1", "+7", "0", "12.5", "100", "1e2", " .5", "0.125 ", ".5e1", "00.5", "x", " "]:
            for pct in ("", "%"):
                t = f"{body}.|{num}{pct}|"
                ident = {"layer": "mixture", "text": t}
                try:
                    want = float(num)
                except ValueError:
                    want = None
                evaluations += 1
                n_mix += 1
                try:
                    with warnings.catch_warnings():
                        warnings.simplefilter("ignore")
                        mx = gbigsmiles.Molecule(t).mixture
                    got = (mx.absolute_mass, mx.relative_mass)
                except Exception as e:  # noqa
                    got = fw.exc_class(e)
                exp = ("Value" if pct else (None, None)) if want is None else ((None, want) if pct else (want, None))
                if got != exp:
                    rep.fail("oracle", f"mixture specification of {t!r} read as {got}", ident, expected=str(exp), observed=str(got))
    rep.coverage["mixture_specifications_checked"] = n_mix
    rep.coverage["molecules_vs_model"] = len(mtexts)
    rep.coverage["molecules_accepted"] = n_molk
    rep.coverage["objects_vs_model"] = len(objs)
    rep.coverage["objects_accepted"] = n_obj
    # ---- stochastic objects / molecules: terminals, tokens in order, distribution family and parameters
    mg = molast.MolGenAst(rnd)
    n_mol = 0
    for _ in range(250 if quick else 8000):
        text, struct = mg.molecule()
        ident = {"layer": "molecule", "text": text}
        evaluations += 1
        try:
            with fw.time_limit(10):
                mol = gbigsmiles.Molecule(text)
        except Exception as e:  # noqa
            rep.fail("oracle", f"molecule {text!r} rejected: {type(e).__name__}: {str(e)[:70]}", ident, expected="accepted", observed=fw.exc_class(e),
                     tags={"connector_descriptor_check"} if isinstance(e, TypeError) else set())
            continue
        n_mol += 1
        els = mol._elements
        if len(els) != len(struct):
            rep.fail("oracle", f"molecule {text!r}: {len(els)} elements parsed, {len(struct)} written", ident, expected=len(struct), observed=len(els))
            continue
        for k, (e, (kind, s)) in enumerate(zip(els, struct)):
            isst = type(e).__name__ == "Stochastic"
            if isst != (kind == "stoch"):
                rep.fail("oracle", f"molecule {text!r}: element {k} parsed as {type(e).__name__}", ident, expected=kind, observed=type(e).__name__)
                break
            if not isst:
                # the written token, possibly with descriptors added on either side
                if s not in e.generate_string(False):
                    rep.fail("oracle", f"molecule {text!r}: element {k} is {e.generate_string(False)!r}, written {s!r}", ident, expected=s, observed=e.generate_string(False))
                # a token next to a stochastic object continues where that object's terminal points to: it carries a descriptor with the
                # terminal's symbol AND id (written by the user or added automatically)
                for nb, term, side in ((els[k - 1] if k > 0 else None, "right_terminal", "previous"), (els[k + 1] if k + 1 < len(els) else None, "left_terminal", "next")):
                    if nb is None or type(nb).__name__ != "Stochastic":
                        continue
                    tdesc = getattr(nb, term)
                    want = (tdesc.descriptor, str(tdesc.descriptor_id))
                    have = [(b.descriptor, str(b.descriptor_id)) for b in e.bond_descriptors]
                    if want not in have:
                        rep.fail("oracle", f"molecule {text!r}: token {e.generate_string(False)!r} (element {k}) has descriptors {have} but the {side} object's terminal is "
                                 f"{tdesc.generate_string(False)}", ident, expected=f"a descriptor {want}", observed=have)
                continue
            if e.left_terminal.generate_string(False) != s["left"] or e.right_terminal.generate_string(False) != s["right"]:
                rep.fail("oracle", f"molecule {text!r}: terminals of element {k} parsed as {e.left_terminal} / {e.right_terminal}", ident,
                         expected=[s["left"], s["right"]], observed=[str(e.left_terminal), str(e.right_terminal)])
            for name, toks, chains in (("repeat", e.repeat_tokens, s["reps"]), ("end", e.end_tokens, s["ends"])):
                if [t.generate_string(False) for t in toks] != [tokast.print_chain([("bd",) + it[1:4] + ("",) if it[0] == "bd" else it for it in c]) for c in chains] and \
                        len(toks) != len(chains):
                    rep.fail("oracle", f"molecule {text!r}: {name} tokens of element {k}: {[str(t) for t in toks]}", ident,
                             expected=[tokast.print_chain(c) for c in chains], observed=[str(t) for t in toks])
                for t, c in zip(toks, chains):
                    want = tokast.denote(c)
                    got = impl_descrs(t)
                    exp = [dict(sym=w["sym"], id=w["id"], atom=w["atom"], order=w["order"], weight=tokast.weight_of(w["wtext"])[0], trans=tokast.weight_of(w["wtext"])[1]) for w in want]
                    if got != exp:
                        rep.fail("oracle", f"molecule {text!r}: {name} token {t} of element {k}: descriptors {got}", ident, expected=exp, observed=got)
            fam = {"Gauss": "gauss", "Uniform": "uniform", "SchulzZimm": "schulz_zimm", "LogNormal": "log_normal", "Poisson": "poisson", "FlorySchulz": "flory_schulz"}.get(type(e.distribution).__name__)
            params = {"gauss": lambda d: (d._mu, d._sigma), "uniform": lambda d: (d._low, d._high), "schulz_zimm": lambda d: (d._Mw, d._Mn),
                      "log_normal": lambda d: (d._M, d._D), "poisson": lambda d: (d._N,), "flory_schulz": lambda d: (d._a,)}
            if fam != s["family"] or tuple(float(x) for x in params[fam](e.distribution)) != tuple(float(int(x)) if fam == "uniform" else float(x) for x in s["args"]):
                rep.fail("oracle", f"molecule {text!r}: distribution of element {k} parsed as {e.distribution}", ident, expected=[s["family"], list(s["args"])], observed=str(e.distribution))
        distinct.add(text)
    rep.coverage.update({"evaluations": evaluations, "distinct_nontrivial": len(distinct), "token_asts_exhaustive_small": len(small), "token_asts_random": len(asts) - len(small),
                         "token_strings_vs_model": len(texts), "token_strings_accepted": acc, "molecules_checked": n_mol, "token_size_hist": depth_hist,
                         "rule": "token ASTs: every chain of <= 3 (quick) / 4 items over {C, =N} with each placement of a descriptor (first / last / in a branch / after a "
                                 "closed branch / after ')(' / adjacent) + random ASTs (branches to depth 4, rings, bracket / two-letter atoms, =/#/: towards descriptors, "
                                 "ids, every weight syntax); random strings over a 37-symbol alphabet for the model tie; molecules of 1-3 objects with prefix / connector / "
                                 "suffix, six distributions, whitespace variants; distinct_nontrivial = distinct accepted texts with a descriptor or a branch",
                         "samples": [{"text": texts[5]}, {"text": texts[len(small) + 3]}, {"text": texts[-1]}]})
    rep.assumptions = ["RDKit's atom order of a parsed fragment = written order (the third defect listed in DESIGN -- an explicit [H] inside a multi-atom token -- is outside this generator's default alphabet)"]
    return fw.finish(rep, coq, fw.COMMON_TRUSTED + ["modelled, not verified: token.py:37-231 (Model/Token.v), bond.py (Model/Bond.v); RDKit atom validity enters the model as oracle data",
                                                    "harness/tokast.py: the AST, its printer and the denotation (specification side)"],
                     "make -C coq Props/C02.vo (coqc 8.16.1, full .vo build) + Print Assumptions audit")


def replay(case):
    from gbigsmiles.token import SmilesToken
    c = case.get("case") or {}
    print("replay:", case.get("what"))
    if c.get("layer") == "token":
        i = layers.impl_token(c["text"])
        m = layers.parse_model_token(fw.run_driver([layers.token_line(c["text"])])[0])
        print("implementation:", i if isinstance(i, tuple) else [(b["sym"], b["id"], b["atom"], b["order"]) for b in i["bds"]])
        print("model:         ", m if isinstance(m, tuple) else [(b["sym"], b["id"], b["atom"], b["order"]) for b in m["bds"]])
        print("property demands:", case.get("expected"))
        return 1
    print(c)
    return 1
