"""C16 -- Reaction graph states the generator's probabilities, normalised at every node.

proof:          coq/Props/C16.v: normalisation at every descriptor node, weight edges join compatible descriptors only, value = weight / total
                weight of the generator's candidates = the generator's law; list edges = listed weight / total; the all-zero refutation
correspondence: every probability-carrying edge of gen_reaction_graph() of every molecule vs the extracted RGraph model
oracle/search:  on the networkx graph alone: one node per token and per descriptor; at EVERY descriptor node each of prob / term_prob /
                trans_prob sums to 1 or is absent; every probability equals the probability with which generation makes that pick,
                computed by the harness from the parsed weights with an independent rendering of the selection law; positive-
                probability weight edges join compatible descriptors
known finding:  all compatible candidates have weight zero: the generator picks uniformly, the graph has no edge
"""
import random
from fractions import Fraction as Fr

import framework as fw
import gen_inputs as gi
import genlayer as gl
import genrun


def ident_map(mol):
    from gbigsmiles.token import SmilesToken

    m = {}
    toks = []
    for ei, e in enumerate(mol._elements):
        for j, b in enumerate(e.bond_descriptors):
            m[b] = (ei, j)
        toks += [e] if isinstance(e, SmilesToken) else list(e.repeat_tokens) + list(e.end_tokens)
    return m, toks


def impl_graph(mol):
    G = mol.gen_reaction_graph()
    ident, toks = ident_map(mol)
    out = {}
    for u, v, d in G.edges(data=True):
        if u in ident and v in ident:
            for k in ("prob", "term_prob", "trans_prob"):
                if k in d:
                    out[(ident[u], ident[v], k)] = float(d[k])
    return G, ident, toks, out


def model_graph(mol):
    o = fw.run_driver(["rgraph\t" + gl.sx_elements(mol)])[0]
    out = {}
    f = lambda x: tuple(int(y) for y in x.split("."))
    if o and not o.startswith("EXC"):
        for e in o.split(";"):
            sd, k, p = e.split(":")
            s, d = sd.split(">")
            out[(f(s), f(d), k)] = float(Fr(p))
    return out


def law(ws):
    """the selection law of the notation (C08): uniform on equal weights (all zero included), else proportional"""
    if not ws:
        return []
    if all(w == ws[0] for w in ws):
        return [Fr(1, len(ws))] * len(ws)
    t = sum(ws)
    return [w / t for w in ws]


def expected_edges(mol):
    """what generation does at each descriptor, from the parsed weights alone: {(src, dst, kind): probability > 0}"""
    from gbigsmiles.stochastic import Stochastic

    exp = {}
    for ei, e in enumerate(mol._elements):
        if not isinstance(e, Stochastic):
            continue
        bds = list(e.bond_descriptors)
        nrep = len(e.repeat_bonds)
        for j, d in enumerate(bds):
            if d.transitions is not None:
                w = Fr(float(d.weight))
                if w != 0:
                    for i, t in enumerate(d.transitions):
                        if Fr(float(t)) > 0 and i < len(bds):
                            exp[((ei, j), (ei, i), "prob")] = Fr(float(t)) / w
                continue
            for kind, lo, hi in (("prob", 0, nrep), ("term_prob", nrep, len(bds))):
                cand = [i for i in range(lo, hi) if genrun.rule_compatible(d, bds[i])]
                ps = law([Fr(float(bds[i].weight)) for i in cand])
                for i, p in zip(cand, ps):
                    if p > 0:
                        exp[((ei, j), (ei, i), kind)] = p
    return exp


def check(rep):
    import gbigsmiles

    coq = fw.coq_check("C16", ["SrcBond", "SrcRGraph"])
    quick = rep.tier == "quick"
    rnd = random.Random(rep.seed + 16)
    texts = [("documented", t) for t in gi.DOCUMENTED] + [(a, t) for a, t, _ in gi.cases(rnd.randrange(1 << 30), 260 if quick else 12000)]
    # zero-weight families (the finding's trigger) and user-written connector descriptors
    texts += [("zero_weights", "C{[>][<|0|]CC[>|0|], [<|0|]C(N)C[>|0|]; [<][H], [>]O [<]}|gauss(60,5)|C"),
              ("zero_weights", "C{[$][$|0|]CC[$|0|]; [$|0|][H] [$]}|gauss(60,5)|C")]
    # consecutive stochastic objects whose second object has end groups of the entering orientation (inter-object transition denominators)
    texts += [("stoch_stoch", t) for t in [
        "{[][<]C(N)C[>]; [<][H][>]}|uniform(100, 200)|{[<][<]C(=O)C[>]; [>][H][]}|uniform(100, 200)|",
        "[H]{[<][<]C(N)C[>] [>]}|gauss(100, 20)|{[<][<]C(=O)C[>], [<|3.0|]CC(F)[>]; [>|2.0|][H], [<]F[]}|gauss(100, 20)|",
        "C{[$][$]CC[$]; [$]O[$]}|gauss(80, 5)|{[$][$|2|]C(C)C[$], [$]NC[$]; [$|3|]F, [$][H][$]}|gauss(90, 9)|{[$][$]OC[$]; [$]Cl[$]}|uniform(30, 90)|N",
        "{[][>]CC[<], [>|2|]C(C)C[<]; [>]N, [<]O[<]}|poisson(80)|{[>][>|0.5|]SC[<], [>]CS[<|4|]; [>]F, [<][H], [<|2|]C[]}|gauss(70, 7)|"]]
    # user-written descriptors on the token that follows an object: an exit descriptor of the other kind with positive weight, an extra
    # descriptor on a suffix (the hand-over leaves the object only through descriptors compatible with its right terminal)
    texts += [("user_connector", t) for t in [
        "CC{[>] [<]CC[>] [<]}|flory_schulz(0.2)|[<]CO[>]{[>] [<]CC(C)[>] [<]}|flory_schulz(0.2)|F",
        "CC{[>][<]CC[>], [<|2|]C(N)C[>][<]}|gauss(80, 8)|[<]C(=O)O[>|3|]{[>][<]CC(C)[>]; [<]F[<]}|gauss(70, 7)|[<]N",
        "C{[$1][$1]CC[$1][$1]}|gauss(60, 5)|[$1]CO[$2]{[$2][$2]CS[$2][$2]}|gauss(60, 5)|[$2]F",
        "[H]{[>][<]CC[>][<]}|poisson(70)|[<]CC([>|2|])O",
        "O{[<][>]CC[<], [>]C(F)C[<|4|][>]}|uniform(40, 90)|[>]CN[<|0.5|]{[<][>]OC[<][>]}|uniform(40, 90)|[>]Cl"]]
    evaluations = nodes = edges = 0
    distinct = set()
    for arche, text in texts:
        ident_case = {"archetype": arche, "text": text}
        try:
            with fw.time_limit(20):
                mol = gbigsmiles.Molecule(text)
        except Exception:
            continue
        try:
            G, ident, toks, ie = impl_graph(mol)
        except Exception as e:  # noqa
            if any(float(b.weight) < 0 for el in mol._elements for b in el.bond_descriptors):
                continue
            rep.fail("oracle", f"gen_reaction_graph raised {type(e).__name__}: {str(e)[:80]}", ident_case, expected="a graph", observed=fw.exc_class(e))
            continue
        evaluations += 1
        me = model_graph(mol)
        keys = set(ie) | set(me)
        diff = [(k, ie.get(k), me.get(k)) for k in keys if k not in ie or k not in me or abs(ie[k] - me[k]) > 1e-9]
        agree = not diff
        if diff:
            rep.fail("correspondence", f"reaction graph layer: edge {diff[0][0]} implementation {diff[0][1]} model {diff[0][2]}", ident_case, expected=str(diff[0][2]), observed=str(diff[0][1]))
        # nodes: one per token and per descriptor
        want_nodes = len(toks) + len(ident)
        if G.number_of_nodes() != want_nodes or any(t not in G for t in toks) or any(b not in G for b in ident):
            rep.fail("oracle", f"{G.number_of_nodes()} nodes for {len(toks)} tokens and {len(ident)} descriptors", ident_case, expected=want_nodes, observed=G.number_of_nodes())
        nodes += G.number_of_nodes()
        edges += len(ie)
        # normalisation at every descriptor node
        sums = {}
        for (s, d, k), p in ie.items():
            sums[(s, k)] = sums.get((s, k), 0.0) + p
        for (s, k), v in sums.items():
            if abs(v - 1) > 1e-6 and abs(v) > 1e-6:
                rep.fail("oracle", f"descriptor node {s}: {k} sums to {v}", {**ident_case, "node": list(s), "kind": k}, expected="1 or absent", observed=v)
        # equality with the generation law + compatible only
        exp = expected_edges(mol)
        bds_of = {ei: list(e.bond_descriptors) for ei, e in enumerate(mol._elements)}
        zero_trigger = False
        for key, p in exp.items():
            got = ie.get(key)
            if got is None or abs(got - float(p)) > 1e-9:
                (ei, j), (_, i), kind = key
                cand_w = [float(b.weight) for b in bds_of[ei]]
                allzero = got is None and float(bds_of[ei][i].weight) == 0.0
                rep.fail("oracle", f"descriptor {key[0]} -> {key[1]}: generation takes this pick with probability {float(p):.6f}, the graph says {kind}={got}", {**ident_case, "edge": [list(key[0]), list(key[1]), kind]},
                         expected=float(p), observed=got, tags={"all_candidates_zero_weight"} if (allzero and agree) else set())
        for (s, d, k), p in ie.items():
            if k in ("prob", "term_prob") and p > 0 and s[0] == d[0]:
                a, b = bds_of[s[0]][s[1]], bds_of[d[0]][d[1]]
                if a.transitions is None and not genrun.rule_compatible(a, b):
                    rep.fail("oracle", f"weight edge {s} -> {d} with {k}={p} joins incompatible descriptors {a} and {b}", ident_case, expected="compatible", observed=f"{a} {b}")
                if a.transitions is None and (s, d, k) not in exp:
                    rep.fail("oracle", f"edge {s} -> {d}: the graph says {k}={p}, generation never makes this pick", ident_case, expected=None, observed=p)
        # hand-over from an object to the token written after it: generation leaves the object only through a descriptor compatible with
        # the object's right terminal, so no other descriptor of the object may carry a transition edge into that token
        from gbigsmiles.stochastic import Stochastic as _St
        from gbigsmiles.token import SmilesToken as _Tk
        for (s_, d_, k), p in ie.items():
            if k == "trans_prob" and p > 0 and d_[0] == s_[0] + 1 and isinstance(mol._elements[s_[0]], _St) and isinstance(mol._elements[d_[0]], _Tk):
                a = bds_of[s_[0]][s_[1]]
                if not genrun.rule_compatible(a, mol._elements[s_[0]].right_terminal):
                    rep.fail("oracle", f"transition edge {s_} -> {d_} with trans_prob={p}: descriptor {a} is not compatible with the right terminal "
                             f"{mol._elements[s_[0]].right_terminal} of its object, generation never leaves the object through it", {**ident_case, "edge": [list(s_), list(d_), k]},
                             expected=None, observed=p)
        if len(ie) > 2:
            distinct.add(text)
    rep.coverage.update({"evaluations": evaluations, "distinct_nontrivial": len(distinct), "graph_nodes_checked": nodes, "probability_edges_checked": edges,
                         "rule": "documented strings + structured generator (10 archetypes incl. lists, zero weights, ids) + two all-zero-weight objects; every node and every "
                                 "probability edge; distinct_nontrivial = distinct molecules with more than two probability edges",
                         "samples": [{"text": t} for _, t in texts[:2] + texts[-1:]]})
    rep.assumptions = ["inter-element transition edges are compared with the model (tie K) and for normalisation; their equality with the generator's hand-over law is "
                       "not part of the oracle when the left terminal carries its own weight list"]
    return fw.finish(rep, coq, fw.COMMON_TRUSTED + ["modelled, not verified: molecule.py:207-343 (Model/RGraph.v), compared edge by edge on every run"],
                     "make -C coq Props/C16.vo (coqc 8.16.1, full .vo build) + Print Assumptions audit")


def replay(case):
    import gbigsmiles
    c = case.get("case") or {}
    print("replay:", case.get("what"))
    mol = gbigsmiles.Molecule(c["text"])
    G, ident, toks, ie = impl_graph(mol)
    me = model_graph(mol)
    print("implementation edges:", len(ie), "model edges:", len(me), "differences:", [(k, ie.get(k), me.get(k)) for k in set(ie) | set(me) if k not in ie or k not in me or abs(ie[k] - me[k]) > 1e-9][:5])
    exp = expected_edges(mol)
    print("generation-law mismatches:", [(k, float(p), ie.get(k)) for k, p in exp.items() if ie.get(k) is None or abs(ie[k] - float(p)) > 1e-9][:5])
    return 1
