"""C10 -- Generation is a pure, reproducible function of string and supplied generator.

proof:          coq/Props/C10.v: frame theorem over the store model of the copy discipline (no cell of a parsed object is written by any script
                of generation steps); the generator model has no argument besides parsed content, picks and targets; typing is history-free
                (regenerated cache step)
correspondence: on random operation histories over several live objects -- after every step: no BondDescriptor reachable from a returned
                molecule IS (identity) a descriptor of a parsed object; a deep dump of every live parsed object is unchanged
oracle/search:  every generate(rng=seeded) of every history equals the baseline computed for (string, seed) in a FRESH process; printed
                forms and generability unchanged; instances parsed from the same string behave identically
"""
import json
import os
import random
import subprocess
import sys

import numpy as np

import framework as fw
import gen_inputs as gi
import props.c01 as c01

TYPABLE = ["CC{[$][$]CC[$][$]}|uniform(30, 80)|CO", "[H]{[>][<]CC([>])c1ccccc1[<]}|gauss(300, 30)|[H]", "C{[<][>]OCC[<][>]}|uniform(60, 150)|O"]


def baselines(cases):
    env = dict(os.environ)
    p = subprocess.run([sys.executable, os.path.join(fw.VERIF, "harness", "baseline_worker.py")], input="\n".join(json.dumps(c) for c in cases) + "\n",
                       stdout=subprocess.PIPE, stderr=subprocess.DEVNULL, text=True, env=env, timeout=3000)
    out = [json.loads(l) for l in p.stdout.strip().split("\n") if l.strip()]
    if len(out) != len(cases):
        raise RuntimeError(f"baseline worker returned {len(out)} results for {len(cases)} cases")
    return out


def deep_dump(o):
    return (c01.dump_mol(o), str(o), o.generate_string(False), bool(o.generable))


def token_descriptor_ids(o):
    import genrun
    ids = set()
    for t in genrun.tokens_of(o):
        for b in t.bond_descriptors:
            ids.add(id(b))
    for e in o._elements:
        if hasattr(e, "left_terminal"):
            ids.add(id(e.left_terminal))
            ids.add(id(e.right_terminal))
    return ids


def check(rep):
    import gbigsmiles
    from gbigsmiles import core
    from gbigsmiles import forcefield_helper as ffh

    coq = fw.coq_check("C10", ["SrcFF"])
    quick = rep.tier == "quick"
    rnd = random.Random(rep.seed + 10)
    pool = [t for t in gi.DOCUMENTED if "schulz_zimm(1000, 900)" not in t] + [t for a, t, _ in gi.cases(rnd.randrange(1 << 30), 40 if quick else 600) if a != "defective_list"] + TYPABLE
    # inputs whose growth takes genuinely random picks along transition lists (the one draw site that does not go through choose_compatible_weight)
    pool += [t for a, t, _ in gi.cases(rnd.randrange(1 << 30), 12 if quick else 150, archetypes=["markov_copolymer"])]
    pool = [t for t in pool if gbigsmiles.Molecule(t).generable]
    n_hist = 40 if quick else 2500
    # plan the histories first, so that all baselines are computed in ONE fresh process
    plans = []
    need = {}
    for h in range(n_hist):
        texts = [rnd.choice(pool) for _ in range(rnd.choice([1, 2, 3]))]
        if rnd.random() < 0.3:
            texts.append(rnd.choice(TYPABLE))
        steps = []
        for _ in range(rnd.randrange(4, 13)):
            k = rnd.randrange(len(texts))
            op = rnd.choice(["generate", "generate", "generate", "print", "rgraph", "agraph", "mirror", "elements", "reparse", "global_generate", "type", "reseed"])
            seed = rnd.randrange(1000)
            steps.append((op, k, seed))
            if op == "generate":
                need[(texts[k], seed)] = None
        plans.append((texts, steps))
    keys = list(need)
    for key, b in zip(keys, baselines([{"text": t, "seed": s} for t, s in keys])):
        need[key] = b
    evaluations = 0
    distinct = set()
    ophist = {}
    # independence of the library's global generator, directly: every pool text, one supplied seed, three different global states
    # (and a second generation from the same object): identical molecules
    sweep = 0
    for t in sorted(set(pool)):
        seed = rnd.randrange(1000)
        outs = []
        o = gbigsmiles.Molecule(t)
        for gstate in (11, 222, 3333):
            core._GLOBAL_RNG.bit_generator.state = np.random.default_rng(gstate).bit_generator.state
            try:
                with fw.time_limit(60):
                    g = (o if gstate != 222 else gbigsmiles.Molecule(t)).generate(rng=np.random.default_rng(seed))
                outs.append((g.smiles, round(float(g.weight), 6)))
            except Exception as e:  # noqa
                outs.append(("error", fw.exc_class(e)))
        sweep += 1
        evaluations += 1
        if len(set(outs)) != 1:
            rep.fail("oracle", f"generate({t!r}, seed {seed}) depends on the state of the library's global generator: {[x[0][:40] for x in outs]}", {"texts": [t], "seed": seed, "mode": "global_state_sweep"},
                     expected=str(outs[0]), observed=str(outs[1:]))
    for texts, steps in plans:
        objs = [gbigsmiles.Molecule(t) for t in texts]
        dumps = [deep_dump(o) for o in objs]
        ident = {"texts": texts, "steps": [list(s) for s in steps]}
        failed = False
        for si, (op, k, seed) in enumerate(steps):
            o = objs[k]
            ophist[op] = ophist.get(op, 0) + 1
            evaluations += 1
            try:
                if op == "generate":
                    g = o.generate(rng=np.random.default_rng(seed))
                    base = need[(texts[k], seed)]
                    if "error" in base:
                        pass
                    elif (g.smiles, round(float(g.weight), 6)) != (base["smiles"], round(base["weight"], 6)):
                        rep.fail("oracle", f"step {si}: generate({texts[k]!r}, seed {seed}) gives {g.smiles} here, {base['smiles']} in a fresh process", {**ident, "step": si},
                                 expected=base["smiles"], observed=g.smiles)
                        failed = True
                    owned = set()
                    for oo in objs:
                        owned |= token_descriptor_ids(oo)
                    if any(id(b) in owned for b in g.bond_descriptors):
                        rep.fail("correspondence", f"step {si}: a bond descriptor of the returned molecule IS a descriptor object of a parsed token (no copy)", {**ident, "step": si},
                                 expected="disjoint objects", observed="shared")
                        failed = True
                    # a caller that mutates the returned molecule must not reach the parsed object
                    for b in g.bond_descriptors:
                        b.weight = -5.0
                elif op == "global_generate":
                    core._GLOBAL_RNG.bit_generator.state = np.random.default_rng(seed).bit_generator.state
                    o.generate()
                elif op == "print":
                    str(o); o.generate_string(False)
                elif op == "rgraph":
                    o.gen_reaction_graph()
                elif op == "agraph":
                    o.gen_stochastic_atom_graph(False)
                elif op == "mirror":
                    o.gen_mirror()
                elif op == "elements":
                    for e in o.elements:
                        for b in getattr(e, "bond_descriptors", []):
                            b.weight = 77.0
                elif op == "reparse":
                    objs[k] = gbigsmiles.Molecule(texts[k])
                    dumps[k] = deep_dump(objs[k])
                elif op == "type":
                    g = o.generate(rng=np.random.default_rng(seed))
                    if g.fully_generated:
                        try:
                            g.forcefield_types
                        except ffh.FfAssignmentError:
                            pass
                elif op == "reseed":
                    core._GLOBAL_RNG.bit_generator.state = np.random.default_rng(seed).bit_generator.state
            except Exception as e:  # noqa
                if fw.scipy_draw_failure(e) or isinstance(e, (ffh.FfAssignmentError,)):
                    continue
                if op in ("agraph", "rgraph", "mirror", "type", "global_generate"):
                    continue      # these operations have their own properties; here only their side effects matter
                rep.fail("oracle", f"step {si}: {op} raised {type(e).__name__}: {str(e)[:80]}", {**ident, "step": si}, expected="no error", observed=fw.exc_class(e))
                failed = True
            for j, oo in enumerate(objs):
                now = deep_dump(oo)
                if now != dumps[j]:
                    rep.fail("oracle", f"step {si} ({op} on object {k}) changed the parsed object {j} ({texts[j]!r}): printed forms / fields / generability differ", {**ident, "step": si},
                             expected=str(dumps[j])[:300], observed=str(now)[:300])
                    dumps[j] = now
                    failed = True
            if failed:
                break
        distinct.add((tuple(texts), tuple(steps)))
    # observation is not an action: reading the accessors of a molecule while it grows (element by element, as Molecule.generate does)
    # must leave the result what the one-shot generation with the same seed gives
    import genrun
    observed = 0
    for i, text in enumerate(list(dict.fromkeys(pool))[: (50 if quick else 600)]):
        r = genrun.stepwise_observed(text, 500 + i)
        if r is None:
            continue
        observed += 1
        evaluations += 1
        for b in r[1]:
            rep.fail("oracle", b, {"text": text, "seed": 500 + i, "mode": "element by element, accessors read in between"}, expected="the one-shot molecule", observed=b)
    ophist["stepwise_observed"] = observed
    rep.coverage.update({"evaluations": evaluations, "distinct_nontrivial": len(distinct), "histories": len(plans), "global_state_sweep_texts": sweep, "baselines_in_fresh_process": len(keys), "operations": ophist,
                         "rule": "random operation histories (4-12 steps over 1-4 live objects of every archetype): generate with a supplied seeded generator, generate with the "
                                 "(re-seeded) global generator, print, both graphs, mirror, mutation of the copies returned by .elements and of returned molecules, re-parse, typing, "
                                 "re-seeding; distinct_nontrivial = distinct histories",
                         "samples": [{"texts": plans[0][0], "steps": [list(s) for s in plans[0][1]]}]})
    rep.assumptions = ["PARTIAL: the Python object graph is modelled for descriptor cells only", "baselines come from one fresh interpreter process per run"]
    return fw.finish(rep, coq, fw.COMMON_TRUSTED + ["modelled, not verified: the copy discipline of mol_gen.py:38, 111 and stochastic.py:196-198 (Model/Heap.v)"],
                     "make -C coq Props/C10.vo (coqc 8.16.1, full .vo build) + Print Assumptions audit")


def replay(case):
    import gbigsmiles
    from gbigsmiles import core
    print("replay:", case.get("what"))
    c = case.get("case") or {}
    if c.get("mode") == "global_state_sweep":
        t, seed = c["texts"][0], c["seed"]
        outs = []
        for gstate in (11, 222, 3333):
            core._GLOBAL_RNG.bit_generator.state = np.random.default_rng(gstate).bit_generator.state
            outs.append(gbigsmiles.Molecule(t).generate(rng=np.random.default_rng(seed)).smiles)
            print(f"global state {gstate}: {outs[-1]}")
        return 0 if len(set(outs)) == 1 else 1
    if str(c.get("mode", "")).startswith("element by element"):
        import genrun
        r = genrun.stepwise_observed(c["text"], c["seed"])
        print("element by element with the accessors read in between:", r)
        return 1 if (r is None or r[0] or r[1]) else 0
    print(c)
    return 1
