"""C14 -- Generated ensembles have the declared composition by mass.

proof:          coq/Props/C14.v: the code's pick law, its long-run mass share, "meets the property iff mean masses are equal"
                (two components), the equal-mass case for any number of components, the law that would be right, C14_refuted
correspondence: the p handed to rng.choice for every component pick vs comp_law of the parsed relative masses
oracle/search:  p against declared fraction / mean molecule mass (means estimated by generating each component), and the
                predicted long-run share p_i m_i / sum against the declared fraction; thorough: generated mass per component
known finding:  components of unequal mean mass (the pinned code picks components with p = mass fraction per molecule)
"""
import random
from fractions import Fraction as Fr

import numpy as np

import framework as fw
import genlayer as gl
import sysrun

EQUAL = [["CCCCCF", "FCCCCC"], ["CC(C)CF", "CCCCF", "FCCCC"], ["OCCCl", "ClCCO"]]


def mean_mass(mol, n, seed):
    ws = []
    for k in range(n):
        try:
            ws.append(float(mol.generate(rng=np.random.default_rng(seed + k)).weight))
        except Exception:
            pass
    return sum(ws) / len(ws) if ws else None


def check(rep):
    coq = fw.coq_check("C14", ["SrcSysGen", "SrcSys"])
    quick = rep.tier == "quick"
    rnd = random.Random(rep.seed + 14)
    n_sys = 40 if quick else 300
    evaluations = 0
    distinct = set()
    lines, pend = [], []
    ratio_hist = {}
    for k in range(n_sys):
        declared = None
        if k % 10 == 8:
            # a declared share of 0 % next to a share left to deduce: the remainder goes to the unspecified component, the 0 % one keeps 0
            comps = rnd.choice([c for c in EQUAL if len(c) == 3])
            a = rnd.choice([60.0, 25.0, 87.5])
            order = rnd.choice([[0.0, a], [a, 0.0]])
            text = "".join(c + f".|{p}%|" for c, p in zip(comps, order)) + comps[2]
            declared = order + [100.0 - a]
            pct = None
            smw = 2000.0
        elif k % 10 == 3:
            # a component with a declared share of 0 %, listed first / in the middle: never generated, the others keep their shares
            comps = rnd.choice([c for c in EQUAL if len(c) == 3])
            shares = rnd.choice([[0.0, 60.0, 40.0], [70.0, 0.0, 30.0], [0.0, 25.0, 75.0]])
            text = "".join(c + f".|{p}%|" for c, p in zip(comps, shares))
            declared = shares
            pct = None
            smw = 2000.0
        elif k % 10 == 7:
            # tied fractions: the same declared share for several components
            comps = rnd.choice(EQUAL)
            n = len(comps)
            text = "".join(c + f".|{100.0 / n}%|" for c in comps) if n in (2, 4) else "".join(c + f".|{p}%|" for c, p in zip(comps, [40.0, 30.0, 30.0, 0.0][:n] if n == 3 else [50.0] + [50.0 / (n - 1)] * (n - 1)))
            pct = None
            smw = 2000.0
        elif k % 5 == 4:
            comps = rnd.choice(EQUAL)
            n = len(comps)
            cuts = sorted(rnd.sample(range(1, 16), n - 1))
            pct = [Fr((b - a) * 100, 16) for a, b in zip([0] + cuts, cuts + [16])]
            text = "".join(c + f".|{float(p)}%|" for c, p in zip(comps, pct))
            smw = 2000.0
        else:
            text, smw, kinds, pct, S = sysrun.make_system(rnd, allow_open=False, n=rnd.choice([2, 2, 3, 4]))
        seed = rnd.randrange(1 << 30)
        ident = {"text": text, "system_molweight": smw, "seed": seed}
        try:
            r = sysrun.SysRun(text, smw, seed, max_yield=300)
        except Exception as e:  # noqa
            rep.fail("oracle", f"system could not be constructed: {type(e).__name__}", ident, expected="a system", observed=fw.exc_class(e))
            continue
        if r.error is not None and fw.scipy_draw_failure(r.error):
            continue
        if r.error is not None and "harness: too many molecules" not in str(r.error):
            rep.fail("oracle", f"iteration of the system failed with {type(r.error).__name__}: {str(r.error)[:100]}", ident, expected="molecules", observed=fw.exc_class(r.error))
            continue
        picks = r.component_picks()
        if not picks:
            continue
        evaluations += 1
        # the component that is generated is the one at the drawn POSITION (the law handed to rng.choice is indexed by component)
        wrong = [(j, ci, k) for j, (ci, cands, p_, k) in enumerate(picks) if ci != k]
        if wrong:
            j, ci, k = wrong[0]
            rep.fail("oracle", f"pick {j}: position {k} of the component law was drawn but component {ci} was generated ({len(wrong)} of {len(picks)} picks)", ident,
                     expected=f"component {k}", observed=f"component {ci}")
        rel = [float(m.mixture.relative_mass) for m in r.system._molecules]
        if declared is None and pct is not None and k % 5 == 4:
            declared = [float(x) for x in pct]
        if declared is not None and (len(rel) != len(declared) or any(abs(a - b) > 1e-9 for a, b in zip(rel, declared))):
            rep.fail("oracle", f"the components' shares are {rel}, declared {declared}", ident, expected=declared, observed=rel)
        p_impl = picks[0][2]
        if any(pp[2] != p_impl for pp in picks):
            rep.fail("oracle", "component pick probabilities change during one iteration", ident, expected=p_impl, observed=[pp[2] for pp in picks][:3])
        lines.append("\t".join(["complaw", ",".join(gl.fq(x) for x in rel)]))
        # mean molecule masses of the components (fresh parse, so that wrappers do not interfere)
        import gbigsmiles
        fresh = gbigsmiles.System(text, system_molweight=smw)
        means = [mean_mass(m, 12 if quick else 30, seed) for m in fresh._molecules]
        pend.append((ident, rel, p_impl, means))
    outs = fw.run_driver(lines)
    for (ident, rel, p_impl, means), out in zip(pend, outs):
        p_model = [float(Fr(x)) for x in out.split(",")]
        agree = len(p_model) == len(p_impl) and all(abs(a - b) <= 1e-12 for a, b in zip(p_model, p_impl))
        if not agree:
            rep.fail("correspondence", f"component pick law: implementation p={p_impl}, model comp_law={p_model}", ident, expected=p_model, observed=p_impl)
        if any(m is None or m <= 0 for m in means):
            continue
        f = [x / sum(rel) for x in rel]
        ratio = max(means) / min(means)
        b = "equal (<1.02)" if ratio < 1.02 else ("<2" if ratio < 2 else ("<10" if ratio < 10 else ">=10"))
        ratio_hist[b] = ratio_hist.get(b, 0) + 1
        share = [pi * mi for pi, mi in zip(p_impl, means)]
        share = [x / sum(share) for x in share]
        distinct.add((ident["text"],))
        # the property: long-run mass share == declared fraction; tolerance covers the estimation error of the means
        worst = max(abs(s - fi) for s, fi in zip(share, f))
        if worst > 0.05:
            rep.fail("oracle", f"declared mass fractions {[round(x, 4) for x in f]} but the pick law p={[round(x, 4) for x in p_impl]} with mean molecule masses "
                     f"{[round(m, 1) for m in means]} gives long-run mass shares {[round(x, 4) for x in share]}", ident,
                     expected=[round(x, 4) for x in f], observed=[round(x, 4) for x in share],
                     tags={"unequal_component_masses"} if (agree and ratio >= 1.02) else set())
    rep.coverage.update({"evaluations": evaluations, "distinct_nontrivial": len(distinct), "mass_ratio_hist": ratio_hist,
                         "rule": "2-4 component systems (small molecules and polymers, mean-mass ratios 1-100; every fifth system has components of equal mass), "
                                 "declared fractions in multiples of 6.25 %; distinct_nontrivial = distinct systems whose component means could be estimated",
                         "samples": [p[0] for p in pend[:3]]})
    rep.assumptions = ["renewal-reward step (long-run share = p_i m_i / sum p_j m_j) is mathematics outside the Coq development",
                       "mean molecule masses are estimated from 12 (quick) / 60 (thorough) generations per component; tolerance 0.05 absolute on shares"]
    return fw.finish(rep, coq, fw.COMMON_TRUSTED + ["modelled, not verified: system.py:161-167, 176-179 (Model/SysGen.v comp_law)"],
                     "make -C coq Props/C14.vo (coqc 8.16.1, full .vo build) + Print Assumptions audit")


def replay(case):
    c = case.get("case") or {}
    print("replay:", case.get("what"))
    r = sysrun.SysRun(c["text"], c.get("system_molweight"), c.get("seed", 0), max_yield=50)
    print("component pick p:", r.component_picks()[0][2] if r.component_picks() else None)
    print("declared fractions:", [m.mixture.relative_mass for m in r.system._molecules])
    return 1
