"""C03 -- Bond-descriptor compatibility is exactly the BigSMILES conjugation rule.

proof:          coq/Props/C03.v over the *translated* is_compatible / order_of_pre (tie T)
correspondence: parse_descr model vs BondDescriptor on the property's whole universe (840 texts)
oracle/search:  all 705 600 ordered pairs on the implementation against the rule stated on the
                generating tuples; symmetry; [] bonds nothing; the candidate filter of core.py
"""
import itertools
import random

import framework as fw
import layers

SYMS = ["", "$", "<", ">"]
IDS = [None] + list(range(13))
PRES = ["", "-", "=", "#", ":"]
WTS = ["", "|2.5|", "|0 3 1.5e1 .5|"]
ORDER = {"": "SINGLE", "-": "SINGLE", "=": "DOUBLE", "#": "TRIPLE", ":": "ONEANDAHALF"}


def text(t):
    s, i, p, w = t
    if s == "":
        return "[]"
    return "[" + s + ("" if i is None else str(i)) + w + "]"


def rule(t1, t2):
    (s1, i1, p1, _), (s2, i2, p2, _) = t1, t2
    return (s1, s2) in (("$", "$"), ("<", ">"), (">", "<")) and i1 == i2 and ORDER[p1] == ORDER[p2]


def check(rep):
    from gbigsmiles.bond import BondDescriptor
    from gbigsmiles.core import get_compatible_bond_descriptor_ids

    coq = fw.coq_check("C03", ["SrcBond"])
    rnd = random.Random(rep.seed)
    universe = list(itertools.product(SYMS, IDS, PRES, WTS))
    extra = []
    n_extra = 300 if rep.tier == "quick" else 20000
    for _ in range(n_extra):
        s = rnd.choice(SYMS[1:])
        i = rnd.choice([None, rnd.randrange(0, 14), rnd.randrange(0, 10**6)])
        p = rnd.choice(PRES + ["(", "(=", "=(", "-#", "C", ")", ")="])
        w = rnd.choice(["", f"|{rnd.choice(['0', '1', '1.', '.5', '3e2', '1_0', ' 2 ', '7.25'])}|",
                        "|" + " ".join(rnd.choice(["0", "1", "2.5", "1e-3"]) for _ in range(rnd.randrange(2, 6))) + "|"])
        ws = rnd.choice(["", "", " "])
        extra.append((s, i, p, w, ws))
    cases = [(text(t), t[2]) for t in universe] + [("[" + s + ws + ("" if i is None else str(i)) + ws + w + "]", p) for (s, i, p, w, ws) in extra]

    # ---- tie (K): descriptor parser, model vs implementation
    out = fw.run_driver([layers.descr_line(raw, 0, pre, 0) for raw, pre in cases])
    objs = []
    evaluations = 0
    distinct = set()
    for (raw, pre), line in zip(cases, out):
        m = layers.parse_model_descr(line)
        i = layers.impl_descr(raw, 0, pre, 0)
        evaluations += 1
        d = layers.descr_diff(m, i)
        if d:
            rep.fail("correspondence", "descriptor layer: " + ",".join(d), {"layer": "descr", "raw": raw, "pre": pre},
                     expected=m if isinstance(m, dict) else list(m), observed=i if isinstance(i, dict) else list(i))
        if isinstance(i, dict):
            distinct.add((raw, pre))
        try:
            objs.append(BondDescriptor(raw, 0, pre, 0))
        except Exception:
            objs.append(None)

    # ---- oracle: the rule on the whole universe, all ordered pairs, on the implementation
    U = len(universe)
    uo = objs[:U]
    pairs = 0
    bad = 0
    for a, ta in zip(uo, universe):
        if a is None:
            rep.fail("oracle", "descriptor of the universe rejected", {"tuple": list(ta), "text": text(ta)})
            continue
        for b, tb in zip(uo, universe):
            if b is None:
                continue
            pairs += 1
            got = a.is_compatible(b)
            if bool(got) != rule(ta, tb):
                bad += 1
                if bad <= 20:
                    rep.fail("oracle", f"is_compatible({text(ta)!r} pre {ta[2]!r}, {text(tb)!r} pre {tb[2]!r}) = {got}, rule says {rule(ta, tb)}",
                             {"a": {"text": text(ta), "pre": ta[2]}, "b": {"text": text(tb), "pre": tb[2]}},
                             expected=rule(ta, tb), observed=bool(got))
    # extra descriptors: parsed fields decide compatibility exactly as the rule on (sym, id, order)
    eo = [(o, layers.impl_descr_obj(o)) for o in objs[U:] if o is not None]
    for _ in range(min(len(eo) ** 2, 20000 if rep.tier == "quick" else 400000)):
        (a, da), (b, db) = rnd.choice(eo), rnd.choice(eo)
        want = (da["sym"], db["sym"]) in (("$", "$"), ("<", ">"), (">", "<")) and da["id"] == db["id"] and da["order"] == db["order"]
        pairs += 1
        if bool(a.is_compatible(b)) != want or bool(b.is_compatible(a)) != want:
            rep.fail("oracle", f"is_compatible({da['str_ext']!r}/{da['pre']!r}, {db['str_ext']!r}/{db['pre']!r}) != rule",
                     {"a": da, "b": db}, expected=want, observed=bool(a.is_compatible(b)))
    # the candidate filter of core.py: exactly the compatible positions, in order
    allo = [o for o in objs if o is not None]
    for _ in range(300 if rep.tier == "quick" else 5000):
        lst = [rnd.choice(allo) for _ in range(rnd.randrange(0, 9))]
        d = rnd.choice(allo)
        got = [int(x) for x in get_compatible_bond_descriptor_ids(lst, d)]
        want = [k for k, o in enumerate(lst) if d.is_compatible(o)]
        gotn = [int(x) for x in get_compatible_bond_descriptor_ids(lst, None)]
        evaluations += 1
        if got != want or gotn != list(range(len(lst))):
            rep.fail("oracle", "candidate filter differs from {i | compatible}", {"list": [str(o) for o in lst], "bond": str(d)},
                     expected=want, observed=got)
    rep.coverage.update({
        "evaluations": evaluations + pairs,
        "distinct_nontrivial": len(distinct),
        "rule": "universe {[],$,<,>} x ids {none,0..12} x prefixes {none,-,=,#,:} x weight forms {none,scalar,list} enumerated completely "
                "(840 texts, all ordered pairs on the implementation, every text through model and implementation parser), plus random "
                "descriptors (ids to 1e6, other prefixes, whitespace, number formats); distinct_nontrivial = distinct accepted (text, prefix) pairs",
        "universe_texts": U,
        "ordered_pairs_checked": pairs,
        "exhaustive": True,
        "samples": [{"text": c[0], "pre": c[1]} for c in (cases[17], cases[333], cases[700], cases[U + 3], cases[U + 7])],
    })
    rep.assumptions = ["RDKit BondType enum names identify bond orders", "Python float()/int() literal syntax as modelled in coq/Model/Num.v"]
    return fw.finish(rep, coq, fw.COMMON_TRUSTED + ["modelled, not verified: bond.py (parse_descr follows it statement by statement); is_compatible and the bond-order chain are regenerated from source"],
                     "make -C coq Props/C03.vo (coqc 8.16.1, full .vo build) + Print Assumptions audit")


def replay(case):
    from gbigsmiles.bond import BondDescriptor

    c = case.get("case") or {}
    print("replay:", case.get("what"))
    if "a" in c and "b" in c and "text" in c["a"]:
        a = BondDescriptor(c["a"]["text"], 0, c["a"]["pre"], 0)
        b = BondDescriptor(c["b"]["text"], 0, c["b"]["pre"], 0)
        got = a.is_compatible(b)
        print("implementation:", got, " property demands:", case.get("expected"))
        return 0 if bool(got) == case.get("expected") else 1
    if c.get("layer") == "descr":
        m = layers.parse_model_descr(fw.run_driver([layers.descr_line(c["raw"], 0, c["pre"], 0)])[0])
        i = layers.impl_descr(c["raw"], 0, c["pre"], 0)
        print("model:", m, "\nimplementation:", i)
        return 0 if not layers.descr_diff(m, i) else 1
    print(case)
    return 1
