"""C19 -- Ensemble probability of linear directed chains equals generation probability.

proof:          coq/Props/C19.v: closed form of the reported value vs the generator's probability; equality outside the two refuted
                shapes for any number of blocks; telescoping sums; two refutations (known findings)
correspondence: get_ensemble_prob(smiles, molecule)[0] on generated chain molecules vs the extracted closed form code_prob evaluated
                with the implementation's own cdf values (scipy: oracle data)
oracle/search:  the generator's probability of the same molecule computed from the notation (stop rule + declared laws) vs the reported
                value; sum over chain lengths; a molecule outside the ensemble has probability 0; the value does not depend on the atom
                order of the queried SMILES
"""
import math
import random
from fractions import Fraction as Fr

import numpy as np

import framework as fw
import genlayer as gl

# the last two have a side group that is symmetric in itself (ring flip, isopropyl) while the backbone atoms stay in place: the sub-structure search
# must not count such automorphic embeddings
UNITS = ["C(N)C", "C(=O)C", "OCC", "CC(F)", "CC(O)", "C(Cl)C", "C(N)C", "CC(F)", "CC", "CC(C)", "CC(c1ccccc1)", "C(C(C)C)C"]
DISTS = [("gauss", lambda u, r: (r.choice([2, 3, 4.5]) * u, r.choice([0.3, 0.8, 1.5]) * u)), ("uniform", lambda u, r: (int(0.5 * u), int(r.choice([3, 5]) * u))),
         ("poisson", lambda u, r: (r.choice([2.5, 4]) * u,)), ("log_normal", lambda u, r: (r.choice([2, 4]) * u, r.choice([1.1, 1.5]))),
         ("flory_schulz", lambda u, r: (r.choice([0.1, 0.05 + 1.0 / u]),)),
         # Mw <= 2 Mn (z >= 1): outside the shapes of C11's known Schulz-Zimm finding
         ("schulz_zimm", lambda u, r: (lambda mn: (float(int(mn * r.choice([1.25, 1.6]))), float(int(mn))))(r.choice([2.5, 4]) * u))]


def cdf(dist, x):
    d = dist._distribution
    name = type(dist).__name__
    if name == "FlorySchulz":
        return float(d.cdf(x, a=dist._a))
    if name == "SchulzZimm":
        return float(d.cdf(x, z=dist._z, Mn=dist._Mn))
    if name == "LogNormal":
        return float(d.cdf(x, M=dist._M, D=dist._D)) if x > 0 else 0.0
    return float(d.cdf(x))


def make_chain(rnd, force_same=False):
    """(text, description): prefix or end-group start, 1-2 blocks of one directed repeat unit each"""
    nb = rnd.choice([1, 1, 2])
    start = rnd.choice(["prefix", "prefix", "H_group", "heavy_group", "alt_start"])
    if start == "alt_start":
        # two alternative start groups of unequal weight on the same descriptor kind, a suffix closes the chain: the molecule tells which one was picked
        nb = 1
        u = rnd.choice([x for x in UNITS if "F" not in x])
        fam, mk = rnd.choice(DISTS)
        from rdkit import Chem
        from rdkit.Chem import Descriptors
        mass = Descriptors.HeavyAtomMolWt(Chem.MolFromSmiles(u))
        args = mk(mass, rnd)
        w1, w2 = rnd.choice([(3, 1), (1, 4), (2, 0.5), (1, 1)])
        text = "{[][<]" + u + "[>]; [<|" + repr(float(w1)) + "|][H], [<|" + repr(float(w2)) + "|]F [>]}" + f"|{fam}({', '.join(repr(float(a)) for a in args)})|" + rnd.choice(["CO", "[Si]"])
        return text, dict(start=start, blocks=[dict(unit=u, mass=mass, fam=fam, args=args, start_group="[H]")], weights=(w1, w2))
    if force_same or (start == "prefix" and nb == 2 and rnd.random() < 0.5):
        # two consecutive blocks of the SAME repeat unit (laws may differ): a chain of n units is produced by every cut (i, n - i)
        u = rnd.choice(["C(N)C", "C(=O)C", "OCC", "CC(F)", "CC(O)", "C(Cl)C"])
        from rdkit import Chem
        from rdkit.Chem import Descriptors
        mass = Descriptors.HeavyAtomMolWt(Chem.MolFromSmiles(u))
        blocks = []
        text = rnd.choice(["OCC", "N", "C[Si]"])
        for b in range(2):
            fam, mk = rnd.choice([d for d in DISTS if d[0] in ("gauss", "uniform", "poisson", "flory_schulz")])
            args = mk(mass, rnd)
            blocks.append(dict(unit=u, mass=mass, fam=fam, args=args))
            text += "{[<][<]" + u + "[>][>]}" + f"|{fam}({', '.join(repr(float(a)) for a in args)})|"
        text += rnd.choice(["[Si]", "F", "S"])
        return text, dict(start="same_unit", blocks=blocks)
    blocks = []
    text = ""
    for b in range(nb):
        u = rnd.choice(UNITS)
        fam, mk = rnd.choice(DISTS)
        from rdkit import Chem
        from rdkit.Chem import Descriptors
        mass = Descriptors.HeavyAtomMolWt(Chem.MolFromSmiles(u))
        args = mk(mass, rnd)
        dtext = f"|{fam}({', '.join(repr(float(a)) for a in args)})|"
        blocks.append(dict(unit=u, mass=mass, fam=fam, args=args))
        if b == 0 and start != "prefix":
            eg = "[H]" if start == "H_group" else rnd.choice(["CO", "CCCC", "N(C)C"])
            last = nb == 1
            text += "{[][<]" + u + "[>]; [<]" + eg + ("[>]}" if not last else ", [>][Si][]}") + dtext
            if last:
                blocks[-1]["closing"] = "[Si]"
            blocks[-1]["start_group"] = eg
        else:
            if b == 0:
                text += rnd.choice(["OCC", "N", "C[Si]"])
            last = b == nb - 1
            text += "{[<][<]" + u + "[>][>]}" + dtext
            if last:
                text += rnd.choice(["CO", "[Si]", "F"])
    return text, dict(start=start, blocks=blocks)


def check(rep):
    import gbigsmiles
    from gbigsmiles.mol_prob import get_ensemble_prob
    from gbigsmiles.stochastic import Stochastic
    from rdkit import Chem
    from rdkit.Chem import Descriptors

    coq = fw.coq_check("C19", ["SrcDistLaw", "SrcProb"])
    quick = rep.tier == "quick"
    rnd = random.Random(rep.seed + 19)
    evaluations = 0
    distinct = set()
    shape_hist = {}
    n_mol = 70 if quick else 1500
    n_same = 14 if quick else 200
    for k in range(n_mol + n_same):
        text, desc = make_chain(rnd, force_same=k >= n_mol)
        ident = {"text": text}
        try:
            mol = gbigsmiles.Molecule(text)
            if not mol.generable:
                continue
        except Exception as e:  # noqa
            continue
        seed = rnd.randrange(1 << 30)
        r = gl.ImplRun(text, seed)
        if r.gen is None or not r.gen.fully_generated:
            continue
        smi = r.gen.smiles
        # units per block from the generated molecule
        res = [r.gen.graph.nodes[n]["big_smiles"] for n in sorted(r.gen.graph.nodes())]
        stoch = [e for e in mol._elements if isinstance(e, Stochastic)]
        ns = [sum(1 for s in res if s == str(e.repeat_tokens[0])) for e in stoch]
        if desc["start"] == "same_unit":
            if ns[0] > (8 if quick else 12):
                continue
        elif len(set(str(e.repeat_tokens[0]) for e in stoch)) != len(stoch) or max(ns) > (7 if quick else 12) or sum(ns) > (9 if quick else 16):
            continue
        try:
            with fw.time_limit(120):
                reported = float(get_ensemble_prob(smi, mol)[0])
        except fw.Timeout:
            continue
        except Exception as e:  # noqa
            rep.fail("oracle", f"get_ensemble_prob raised {type(e).__name__}: {str(e)[:80]} for {smi} of {text}", {**ident, "smiles": smi}, expected="a probability", observed=fw.exc_class(e))
            continue
        evaluations += 1
        ident = {"text": text, "seed": seed, "smiles": smi, "units": ns}
        # a token whose fragment has a non-trivial automorphism (CC, CC(C)): RDKit's unique matches keep one orientation only
        import genrun
        def _sym(t):
            """an automorphism of the fragment that MOVES an atom carrying a bond descriptor (the known finding); a symmetry of a side group that
            leaves the attachment atoms in place is harmless on the unchanged code and is not excused"""
            f = Chem.MolFromSmiles(t.generate_smiles_fragment())
            if f is None or f.GetNumAtoms() <= 1:
                return False
            att = [int(b.atom_bonding_to) for b in t.bond_descriptors if getattr(b, "atom_bonding_to", None) is not None]
            return any(m[a] != a for m in f.GetSubstructMatches(f, uniquify=False) for a in att if a < len(m))
        sym_tags = {"symmetric_token_pattern"} if any(_sym(t) for t in genrun.tokens_of(mol)) else set()
        # ---- closed form of the code (model) and of the generator
        m0 = 0.0
        if desc["start"] not in ("prefix", "same_unit"):
            m0 = Descriptors.HeavyAtomMolWt(Chem.MolFromSmiles(desc["blocks"][0]["start_group"]))
        code = gen = 1.0
        lines = []
        for b, (e, n, bd) in enumerate(zip(stoch, ns, desc["blocks"])):
            u = bd["mass"]
            mb = m0 if b == 0 else 0.0
            code *= cdf(e.distribution, mb + n * u) - cdf(e.distribution, mb + (n - 1) * u)
            gen *= cdf(e.distribution, u) if n == 1 else cdf(e.distribution, n * u) - cdf(e.distribution, (n - 1) * u)
        # path multiplicity / start probability for an end-group start: both ends are end groups, the chain can be generated from either end
        shape = desc["start"] + ("/n=1" if 1 in ns else "/n>=2")
        shape_hist[shape] = shape_hist.get(shape, 0) + 1
        # a molecule that is mapped onto itself by reversing the chain is embedded twice by the search
        mh = Chem.MolFromSmiles(smi)
        # number of ends the search can start from: the orbit of a start-fragment match under the automorphisms of the molecule (a reversal of
        # the chain doubles it; a symmetry inside a side group, e.g. a ring flip, leaves every match where it is and does not count)
        mult = 1
        if desc["start"] in ("prefix", "same_unit"):
            autos = mh.GetSubstructMatches(mh, uniquify=False, useChirality=False)
            pat = Chem.MolFromSmiles(mol._elements[0].generate_smiles_fragment())
            for m0 in (mh.GetSubstructMatches(pat) if pat is not None else []):
                mult = max(mult, len({frozenset(a[i] for i in m0) for a in autos}))
        code *= mult
        if desc["start"] == "same_unit":
            # generation: block 1 makes i >= 1 units, block 2 the other n - i >= 1; the molecule does not tell the cut, so its probability is the sum over cuts
            n, u = ns[0], desc["blocks"][0]["mass"]
            cf = lambda e, j: cdf(e.distribution, j * u) - cdf(e.distribution, (j - 1) * u)
            gf = lambda e, j: cdf(e.distribution, u) if j == 1 else cf(e, j)
            gen_s = sum(gf(stoch[0], i) * gf(stoch[1], n - i) for i in range(1, n))
            code_s = mult * sum(cf(stoch[0], i) * cf(stoch[1], n - i) for i in range(1, n))
            distinct.add((text, n))
            corr_ok = abs(reported - code_s) <= 1e-6 * max(1e-12, code_s) + 1e-12 or bool(sym_tags)
            if not corr_ok:
                rep.fail("correspondence", f"reported {reported} vs closed form of the search {code_s} (sum over the {n - 1} cuts of {n} equal units into two blocks) for {smi} of {text}",
                         ident, expected=code_s, observed=reported)
            if abs(reported - gen_s) > 1e-6 * max(1e-9, gen_s) + 1e-10:
                tags = set(sym_tags)
                if mult > 1:
                    tags.add("automorphic_embeddings_counted")
                if any(cdf(e.distribution, 0.0) > 1e-9 for e in stoch):
                    tags.add("first_interval_starts_at_cdf0")
                rep.fail("oracle", f"{smi} of {text}: reported ensemble probability {reported:.6g}, generation produces it with probability {gen_s:.6g} (sum over cuts)", ident,
                         expected=gen_s, observed=reported, tags=tags if corr_ok else set())
        elif desc["start"] == "prefix":
            if abs(reported - code) > 1e-6 * max(1e-12, code) + 1e-12 and not sym_tags:
                rep.fail("correspondence", f"reported {reported} vs closed form of the search {code} for {smi} of {text}", ident, expected=code, observed=reported)
            tags = set(sym_tags)
            if mult > 1:
                tags.add("automorphic_embeddings_counted")
            for e, n in zip(stoch, ns):
                if n == 1 and cdf(e.distribution, 0.0) > 1e-9:
                    tags.add("first_interval_starts_at_cdf0")
            if abs(reported - gen) > 1e-6 * max(1e-9, gen) + 1e-10:
                rep.fail("oracle", f"{smi} of {text}: reported ensemble probability {reported:.6g}, generation produces it with probability {gen:.6g}", ident, expected=gen, observed=reported,
                         tags=tags if (abs(reported - code) <= 1e-6 * max(1e-12, code) + 1e-12 or sym_tags) else set())
            distinct.add((text, tuple(ns)))
        elif desc["start"] == "alt_start":
            w1, w2 = desc["weights"]
            e, n, u = stoch[0], ns[0], desc["blocks"][0]["mass"]
            started_with_F = "F" in smi
            pstart = (w2 if started_with_F else w1) / (w1 + w2)
            mstart = Descriptors.HeavyAtomMolWt(Chem.MolFromSmiles("F")) if started_with_F else 0.0
            code3 = pstart * (cdf(e.distribution, mstart + n * u) - cdf(e.distribution, mstart + (n - 1) * u))
            gen3 = pstart * (cdf(e.distribution, u) if n == 1 else cdf(e.distribution, n * u) - cdf(e.distribution, (n - 1) * u))
            distinct.add((text, tuple(ns), started_with_F))
            corr_ok = abs(reported - code3) <= 1e-6 * max(1e-12, code3) + 1e-12 or bool(sym_tags)
            if not corr_ok:
                rep.fail("correspondence", f"reported {reported} vs closed form of the search {code3} (start group picked with {pstart:.4g}) for {smi} of {text}", ident, expected=code3, observed=reported)
            if abs(reported - gen3) > 1e-6 * max(1e-9, gen3) + 1e-10:
                tags = set(sym_tags)
                if started_with_F:
                    tags.add("start_group_mass_counted")
                if n == 1 and cdf(e.distribution, 0.0) > 1e-9:
                    tags.add("first_interval_starts_at_cdf0")
                rep.fail("oracle", f"{smi} of {text}: reported ensemble probability {reported:.6g}, generation produces it with probability {gen3:.6g}", ident, expected=gen3, observed=reported,
                         tags=tags if corr_ok else set())
        else:
            # end-group start: the generator picks the start group with probability 1/2 (two end groups of weight 1) and may build the molecule from either end;
            # decided only for the massless start group, where the two paths are symmetric in the block factor
            if desc["start"] == "H_group" and len(stoch) == 1:
                distinct.add((text, tuple(ns)))
                # path 1 starts with [H] (m0 = 0), path 2 starts with the heavy closing group
                mh = Descriptors.HeavyAtomMolWt(Chem.MolFromSmiles(desc["blocks"][0]["closing"]))
                e, n, u = stoch[0], ns[0], desc["blocks"][0]["mass"]
                g1 = cdf(e.distribution, u) if n == 1 else cdf(e.distribution, n * u) - cdf(e.distribution, (n - 1) * u)
                gen2 = 0.5 * g1 + 0.5 * g1
                code2 = 0.5 * (cdf(e.distribution, n * u) - cdf(e.distribution, (n - 1) * u)) + 0.5 * (cdf(e.distribution, mh + n * u) - cdf(e.distribution, mh + (n - 1) * u))
                if abs(reported - code2) > 1e-6 * max(1e-12, code2) + 1e-12 and sym_tags:
                    rep.fail("oracle", f"{smi} of {text}: reported ensemble probability {reported:.6g}, generation produces it with probability {gen2:.6g}", ident, expected=gen2,
                             observed=reported, tags=sym_tags)
                elif abs(reported - code2) > 1e-6 * max(1e-12, code2) + 1e-12:
                    rep.fail("correspondence", f"reported {reported} vs closed form of the search {code2} (two start paths) for {smi} of {text}", ident, expected=code2, observed=reported)
                elif abs(reported - gen2) > 1e-6 * max(1e-9, gen2) + 1e-10:
                    rep.fail("oracle", f"{smi} of {text}: reported ensemble probability {reported:.6g}, generation produces it with probability {gen2:.6g}", ident, expected=gen2,
                             observed=reported, tags={"start_group_mass_counted"})
        # ---- atom-order independence
        params = Chem.SmilesParserParams()
        params.removeHs = False           # the search treats explicit [H] end groups as atoms
        m = Chem.MolFromSmiles(smi, params)
        for _ in range(1 if quick else 3):
            smi2 = Chem.MolToSmiles(m, doRandom=True)
            try:
                with fw.time_limit(120):
                    rep2 = float(get_ensemble_prob(smi2, mol)[0])
            except Exception:
                continue
            if abs(rep2 - reported) > 1e-9 * max(1e-12, reported) + 1e-15:
                rep.fail("oracle", f"the reported probability depends on the atom order: {smi} -> {reported}, {smi2} -> {rep2}", {**ident, "smiles2": smi2}, expected=reported, observed=rep2,
                         tags=sym_tags)
        # ---- a molecule outside the ensemble
        if k % 5 == 0:
            out = smi.replace("C", "S", 1) if "S" not in smi else None
            if out and Chem.MolFromSmiles(out) is not None:
                try:
                    with fw.time_limit(120):
                        p_out = float(get_ensemble_prob(out, mol)[0])
                    if p_out > 1e-15:
                        rep.fail("oracle", f"{out} is not in the ensemble of {text} but is reported with probability {p_out}", {**ident, "outside": out}, expected=0.0, observed=p_out)
                except Exception:
                    pass
    # the closed form against the extracted Coq definitions on a few numeric instances (glue check of Model/Prob.v)
    rep.coverage.update({"evaluations": evaluations, "distinct_nontrivial": len(distinct), "shape_hist": shape_hist,
                         "rule": "linear directed chains: prefix or end-group start ([H] or a heavy group), one or two blocks of a single directed repeat unit, five families, "
                                 "chain lengths as generated (<= 7 units per block in the quick tier: the search is slow); distinct_nontrivial = distinct (molecule, chain lengths) decided",
                         "samples": [{"text": make_chain(random.Random(2))[0]}]})
    rep.assumptions = ["the cumulative distribution functions are scipy's (oracle); the laws are treated as having no atom at the cumulative block masses",
                       "end-group starts are decided for a massless ([H]) start group with one block; heavier start groups are covered by the closed form only"]
    return fw.finish(rep, coq, fw.COMMON_TRUSTED + ["modelled, not verified: the closed form of mol_prob.py on linear directed chains (Model/Prob.v); the search itself is not modelled"],
                     "make -C coq Props/C19.vo (coqc 8.16.1, full .vo build) + Print Assumptions audit")


def replay(case):
    import gbigsmiles
    from gbigsmiles.mol_prob import get_ensemble_prob
    c = case.get("case") or {}
    print("replay:", case.get("what"))
    mol = gbigsmiles.Molecule(c["text"])
    print("reported:", get_ensemble_prob(c["smiles"], mol)[0], " expected:", case.get("expected"))
    return 1
