"""C12 -- Mixture bookkeeping: percentages sum to 100 and masses are consistent.

proof:          coq/Props/C12.v over Model/Sys.v (mixture.py setters, system.py:15-84 in exact rationals): what every accepted
                system satisfies, two rejection theorems, and the REFUTATIONS of full soundness / completeness (known findings)
tie T:          harness/translate_sys.py regenerates Src/SrcSys.v (decision expressions of _estimate_system_molecular_weight and of the two
                linked Mixture setters; their statement skeleton must be the one the model was written against); C12_model_is_source proves
                the bookkeeping rebuilt from them equal to Model/Sys.v
correspondence: all shapes {absolute, percent, unspecified(last)} for 1-5 components x {no / consistent / inconsistent caller mass}
                x value patterns: implementation (System(...)) vs extracted model: error class or generable flag and all three
                values of every component
oracle/search:  the linear-constraint specification solved with fractions.Fraction: determined -> generable with the unique
                solution; under-determined -> not generable; contradictory -> exception; print -> re-parse keeps the masses
"""
import itertools
import random
from fractions import Fraction as Fr

import framework as fw
import genlayer as gl

MOLS = ["CCO", "CCC", "CCCC", "CCN", "CCCCC"]


def fmt(x, rnd):
    f = float(x)
    if f.is_integer() and rnd.random() < 0.5:
        return str(int(f))
    r = repr(f)
    if r.startswith("0.") and rnd.random() < 0.5:
        return r[1:]        # ".25": a float syntax without leading zero
    return r


def text_of(comps, rnd):
    t = ""
    for i, (k, v) in enumerate(comps):
        t += MOLS[i]
        if k == "a":
            t += f".|{fmt(v, rnd)}|"
        elif k == "r":
            t += f".|{fmt(v, rnd)}%|"
    return t


def impl(text, smw):
    import gbigsmiles

    try:
        with fw.time_limit(20):
            s = gbigsmiles.System(text, system_molweight=None if smw is None else float(smw))
    except Exception as e:  # noqa
        return ("ERR", fw.exc_class(e)), None
    out = []
    for m in s._molecules:
        x = m.mixture
        out.append(None if x is None else (x.absolute_mass, x.relative_mass, x.system_mass))
    return ("OK", bool(s._generable), out), s


def model_line(comps, smw):
    cs = ",".join("n" if k == "n" else f"{k}:{gl.fq(float(v))}" for k, v in comps)
    return "\t".join(["sys", cs, "N" if smw is None else gl.fq(float(smw))])


def parse_model(line):
    if line.startswith("ERR "):
        return ("ERR", line[4:])
    _, g, cs = line.split(" ", 2)
    out = []
    for c in cs.split(","):
        out.append(None if c == "none" else tuple(None if x == "-" else Fr(x) for x in c.split(";")))
    return ("OK", g == "T", out)


def close(a, b, rel=1e-9):
    if a is None or b is None:
        return a is None and b is None
    a, b = float(a), float(b)
    return abs(a - b) <= rel * max(1.0, abs(a), abs(b))


def same(m, i):
    if m[0] != i[0]:
        return False
    if m[0] == "ERR":
        return m[1] == i[1]
    if m[1] != i[1] or len(m[2]) != len(i[2]):
        return False
    for a, b in zip(m[2], i[2]):
        if (a is None) != (b is None):
            return False
        if a is not None and not all(close(x, y) for x, y in zip(a, b)):
            return False
    return True


def classify(comps, smw):
    """the linear-constraint specification: abs_i = rel_i/100 * S, sum rel = 100, written values fixed"""
    A = [(i, Fr(float(v))) for i, (k, v) in enumerate(comps) if k == "a"]
    R = [(i, Fr(float(v))) for i, (k, v) in enumerate(comps) if k == "r"]
    U = [i for i, (k, v) in enumerate(comps) if k == "n"]
    n = len(comps)
    sR = sum(v for _, v in R)
    sA = sum(v for _, v in A)
    S = None
    if smw is not None:
        S = Fr(float(smw))
    elif not U:
        if not A:
            return ("under",) if sR == 100 else ("contradictory",)
        if not R:
            S = sA
        elif sR >= 100:
            return ("contradictory",)
        else:
            S = sA / (1 - sR / 100)
    else:
        if sR > 100 or (sR == 100 and A):
            return ("contradictory",)
        if sR == 100:
            return ("degenerate",)
        return ("under",)
    rel = [None] * n
    for i, v in A:
        rel[i] = 100 * v / S
    for i, v in R:
        rel[i] = v
    known = sum(x for x in rel if x is not None)
    if U:
        ru = 100 - known
        if ru < 0:
            return ("contradictory",)
        if ru == 0:
            return ("degenerate",)
        rel[U[0]] = ru
    elif known != 100:
        # the code tolerates 1e-6 on the sum; cases in between are not decided
        return ("contradictory",) if abs(known - 100) > Fr(1, 10**4) else ("near",)
    return ("determined", S, [r * S / 100 for r in rel], rel)


def shapes(n):
    for ks in itertools.product("ar", repeat=n - 1):
        for last in "arn":
            yield list(ks) + [last]


def dyadic_partition(rnd, n):
    """n positive percentages in multiples of 3.125 summing to 100"""
    cuts = sorted(rnd.sample(range(1, 32), n - 1)) if n > 1 else []
    parts = [b - a for a, b in zip([0] + cuts, cuts + [32])]
    return [Fr(p * 100, 32) for p in parts]


def check(rep):
    coq = fw.coq_check("C12", ["SrcSys"])
    quick = rep.tier == "quick"
    rnd = random.Random(rep.seed + 12)
    cases = []
    patterns = 4 if quick else 40
    for n in range(1, 6):
        for shape in shapes(n):
            for smode in ("none", "consistent", "inconsistent"):
                for _ in range(patterns):
                    S = Fr(rnd.choice([1000, 2048, 600, 51200, 8, 16]))      # 8, 16: shares of 3.125 % are masses below 1
                    rel = dyadic_partition(rnd, n)
                    vals = [(k, (r * S / 100 if k == "a" else r if k == "r" else None)) for k, r in zip(shape, rel)]
                    pert = rnd.choice(["none", "none", "one", "pct_over", "zero_pct"])
                    if pert == "one" and n > 0:
                        j = rnd.randrange(n)
                        if vals[j][0] != "n":
                            vals[j] = (vals[j][0], vals[j][1] * rnd.choice([Fr(5, 4), Fr(1, 2), Fr(3, 2)]))
                    elif pert == "pct_over":
                        rs = [j for j, (k, v) in enumerate(vals) if k == "r"]
                        if rs:
                            j = rnd.choice(rs)
                            vals[j] = ("r", min(Fr(100), vals[j][1] + rnd.choice([25, 50, 75])))
                    elif pert == "zero_pct":
                        # a component declared with 0 %: a written percentage like any other.  Its former share goes to another component (the
                        # specification stays solvable), or nowhere (the rest must then be inferred, or the percentages no longer sum to 100)
                        rs = [j for j, (k, v) in enumerate(vals) if k == "r"]
                        if rs:
                            j = rnd.choice(rs)
                            share = vals[j][1]
                            vals[j] = ("r", Fr(0))
                            others = [i for i in range(n) if i != j and vals[i][0] != "n"]
                            if others and rnd.random() < 0.6:
                                i = rnd.choice(others)
                                vals[i] = (vals[i][0], vals[i][1] + (share if vals[i][0] == "r" else share * S / 100))
                    smw = None if smode == "none" else (S if smode == "consistent" else S * rnd.choice([Fr(2), Fr(3, 4)]))
                    cases.append((vals, smw))
    lines = [model_line(c, s) for c, s in cases]
    mouts = [parse_model(x) for x in fw.run_driver(lines)]
    classes = {}
    distinct = set()
    evaluations = 0
    for (comps, smw), mo in zip(cases, mouts):
        text = text_of(comps, rnd)
        io, sysobj = impl(text, smw)
        evaluations += 1
        ident = {"text": text, "system_molweight": None if smw is None else float(smw),
                 "spec": [[k, None if v is None else float(v)] for k, v in comps]}
        agree = same(mo, io)
        if any(k == "r" and not (0 <= v <= 100) for k, v in comps):
            # rejected by the Mixture constructor (mixture.py:37-38) before any bookkeeping: not an input of the model
            agree = True
            if io != ("ERR", "Runtime"):
                rep.fail("oracle", f"percentage outside 0-100 accepted: {text}", ident, expected="RuntimeError", observed=str(io)[:200])
            continue
        if not agree:
            rep.fail("correspondence", f"mixture layer: model {str(mo)[:150]} vs implementation {str(io)[:150]}", ident, expected=str(mo), observed=str(io))
        cl = classify(comps, smw)
        classes[cl[0] + "->" + (io[0] if io[0] == "ERR" else ("generable" if io[1] else "not generable"))] = \
            classes.get(cl[0] + "->" + (io[0] if io[0] == "ERR" else ("generable" if io[1] else "not generable")), 0) + 1
        distinct.add((tuple(k for k, _ in comps), smw is None, cl[0]))
        if cl[0] in ("degenerate", "near"):
            continue
        if cl[0] == "contradictory":
            if io[0] != "ERR":
                rep.fail("oracle", f"contradictory specification accepted without error (generable={io[1]}): {text} system_molweight={ident['system_molweight']}",
                         ident, expected="an exception", observed=str(io)[:300], tags={"contradictory_not_rejected"} if agree else set())
        elif cl[0] == "under":
            if io[0] == "ERR" or io[1]:
                rep.fail("oracle", f"under-determined specification not reported as not generable: {text}", ident, expected="generable == False", observed=str(io)[:300])
        else:
            _, S, ab, rl = cl
            if io[0] == "ERR":
                rep.fail("oracle", f"determined specification rejected ({io[1]}): {text} system_molweight={ident['system_molweight']}", ident,
                         expected=f"S={float(S)} abs={[float(x) for x in ab]} rel={[float(x) for x in rl]}", observed=str(io))
            elif not io[1]:
                rep.fail("oracle", f"determined specification reported not generable: {text} system_molweight={ident['system_molweight']}", ident,
                         expected=f"S={float(S)} abs={[float(x) for x in ab]} rel={[float(x) for x in rl]}", observed=str(io)[:300],
                         tags={"determined_not_inferred"} if agree else set())
            else:
                ok = all(c is not None and close(c[0], a, 1e-6) and close(c[1], r, 1e-6) and close(c[2], S, 1e-6) for c, a, r in zip(io[2], ab, rl))
                if not ok or abs(sum(c[1] for c in io[2]) - 100) > 1e-6:
                    rep.fail("oracle", f"accepted with values that are not the solution: {text}", ident,
                             expected=f"S={float(S)} abs={[float(x) for x in ab]} rel={[float(x) for x in rl]}", observed=str(io)[:300])
                elif any(r == 0 for r in rl):
                    # a component with share 0 (written as 0 % or left with a remainder of 0): the property speaks of positive masses and
                    # percentages; the printed form '.|0.0|' of such a component is an absolute mass of 0, which the notation reads as "no mass
                    # given".  The solution above is still checked; the print / re-parse clause is not demanded here.
                    pass
                else:
                    # user-written values preserved and print -> re-parse keeps all masses
                    import gbigsmiles
                    try:
                        s2 = gbigsmiles.System(str(sysobj))
                        back = [(m.mixture.absolute_mass, m.mixture.relative_mass) for m in s2._molecules]
                        if not s2._generable or not all(close(b[0], c[0], 1e-9) and close(b[1], c[1], 1e-6) for b, c in zip(back, io[2])):
                            rep.fail("oracle", f"printing then re-parsing changes the masses: {text} -> {sysobj}", ident, expected=str(io[2]), observed=str(back))
                    except Exception as e:  # noqa
                        rep.fail("oracle", f"printed system is rejected on re-parsing: {text} -> {sysobj}: {type(e).__name__}", ident, expected="accepted", observed=fw.exc_class(e))
    rep.coverage.update({"evaluations": evaluations, "distinct_nontrivial": len(distinct), "exhaustive": True,
                         "rule": "all 93 shapes of {absolute, percent, unspecified (last component only: the notation cannot leave another one unspecified)} over 1-5 "
                                 "components x {no, consistent, inconsistent} caller mass x value patterns (dyadic percentages, one value perturbed / a percentage "
                                 "pushed over 100); distinct_nontrivial = distinct (shape, caller mass given?, specification class)",
                         "spec_class_vs_outcome": dict(sorted(classes.items())),
                         "samples": [{"text": text_of(c, rnd), "system_molweight": None if s is None else float(s)} for c, s in cases[200:203]]})
    rep.assumptions = ["float arithmetic of the implementation vs exact rationals of the model: values compared to 1e-9, thresholds (1e-6 tolerances of the code) avoided by construction"]
    return fw.finish(rep, coq, fw.COMMON_TRUSTED + ["modelled, not verified: mixture.py:16-84, system.py:15-84 (Model/Sys.v), exhaustively compared over the shape space"],
                     "make -C coq Props/C12.vo (coqc 8.16.1, full .vo build) + Print Assumptions audit")


def replay(case):
    c = case.get("case") or {}
    print("replay:", case.get("what"))
    io, _ = impl(c["text"], c.get("system_molweight"))
    comps = [(k, None if v is None else Fr(v)) for k, v in c["spec"]]
    print("implementation:", io)
    print("model:", parse_model(fw.run_driver([model_line(comps, c.get("system_molweight"))])[0]))
    print("specification:", classify(comps, c.get("system_molweight")))
    return 1
