"""C06 -- Well-posed molecules generate to completion, in the written element order.

proof:          coq/Props/C06.v (partial: safety half for all picks/targets; termination/completion for well_posed not yet proved)
correspondence: as C04 (trace validation, incl. all choice sequences of bounded instances: every leaf must complete)
oracle/search:  for inputs accepted by the closability analysis (harness/wellposed.py): no error, fully_generated, every
                descriptor of every residue bonded exactly once, elements in written order (tokens once, >= 1 unit per object,
                one bond between consecutive elements, none between non-adjacent ones), end groups are leaves
"""
import framework as fw
import genrun
import wellposed


def oracle(v, run):
    from gbigsmiles.stochastic import Stochastic
    from gbigsmiles.token import SmilesToken

    bad = []
    g = run.gen
    if not g.fully_generated:
        bad.append(f"molecule returned with {len(g.bond_descriptors)} open descriptor(s)")
    # every descriptor of every residue formed exactly one bond
    deg = {}
    for a1, a2, o, r1, r2 in v.inter:
        deg[a1] = deg.get(a1, 0) + 1
        deg[a2] = deg.get(a2, 0) + 1
    for r, t in enumerate(v.tokens):
        if t is None:
            continue
        want = {}
        for bd in t.bond_descriptors:
            a = v.offs[r] + int(bd.atom_bonding_to)
            want[a] = want.get(a, 0) + 1
        for a in range(v.offs[r], v.offs[r + 1]):
            if deg.get(a, 0) != want.get(a, 0) and g.fully_generated:
                bad.append(f"residue {r} ({t}) atom {a - v.offs[r]}: {deg.get(a, 0)} inter-residue bonds for {want.get(a, 0)} descriptors")
                break
    seq = genrun.element_blocks(v, run)
    if seq is not None and None not in seq:
        if any(x > y for x, y in zip(seq, seq[1:])):
            bad.append(f"residues are not created in element order: {seq}")
        n_el = len(run.mol._elements)
        for ei, e in enumerate(run.mol._elements):
            cnt = seq.count(ei)
            if isinstance(e, SmilesToken) and cnt != 1:
                bad.append(f"token element {ei} ({e}) appears {cnt} times")
            if isinstance(e, Stochastic):
                reps = {str(t) for t in e.repeat_tokens}
                if not genrun.has_lists(e) and not any(seq[r] == ei and v.g.graph.nodes[r]["big_smiles"] in reps for r in v.nodes):
                    bad.append(f"stochastic element {ei} contributed no repeat unit")
        cross = {}
        for u, w, _ in v.edges:
            a, b = sorted((seq[u], seq[w]))
            if a != b:
                cross[(a, b)] = cross.get((a, b), 0) + 1
        for (a, b), k in cross.items():
            if b != a + 1:
                bad.append(f"elements {a} and {b} are bonded although not adjacent")
            elif k != 1:
                bad.append(f"{k} bonds between elements {a} and {b}")
        for a in range(n_el - 1):
            if (a, a + 1) not in cross:
                bad.append(f"no bond between consecutive elements {a} and {a + 1}")
        # end groups only as leaves
        import networkx as nx
        for ei, e in enumerate(run.mol._elements):
            if isinstance(e, Stochastic):
                ends = {str(t) for t in e.end_tokens if len(t.bond_descriptors) == 1} - {str(t) for t in e.repeat_tokens}
                for r in v.nodes:
                    if seq[r] == ei and v.g.graph.nodes[r]["big_smiles"] in ends and v.g.graph.degree(r) > 1:
                        bad.append(f"end group residue {r} has {v.g.graph.degree(r)} neighbours")
    return bad


# a block whose descriptors carry lists, DIRECTLY followed by a plain block that has end groups: the descriptor handed over takes the second block's
# terminal weight (no list); a list kept from the first block would index the second block's table and may cap it before any repeat unit
_B1 = ["{[][<|0 0 0 1 0|]CC[>], [<|0 1 0 0 0|]C(C)C[>]; [<][H][>]}|gauss(150, 20)|", "{[][<|0 0 0 2 0|]CC(C)[>], [<|0 1 0 1 0|]CC[>]; [<]F[>]}|uniform(120, 180)|"]
_B2 = ["{[<][<]OCC[>]; [>]Cl, [>]Br[]}|gauss(150, 20)|", "{[<][<]CC(O)[>]; [>]N, [>]F[]}|uniform(100, 200)|"]
HANDOVER_INTO_END_GROUPS = [("handover_into_end_groups", b1 + b2, 1000 + 17 * k) for k in range(6) for b1 in _B1 for b2 in _B2]


def check(rep):
    coq = fw.coq_check("C06", ["SrcBond", "SrcCore", "SrcGen"])
    quick = rep.tier == "quick"
    import gen_inputs as gi
    # every sequence of random choices includes the draws: negative and tiny targets (forced, and natural draws of wide Gaussians) must still
    # give at least one repeat unit per object and a closed molecule
    wide = [(a + ":gauss_wide", t, s) for a, t, s in gi.cases(rep.seed + 66, 40 if quick else 1500, archetypes=["homopolymer", "block_copolymer", "end_initiated", "random_copolymer"], family="gauss_wide")]
    cases, stats = genrun.collect(rep, 150 if quick else 6000, 14 if quick else 300, forced_kinds=(None, None, "negative", None, "below"), max_leaves=150 if quick else 2000,
                                  budget_s=130 if quick else 1500,
                                  extra_natural=wide + gi.cases(rep.seed + 67, 16 if quick else 400, archetypes=["list_handover", "lone_zero_weight"]) + HANDOVER_INTO_END_GROUPS * (1 if quick else 12))   # rare triggers: a fixed share
    wp_cache = {}
    accepted = rejected = mols = 0
    acc_by_arch = {}
    distinct = set()
    for c in cases:
        if c.text not in wp_cache:
            why = []
            try:
                wp_cache[c.text] = (wellposed.well_posed(wellposed.abstract(c.run.mol), why), why)
            except Exception as e:  # noqa
                wp_cache[c.text] = (False, [f"analysis failed: {e}"])
            a = acc_by_arch.setdefault(c.archetype, [0, 0])
            a[0 if wp_cache[c.text][0] else 1] += 1
        wp, why = wp_cache[c.text]
        if not wp:
            rejected += 1
            continue
        accepted += 1
        if c.run.need is not None:
            continue
        if c.run.error is not None:
            rep.fail("oracle", f"well-posed molecule failed to generate: {type(c.run.error).__name__}: {str(c.run.error)[:100]}", c.ident(),
                     expected="a fully generated molecule", observed=fw.exc_class(c.run.error))
            continue
        mols += 1
        v = genrun.View(c.run)
        for b in oracle(v, c.run):
            rep.fail("oracle", b, c.ident(), expected="complete molecule, elements in written order", observed=b)
        distinct.add((c.text, tuple(c.run.picks), tuple(c.run.targets)))
    rep.coverage.update({"evaluations": len(cases), "well_posed_runs": accepted, "not_well_posed_runs_skipped": rejected, "molecules_checked": mols,
                         "distinct_nontrivial": len(distinct), "well_posed_accept_reject_by_archetype": acc_by_arch,
                         "rule": "as C04; the oracle is applied to inputs accepted by the closability analysis; distinct_nontrivial = distinct "
                                 "(string, picks, targets) of accepted inputs that returned a molecule",
                         "traces_validated_against_model": sum(1 for c in cases if not c.near), **stats,
                         "samples": [c.ident() for c in cases[:2] + cases[-1:]]})
    rep.assumptions = ["PARTIAL: termination and completion for well_posed inputs are not yet theorems; the safety half (all descriptors used when none is open, "
                       "element order, what finalisation leaves open) is proved for all picks/targets", "well_posed is conservative (rejects some complete molecules)"]
    return fw.finish(rep, coq, fw.COMMON_TRUSTED + ["harness/wellposed.py (closability analysis deciding which inputs the completion oracle applies to)"],
                     "make -C coq Props/C06.vo (coqc 8.16.1, full .vo build) + Print Assumptions audit")


def replay(case):
    return genrun.replay(case, oracle)
