"""C18 -- Atom-graph generation yields trees of whole residues joined along graph edges.

proof:          coq/Props/C18.v over Model/AGen.v: no OutOfFuel (every loop iteration consumes a random decision); every bond between
                residues follows a non-static edge of the stochastic atom graph with its order and enters a fresh residue; every other bond is
                a static bond inside one residue; the residues form a tree (one incoming bond per residue but the first, from an earlier one);
                one static completion adds exactly the atoms reached over static bonds and all static bonds among them
correspondence: AtomGraph.generate under a recording generator vs the extracted run_agen on the same stochastic atom graph, picks and
                draws: atom sequence (stochastic node of every atom), residue instance of every atom, every bond with order and kind
                (static completion / link), the sequence of decisions (candidate count, position), picks and draws all consumed
oracle/search:  on the implementation's graph: connected, every residue instance has exactly the atoms and static bonds of its token, links
                follow non-static edges with the same order, residues form a tree, to_mol() sanitises to one fragment, two runs with one seed
                agree, termination inside a time limit; all choice sequences for small forced draws
"""
import random

import framework as fw
import gen_inputs as gi
import agenlayer as al

EXTRA = [
    # multi-atom end groups
    ("multi_atom_end_group", "{[][<]CC[>]; [<]CCO, [>]C(=O)N []}|schulz_zimm(300, 200)|"),
    ("multi_atom_end_group", "{[][$]CC[$]; [$]C(C)(C)C[]}|schulz_zimm(200, 150)|"),
    ("multi_atom_end_group", "{[][<]CC[>]; [<]N(C)C, [>]OC=O[]}|schulz_zimm(80,60)|"),
    ("multi_atom_end_group", "OC{[>] [<]CC(c1ccccc1)[>]; [<]c1ccccc1, [>]CCl [<]}|schulz_zimm(600, 400)|F"),
    ("multi_atom_end_group", "[H]{[$] [$]C(C[<])(C[<])(C[<]), [>]CC[<]; [>]OCC []}|schulz_zimm(600, 450)|"),
    ("end_group_two_descriptors", "CC{[$][$]CC[$]; [$]OCCN[$]}|schulz_zimm(80,60)|O"),
    # transition lists, several elements
    ("transition_list", "OC{[>] [<]CC[>], [<|.5|]C(N[>|.1 0 0 0 0 0 0|])C[>]; [<][H], [<]C [<]}|schulz_zimm(500, 450)|COOC{[<] [<]COC[>], [<]C(ON)C[>] [>]}|schulz_zimm(500, 450)|F"),
    ("transition_list", "CCOC(=O)C(C)(C){[>][<|0 0 0 1|]CC([>|0 0 1 0|])c1ccccc1, [<|0 1 0 0|]CC([>|1 0 0 0|])C(=O)OC [<]}|schulz_zimm(1000, 900)|[Br]"),
    ("transition_list", "N{[>][<|0 1 1|]CC[>|3 0 0|]; [>]OCC [<]}|schulz_zimm(200, 150)|C"),
    ("two_elements_shared_draw", "C{[$][$]CC[$][$]}|schulz_zimm(120, 100)|O{[$][$]C(F)C[$][$]}|schulz_zimm(120, 100)|N"),
    ("ring_in_token", "{[][$]C1CCC(CC1)[$]; [$]c1ccncc1 []}|schulz_zimm(400, 300)|"),
    # descriptor atoms bonded to each other by a multiple bond: parallel static / stochastic edges of different order
    ("adjacent_descriptor_atoms_multiple_bond", "{[][$]C=C[$]; [$]C[]}|schulz_zimm(300, 250)|"),
    ("adjacent_descriptor_atoms_multiple_bond", "CC{[>][<]C=C[>][<]}|schulz_zimm(300, 250)|CO"),
    ("adjacent_descriptor_atoms_multiple_bond", "{[][$]C#C[$]; [$]C[]}|schulz_zimm(300, 250)|"),
    ("unsaturated", "{[][$]C=CC=C[$]; [$]C#N []}|schulz_zimm(150, 100)|"),
]


def trace_of(run):
    return [f"c{len(l[0])}:{l[2]}" for l in run.rng.log]


def check_run(rep, ident, run, stats, do_model=True):
    """oracle + correspondence for one finished run of the implementation"""
    if run.draw_failed:
        stats["draw_failed"] += 1
        return
    if run.timed_out:
        rep.fail("oracle", "generation did not terminate within the time limit", ident, expected="terminates", observed="timeout")
        return
    if run.error is not None:
        rep.fail("oracle", f"generation raised {type(run.error).__name__}: {str(run.error)[:90]}", ident, expected="a molecule", observed=fw.exc_class(run.error))
        return
    nodes_f, statics_f, start, idx = al.graph_fields(run.ag)
    problems, n_inst, n_links = al.oracle(run, idx)
    stats["molecules"] += 1
    stats["atoms"] += run.ag.graph.number_of_nodes()
    stats["residues"] += n_inst
    stats["links"] += n_links
    for what, detail, tag in problems:
        rep.fail("oracle", what, {**ident, "detail": detail}, expected="whole residues joined along non-static graph edges, a tree, sanitisable", observed=what,
                 tags={tag} if tag else set())
    if not do_model:
        return
    if al.near_threshold(run):
        stats["near_threshold_skipped"] += 1
        return
    line = "\t".join(["agen", nodes_f, statics_f, str(start), ",".join(str(k) for k in run.picks), ",".join(al.frs(d) for d in run.draws)])
    m = al.parse_model(fw.run_driver([line])[0])
    stats["model_runs"] += 1
    if m["r"] != "done":
        rep.fail("correspondence", f"model result {m['r']!r} where the implementation produced a molecule", ident, expected="done", observed=m["r"])
        return
    got = {"nodes": [idx[x] for x in run.nodes()], "inst": run.inst(), "edges": run.edges(), "trace": trace_of(run)}
    want = {"nodes": m["nodes"], "inst": m["inst"], "edges": m["edges"], "trace": [t for t in m["trace"] if t != "d"]}
    for k in ("trace", "nodes", "inst", "edges"):
        if got[k] != want[k]:
            d = next((i for i, (a, b) in enumerate(zip(got[k], want[k])) if a != b), min(len(got[k]), len(want[k])))
            rep.fail("correspondence", f"atom-graph generation: {k} differ from the model at position {d}: implementation {got[k][d:d + 3]}, model {want[k][d:d + 3]}",
                     ident, expected=str(want[k][max(0, d - 2):d + 4]), observed=str(got[k][max(0, d - 2):d + 4]))
            return
    if m["picks_left"] or m["targets_left"] or m["trace"].count("d") != len(run.draws):
        rep.fail("correspondence", f"the model left {m['picks_left']} picks and {m['targets_left']} draws unused", ident, expected="all consumed", observed=str((m["picks_left"], m["targets_left"])))
    mw_i = [float(x) for x in run.ag.mw]
    mw_m = [float(x) for x in m["mw"]]
    if len(mw_i) != len(mw_m) or any(abs(a - b) > 1e-6 * max(1.0, abs(b)) for a, b in zip(mw_i, mw_m)):
        rep.fail("correspondence", f"per-element masses differ: implementation {mw_i[:5]}, model {mw_m[:5]}", ident, expected=str(mw_m[:6]), observed=str(mw_i[:6]))


def check(rep):
    import gbigsmiles
    from rdkit import Chem

    coq = fw.coq_check("C18", ["SrcBond", "SrcAGen"])
    quick = rep.tier == "quick"
    rnd = random.Random(rep.seed + 18)
    texts = list(EXTRA)
    texts += [("documented", t) for t in gi.DOCUMENTED if "schulz_zimm" in t]
    texts += [(a, t) for a, t, _ in gi.cases(rnd.randrange(1 << 30), 60 if quick else 700, family="schulz_zimm") if a != "defective_list"]
    stats = {"molecules": 0, "atoms": 0, "residues": 0, "links": 0, "model_runs": 0, "near_threshold_skipped": 0, "draw_failed": 0}
    by_arche = {}
    skipped = {"rejected": 0, "no_graph": 0, "no_start": 0}
    evaluations = explored_leaves = exhaustive = 0
    distinct = set()
    seeds = 2 if quick else 4
    timeouts = 0
    import os as _os, sys as _sys, time as _time
    _t0 = _time.time()
    for arche, text in texts:
        if _os.environ.get("VERIF_PROGRESS"):
            print(f"[progress {_time.time() - _t0:.0f}s] {arche} {text[:70]} timeouts={timeouts}", file=_sys.stderr, flush=True)
        if timeouts >= (5 if quick else 25):
            # generation that does not come back is already reported (each with its replay); the remaining inputs would only repeat it,
            # at one time limit each
            skipped["after_repeated_timeouts"] = skipped.get("after_repeated_timeouts", 0) + 1
            continue
        try:
            with fw.time_limit(20):
                mol = gbigsmiles.Molecule(text)
                sag = mol.gen_stochastic_atom_graph(expect_schulz_zimm_distribution=True)
        except Exception:
            skipped["no_graph"] += 1
            continue
        probe = gbigsmiles.AtomGraph(sag, rng=al.RecRNG(0))
        if probe._find_start_source() is None:
            skipped["no_start"] += 1
            continue
        by_arche[arche] = by_arche.get(arche, 0) + 1
        for k in range(seeds):
            seed = rnd.randrange(1 << 30)
            ident = {"archetype": arche, "text": text, "seed": seed, "mode": "seeded"}
            run = al.AGRun(sag, seed, timeout=30 if quick else 300)
            evaluations += 1
            check_run(rep, ident, run, stats)
            timeouts += bool(run.timed_out)
            if run.error is None and not run.timed_out and not run.draw_failed:
                if run.ag.graph.number_of_nodes() > 3:
                    distinct.add((text, seed))
                if k == 0:
                    # equal seeds, equal molecules (fresh graph object, fresh generator)
                    again = al.AGRun(gbigsmiles.Molecule(text).gen_stochastic_atom_graph(expect_schulz_zimm_distribution=True), seed, timeout=60 if quick else 300)
                    same = again.error is None and not again.timed_out and again.nodes() == run.nodes() and again.edges() == run.edges()
                    if same:
                        try:
                            same = Chem.MolToSmiles(again.ag.to_mol()) == Chem.MolToSmiles(run.ag.to_mol())
                        except Exception:
                            pass
                    if not same:
                        rep.fail("oracle", "two generations with one seed differ", ident, expected="identical molecules", observed="different")
        # all choice sequences for small forced draws (bounded instances); not on an input whose generation did not come back
        explore_it = arche in dict(EXTRA) or rnd.random() < (0.25 if quick else 0.3)
        if explore_it and not (timeouts and run.timed_out):
            forced = [rnd.choice([45.3, 77.7, 131.9])] * 8
            leaves, trunc = al.explore(sag, forced, max_leaves=40 if quick else 250, timeout=30)
            exhaustive += not trunc
            for script, run in leaves:
                if run.need == -1:
                    continue
                explored_leaves += 1
                evaluations += 1
                check_run(rep, {"archetype": arche, "text": text, "script": script, "forced": forced[:len(run.draws)], "mode": "scripted"}, run, stats)
    rep.coverage.update({"evaluations": evaluations, "distinct_nontrivial": len(distinct), "inputs_by_archetype": by_arche, "skipped": skipped, **stats,
                         "scripted_leaves": explored_leaves, "inputs_explored_exhaustively": exhaustive,
                         "rule": "Schulz-Zimm molecules: multi-atom end groups, transition lists, shared (Mw, Mn), rings, documented strings, every generator "
                                 "archetype with the family forced to schulz_zimm; per input several seeds (real draws) + all choice sequences under small forced "
                                 "draws (depth first, capped); distinct_nontrivial = distinct (string, seed) with more than 3 atoms",
                         "samples": [{"text": t} for _, t in texts[:2] + texts[-1:]]})
    rep.assumptions = ["atoms, static bonds and atomic masses of the stochastic atom graph are oracle data (C17 ties that graph to the notation)",
                       "a draw within 1e-7 (relative) of an accumulated mass is not compared with the exact-rational model (counted as near_threshold_skipped)",
                       "runs in which scipy's Schulz-Zimm draw itself raises (C11's known finding) produce no molecule and are counted as draw_failed, not judged",
                       "residue instances on the implementation side are read from marks a harness wrapper leaves on the atoms of each static completion"]
    return fw.finish(rep, coq, fw.COMMON_TRUSTED + ["modelled, not verified: graph_generate.py (Model/AGen.v), compared atom by atom, bond by bond and decision by decision on every run",
                                                    "networkx container order (node, adjacency and edge iteration) enters the model as oracle data: out-edge lists and static adjacency are read from the implementation's graphs"],
                     "make -C coq Props/C18.vo (coqc 8.16.1, full .vo build) + Print Assumptions audit")


def replay(case):
    import gbigsmiles
    c = case.get("case") or {}
    print("replay:", case.get("what"))
    sag = gbigsmiles.Molecule(c["text"]).gen_stochastic_atom_graph(expect_schulz_zimm_distribution=True)
    if c.get("mode") == "scripted":
        run = al.AGRun(sag, 0, script=c["script"], forced=list(c["forced"]) + [c["forced"][-1] if c["forced"] else 50.0] * 8)
    else:
        run = al.AGRun(sag, c["seed"])
    if run.error is not None or run.timed_out:
        print("generation:", "timeout" if run.timed_out else repr(run.error))
        return 1
    _, _, _, idx = al.graph_fields(run.ag)
    problems, n_inst, n_links = al.oracle(run, idx)
    print(f"{run.ag.graph.number_of_nodes()} atoms, {n_inst} residues, {n_links} links")
    for p in problems:
        print("  ", p[0])
    return 1 if problems else 0
