"""C04 -- Generation only ever bonds compatible, unused descriptors with their bond order.

proof:          coq/Props/C04.v (Proofs/GenP.v): for all inputs, pick streams, targets
correspondence: implementation runs (recording / scripted generator) vs extracted Gen.v on the same picks and targets
oracle/search:  every inter-residue bond of every returned molecule is explained by two compatible, unused
                descriptors of that order sitting on the two bonded atoms (perfect matching per molecule)
"""
import framework as fw
import genrun


def check(rep):
    coq = fw.coq_check("C04", ["SrcBond", "SrcCore", "SrcGen", "SrcAttach"])
    quick = rep.tier == "quick"
    cases, stats = genrun.collect(rep, 140 if quick else 6000, 12 if quick else 300, max_leaves=150 if quick else 2000,
                                  budget_s=120 if quick else 1500)
    mols = 0
    distinct = set()
    for c in cases:
        if c.run.gen is None:
            continue
        mols += 1
        v = genrun.View(c.run)
        for b in genrun.oracle_c04(v):
            rep.fail("oracle", b, c.ident(), expected="bond explained by two compatible unused descriptors of its order", observed=b)
        if len(v.nodes) > 1:
            distinct.add((c.text, tuple(c.run.picks), tuple(c.run.targets)))
    rep.coverage.update({"evaluations": len(cases), "molecules_checked": mols, "distinct_nontrivial": len(distinct),
                         "rule": "documented strings x 2 seeds + structured generator (9 archetypes) in random mode + all choice sequences of bounded "
                                 "instances (scripted generator); distinct_nontrivial = distinct (string, picks, targets) whose molecule has >= 2 residues",
                         "traces_validated_against_model": sum(1 for c in cases if not c.near), **stats,
                         "samples": [c.ident() for c in cases[:2] + cases[-1:]]})
    rep.assumptions = ["RDKit appends the atoms of a fragment in order on CombineMols (cross-checked by the C05 oracle)",
                       "numpy Generator subclass records/scripts every rng.choice call"]
    return fw.finish(rep, coq, fw.COMMON_TRUSTED + ["modelled, not verified: mol_gen.py:88-184, stochastic.py:164-308, token.py:244-255, molecule.py:147-152, core.py:94-122 "
                                                    "(Model/Gen.v, Model/Select.v), tied by trace validation on every run"],
                     "make -C coq Props/C04.vo (coqc 8.16.1, full .vo build) + Print Assumptions audit")


def replay(case):
    return genrun.replay(case, lambda v, run: genrun.oracle_c04(v))
