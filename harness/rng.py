"""Recording / scripting random generator -- no source hooks needed.

A Python subclass of numpy.random.Generator is accepted by numpy, by scipy's check_random_state
and by the library.  In 'record' mode it behaves like PCG64(seed) and logs every choice; in
'script' mode choice() returns the candidate at the scripted position of the candidate list
(the pick convention of coq/Model/Gen.v)."""
import copy

import numpy as np


class NeedPick(Exception):
    def __init__(self, n, p=None):
        self.n = n
        self.p = p


class RecRNG(np.random.Generator):
    def __new__(cls, seed=0, script=None, fallback=False):
        return super().__new__(cls, np.random.PCG64(seed))

    def __init__(self, seed=0, script=None, fallback=False):
        super().__init__(np.random.PCG64(seed))
        self.log = []
        self.script = None if script is None else list(script)
        self.fallback = fallback  # when the script is exhausted: continue with the PRNG instead of raising

    def __deepcopy__(self, memo):
        # graph_generate deep-copies its owner (and with it the generator); the copy is never drawn from
        c = RecRNG.__new__(RecRNG)
        np.random.Generator.__init__(c, copy.deepcopy(self.bit_generator))
        c.log = []
        c.script = None
        c.fallback = False
        return c

    def choice(self, a, size=None, replace=True, p=None, axis=0, shuffle=True):
        if isinstance(a, (int, np.integer)):
            cands = list(range(a))
        else:
            # the library draws positions; if a caller hands in something else (floats, ...) keep it as it is: the value drawn is then one of
            # these, and the logged position is the FIRST candidate equal to it (numpy itself draws a position)
            cands = [int(x) if float(x).is_integer() and not isinstance(x, (float, np.floating)) else x for x in a]
        pl = None if p is None else [float(x) for x in p]
        if self.script is not None and (self.script or not self.fallback):
            # validate like numpy does, so that error behaviour is the implementation's
            if len(cands) == 0:
                raise ValueError("a cannot be empty unless no samples are taken")
            if pl is not None:
                if len(pl) != len(cands):
                    raise ValueError("a and p must have same size")
                if any(np.isnan(x) for x in pl):
                    raise ValueError("probabilities contain NaN")
                if any(x < 0 for x in pl):
                    raise ValueError("probabilities are not non-negative")
                if abs(sum(pl) - 1.0) > 1e-8:
                    raise ValueError("probabilities do not sum to 1")
            if not self.script:
                raise NeedPick(len(cands), pl)
            k = self.script.pop(0)
            r = cands[k]
        else:
            # draw the POSITION with the generator's own stream (numpy's choice(a, p=p) is a[choice(len(a), p=p)])
            k = int(super().choice(len(cands), size=size, replace=replace, p=p, axis=axis, shuffle=shuffle))
            r = cands[k]
        self.log.append((cands, pl, k))
        return r
