"""Fail-closed translator for system.py:_estimate_system_molecular_weight and the two linked setters of mixture.py.

The function is imperative (accumulators, in-place updates of the components), so it is tied in two parts:
  * its SKELETON -- every statement, in order, with the decision expressions and messages cut out -- must be exactly the
    skeleton Model/Sys.v was written against (compared as an ast dump; anything else raises Unsupported);
  * every DECISION expression (what is counted, when the remainder is filled in, what is rejected, when two estimates
    disagree, the guards of the setters) is translated to Gallina over the record of Model/Sys.v; Proofs/SysSrcP.v proves
    each equal to the condition the hand model uses.
So a change of a comparison, a constant, an `is not None` into a truth test, a dropped conjunct ... regenerates a different
predicate and the tie lemma no longer holds; a change of the statement structure is refused.
"""
import ast
from fractions import Fraction


class Unsupported(Exception):
    pass


CMPQ = {ast.Lt: "Qlt_bool {a} {b}", ast.Gt: "Qlt_bool {b} {a}", ast.LtE: "Qle_bool {a} {b}", ast.GtE: "Qle_bool {b} {a}", ast.Eq: "Qeq_bool {a} {b}",
        ast.NotEq: "negb (Qeq_bool {a} {b})"}
CMPZ = {ast.Lt: "Z.ltb {a} {b}", ast.Gt: "Z.ltb {b} {a}", ast.LtE: "Z.leb {a} {b}", ast.GtE: "Z.leb {b} {a}", ast.Eq: "Z.eqb {a} {b}", ast.NotEq: "negb (Z.eqb {a} {b})"}


def coq_lit(t):
    if '"' in t or "\n" in t:
        raise Unsupported("string constant with quote/newline")
    return "[]" if t == "" else f'(lit "{t}")'


def coq_ch(t):
    if len(t) != 1 or t == '"':
        raise Unsupported("character constant")
    return f'(ch "{t}")'


def qconst(v):
    if isinstance(v, bool) or not isinstance(v, (int, float)):
        raise Unsupported(f"constant {v!r}")
    f = Fraction(repr(v)) if isinstance(v, float) else Fraction(v)
    if f.denominator == 1:
        return f"({f.numerator})" if f.numerator < 0 else f"{f.numerator}"
    return f"({f.numerator} # {f.denominator})"


class Env:
    """names of the Python scope -> (Coq term, type); types: Q, Z (counts), optQ, mix, optmix"""

    def __init__(self, names, attrs, exprs=None):
        self.names = names
        self.attrs = attrs          # dotted attribute path -> (term, type)
        self.exprs = exprs or {}    # exact source text of a sub-expression -> (term, type): library calls with a fixed meaning

    def path(self, e):
        parts = []
        while isinstance(e, ast.Attribute):
            parts.append(e.attr)
            e = e.value
        if isinstance(e, ast.Name):
            parts.append(e.id)
            return ".".join(reversed(parts))
        return None

    def term(self, e):
        """(coq, type)"""
        if ast.unparse(e) in self.exprs:
            return self.exprs[ast.unparse(e)]
        if isinstance(e, ast.Constant) and isinstance(e.value, str):
            return (coq_lit(e.value), "str")
        if isinstance(e, ast.JoinedStr):
            parts = []
            for v in e.values:
                if isinstance(v, ast.Constant) and isinstance(v.value, str):
                    parts.append(coq_lit(v.value))
                elif isinstance(v, ast.FormattedValue) and v.conversion == -1 and v.format_spec is None:
                    key = "{" + ast.unparse(v.value) + "}"
                    if key not in self.exprs:
                        raise Unsupported("formatted value " + key)
                    parts.append(self.exprs[key][0])
                else:
                    raise Unsupported("f-string part")
            return ("(" + " ++ ".join(parts) + ")%list" if parts else "[]", "str")
        if isinstance(e, ast.UnaryOp) and isinstance(e.op, ast.USub) and isinstance(e.operand, ast.Constant) and isinstance(e.operand.value, int):
            return (f"(-{e.operand.value})", "lit")
        if isinstance(e, ast.Call) and isinstance(e.func, ast.Attribute) and not e.keywords:
            recv = None
            try:
                recv = self.term(e.func.value)
            except Unsupported:
                recv = None
            if recv is not None and recv[1] == "str":
                x, m, a = recv[0], e.func.attr, e.args
                if m in ("find", "rfind") and len(a) == 1 and isinstance(a[0], ast.Constant) and isinstance(a[0].value, str):
                    return (f"({m} {coq_lit(a[0].value)} {x})", "Z")
                if m == "find" and len(a) == 2 and isinstance(a[0], ast.Constant) and isinstance(a[0].value, str):
                    t, ty = self.term(a[1])
                    if ty in ("Z", "lit"):
                        return (f"(find_at {coq_lit(a[0].value)} {x} {t})", "Z")
                if m in ("find", "rfind") and len(a) == 1 and isinstance(a[0], ast.Name):
                    t, ty = self.term(a[0])
                    if ty == "str":
                        return (f"({m} {t} {x})", "Z")
                if m == "count" and len(a) == 1 and isinstance(a[0], ast.Constant) and isinstance(a[0].value, str) and len(a[0].value) == 1:
                    return (f"(count_char {coq_ch(a[0].value)} {x})", "Z")
                if m == "strip" and len(a) == 0:
                    return (f"(strip {x})", "str")
                if m == "strip" and len(a) == 1 and isinstance(a[0], ast.Constant) and isinstance(a[0].value, str):
                    return (f"(strip_chars {coq_lit(a[0].value)} {x})", "str")
                raise Unsupported("string method " + m)
        if isinstance(e, ast.Subscript) and isinstance(e.slice, ast.Slice) and e.slice.step is None:
            x, tx = self.term(e.value)
            if tx != "str":
                raise Unsupported("slice of a non-string")
            def bound(b):
                if b is None:
                    return "None"
                t, ty = self.term(b)
                if ty not in ("Z", "lit"):
                    raise Unsupported("slice bound type " + ty)
                return f"(Some {t}%Z)" if ty == "lit" else f"(Some {t})"
            return (f"(slice {x} {bound(e.slice.lower)} {bound(e.slice.upper)})", "str")
        if isinstance(e, ast.Call) and isinstance(e.func, ast.Name) and e.func.id == "len" and len(e.args) == 1 and not e.keywords:
            try:
                x, tx = self.term(e.args[0])
            except Unsupported:
                x, tx = None, None
            if tx == "str":
                return (f"(len {x})", "Z")
        if isinstance(e, ast.Constant):
            if e.value is None:
                return ("None", "none")
            if isinstance(e.value, bool):
                return ("true" if e.value else "false", "bool")
            if isinstance(e.value, int) and not isinstance(e.value, bool):
                return (str(e.value), "lit")
            return (qconst(e.value), "Q")
        p = self.path(e)
        if p is not None:
            if p in self.attrs:
                return self.attrs[p]
            if p in self.names:
                return self.names[p]
            raise Unsupported("name " + p)
        if isinstance(e, ast.Call) and isinstance(e.func, ast.Name) and e.func.id == "len" and len(e.args) == 1 and not e.keywords:
            q = self.path(e.args[0])
            if q is not None and ("len(" + q + ")") in self.names:
                return self.names["len(" + q + ")"]
            raise Unsupported("len of " + ast.dump(e.args[0]))
        if isinstance(e, ast.Call) and isinstance(e.func, ast.Name) and e.func.id == "abs" and len(e.args) == 1 and not e.keywords:
            t, ty = self.term(e.args[0])
            if ty != "Q":
                raise Unsupported("abs of a non-number")
            return (f"(Qabs {t})", "Q")
        if isinstance(e, ast.Subscript) and isinstance(e.value, ast.Name):
            key = ast.unparse(e)
            if key in self.names:
                return self.names[key]
            raise Unsupported("subscript " + key)
        if isinstance(e, ast.BinOp) and type(e.op) in (ast.Add, ast.Sub, ast.Mult, ast.Div):
            (a, ta), (b, tb) = self.term(e.left), self.term(e.right)
            if ta == "str" and tb == "str" and type(e.op) is ast.Add:
                return (f"({a} ++ {b})%list", "str")
            op = {ast.Add: "+", ast.Sub: "-", ast.Mult: "*", ast.Div: "/"}[type(e.op)]
            if "Z" in (ta, tb):
                if type(e.op) is ast.Div or not {ta, tb} <= {"Z", "lit"}:
                    raise Unsupported("arithmetic mixing counts and numbers")
                return (f"({a} {op} {b})%Z", "Z")
            if {ta, tb} <= {"Q", "lit"}:
                return (f"({a} {op} {b})", "Q")
            raise Unsupported(f"arithmetic on {ta}/{tb}")
        raise Unsupported("term " + ast.dump(e)[:120])

    def truth(self, e):
        """Python truth value of an expression as a Coq bool"""
        if ast.unparse(e) in self.exprs and self.exprs[ast.unparse(e)][1] == "bool":
            return self.exprs[ast.unparse(e)][0]
        if isinstance(e, ast.BoolOp):
            op = " && " if isinstance(e.op, ast.And) else " || "
            return "(" + op.join(self.truth(v) for v in e.values) + ")"
        if isinstance(e, ast.UnaryOp) and isinstance(e.op, ast.Not):
            return f"(negb {self.truth(e.operand)})"
        if isinstance(e, ast.Compare) and len(e.ops) == 1:
            o = type(e.ops[0])
            def opt(x):
                try:
                    return self.term(x)
                except Unsupported:
                    if o in (ast.In, ast.NotIn):
                        return ("", "?")
                    raise
            (a, ta), (b, tb) = opt(e.left), opt(e.comparators[0])
            if o in (ast.In, ast.NotIn):
                lft, rgt = e.left, e.comparators[0]
                if isinstance(lft, ast.Constant) and isinstance(lft.value, str) and tb == "str":
                    t = f"(contains {coq_lit(lft.value)} {b})"
                elif ta == "str" and tb == "str" and isinstance(lft, ast.Name):
                    t = f"(contains {a} {b})"
                elif ta == "str" and tb == "strlist":
                    t = f"(existsb (str_eqb {a}) {b})"
                elif ta == "char" and isinstance(rgt, ast.Constant) and isinstance(rgt.value, str):
                    t = f"(in_set {coq_lit(rgt.value)} {a})"
                elif ta == "char" and tb == "charset":
                    t = f"(in_set {b} {a})"
                elif ta == "char" and isinstance(rgt, ast.Tuple) and all(isinstance(x, ast.Constant) and isinstance(x.value, str) and len(x.value) == 1 for x in rgt.elts):
                    t = f"(in_set {coq_lit(''.join(x.value for x in rgt.elts))} {a})"
                else:
                    raise Unsupported("membership test " + ast.unparse(e)[:80])
                return t if o is ast.In else f"(negb {t})"
            if ta == "char" and isinstance(e.comparators[0], ast.Constant) and isinstance(e.comparators[0].value, str) and len(e.comparators[0].value) == 1 and o in (ast.Eq, ast.NotEq):
                t = f"(Ascii.eqb {a} {coq_ch(e.comparators[0].value)})"
                return t if o is ast.Eq else f"(negb {t})"
            if ta == "str" and tb == "str" and o in (ast.Eq, ast.NotEq):
                t = f"(str_eqb {a} {b})"
                return t if o is ast.Eq else f"(negb {t})"
            if o in (ast.Is, ast.IsNot):
                if tb != "none" or not ta.startswith("opt"):
                    raise Unsupported("identity test other than with None")
                t = f"(match {a} with Some _ => false | None => true end)"
                return t if o is ast.Is else f"(negb {t})"
            if ta == "num" and tb == "Q" and o in (ast.Eq, ast.NotEq):
                t = f"(num_eqb {a} (Fin {b}))"
                return t if o is ast.Eq else f"(negb {t})"
            if ta == "num" and tb == "lit" and o is ast.Lt and b == "0":
                return f"(num_lt0 {a})"       # Python float comparison on a parsed number (Model/Mol.v: nan compares false)
            if ta == "num" and tb == "lit" and o is ast.Gt:
                return f"(num_gt {a} ({b})%Q)"
            if "Z" in (ta, tb) and {ta, tb} <= {"Z", "lit"} and o in CMPZ:
                return "(" + CMPZ[o].format(a=a, b=b) + ")%Z"
            if {ta, tb} <= {"Q", "lit"} and "Q" in (ta, tb) and o in CMPQ:
                return "(" + CMPQ[o].format(a=a, b=b) + ")"
            raise Unsupported(f"comparison of {ta} with {tb}")
        if isinstance(e, ast.Compare) and ast.unparse(e) in self.exprs:
            return self.exprs[ast.unparse(e)][0]
        t, ty = self.term(e)
        if ty == "bool":
            return t
        if ty == "Q":
            return f"(truthy {t})"
        if ty == "optQ":
            return f"(otruthy {t})"
        if ty.startswith("opt") and ty != "optQ":   # objects of this library define neither __bool__ nor __len__: truthy iff not None
            return f"(match {t} with Some _ => true | None => false end)"
        raise Unsupported(f"truth value of {ty}")


class Cut(ast.NodeTransformer):
    """replaces the decision expressions (If.test) and all messages by placeholders, records the expressions"""

    def __init__(self, returns=False, values=(), aug=False):
        self.aug = aug
        self.tests = []
        self.returns = returns      # also cut the expressions of `return <expr>` (recorded in self.rets)
        self.rets = []
        self.values = set(values)   # also cut the right-hand sides assigned to these targets (recorded in self.vals)
        self.vals = []

    def visit_Assign(self, node):
        if len(node.targets) == 1 and ast.unparse(node.targets[0]) in self.values and not isinstance(node.value, ast.Constant):
            self.vals.append((ast.unparse(node.targets[0]), node.value))
            return ast.Assign(targets=node.targets, value=ast.Name(id=f"VAL{len(self.vals) - 1}", ctx=ast.Load()), lineno=0)
        return node

    def visit_Return(self, node):
        if self.returns and node.value is not None and not isinstance(node.value, (ast.Name, ast.Constant)):
            self.rets.append(node.value)
            return ast.Return(value=ast.Name(id=f"RET{len(self.rets) - 1}", ctx=ast.Load()))
        return node

    def visit_If(self, node):
        self.tests.append(node.test)
        node = ast.If(test=ast.Name(id=f"TEST{len(self.tests) - 1}", ctx=ast.Load()), body=[self.visit(s) for s in node.body], orelse=[self.visit(s) for s in node.orelse])
        return node

    def visit_While(self, node):
        self.tests.append(node.test)
        return ast.While(test=ast.Name(id=f"TEST{len(self.tests) - 1}", ctx=ast.Load()), body=[self.visit(s) for s in node.body], orelse=[self.visit(s) for s in node.orelse])

    def visit_AugAssign(self, node):
        if self.aug and ast.unparse(node.target) in self.values and isinstance(node.op, ast.Add):
            self.vals.append((ast.unparse(node.target) + " +=", node.value))
            return ast.AugAssign(target=node.target, op=node.op, value=ast.Name(id=f"VAL{len(self.vals) - 1}", ctx=ast.Load()))
        return node

    def visit_Raise(self, node):
        exc = node.exc
        cls = exc.func.id if isinstance(exc, ast.Call) and isinstance(exc.func, ast.Name) else ast.unparse(exc) if exc is not None else ""
        return ast.Raise(exc=ast.Name(id=cls, ctx=ast.Load()), cause=None)

    def visit_Expr(self, node):
        v = node.value
        if isinstance(v, ast.Constant) and isinstance(v.value, str):
            return ast.Pass()
        if isinstance(v, ast.Call) and isinstance(v.func, ast.Name) and v.func.id == "warn":
            return ast.Expr(value=ast.Name(id="warn", ctx=ast.Load()))
        return self.generic_visit(node)


def same_skeleton(got_text, expected_text):
    """compared as syntax trees (the text form of ast.unparse differs between Python versions)"""
    try:
        return ast.dump(ast.parse(got_text)) == ast.dump(ast.parse(expected_text))
    except SyntaxError:
        return False


def skeleton(fn):
    c = Cut()
    body = [c.visit(s) for s in fn.body]
    return "\n".join(ast.unparse(ast.fix_missing_locations(s)) for s in body if not isinstance(s, ast.Pass)), c.tests


# the skeleton Model/Sys.v (estimate, fill_missing, set_all_sys, consistent) was written against
ESTIMATE_SKELETON = '''estimated_weights = []
if TEST0:
    estimated_weights.append(system_molweight)
num_fractions = 0
total_fraction = 0
total_mass = 0
num_mass = 0
for i in range(len(molecules)):
    mol = molecules[i]
    if TEST1:
        if TEST2:
            total_mass += mol.mixture.absolute_mass
            num_mass += 1
        if TEST3:
            total_fraction += mol.mixture.relative_mass
            num_fractions += 1
if TEST4:
    weight = 100.0 - total_fraction
    if TEST5:
        raise RuntimeError
    total_fraction += weight
    num_fractions += 1
    for mol in molecules:
        if TEST6:
            mol.mixture = Mixture(f'.|{weight}%|')
        if TEST7:
            mol.mixture.relative_mass = weight
if TEST8:
    raise RuntimeError
for mol in molecules:
    if TEST9:
        estimated_weights.append(mol.mixture.system_mass)
if TEST10:
    estimated_weights.append(total_mass)
if TEST11:
    for i in range(len(estimated_weights) - 1):
        if TEST12:
            raise RuntimeError
try:
    system_weight = estimated_weights[0]
except IndexError:
    warn
    return False
for mol in molecules:
    if TEST13:
        warn
        return False
    mol.mixture.system_mass = system_weight
return True'''

SET_REL_SKELETON = '''if TEST0:
    raise RuntimeError
self._relative_mass = fraction
if TEST1:
    self.system_mass = self.absolute_mass / (self.relative_mass / 100)'''

SET_SYS_SKELETON = '''if TEST0:
    raise RuntimeError
self._system_mass = mass
if TEST1:
    self._absolute_mass = self._relative_mass / 100.0 * mass
    return
if TEST2:
    self._relative_mass = 100 * self._absolute_mass / mass
    return'''


def _module_fn(mod, name):
    r = [n for n in mod.body if isinstance(n, ast.FunctionDef) and n.name == name]
    if len(r) != 1:
        raise Unsupported(f"function {name} not found exactly once")
    return r[0]


def _setter(mod, cls, prop):
    c = [n for n in mod.body if isinstance(n, ast.ClassDef) and n.name == cls]
    if len(c) != 1:
        raise Unsupported(f"class {cls}")
    r = [n for n in c[0].body if isinstance(n, ast.FunctionDef) and n.name == prop and any(isinstance(d, ast.Attribute) and d.attr == "setter" for d in n.decorator_list)]
    if len(r) != 1:
        raise Unsupported(f"setter {cls}.{prop}")
    return r[0]


def _getter_is_plain(mod, cls, prop, field):
    """@property def prop(self): return self._field"""
    c = [n for n in mod.body if isinstance(n, ast.ClassDef) and n.name == cls][0]
    r = [n for n in c.body if isinstance(n, ast.FunctionDef) and n.name == prop and any(isinstance(d, ast.Name) and d.id == "property" for d in n.decorator_list)]
    if len(r) != 1:
        raise Unsupported(f"getter {cls}.{prop}")
    body = [s for s in r[0].body if not (isinstance(s, ast.Expr) and isinstance(s.value, ast.Constant))]
    if len(body) != 1 or not isinstance(body[0], ast.Return) or ast.unparse(body[0].value) != f"self.{field}":
        raise Unsupported(f"getter {cls}.{prop} is not `return self.{field}`")


def translate_sys(system_py, mixture_py):
    smod = ast.parse(open(system_py).read())
    fn = _module_fn(smod, "_estimate_system_molecular_weight")
    if [a.arg for a in fn.args.args] != ["molecules", "system_molweight"] or fn.args.defaults or fn.args.kwonlyargs or fn.args.vararg or fn.args.kwarg:
        raise Unsupported("signature of _estimate_system_molecular_weight")
    sk, tests = skeleton(fn)
    if not same_skeleton(sk, ESTIMATE_SKELETON):
        import difflib
        d = [l for l in difflib.unified_diff(ESTIMATE_SKELETON.split("\n"), sk.split("\n"), lineterm="", n=0) if not l.startswith(("---", "+++", "@@"))]
        raise Unsupported("statement skeleton of _estimate_system_molecular_weight changed: " + " / ".join(d[:6]))
    if len(tests) != 14:
        raise Unsupported("number of decisions")
    mixattrs = {"mol.mixture": ("c", "optmix"), "mol.mixture.absolute_mass": ("(x_abs m)", "optQ"), "mol.mixture.relative_mass": ("(x_rel m)", "optQ"),
                "mol.mixture.system_mass": ("(x_sys m)", "optQ")}
    counts = {"num_fractions": ("(Z.of_nat nf)", "Z"), "num_mass": ("(Z.of_nat nm)", "Z"), "len(molecules)": ("(Z.of_nat n)", "Z"), "len(estimated_weights)": ("(Z.of_nat ne)", "Z"),
              "total_fraction": ("totf", "Q"), "weight": ("w", "Q"), "system_molweight": ("s", "Q"),
              "estimated_weights[i]": ("a", "Q"), "estimated_weights[i + 1]": ("b", "Q")}
    env = Env(counts, mixattrs)
    T = [None] * 14
    # inside `if mol.mixture is not None:` / after the None case was handled, m is the mixture
    T[0] = env.truth(tests[0])                      # caller-supplied mass counted
    T[1] = env.truth(tests[1])                      # component has a mixture
    T[2] = env.truth(tests[2])
    T[3] = env.truth(tests[3])
    T[4] = env.truth(tests[4])
    T[5] = env.truth(tests[5])
    T[6] = env.truth(tests[6])
    T[7] = env.truth(tests[7])
    T[8] = env.truth(tests[8])
    T[9] = env.truth(tests[9])
    T[10] = env.truth(tests[10])
    T[11] = env.truth(tests[11])
    T[12] = env.truth(tests[12])
    T[13] = env.truth(tests[13])
    # the remainder: weight = 100.0 - total_fraction (part of the skeleton text above; its constant is read here)
    mmod = ast.parse(open(mixture_py).read())
    for prop, field in (("absolute_mass", "_absolute_mass"), ("relative_mass", "_relative_mass"), ("system_mass", "_system_mass")):
        _getter_is_plain(mmod, "Mixture", prop, field)
    rel = _setter(mmod, "Mixture", "relative_mass")
    sysm = _setter(mmod, "Mixture", "system_mass")
    if [a.arg for a in rel.args.args] != ["self", "fraction"] or [a.arg for a in sysm.args.args] != ["self", "mass"]:
        raise Unsupported("setter signatures")
    skr, tr = skeleton(rel)
    sks, ts = skeleton(sysm)
    if not same_skeleton(skr, SET_REL_SKELETON):
        raise Unsupported("statement skeleton of Mixture.relative_mass.setter changed: " + skr.replace("\n", " / ")[:300])
    if not same_skeleton(sks, SET_SYS_SKELETON):
        raise Unsupported("statement skeleton of Mixture.system_mass.setter changed: " + sks.replace("\n", " / ")[:300])
    selfattrs = {"self.absolute_mass": ("(x_abs m)", "optQ"), "self.relative_mass": ("(x_rel m)", "optQ"), "self.system_mass": ("(x_sys m)", "optQ"),
                 "self._absolute_mass": ("(x_abs m)", "optQ"), "self._relative_mass": ("(x_rel m)", "optQ"), "self._system_mass": ("(x_sys m)", "optQ")}
    envm = Env({"fraction": ("f", "Q"), "mass": ("mass", "Q")}, selfattrs)
    R = [envm.truth(t) for t in tr]
    S = [envm.truth(t) for t in ts]
    out = [
        "(* generated by harness/translate_sys.py from system.py (_estimate_system_molecular_weight) and mixture.py (setters) -- do not edit *)",
        "From Coq Require Import List ZArith QArith Qabs Bool.",
        "From GBS Require Import Model.PyStr Model.Num Model.Bond Model.Sys.",
        "Open Scope Q_scope.",
        "(* the statement skeleton of the three functions is the one Model/Sys.v was written against (checked by the translator); below are",
        "   their decision expressions, in source order *)",
        f"Definition smw_counted (s : Q) : bool := {T[0]}.",
        f"Definition has_mixture (c : comp) : bool := {T[1]}.",
        f"Definition abs_counted (m : mix) : bool := {T[2]}.",
        f"Definition rel_counted (m : mix) : bool := {T[3]}.",
        f"Definition fill_cond (nf n : nat) : bool := {T[4]}.",
        f"Definition weight_bad (w : Q) : bool := {T[5]}.",
        f"Definition fill_new (c : comp) : bool := {T[6]}.",
        f"Definition fill_rel (m : mix) : bool := {T[7]}.",
        f"Definition total_bad (nf n : nat) (totf : Q) : bool := {T[8]}.",
        f"Definition sys_counted (c : comp) (m : mix) : bool := {T[9]}.",
        f"Definition mass_cond (nm n : nat) : bool := {T[10]}.",
        f"Definition several (ne : nat) : bool := {T[11]}.",
        f"Definition disagree (a b : Q) : bool := {T[12]}.",
        f"Definition missing (c : comp) : bool := {T[13]}.",
        "(* Mixture.relative_mass setter: rejected fraction; derive the system mass *)",
        f"Definition rel_rejected (f : Q) : bool := {R[0]}.",
        f"Definition rel_derives (m : mix) : bool := {R[1]}.",
        "(* Mixture.system_mass setter: rejected mass; absolute from relative; relative from absolute *)",
        f"Definition sys_rejected (mass : Q) : bool := {S[0]}.",
        f"Definition sys_abs_from_rel (m : mix) : bool := {S[1]}.",
        f"Definition sys_rel_from_abs (m : mix) : bool := {S[2]}.",
    ]
    return "\n".join(out) + "\n"


GENERABLE_SKELETON = '''if TEST0:
    return False
for mol in self._molecules:
    if TEST1:
        return False
return True'''

SYSTEM_MASS_SKELETON = '''if TEST0:
    raise ValueError
if TEST1:
    raise ValueError
system_mass = self._molecules[0].mixture.system_mass
for mol in self._molecules:
    if TEST2:
        raise RuntimeError
return system_mass'''

GENERATOR_SKELETON = '''if TEST0:
    raise RuntimeError
relative_fractions = [mol.mixture.relative_mass for mol in self._molecules]
generated_total_mass = 0
while TEST1:
    mol_idx = rng.choice(range(len(relative_fractions)), p=relative_fractions / np.sum(relative_fractions))
    mol = self._molecules[mol_idx]
    mol_gen = mol.generate(rng=rng)
    generated_total_mass += mol_gen.weight
    if TEST2:
        raise RuntimeError
    yield mol_gen'''

GENERATE_SKELETON = '''if TEST0:
    raise RuntimeError
relative_fractions = [mol.mixture.relative_mass for mol in self._molecules]
mol_idx = rng.choice(range(len(relative_fractions)), p=relative_fractions / np.sum(relative_fractions))
mol = self._molecules[mol_idx]
if TEST1:
    raise RuntimeError
mol_gen = mol.generate(rng=rng)
if TEST2:
    raise RuntimeError
return mol_gen'''


def _method(cls, name, deco):
    r = [n for n in cls.body if isinstance(n, ast.FunctionDef) and n.name == name and [ast.unparse(d) for d in n.decorator_list] == deco]
    if len(r) != 1:
        raise Unsupported(f"method System.{name} with decorators {deco}")
    return r[0]


def translate_sysgen(system_py):
    """System.generable / system_mass / generator / generate: checked skeletons + decision expressions -> Src/SrcSysGen.v"""
    smod = ast.parse(open(system_py).read())
    c = [n for n in smod.body if isinstance(n, ast.ClassDef) and n.name == "System"]
    if len(c) != 1:
        raise Unsupported("class System")
    cls = c[0]
    want = [("generable", ["property"], ["self"], [], GENERABLE_SKELETON, 2), ("system_mass", ["property"], ["self"], [], SYSTEM_MASS_SKELETON, 3),
            ("generator", ["property"], ["self", "rng"], ["_GLOBAL_RNG"], GENERATOR_SKELETON, 3), ("generate", [], ["self", "prefix", "rng"], ["None", "_GLOBAL_RNG"], GENERATE_SKELETON, 3)]
    tests = {}
    for name, deco, args, defaults, skel, nt in want:
        fn = _method(cls, name, deco)
        if [a.arg for a in fn.args.args] != args or [ast.unparse(d) for d in fn.args.defaults] != defaults or fn.args.kwonlyargs or fn.args.vararg or fn.args.kwarg:
            raise Unsupported(f"signature of System.{name}")
        sk, ts = skeleton(fn)
        if not same_skeleton(sk, skel):
            import difflib
            d = [l for l in difflib.unified_diff(skel.split("\n"), sk.split("\n"), lineterm="", n=0) if not l.startswith(("---", "+++", "@@"))]
            raise Unsupported(f"statement skeleton of System.{name} changed: " + " / ".join(d[:6]))
        if len(ts) != nt:
            raise Unsupported(f"number of decisions in System.{name}")
        tests[name] = ts
    env = Env({"len(self._molecules)": ("(Z.of_nat n)", "Z"), "generated_total_mass": ("acc", "Q"), "system_mass": ("s0", "Q")},
              {"self._generable": ("flag", "bool"), "mol.generable": ("g", "bool"), "self.generable": ("generable", "bool"), "mol_gen.fully_generated": ("full", "bool"),
               "self.system_mass": ("S", "Q"), "mol.mixture.system_mass": ("si", "Q")})
    G, M, I, O = (tests[k] for k in ("generable", "system_mass", "generator", "generate"))
    out = [
        "(* generated by harness/translate_sys.py from system.py (System.generable, system_mass, generator, generate) -- do not edit *)",
        "From Coq Require Import List ZArith QArith Qabs Bool.",
        "From GBS Require Import Model.PyStr Model.Num Model.Bond Model.Sys.",
        "Open Scope Q_scope.",
        "(* the statement skeletons of the four methods are the ones Model/SysGen.v was written against (checked by the translator): component picked",
        "   with p = relative masses / their sum, generate, add the mass, require full generation, yield.  Below: their decision expressions *)",
        f"Definition gen_flag_bad (flag : bool) : bool := {env.truth(G[0])}.",
        f"Definition gen_mol_bad (g : bool) : bool := {env.truth(G[1])}.",
        f"Definition mass_refused (generable : bool) : bool := {env.truth(M[0])}.",
        f"Definition mass_empty (n : nat) : bool := {env.truth(M[1])}.",
        f"Definition mass_inconsistent (s0 si : Q) : bool := {env.truth(M[2])}.",
        f"Definition iter_refused (generable : bool) : bool := {env.truth(I[0])}.",
        f"Definition iter_continues (acc S : Q) : bool := {env.truth(I[1])}.",
        f"Definition iter_member_bad (full : bool) : bool := {env.truth(I[2])}.",
        f"Definition single_refused (generable : bool) : bool := {env.truth(O[0])}.",
        f"Definition single_mol_bad (g : bool) : bool := {env.truth(O[1])}.",
        f"Definition single_member_bad (full : bool) : bool := {env.truth(O[2])}.",
    ]
    return "\n".join(out) + "\n"


COMPAT_IDS_SKELETON = '''compatible_idx = []
for (i, other) in enumerate(bond_descriptors):
    if TEST0:
        compatible_idx.append(i)
return np.asarray(compatible_idx, dtype=int)'''

CHOOSE_SKELETON = '''weights = []
compatible_idx = get_compatible_bond_descriptor_ids(bond_descriptors, bond)
for i in compatible_idx:
    weights.append(bond_descriptors[i].weight)
weights = np.asarray(weights)
if TEST0:
    weights += 1
weights /= np.sum(weights)
try:
    idx = rng.choice(compatible_idx, p=weights)
except ValueError as exc:
    warn
    raise exc
return idx'''

BASE_GENERATE_SKELETON = '''if TEST0:
    raise RuntimeError
if TEST1:
    if TEST2:
        raise RuntimeError'''


def _check_fn(fn, args, defaults, skel, nt, what):
    if [a.arg for a in fn.args.args] != args or [ast.unparse(d) for d in fn.args.defaults] != defaults or fn.args.kwonlyargs or fn.args.vararg or fn.args.kwarg:
        raise Unsupported(f"signature of {what}")
    sk, ts = skeleton(fn)
    if not same_skeleton(sk, skel):
        import difflib
        d = [l for l in difflib.unified_diff(skel.split("\n"), sk.split("\n"), lineterm="", n=0) if not l.startswith(("---", "+++", "@@"))]
        raise Unsupported(f"statement skeleton of {what} changed: " + " / ".join(d[:6]))
    if len(ts) != nt:
        raise Unsupported(f"number of decisions in {what}")
    return ts


def translate_core(core_py):
    """core.py: candidate filter, the selection law's +1 rule, the guards of BigSMILESbase.generate -> Src/SrcCore.v"""
    mod = ast.parse(open(core_py).read())
    ids = _check_fn(_module_fn(mod, "get_compatible_bond_descriptor_ids"), ["bond_descriptors", "bond"], [], COMPAT_IDS_SKELETON, 1, "get_compatible_bond_descriptor_ids")
    ch = _check_fn(_module_fn(mod, "choose_compatible_weight"), ["bond_descriptors", "bond", "rng"], [], CHOOSE_SKELETON, 1, "choose_compatible_weight")
    c = [n for n in mod.body if isinstance(n, ast.ClassDef) and n.name == "BigSMILESbase"]
    if len(c) != 1:
        raise Unsupported("class BigSMILESbase")
    bg = _check_fn(_method(c[0], "generate", []), ["self", "prefix", "rng"], ["None", "_GLOBAL_RNG"], BASE_GENERATE_SKELETON, 3, "BigSMILESbase.generate")
    env = Env({"len(compatible_idx)": ("(Z.of_nat (List.length idx))", "Z"), "len(prefix.bond_descriptors)": ("(Z.of_nat nopen)", "Z")},
              {"bond": ("bond", "optdescr"), "self.generable": ("generable", "bool"), "prefix": ("has_prefix", "bool")},
              {"bond is None": ("(match bond with Some _ => false | None => true end)", "bool"),
               "bond.is_compatible(other)": ("(match bond with Some b => is_compatible b other | None => false end)", "bool"),
               # numpy: element-wise equality with the first weight, all of them
               "np.all(weights == weights[0])": ("(match w with [] => true | x :: _ => all_eqb x w end)", "bool")})
    out = [
        "(* generated by harness/translate_sys.py from core.py (get_compatible_bond_descriptor_ids, choose_compatible_weight, BigSMILESbase.generate) -- do not edit *)",
        "From Coq Require Import List ZArith QArith Bool.",
        "From GBS Require Import Model.PyStr Model.Num Model.Bond Model.Select Src.SrcBond.",
        "Import ListNotations. Open Scope Q_scope.",
        "(* is_compatible below is the function regenerated from bond.py (Src/SrcBond.v) *)",
        f"Definition is_candidate (bond : option descr) (other : descr) : bool := {env.truth(ids[0])}.",
        f"Definition bump_cond (idx : list nat) (w : list Q) : bool := {env.truth(ch[0])}.",
        f"Definition base_refused (generable : bool) : bool := {env.truth(bg[0])}.",
        f"Definition base_has_prefix (has_prefix : bool) : bool := {env.truth(bg[1])}.",
        f"Definition base_prefix_bad (nopen : nat) : bool := {env.truth(bg[2])}.",
    ]
    return "\n".join(out) + "\n"


STOCH_GENERATE_SKELETON = '''def get_start():
    my_mol = prefix
    if TEST0:
        if TEST1:
            raise RuntimeError
        try:
            end_bond_idx = choose_compatible_weight(self.end_bonds, None, rng)
        except ValueError as exc:
            warn
            raise exc
        start_token = self.end_tokens[self.end_bond_token_idx[end_bond_idx]]
        if TEST2:
            raise RuntimeError
        my_mol = MolGen(start_token)
    else:
        if TEST3:
            raise RuntimeError
        if TEST4:
            raise RuntimeError
        prefix.bond_descriptors[0].transitions = self.left_terminal.transitions
        prefix.bond_descriptors[0].weight = self.left_terminal.weight
    return my_mol
def generate_repeat_units_and_finalize(my_mol):

    def add_repeat_unit(my_mol):
        starting_bond_idx = choose_compatible_weight(my_mol.bond_descriptors, None, rng)
        starting_bond = my_mol.bond_descriptors[starting_bond_idx]
        if TEST5:
            prob = starting_bond.transitions / starting_bond.weight
            connecting_bond_idx = rng.choice(range(len(prob)), p=prob)
        else:
            connecting_bond_idx = choose_compatible_weight(self.repeat_bonds, starting_bond, rng)
        if TEST6:
            token = self.repeat_tokens[self.repeat_bond_token_idx[connecting_bond_idx]]
            connecting_bond = self.repeat_bonds[connecting_bond_idx]
        else:
            connecting_bond_idx -= len(self.repeat_bonds)
            connecting_bond = self.end_bonds[connecting_bond_idx]
            token = self.end_tokens[self.end_bond_token_idx[connecting_bond_idx]]
        connecting_bond_idx = token.bond_descriptors.index(connecting_bond)
        new_mol = MolGen(token)
        my_mol = my_mol.attach_other(starting_bond_idx, new_mol, connecting_bond_idx)
        return my_mol
    starting_mol_weight = rdDescriptors.HeavyAtomMolWt(my_mol.mol)
    target_mol_weight = self.distribution.draw_mw(rng)
    while TEST7:
        my_mol = add_repeat_unit(my_mol)
        if TEST8:
            warn
            finalized_my_mol = my_mol
            break
        finalized_my_mol = finalize_mol(copy.deepcopy(my_mol))
        if TEST9:
            break
    return finalized_my_mol
def finalize_mol(my_mol):
    terminal_bond = None
    if TEST10:
        invert_text = _create_compatible_bond_text(self.right_terminal)
        invert_terminal = BondDescriptor(invert_text, 0, '', None)
        terminal_bond_idx = choose_compatible_weight(my_mol.bond_descriptors, invert_terminal, rng)
        terminal_bond = my_mol.bond_descriptors[terminal_bond_idx]
        del my_mol.bond_descriptors[terminal_bond_idx]
    while TEST11:
        starting_bond_idx = choose_compatible_weight(my_mol.bond_descriptors, None, rng)
        starting_bond = my_mol.bond_descriptors[starting_bond_idx]
        connecting_bond_idx = choose_compatible_weight(self.end_bonds, starting_bond, rng)
        token = self.end_tokens[self.end_bond_token_idx[connecting_bond_idx]]
        connecting_bond = self.end_bonds[connecting_bond_idx]
        connecting_bond_idx = token.bond_descriptors.index(connecting_bond)
        new_mol = MolGen(token)
        my_mol = my_mol.attach_other(starting_bond_idx, new_mol, connecting_bond_idx)
    if TEST12:
        my_mol.bond_descriptors.append(terminal_bond)
    return my_mol
super().generate(prefix, rng)
my_mol = get_start()
my_mol = generate_repeat_units_and_finalize(my_mol)
return my_mol'''

STOCH_GENERABLE_SKELETON = '''for bond in self.bond_descriptors:
    if TEST0:
        return False
for token in self.repeat_tokens + self.end_tokens:
    if TEST1:
        return False
if TEST2:
    return False
if TEST3:
    return False
return self._generable'''

TOKEN_GENERABLE_SKELETON = '''for bond in self.bond_descriptors:
    if TEST0:
        return False
return True'''

MOLECULE_GENERABLE_SKELETON = '''if TEST0:
    if TEST1:
        return False
for ele in self._elements:
    if TEST2:
        return False
return True'''

MOLECULE_GENERATE_SKELETON = '''my_mol = prefix
for element in self._elements:
    my_mol = element.generate(my_mol, rng)
return my_mol'''

TOKEN_GENERATE_SKELETON = '''super().generate(prefix, rng)
my_mol = MolGen(self)
if TEST0:
    my_idx = choose_compatible_weight(my_mol.bond_descriptors, prefix.bond_descriptors[0], rng)
    my_mol = prefix.attach_other(0, my_mol, my_idx)
return my_mol'''


def _class(mod, name):
    c = [n for n in mod.body if isinstance(n, ast.ClassDef) and n.name == name]
    if len(c) != 1:
        raise Unsupported("class " + name)
    return c[0]


def translate_gen(stochastic_py):
    return _translate_gen_both(stochastic_py, "gen")


def translate_generable(stochastic_py):
    return _translate_gen_both(stochastic_py, "generable")


def _translate_gen_both(stochastic_py, which):
    """Stochastic.generate, SmilesToken.generate, Molecule.generate -> Src/SrcGen.v; the generable chain -> Src/SrcGenerable.v.
    Each half checks only its own skeletons."""
    import os
    d = os.path.dirname(stochastic_py)
    smod = ast.parse(open(stochastic_py).read())
    tmod = ast.parse(open(os.path.join(d, "token.py")).read())
    bmod = ast.parse(open(os.path.join(d, "bond.py")).read())
    mmod = ast.parse(open(os.path.join(d, "molecule.py")).read())
    st = _class(smod, "Stochastic")
    tk = _class(tmod, "SmilesToken")
    ml = _class(mmod, "Molecule")
    env = Env({"len(start_token.bond_descriptors)": ("(Z.of_nat ntok)", "Z"), "len(prefix.bond_descriptors)": ("(Z.of_nat nopen)", "Z"),
               "len(my_mol.bond_descriptors)": ("(Z.of_nat nopen)", "Z"), "len(self.repeat_bonds)": ("(Z.of_nat nrep)", "Z"), "connecting_bond_idx": ("(Z.of_nat k)", "Z"),
               "starting_mol_weight": ("start", "Q"), "target_mol_weight": ("T", "Q")},
              {"my_mol": ("prefix", "optmolgen"), "starting_bond.transitions": ("(d_trans sb)", "optlist"), "terminal_bond": ("term", "optobd"),
               "bond.generable": ("gb", "bool"), "token.generable": ("gt", "bool"), "self.distribution": ("dist", "optdist"), "self.distribution.generable": ("gd", "bool"),
               "self.mixture": ("mix", "optmix"), "self.mixture.generable": ("gm", "bool"), "ele.generable": ("ge", "bool"), "prefix": ("prefix", "optmolgen")},
              {"str(self.left_terminal) != '[]'": ("(negb (is_empty_terminal (s_left s)))", "bool"),          # str(d) == "[]" iff d is the empty terminal (Model/Gen.v)
               "str(self.right_terminal) != '[]'": ("(negb (is_empty_terminal (s_right s)))", "bool"),
               "prefix.bond_descriptors[0].generate_string(False)": ("(print_noext a)", "str"),
               "self.left_terminal.generate_string(False)": ("(print_noext (s_left s))", "str"),
               "rdDescriptors.HeavyAtomMolWt(my_mol.mol)": ("mass", "Q")})
    if which == "gen":
        g = _check_fn(_method(st, "generate", []), ["self", "prefix", "rng"], ["None", "_GLOBAL_RNG"], STOCH_GENERATE_SKELETON, 13, "Stochastic.generate")
        tgen = _check_fn(_method(tk, "generate", []), ["self", "prefix", "rng"], ["None", "_GLOBAL_RNG"], TOKEN_GENERATE_SKELETON, 1, "SmilesToken.generate")
        _check_fn(_method(ml, "generate", []), ["self", "prefix", "rng"], ["None", "_GLOBAL_RNG"], MOLECULE_GENERATE_SKELETON, 0, "Molecule.generate")
        return _emit_gen([env.truth(t) for t in g], [env.truth(t) for t in tgen])
    sg = _check_fn(_method(st, "generable", ["property"]), ["self"], [], STOCH_GENERABLE_SKELETON, 4, "Stochastic.generable")
    tg = _check_fn(_method(tk, "generable", ["property"]), ["self"], [], TOKEN_GENERABLE_SKELETON, 1, "SmilesToken.generable")
    mg = _check_fn(_method(ml, "generable", ["property"]), ["self"], [], MOLECULE_GENERABLE_SKELETON, 3, "Molecule.generable")
    bd = _method(_class(bmod, "BondDescriptor"), "generable", ["property"])
    body = [x for x in bd.body if not (isinstance(x, ast.Expr) and isinstance(x.value, ast.Constant))]
    if [a.arg for a in bd.args.args] != ["self"] or len(body) != 1 or not isinstance(body[0], ast.Return):
        raise Unsupported("BondDescriptor.generable is not a single return")
    envb = Env({}, {}, {"self.weight >= 0": ("(num_ge0 (d_weight d))", "bool")})      # Python float comparison: NaN compares false (Model/Num.v)
    bgen = envb.truth(body[0].value)
    return _emit_generable(bgen, [env.truth(t) for t in tg], [env.truth(t) for t in sg], [env.truth(t) for t in mg])


def _emit_gen(T, TGEN):
    out = [
        "(* generated by harness/translate_sys.py from stochastic.py, token.py, molecule.py (generate) -- do not edit *)",
        "From Coq Require Import List ZArith QArith Bool.",
        "From GBS Require Import Model.PyStr Model.Num Model.Bond Model.Select Model.Sys Model.Gen.",
        "Import ListNotations. Open Scope Q_scope.",
        "(* the statement skeletons of these methods are the ones Model/Gen.v was written against (checked by the translator); their decisions: *)",
        f"Definition no_prefix (prefix : option molgen) : bool := {T[0]}.",
        f"Definition left_expects_prefix (s : gstoch) : bool := {T[1]}.",
        f"Definition start_token_bad (ntok : nat) : bool := {T[2]}.",
        f"Definition prefix_open_bad (nopen : nat) : bool := {T[3]}.",
        f"Definition prefix_mismatch (a : descr) (s : gstoch) : bool := {T[4]}.",
        f"Definition has_list (sb : descr) : bool := {T[5]}.",
        f"Definition is_repeat_pick (k nrep : nat) : bool := {T[6]}.",
        f"Definition growth_loops : bool := {T[7]}.",
        f"Definition closed_by_growth (nopen : nat) : bool := {T[8]}.",
        f"Definition mass_exceeded (mass start T : Q) : bool := {T[9]}.",
        f"Definition right_expects_suffix (s : gstoch) : bool := {T[10]}.",
        f"Definition cap_continues (nopen : nat) : bool := {T[11]}.",
        f"Definition reinsert (term : option obd) : bool := {T[12]}.",
        f"Definition token_has_prefix (prefix : option molgen) : bool := {TGEN[0]}.",
    ]
    return "\n".join(out) + "\n"


def _emit_generable(bgen, TG, SG, MG):
    out = [
        "(* generated by harness/translate_sys.py from bond.py, token.py, stochastic.py, molecule.py (generable) -- do not edit *)",
        "From Coq Require Import List ZArith QArith Bool.",
        "From GBS Require Import Model.PyStr Model.Num Model.Bond.",
        "Import ListNotations.",
        "(* generable: descriptor, token, stochastic object, molecule (statement skeletons checked by the translator) *)",
        f"Definition descr_generable_src (d : descr) : bool := {bgen}.",
        f"Definition tok_bond_bad (gb : bool) : bool := {TG[0]}.",
        f"Definition stoch_bond_bad (gb : bool) : bool := {SG[0]}.",
        f"Definition stoch_token_bad (gt : bool) : bool := {SG[1]}.",
        f"Definition stoch_no_dist {{D}} (dist : option D) : bool := {SG[2]}.",
        f"Definition stoch_dist_bad (gd : bool) : bool := {SG[3]}.",
        f"Definition mol_has_mixture {{M}} (mix : option M) : bool := {MG[0]}.",
        f"Definition mol_mixture_bad (gm : bool) : bool := {MG[1]}.",
        f"Definition mol_element_bad (ge : bool) : bool := {MG[2]}.",
    ]
    return "\n".join(out) + "\n"


def skeleton_r(fn):
    c = Cut(returns=True)
    body = [c.visit(s) for s in fn.body]
    return "\n".join(ast.unparse(ast.fix_missing_locations(s)) for s in body if not isinstance(s, ast.Pass)), c.tests, c.rets


PROB_INTERVAL_SKELETON = '''if TEST0:
    return RET0
return RET1'''

PROB_BASE_SKELETON = '''if TEST0:
    raise NotImplementedError
if TEST1:
    return RET0
return RET1'''

PROB_GAUSS_SKELETON = '''if TEST0:
    return 1.0
return RET0'''

PROB_POISSON_SKELETON = '''try:
    return RET0
except AttributeError:
    return RET1'''

DRAW_SKELETON = '''if TEST0:
    rng = _GLOBAL_RNG
return RET0'''

DRAW_BASE_SKELETON = '''if TEST0:
    raise NotImplementedError
if TEST1:
    rng = _GLOBAL_RNG
return RET0'''


def translate_distlaw(distribution_py):
    """distribution.py: the interval rule of prob_mw in every class, the point rule, the arguments handed to scipy by draw_mw,
    the Flory-Schulz mass function and the Schulz-Zimm shape parameter -> Src/SrcDistLaw.v"""
    mod = ast.parse(open(distribution_py).read())
    RA = "isinstance(mw, gbigsmiles.mol_prob.RememberAdd)"
    out = [
        "(* generated by harness/translate_sys.py from distribution.py (prob_mw, draw_mw, flory_schulz_gen._pmf, SchulzZimm.__init__) -- do not edit *)",
        "From Coq Require Import List ZArith QArith Qabs Bool.",
        "From GBS Require Import Model.PyStr Model.Num Model.Bond Model.Sys.",
        "Open Scope Q_scope.",
        "(* cdf / point: the scipy law of the object with the object's own parameters (the keyword arguments are checked to be the object's",
        "   fields, the same on both calls); previous / value: the two ends kept by RememberAdd *)",
    ]

    def method(cname, name):
        r = [n for n in _class(mod, cname).body if isinstance(n, ast.FunctionDef) and n.name == name]
        if len(r) != 1:
            raise Unsupported(f"{cname}.{name}")
        return r[0]

    def shaped(fn, args, defaults, skel, nt, nr, what):
        if [a.arg for a in fn.args.args] != args or [ast.unparse(d) for d in fn.args.defaults] != defaults:
            raise Unsupported("signature of " + what)
        sk, ts, rs = skeleton_r(fn)
        if not same_skeleton(sk, skel) or len(ts) != nt or len(rs) != nr:
            raise Unsupported(f"statement skeleton of {what} changed: " + sk.replace("\n", " / ")[:200])
        return ts, rs

    kw = {"Distribution": "", "FlorySchulz": ", a=self._a", "SchulzZimm": ", z=self._z, Mn=self._Mn", "LogNormal": ", M=self._M, D=self._D"}
    point = {"Distribution": "self._distribution.pdf(mw)", "FlorySchulz": "self._distribution.pmf(int(mw), a=self._a)",
             "SchulzZimm": "self._distribution.pmf(int(mw), z=self._z, Mn=self._Mn)", "LogNormal": "self._distribution.pdf(mw, M=self._M, D=self._D)"}
    for cname, k in kw.items():
        fn = method(cname, "prob_mw")
        if cname == "Distribution":
            ts, rs = shaped(fn, ["self", "mw"], [], PROB_BASE_SKELETON, 2, 2, cname + ".prob_mw")
            if [ast.unparse(t) for t in ts] != ["self._distribution is None", RA]:
                raise Unsupported("decisions of Distribution.prob_mw")
        else:
            ts, rs = shaped(fn, ["self", "mw"], [], PROB_INTERVAL_SKELETON, 1, 2, cname + ".prob_mw")
            if [ast.unparse(t) for t in ts] != [RA]:
                raise Unsupported(f"decision of {cname}.prob_mw")
        env = Env({}, {}, {f"self._distribution.cdf(mw.value{k})": ("(cdf value)", "Q"), f"self._distribution.cdf(mw.previous{k})": ("(cdf previous)", "Q"),
                           point[cname]: ("point", "Q")})
        t0, ty0 = env.term(rs[0])
        t1, ty1 = env.term(rs[1])
        if ty0 != "Q" or ty1 != "Q":
            raise Unsupported("interval rule type")
        out.append(f"Definition interval_{cname} (cdf : Q -> Q) (previous value : Q) : Q := {t0}.")
        out.append(f"Definition point_{cname} (point : Q) : Q := {t1}.")
    # Gauss: the shortcut decision; Poisson: the base rule, with the point mass as fallback
    ts, rs = shaped(method("Gauss", "prob_mw"), ["self", "mw"], [], PROB_GAUSS_SKELETON, 1, 1, "Gauss.prob_mw")
    if ast.unparse(rs[0]) != "super().prob_mw(mw)":
        raise Unsupported("Gauss.prob_mw does not defer to the base rule")
    envg = Env({"mw": ("mw", "Q")}, {"self._sigma": ("sigma", "Q"), "self._mu": ("mu", "Q")})
    out.append(f"Definition gauss_shortcut (mu sigma mw : Q) : bool := {envg.truth(ts[0])}.")
    ts, rs = shaped(method("Poisson", "prob_mw"), ["self", "mw"], [], PROB_POISSON_SKELETON, 0, 2, "Poisson.prob_mw")
    if [ast.unparse(r) for r in rs] != ["super().prob_mw(mw)", "self._distribution.pmf(int(mw))"]:
        raise Unsupported("Poisson.prob_mw")
    # draw_mw: one call of rvs with the object's own parameters and the caller's generator
    draws = {"Distribution": ("self._distribution.rvs(random_state=rng)", DRAW_BASE_SKELETON, ["self._distribution is None", "rng is None"]),
             "FlorySchulz": ("self._distribution.rvs(a=self._a, random_state=rng)", DRAW_SKELETON, ["rng is None"]),
             "SchulzZimm": ("self._distribution.rvs(z=self._z, Mn=self._Mn, random_state=rng)", DRAW_SKELETON, ["rng is None"]),
             "LogNormal": ("self._distribution.rvs(M=self._M, D=self._D, random_state=rng)", DRAW_SKELETON, ["rng is None"])}
    for cname, (call, skel, tests) in draws.items():
        ts, rs = shaped(method(cname, "draw_mw"), ["self", "rng"], ["None"], skel, len(tests), 1, cname + ".draw_mw")
        if [ast.unparse(t) for t in ts] != tests or ast.unparse(rs[0]) != call:
            raise Unsupported(f"{cname}.draw_mw does not draw once with the object's parameters and the caller's generator")
    for cname in ("Gauss", "Uniform", "Poisson"):
        if any(isinstance(n, ast.FunctionDef) and n.name == "draw_mw" for n in _class(mod, cname).body):
            raise Unsupported(f"{cname} overrides draw_mw")
    # Flory-Schulz mass function
    gen = [n for n in _class(mod, "FlorySchulz").body if isinstance(n, ast.ClassDef) and n.name == "flory_schulz_gen"]
    if len(gen) != 1:
        raise Unsupported("flory_schulz_gen")
    pmf = [n for n in gen[0].body if isinstance(n, ast.FunctionDef) and n.name == "_pmf"]
    body = [x for x in pmf[0].body if not (isinstance(x, ast.Expr) and isinstance(x.value, ast.Constant))] if len(pmf) == 1 else []
    if len(body) != 1 or not isinstance(body[0], ast.Return) or [a.arg for a in pmf[0].args.args] != ["self", "k", "a"]:
        raise Unsupported("flory_schulz_gen._pmf")
    out.append(f"Definition fs_pmf_src (a : Q) (k : nat) : Q := {_power_expr(body[0].value)}.")
    # Schulz-Zimm shape parameter
    init = method("SchulzZimm", "__init__")
    zs = [n for n in init.body if isinstance(n, ast.Assign) and len(n.targets) == 1 and ast.unparse(n.targets[0]) == "self._z"]
    if len(zs) != 1:
        raise Unsupported("SchulzZimm.__init__: assignment of self._z")
    envz = Env({}, {"self._Mn": ("Mn", "Q"), "self._Mw": ("Mw", "Q")})
    tz, tyz = envz.term(zs[0].value)
    out.append(f"Definition sz_shape (Mw Mn : Q) : Q := {tz}.")
    return "\n".join(out) + "\n"


class Prune(ast.NodeTransformer):
    """drops the statements of attach_other that only place the new atoms in space (not modelled: 3-D alignment): assignments to the
    scratch names below, loops / ifs that become empty, calls on a conformer"""
    SCRATCH = {"self_bond_point", "other_bond_point", "rcm", "rg2", "rg_len", "offset", "old_pos", "new_pos"}

    def _scratch_target(self, t):
        return isinstance(t, ast.Name) and t.id in self.SCRATCH

    def visit_Assign(self, node):
        return None if all(self._scratch_target(t) for t in node.targets) else node

    def visit_AugAssign(self, node):
        return None if self._scratch_target(node.target) else node

    def visit_Expr(self, node):
        return None if "GetConformer" in ast.unparse(node) else node

    def visit_For(self, node):
        body = [x for x in (self.visit(s) for s in node.body) if x is not None]
        if not body:
            return None
        node.body = body
        return node

    def visit_If(self, node):
        body = [x for x in (self.visit(s) for s in node.body) if x is not None]
        orelse = [x for x in (self.visit(s) for s in node.orelse) if x is not None]
        if not body and not orelse:
            return None if set(n.id for n in ast.walk(node.test) if isinstance(n, ast.Name)) <= self.SCRATCH else node
        node.body, node.orelse = body or [ast.Pass()], orelse
        return node


ATTACH_SKELETON = '''if TEST0:
    raise RuntimeError
if TEST1:
    raise RuntimeError
current_atom_number = len(self._mol.GetAtoms())
other_bond_descriptors = copy.deepcopy(other.bond_descriptors)
if TEST2:
    print(self.bond_descriptors)
    raise RuntimeError
self_graph_len = len(self.graph)
for bd in other_bond_descriptors:
    bd.atom_bonding_to += current_atom_number
    bd.node_idx += self_graph_len
new_mol = Chem.CombineMols(self._mol, other._mol)
new_mol = Chem.EditableMol(new_mol)
new_mol.AddBond(self.bond_descriptors[self_bond_idx].atom_bonding_to, other_bond_descriptors[other_bond_idx].atom_bonding_to, self.bond_descriptors[self_bond_idx].bond_type)
self.graph = nx.disjoint_union(self.graph, other.graph)
self.graph.add_edge(self.bond_descriptors[self_bond_idx].node_idx, other_bond_descriptors[other_bond_idx].node_idx, bond_type=self.bond_descriptors[self_bond_idx].bond_type)
del self.bond_descriptors[self_bond_idx]
del other_bond_descriptors[other_bond_idx]
self.bond_descriptors += other_bond_descriptors
self._mol = new_mol.GetMol()
return self'''


def translate_attach(mol_gen_py):
    """mol_gen.py: MolGen.attach_other without the statements that place the atoms in space, fully_generated -> Src/SrcAttach.v"""
    mod = ast.parse(open(mol_gen_py).read())
    cls = _class(mod, "MolGen")
    fn = _method(cls, "attach_other", [])
    if [a.arg for a in fn.args.args] != ["self", "self_bond_idx", "other", "other_bond_idx"] or fn.args.defaults:
        raise Unsupported("signature of MolGen.attach_other")
    fn.body = [x for x in (Prune().visit(s) for s in fn.body) if x is not None]
    sk, ts = skeleton(fn)
    if not same_skeleton(sk, ATTACH_SKELETON) or len(ts) != 3:
        import difflib
        d = [l for l in difflib.unified_diff(ATTACH_SKELETON.split("\n"), sk.split("\n"), lineterm="", n=0) if not l.startswith(("---", "+++", "@@"))]
        raise Unsupported("statement skeleton of MolGen.attach_other (3-D placement left out) changed: " + " / ".join(d[:6]))
    env = Env({"self_bond_idx": ("(Z.of_nat i)", "Z"), "other_bond_idx": ("(Z.of_nat j)", "Z"), "len(self.bond_descriptors)": ("(Z.of_nat nself)", "Z"),
               "len(other.bond_descriptors)": ("(Z.of_nat nother)", "Z")}, {},
              {"other_bond_descriptors[other_bond_idx].is_compatible(self.bond_descriptors[self_bond_idx])": ("(is_compatible b a)", "bool")})
    # the three accessors the properties observe: exactly these RDKit calls on the molecule held
    for name, want in (("mol", "mol = copy.deepcopy(self._mol)\nChem.SanitizeMol(mol)\nreturn mol"), ("smiles", "mol = self.mol\nreturn Chem.MolToSmiles(mol)"),
                       ("weight", "return rdDescriptors.HeavyAtomMolWt(self._mol)")):
        afn = _method(cls, name, ["property"])
        ask, ats = skeleton(afn)
        if [a.arg for a in afn.args.args] != ["self"] or ats or not same_skeleton(ask, want):
            raise Unsupported(f"MolGen.{name} is no longer the plain accessor: " + ask.replace("\n", " / ")[:200])
    fg = _method(cls, "fully_generated", ["property"])
    body = [x for x in fg.body if not (isinstance(x, ast.Expr) and isinstance(x.value, ast.Constant))]
    if len(body) != 1 or not isinstance(body[0], ast.Return):
        raise Unsupported("MolGen.fully_generated")
    out = [
        "(* generated by harness/translate_sys.py from mol_gen.py (MolGen.attach_other, fully_generated; the accessors mol / smiles / weight are",
        "   compared as text: a sanitised copy of the molecule held, its canonical SMILES, its heavy-atom mass) -- do not edit *)",
        "From Coq Require Import List ZArith QArith Bool.",
        "From GBS Require Import Model.PyStr Model.Num Model.Bond Src.SrcBond.",
        "(* a: the descriptor of this molecule that binds, b: the one of the attached fragment; is_compatible is regenerated from bond.py *)",
        f"Definition self_idx_bad (i nself : nat) : bool := {env.truth(ts[0])}.",
        f"Definition other_idx_bad (j nother : nat) : bool := {env.truth(ts[1])}.",
        f"Definition attach_refused (a b : descr) : bool := {env.truth(ts[2])}.",
        f"Definition fully_generated_src (nself : nat) : bool := {env.truth(body[0].value)}.",
    ]
    return "\n".join(out) + "\n"


RGRAPH_SKELETON = '''def validate_graph(graph):
    for node in graph:
        weight = 0
        prob = 0
        term_prob = 0
        trans_prob = 0
        edges = graph.edges(node)
        for edge in edges:
            edge_data = graph.get_edge_data(*edge)
            weight += edge_data.get('weight', 0)
            prob += edge_data.get('prob', 0)
            term_prob += edge_data.get('term_prob', 0)
            trans_prob += edge_data.get('trans_prob', 0)
    if TEST0:
        raise RuntimeError
    if TEST1:
        raise RuntimeError
    if TEST2:
        raise RuntimeError
residues = {}
for element in self._elements:
    if TEST3:
        residues[element] = element
    elif TEST4:
        for res in element.repeat_tokens + element.end_tokens:
            residues[res] = element
    else:
        raise RuntimeError
G = nx.DiGraph(big_smiles=str(self))
bond_descriptors = {}
for res in residues:
    try:
        G.add_node(res, smiles=str(res), distribution=residues[res].distribution)
    except AttributeError:
        G.add_node(res, smiles=str(res))
    for bd in res.bond_descriptors:
        bond_descriptors[bd] = res
        G.add_node(bd, weight=bd.weight)
    for bd in res.bond_descriptors:
        if TEST5:
            G.add_edge(res, bd, atom=bd.atom_bonding_to)
for graph_bd in bond_descriptors:
    element = residues[bond_descriptors[graph_bd]]
    if TEST6:
        prob = graph_bd.transitions / graph_bd.weight
        for i, p in enumerate(prob):
            other_bd = element.bond_descriptors[i]
            if TEST7:
                G.add_edge(graph_bd, other_bd, prob=p)
    elif TEST8:
        repeat_weight = 0
        end_weight = 0
        for element_bd in element.bond_descriptors:
            if TEST9:
                if TEST10:
                    repeat_weight += element_bd.weight
                if TEST11:
                    end_weight += element_bd.weight
        for element_bd in element.bond_descriptors:
            if TEST12:
                if TEST13:
                    G.add_edge(graph_bd, element_bd, prob=element_bd.weight / repeat_weight)
                if TEST14:
                    G.add_edge(graph_bd, element_bd, term_prob=element_bd.weight / end_weight)
for graph_bd in bond_descriptors:
    res = bond_descriptors[graph_bd]
    element_id = -1
    for i, element in enumerate(self._elements):
        if TEST15:
            element_id = i
            break
        if TEST16:
            if TEST17:
                element_id = i
                break
    if TEST18:
        element = self._elements[element_id]
        next_element = self._elements[element_id + 1]
        if TEST19:
            for other_bd in next_element.bond_descriptors:
                if TEST20:
                    G.add_edge(graph_bd, other_bd, trans_prob=1.0)
        if TEST21:
            total_weight = 0
            for other_bd in next_element.bond_descriptors:
                if TEST22:
                    total_weight += other_bd.weight
            if TEST23:
                total_weight = 1
            for other_bd in next_element.bond_descriptors:
                if TEST24:
                    G.add_edge(graph_bd, other_bd, trans_prob=other_bd.weight / total_weight)
        if TEST25:
            for other_bd in next_element.bond_descriptors:
                if TEST26:
                    G.add_edge(graph_bd, other_bd, trans_prob=1.0)
        if TEST27:
            total_weight = 0
            for other_bd in next_element.bond_descriptors:
                if TEST28:
                    total_weight += other_bd.weight
            if TEST29:
                total_weight = 1
            for other_bd in next_element.bond_descriptors:
                if TEST30:
                    G.add_edge(graph_bd, other_bd, trans_prob=other_bd.weight / total_weight)
validate_graph(G)
return G'''

RGRAPH_PINNED = {0: "not (abs(prob - 1) < 1e-06 or abs(prob) < 1e-06)", 1: "not (abs(term_prob - 1) < 1e-06 or abs(term_prob) < 1e-06)",
                 2: "not (abs(trans_prob - 1) < 1e-06 or abs(trans_prob) < 1e-06)", 3: "isinstance(element, SmilesToken)", 4: "isinstance(element, Stochastic)",
                 5: "bd.weight >= 0", 6: "graph_bd.transitions is not None", 8: "isinstance(element, Stochastic)", 15: "res == element",
                 16: "isinstance(element, Stochastic)", 17: "res in element.repeat_tokens + element.end_tokens", 18: "element_id < len(self._elements) - 1",
                 19: "isinstance(element, SmilesToken) and isinstance(next_element, SmilesToken)", 21: "isinstance(element, SmilesToken) and isinstance(next_element, Stochastic)",
                 25: "isinstance(element, Stochastic) and isinstance(next_element, SmilesToken)", 27: "isinstance(element, Stochastic) and isinstance(next_element, Stochastic)"}


def translate_rgraph(molecule_py):
    """molecule.py: Molecule.gen_reaction_graph -> Src/SrcRGraph.v (the weight / compatibility / membership decisions; the type dispatch and
    the validation thresholds are compared as text)"""
    mod = ast.parse(open(molecule_py).read())
    fn = _method(_class(mod, "Molecule"), "gen_reaction_graph", [])
    ts = _check_fn(fn, ["self"], [], RGRAPH_SKELETON, 31, "Molecule.gen_reaction_graph")
    for k, text in RGRAPH_PINNED.items():
        if ast.dump(ts[k]) != ast.dump(ast.parse(text, mode="eval").body):
            raise Unsupported(f"decision {k} of gen_reaction_graph changed: {ast.unparse(ts[k])[:120]}")
    ex = {"graph_bd.is_compatible(element_bd)": ("(is_compatible d o)", "bool"), "graph_bd.is_compatible(other_bd)": ("(is_compatible d o)", "bool"),
          "other_bd.is_compatible(next_element.left_terminal)": ("(is_compatible o left)", "bool"),
          "graph_bd.is_compatible(element.right_terminal)": ("(is_compatible d right)", "bool"),
          # a descriptor belongs to a repeat token iff its position among the element's descriptors is below the number of repeat descriptors (Model/RGraph.v)
          "bond_descriptors[element_bd] in element.repeat_tokens": ("(Nat.ltb k nr)", "bool"), "bond_descriptors[element_bd] in element.end_tokens": ("(negb (Nat.ltb k nr))", "bool"),
          "bond_descriptors[other_bd] in next_element.repeat_tokens": ("(Nat.ltb k nnr)", "bool"), "bond_descriptors[graph_bd] in element.repeat_tokens": ("(Nat.ltb j nr)", "bool")}
    env = Env({"p": ("p", "Q"), "total_weight": ("tot", "Q")}, {"element_bd.weight": ("(wq o)", "Q"), "other_bd.weight": ("(wq o)", "Q")}, ex)
    T = {k: env.truth(ts[k]) for k in range(31) if k not in RGRAPH_PINNED}
    out = [
        "(* generated by harness/translate_sys.py from molecule.py (Molecule.gen_reaction_graph) -- do not edit *)",
        "From Coq Require Import List ZArith QArith Bool Arith.",
        "From GBS Require Import Model.PyStr Model.Num Model.Bond Model.Sys Model.Select Model.Gen Model.RGraph Src.SrcBond.",
        "Open Scope Q_scope.",
        "(* d: the descriptor the edges leave; o: a candidate at position k; nr / nnr: number of repeat descriptors of the element / of the next element;",
        "   j: position of d; left / right: terminals.  is_compatible is the function regenerated from bond.py *)",
        f"Definition list_edge_ok (p : Q) : bool := {T[7]}.",
        f"Definition sum_counts (d o : descr) : bool := {T[9]}.",
        f"Definition sum_repeat (k nr : nat) : bool := {T[10]}.",
        f"Definition sum_end (k nr : nat) : bool := {T[11]}.",
        f"Definition edge_counts (d o : descr) : bool := {T[12]}.",
        f"Definition edge_repeat (k nr : nat) : bool := {T[13]}.",
        f"Definition edge_end (k nr : nat) : bool := {T[14]}.",
        f"Definition tt_edge (d o : descr) : bool := {T[20]}.",
        f"Definition ts_sum (d o left : descr) (k nnr : nat) : bool := {T[22]}.",
        f"Definition ts_floor (tot : Q) : bool := {T[23]}.",
        f"Definition ts_edge (d o left : descr) (k nnr : nat) : bool := {T[24]}.",
        f"Definition st_edge (d o right : descr) (j nr : nat) : bool := {T[26]}.",
        f"Definition ss_sum (d o left right : descr) (k nnr j nr : nat) : bool := {T[28]}.",
        f"Definition ss_floor (tot : Q) : bool := {T[29]}.",
        f"Definition ss_edge (d o left right : descr) (k nnr j nr : nat) : bool := {T[30]}.",
    ]
    return "\n".join(out) + "\n"


def skeleton_v(fn, values, aug=False):
    c = Cut(values=values, aug=aug)
    body = [c.visit(x) for x in fn.body]
    return "\n".join(ast.unparse(ast.fix_missing_locations(x)) for x in body if not isinstance(x, ast.Pass)), c.tests, c.vals


DESCR_SKELETON = '''self._raw_text = VAL0
self.descriptor = ''
self.descriptor_id = ''
self.descriptor_num = int(descr_num)
self.weight = 1.0
self.transitions = None
self.preceding_characters = preceding_characters
self.bond_type = rc.BondType.UNSPECIFIED
self.bond_stereo = rc.BondStereo.STEREOANY
if TEST0:
    return
if TEST1:
    self.preceding_characters = self._raw_text[:self._raw_text.find('[')]
    self._raw_text = VAL1
self.atom_bonding_to = atom_bonding_to
if TEST2:
    self.atom_bonding_to = int(self.atom_bonding_to)
if TEST3:
    raise RuntimeError
if TEST4:
    raise RuntimeError
self.descriptor = self._raw_text[1]
id_end = VAL2
if TEST5:
    id_end = VAL3
id_str = VAL4
if TEST6:
    raise RuntimeError
self.descriptor_id = ''
if TEST7:
    self.descriptor_id = int(id_str.strip())
self.weight = 1.0
self.transitions = None
if TEST8:
    if TEST9:
        raise RuntimeError
    if TEST10:
        raise RuntimeError
    weight_string = VAL5
    weight_string = VAL6
    weight_list = [float(w) for w in weight_string.split()]
    if TEST11:
        raise RuntimeError
    if TEST12:
        self.weight = weight_list[0]
    else:
        self.transitions = np.asarray(weight_list)
        self.weight = self.transitions.sum()
self.preceding_characters = preceding_characters
self.bond_type = rc.BondType.SINGLE
if TEST13:
    self.bond_type = rc.BondType.DOUBLE
if TEST14:
    self.bond_type = rc.BondType.TRIPLE
if TEST15:
    self.bond_type = rc.BondType.QUADRUPLE
if TEST16:
    self.bond_type = rc.BondType.ONEANDAHALF
self.bond_stereo = rc.BondStereo.STEREOANY
if TEST17:
    raise RuntimeError'''

DESCR_PINNED_TESTS = {2: "self.atom_bonding_to is not None", 13: "'=' in self.preceding_characters", 14: "'#' in self.preceding_characters",
                      15: "'$' in self.preceding_characters", 16: "':' in self.preceding_characters"}


def translate_descr(bond_py):
    """bond.py: BondDescriptor.__init__ -> Src/SrcDescr.v (every string expression and decision of the descriptor parser; the bond-order
    chain is translated separately into Src/SrcBond.v)"""
    mod = ast.parse(open(bond_py).read())
    fn = _method(_class(mod, "BondDescriptor"), "__init__", [])
    if [a.arg for a in fn.args.args] != ["self", "big_smiles_ext", "descr_num", "preceding_characters", "atom_bonding_to"] or fn.args.defaults:
        raise Unsupported("signature of BondDescriptor.__init__")
    sk, ts, vs = skeleton_v(fn, {"self._raw_text", "id_end", "id_str", "weight_string"})
    if not same_skeleton(sk, DESCR_SKELETON) or len(ts) != 18 or len(vs) != 7:
        import difflib
        d = [l for l in difflib.unified_diff(DESCR_SKELETON.split("\n"), sk.split("\n"), lineterm="", n=0) if not l.startswith(("---", "+++", "@@"))]
        raise Unsupported("statement skeleton of BondDescriptor.__init__ changed: " + " / ".join(d[:6]))
    for k, text in DESCR_PINNED_TESTS.items():
        if ast.dump(ts[k]) != ast.dump(ast.parse(text, mode="eval").body):
            raise Unsupported(f"decision {k} of BondDescriptor.__init__ changed: {ast.unparse(ts[k])[:100]}")
    if ast.unparse(vs[0][1]) != "big_smiles_ext" or ast.dump(ts[5]) != ast.dump(ts[8]):
        raise Unsupported("BondDescriptor.__init__: raw text source / the two bar tests differ")
    env = Env({"len(weight_list)": ("(Z.of_nat nw)", "Z"), "id_end": ("id_end", "Z")},
              {"self._raw_text": ("raw", "str"), "preceding_characters": ("pre", "str"), "self.preceding_characters": ("pre", "str"), "id_str": ("ids", "str"),
               "weight_string": ("ws", "str")},
              {"self._raw_text[0]": ("c0", "char"), "self._raw_text[-1]": ("cl", "char"), "self._raw_text[1]": ("c1", "char")})
    def val(k, ty):
        t, got = env.term(vs[k][1])
        if got != ty and not (ty == "Z" and got == "lit"):
            raise Unsupported(f"value {k} of BondDescriptor.__init__ has type {got}")
        return f"({t})%Z" if ty == "Z" else t
    T = {k: env.truth(ts[k]) for k in range(18) if k not in DESCR_PINNED_TESTS}
    out = [
        "(* generated by harness/translate_sys.py from bond.py (BondDescriptor.__init__) -- do not edit *)",
        "From Coq Require Import List ZArith Ascii String Bool.",
        "From GBS Require Import Model.PyStr Model.Num Model.Bond.",
        "Open Scope Z_scope.",
        "(* raw: self._raw_text; pre: preceding_characters; c0 / cl / c1: raw[0], raw[-1], raw[1] (IndexError where absent: Model/Bond.v);",
        "   ids: id_str; ws: weight_string; nw: len(weight_list) *)",
        f"Definition d_is_empty (raw : str) : bool := {T[0]}.",
        f"Definition d_no_pre (pre : str) : bool := {T[1]}.",
        f"Definition d_raw_cut (raw : str) : str := {val(1, 'str')}.",
        f"Definition d_brackets_bad (c0 cl : ascii) : bool := {T[3]}.",
        f"Definition d_symbol_bad (c1 : ascii) : bool := {T[4]}.",
        f"Definition d_has_bar (raw : str) : bool := {T[5]}.",
        f"Definition d_id_end_default : Z := {val(2, 'Z')}.",
        f"Definition d_id_end (raw : str) : Z := {val(3, 'Z')}.",
        f"Definition d_id_text (raw : str) (id_end : Z) : str := {val(4, 'str')}.",
        f"Definition d_nested (ids : str) : bool := {T[6]}.",
        f"Definition d_has_id (ids : str) : bool := {T[7]}.",
        f"Definition d_bars_bad (raw : str) : bool := {T[9]}.",
        f"Definition d_tail_bad (raw : str) : bool := {T[10]}.",
        f"Definition d_weight_text (raw : str) : str := {val(5, 'str')}.",
        f"Definition d_weight_strip (ws : str) : str := {val(6, 'str')}.",
        f"Definition d_no_weights (nw : nat) : bool := {T[11]}.",
        f"Definition d_one_weight (nw : nat) : bool := {T[12]}.",
        f"Definition d_stereo (pre : str) : bool := {T[17]}.",
    ]
    return "\n".join(out) + "\n"


TOKEN_SKELETON = '''self.res_id = res_id
bond_id_offset = int(bond_id_offset)
if TEST0:
    raise RuntimeError
self._raw_text = VAL0
if TEST1:
    raise RuntimeError
elements = []
current_string = VAL1
sub_string = ''
total_atom_number = 0
while TEST2:
    if TEST3:
        atom = Atom(current_string[:2])
        total_atom_number += 1
        if TEST4:
            elements.append(sub_string)
            sub_string = ''
        elements.append(atom)
        current_string = VAL2
        continue
    if TEST5:
        atom = Atom(current_string[0])
        total_atom_number += 1
        if TEST6:
            elements.append(sub_string)
            sub_string = ''
        elements.append(atom)
        current_string = VAL3
        continue
    if TEST7:
        if TEST8:
            raise RuntimeError
        token = VAL4
        current_string = VAL5
        if TEST9:
            sub_string += token
        else:
            atom = Atom(token)
            total_atom_number += 1
            if TEST10:
                elements.append(sub_string)
                sub_string = ''
            elements.append(atom)
        continue
    sub_string += current_string[0]
    current_string = VAL6
if TEST11:
    elements.append(sub_string)
atoms = []
atom_to_bond = [-1]
bond_descriptors = []
element_counter = 0
while TEST12:
    element = elements[element_counter]
    if TEST13:
        atoms.append(element)
        atom_to_bond[-1] = len(atoms) - 1
    elif TEST14:
        if TEST15:
            if TEST16:
                raise RuntimeError
            if TEST17:
                raise RuntimeError
            elementA = VAL7
            bond_text = VAL8
            elementB = VAL9
            atom_to_bond = _push_pop_atom_branch(elementA, atom_to_bond)
            if TEST18:
                atom_bonding_to = VAL10
                if TEST19:
                    atom_bonding_to = 0
            else:
                raise RuntimeError
            if TEST20:
                if TEST21:
                    if TEST22:
                        if TEST23:
                            raise RuntimeError
            first_half = elements[:element_counter]
            second_half = elements[element_counter + 1:]
            elements = first_half
            if TEST24:
                elements.append(elementA)
            preceding_characters = VAL11
            if TEST25:
                preceding_characters = VAL12
            if TEST26:
                following_characters = VAL13
                for stop in (')', '['):
                    if TEST27:
                        following_characters = VAL14
                preceding_characters += following_characters
            bond = BondDescriptor(bond_text, len(bond_descriptors) + bond_id_offset, preceding_characters, atom_bonding_to)
            elements.append(bond)
            bond_descriptors.append(bond)
            if TEST28:
                elements.append(elementB)
            elements += second_half
        else:
            atom_to_bond = _push_pop_atom_branch(element, atom_to_bond)
    element_counter += 1
self.elements = elements
self.atoms = atoms
self.bond_descriptors = bond_descriptors'''

PUSHPOP_SKELETON = '''for character in string:
    if TEST0:
        atom_to_bond.append(atom_to_bond[-1])
    if TEST1:
        atom_to_bond.pop(-1)
return atom_to_bond'''

TOKEN_PINNED = {13: "isinstance(element, Atom)", 14: "not isinstance(elements[element_counter], BondDescriptor)"}
TOKEN_VALUES = {"self._raw_text", "token", "current_string", "elementA", "bond_text", "elementB", "preceding_characters", "following_characters", "atom_bonding_to"}


def _module_tuple(mod, name):
    r = [n for n in mod.body if isinstance(n, ast.Assign) and len(n.targets) == 1 and isinstance(n.targets[0], ast.Name) and n.targets[0].id == name]
    if len(r) != 1 or not isinstance(r[0].value, ast.Tuple) or not all(isinstance(x, ast.Constant) and isinstance(x.value, str) for x in r[0].value.elts):
        raise Unsupported("module constant " + name)
    return [x.value for x in r[0].value.elts]


def translate_token(token_py):
    """token.py: SmilesToken.__init__ and _push_pop_atom_branch -> Src/SrcToken.v (every string expression and decision of the token parser)"""
    mod = ast.parse(open(token_py).read())
    dbl = _module_tuple(mod, "_SMILES_DOUBLE_LETTER_ATOM")
    sgl = _module_tuple(mod, "_SMILES_SINGLE_LETTER_ATOM")
    if any(len(x) != 2 for x in dbl) or any(len(x) != 1 for x in sgl):
        raise Unsupported("atom letter tables")
    pp = _check_fn(_module_fn(mod, "_push_pop_atom_branch"), ["string", "atom_to_bond"], [], PUSHPOP_SKELETON, 2, "_push_pop_atom_branch")
    fn = _method(_class(mod, "SmilesToken"), "__init__", [])
    if [a.arg for a in fn.args.args] != ["self", "big_smiles_ext", "bond_id_offset", "res_id"] or fn.args.defaults:
        raise Unsupported("signature of SmilesToken.__init__")
    sk, ts, vs = skeleton_v(fn, TOKEN_VALUES)
    if not same_skeleton(sk, TOKEN_SKELETON) or len(ts) != 29 or len(vs) != 15:
        import difflib
        d = [l for l in difflib.unified_diff(TOKEN_SKELETON.split("\n"), sk.split("\n"), lineterm="", n=0) if not l.startswith(("---", "+++", "@@"))]
        raise Unsupported("statement skeleton of SmilesToken.__init__ changed: " + " / ".join(d[:6]))
    for k, text in TOKEN_PINNED.items():
        if ast.dump(ts[k]) != ast.dump(ast.parse(text, mode="eval").body):
            raise Unsupported(f"decision {k} of SmilesToken.__init__ changed")
    same = lambda i, j: ast.dump(ts[i]) == ast.dump(ts[j])
    if not (same(4, 6) and same(4, 10)) or ast.dump(vs[3][1]) != ast.dump(vs[6][1]):
        raise Unsupported("SmilesToken.__init__: the three flush tests / the two one-character steps differ")
    env = Env({"bond_id_offset": ("off", "Z"), "element_counter": ("(Z.of_nat pos)", "Z"), "len(elements)": ("(Z.of_nat n)", "Z"), "atom_bonding_to": ("top", "Z"),
               "atom_to_bond[-1]": ("top", "Z")},
              {"big_smiles_ext": ("text", "str"), "self._raw_text": ("raw", "str"), "current_string": ("cur", "str"), "sub_string": ("sub", "str"), "token": ("tok", "str"),
               "element": ("el", "str"), "elementA": ("A", "str"), "elementB": ("B", "str"), "preceding_characters": ("pre", "str"),
               "following_characters": ("fol", "str"), "stop": ("stop", "str"), "_SMILES_DOUBLE_LETTER_ATOM": ("double_letters", "strlist"),
               "_SMILES_SINGLE_LETTER_ATOM": ("single_letter_set", "charset"), "character": ("c", "char")},
              {"current_string[0]": ("c", "char")})
    def val(k, ty):
        t, got = env.term(vs[k][1])
        if got != ty:
            raise Unsupported(f"value {k} of SmilesToken.__init__ has type {got}")
        return t
    T = {k: env.truth(ts[k]) for k in range(29) if k not in TOKEN_PINNED}
    P = [env.truth(t) for t in pp]
    out = [
        "(* generated by harness/translate_sys.py from token.py (SmilesToken.__init__, _push_pop_atom_branch, the atom letter tables) -- do not edit *)",
        "From Coq Require Import List ZArith Ascii String Bool.",
        "From GBS Require Import Model.PyStr Model.Num Model.Bond.",
        "Import ListNotations. Open Scope Z_scope.",
        "Definition double_letters : list str := [" + "; ".join(coq_lit(x) for x in dbl) + "].",
        "Definition single_letter_set : str := " + coq_lit("".join(sgl)) + ".",
        "(* text: big_smiles_ext; cur: current_string; c: its first character; sub: sub_string; tok: the bracket group; el / A / B: an element and its",
        "   parts around the descriptor; pos: element_counter; n: len(elements); top: atom_to_bond[-1]; pre / fol / stop: bond characters *)",
        f"Definition tk_offset_bad (off : Z) : bool := {T[0]}.",
        f"Definition tk_raw (text : str) : str := {val(0, 'str')}.",
        f"Definition tk_unbalanced (text : str) : bool := {T[1]}.",
        f"Definition tk_more (cur : str) : bool := {T[2]}.",
        f"Definition tk_double (cur : str) : bool := {T[3]}.",
        f"Definition tk_flush (sub : str) : bool := {T[4]}.",
        f"Definition tk_single (c : ascii) : bool := {T[5]}.",
        f"Definition tk_open (c : ascii) : bool := {T[7]}.",
        f"Definition tk_unclosed (cur : str) : bool := {T[8]}.",
        f"Definition tk_is_descr (tok : str) : bool := {T[9]}.",
        f"Definition tk_flush_last (sub : str) : bool := {T[11]}.",
        f"Definition tk_rest2 (cur : str) : str := {val(2, 'str')}.",
        f"Definition tk_rest1 (cur : str) : str := {val(3, 'str')}.",
        f"Definition tk_group (cur : str) : str := {val(4, 'str')}.",
        f"Definition tk_after_group (cur : str) : str := {val(5, 'str')}.",
        f"Definition tk_in_range (pos n : nat) : bool := {T[12]}.",
        f"Definition tk_el_is_descr (el : str) : bool := {T[15]}.",
        f"Definition tk_no_open (el : str) : bool := {T[16]}.",
        f"Definition tk_no_close (el : str) : bool := {T[17]}.",
        f"Definition tk_A (el : str) : str := {val(7, 'str')}.",
        f"Definition tk_bond_text (el : str) : str := {val(8, 'str')}.",
        f"Definition tk_B (el : str) : str := {val(9, 'str')}.",
        f"Definition tk_dot_free (A : str) : bool := {T[18]}.",
        f"Definition tk_top_negative (top : Z) : bool := {T[19]}.",
        f"Definition tk_not_first (pos : nat) : bool := {T[20]}.",
        f"Definition tk_not_last (pos n : nat) : bool := {T[21]}.",
        f"Definition tk_no_branch_close (B : str) : bool := {T[22]}.",
        f"Definition tk_no_dot_after (B : str) : bool := {T[23]}.",
        f"Definition tk_keep_A (A : str) : bool := {T[24]}.",
        f"Definition tk_pre_has_open (pre : str) : bool := {T[25]}.",
        f"Definition tk_pre_after_open (pre : str) : str := {val(12, 'str')}.",
        f"Definition tk_is_first (pos : nat) : bool := {T[26]}.",
        f"Definition tk_stop_in (stop fol : str) : bool := {T[27]}.",
        f"Definition tk_cut_at (stop fol : str) : str := {val(14, 'str')}.",
        f"Definition tk_keep_B (B : str) : bool := {T[28]}.",
        f"Definition pp_push (c : ascii) : bool := {P[0]}.",
        f"Definition pp_pop (c : ascii) : bool := {P[1]}.",
    ]
    if ast.unparse(vs[1][1]) != "self._raw_text" or ast.unparse(vs[10][1]) != "atom_to_bond[-1]" or ast.unparse(vs[11][1]) != "elementA" or ast.unparse(vs[13][1]) != "elementB":
        raise Unsupported("SmilesToken.__init__: plain copies changed")
    return "\n".join(out) + "\n"


STOCH_INIT_SKELETON = '''self._raw_text = VAL0
self._generable = True
if TEST0:
    raise RuntimeError
if TEST1:
    raise RuntimeError
middle_text = VAL1
if TEST2:
    raise RuntimeError
if TEST3:
    raise RuntimeError
bond_text = VAL2
preceding_characters = VAL3
self.bond_descriptors = []
bond = BondDescriptor(bond_text, len(self.bond_descriptors), preceding_characters, None)
self.left_terminal = bond
i = VAL4
right_bond_text = VAL5
while TEST4:
    i -= 1
right_preceding_char = VAL6
if TEST5:
    repeat_unit_text = VAL7
    end_group_text = VAL8
else:
    repeat_unit_text = VAL9
    end_group_text = ''
self.repeat_tokens = []
self.repeat_bonds = []
self.repeat_bond_token_idx = []
res_id_counter = 0
for ru in repeat_unit_text.split(','):
    ru = VAL10
    if TEST6:
        token = SmilesToken(ru, len(self.bond_descriptors), res_id_prefix + res_id_counter)
        res_id_counter += 1
        self.repeat_tokens.append(token)
        self.bond_descriptors += token.bond_descriptors
        self.repeat_bonds += token.bond_descriptors
        for _ in range(len(token.bond_descriptors)):
            self.repeat_bond_token_idx.append(len(self.repeat_tokens) - 1)
self.end_tokens = []
self.end_bonds = []
self.end_bond_token_idx = []
for eg in end_group_text.split(','):
    eg = VAL11
    if TEST7:
        token = SmilesToken(eg, len(self.bond_descriptors), res_id_prefix + res_id_counter)
        res_id_counter += 1
        self.end_tokens.append(token)
        self.bond_descriptors += token.bond_descriptors
        self.end_bonds += token.bond_descriptors
        for _ in range(len(token.bond_descriptors)):
            self.end_bond_token_idx.append(len(self.end_tokens) - 1)
right_terminal_token = BondDescriptor(right_bond_text, len(self.bond_descriptors), right_preceding_char, None)
self.right_terminal = right_terminal_token
end_text = VAL12
if TEST8:
    distribution_text = VAL13
else:
    distribution_text = VAL14
self.distribution = None
if TEST9:
    self.distribution = get_distribution(distribution_text)
self._validate()'''

STOCH_VALUES = {"self._raw_text", "middle_text", "bond_text", "preceding_characters", "i", "right_bond_text", "right_preceding_char", "repeat_unit_text",
                "end_group_text", "end_text", "distribution_text", "ru", "eg"}


def translate_stochparse(stochastic_py):
    """stochastic.py: Stochastic.__init__ -> Src/SrcStochParse.v (every string expression and decision of the object parser)"""
    mod = ast.parse(open(stochastic_py).read())
    fn = _method(_class(mod, "Stochastic"), "__init__", [])
    if [a.arg for a in fn.args.args] != ["self", "big_smiles_ext", "res_id_prefix"] or fn.args.defaults:
        raise Unsupported("signature of Stochastic.__init__")
    sk, ts, vs = skeleton_v(fn, STOCH_VALUES)
    if not same_skeleton(sk, STOCH_INIT_SKELETON) or len(ts) != 10 or len(vs) != 15:
        import difflib
        d = [l for l in difflib.unified_diff(STOCH_INIT_SKELETON.split("\n"), sk.split("\n"), lineterm="", n=0) if not l.startswith(("---", "+++", "@@"))]
        raise Unsupported("statement skeleton of Stochastic.__init__ changed: " + " / ".join(d[:6]))
    # middle_text[<position>] == '}' : the position is translated on its own
    t2 = ts[2]
    if not (isinstance(t2, ast.Compare) and len(t2.ops) == 1 and isinstance(t2.left, ast.Subscript) and ast.unparse(t2.left.value) == "middle_text"):
        raise Unsupported("the empty-object probe of Stochastic.__init__")
    env = Env({"i": ("i", "Z")},
              {"big_smiles_ext": ("text", "str"), "self._raw_text": ("raw", "str"), "middle_text": ("middle", "str"), "end_text": ("tail", "str"),
               "distribution_text": ("dt", "str"), "ru": ("p", "str"), "eg": ("p", "str")},
              {"self._raw_text[0]": ("c0", "char"), "middle_text[i]": ("c", "char"), ast.unparse(t2.left): ("c1", "char")})
    probe_pos, pty = env.term(t2.left.slice)
    if pty != "Z":
        raise Unsupported("probe position type")
    if ast.dump(ts[6]).replace("'ru'", "'eg'") != ast.dump(ts[7]) or ast.dump(vs[10][1]).replace("'ru'", "'eg'") != ast.dump(vs[11][1]):
        raise Unsupported("the two token-list loops of Stochastic.__init__ differ")
    def val(k, ty):
        t, got = env.term(vs[k][1])
        if got != ty:
            raise Unsupported(f"value {k} of Stochastic.__init__ has type {got}")
        return t
    T = [env.truth(t) for t in ts]
    out = [
        "(* generated by harness/translate_sys.py from stochastic.py (Stochastic.__init__) -- do not edit *)",
        "From Coq Require Import List ZArith Ascii String Bool.",
        "From GBS Require Import Model.PyStr Model.Num Model.Bond.",
        "Import ListNotations. Open Scope Z_scope.",
        "(* text: big_smiles_ext; raw: self._raw_text; middle: middle_text; c0 / c1 / c: raw[0], the probed character, middle[i]; tail: end_text;",
        "   p: one piece of a token list; dt: distribution_text *)",
        f"Definition st_raw (text : str) : str := {val(0, 'str')}.",
        f"Definition st_not_open (c0 : ascii) : bool := {T[0]}.",
        f"Definition st_no_close (raw : str) : bool := {T[1]}.",
        f"Definition st_middle (raw : str) : str := {val(1, 'str')}.",
        f"Definition st_probe_pos (middle : str) : Z := {probe_pos}.",
        f"Definition st_probe_close (c1 : ascii) : bool := {T[2]}.",
        f"Definition st_left_unterminated (middle : str) : bool := {T[3]}.",
        f"Definition st_left_text (middle : str) : str := {val(2, 'str')}.",
        f"Definition st_left_pre (middle : str) : str := {val(3, 'str')}.",
        f"Definition st_right_start (middle : str) : Z := {val(4, 'Z')}.",
        f"Definition st_right_text (middle : str) (i : Z) : str := {val(5, 'str')}.",
        f"Definition st_back_continues (i : Z) (c : ascii) : bool := {T[4]}.",
        f"Definition st_right_pre (middle : str) (i : Z) : str := {val(6, 'str')}.",
        f"Definition st_has_end (middle : str) : bool := {T[5]}.",
        f"Definition st_rep_text_with_end (middle : str) : str := {val(7, 'str')}.",
        f"Definition st_end_text (middle : str) : str := {val(8, 'str')}.",
        f"Definition st_rep_text_no_end (middle : str) : str := {val(9, 'str')}.",
        f"Definition st_piece (p : str) : str := {val(10, 'str')}.",
        f"Definition st_piece_nonempty (p : str) : bool := {T[6]}.",
        f"Definition st_tail (raw : str) : str := {val(12, 'str')}.",
        f"Definition st_has_mix (tail : str) : bool := {T[8]}.",
        f"Definition st_dist_text_mix (tail : str) : str := {val(13, 'str')}.",
        f"Definition st_dist_text (tail : str) : str := {val(14, 'str')}.",
        f"Definition st_has_dist (dt : str) : bool := {T[9]}.",
    ]
    return "\n".join(out) + "\n"


SYSINIT_SKELETON = '''self._raw_text = VAL0
self._res_id_prefix = 0
self._molecules = []
text = VAL1
res_id_counter = 0
while TEST0:
    end_pos = VAL2
    if TEST1:
        raise RuntimeError
    self._molecules.append(Molecule(text[:end_pos], self._res_id_prefix + res_id_counter))
    res_id_counter += len(self._molecules[-1].residues)
    text = VAL3
if TEST2:
    mol = Molecule(text)
    self._molecules.append(mol)
self._generable = _estimate_system_molecular_weight(self._molecules, system_molweight)'''

def translate_sysparse(system_py):
    """system.py: System.__init__ -> Src/SrcSysParse.v (the splitting loop)"""
    mod = ast.parse(open(system_py).read())
    fn = _method(_class(mod, "System"), "__init__", [])
    if [a.arg for a in fn.args.args] != ["self", "big_smiles_ext", "system_molweight"] or [ast.unparse(d) for d in fn.args.defaults] != ["None"]:
        raise Unsupported("signature of System.__init__")
    sk, ts, vs = skeleton_v(fn, {"self._raw_text", "end_pos", "text"})
    if not same_skeleton(sk, SYSINIT_SKELETON) or len(ts) != 3 or len(vs) != 4:
        raise Unsupported("statement skeleton of System.__init__ changed: " + sk.replace("\n", " / ")[:300])
    if ast.unparse(vs[1][1]) != "copy.copy(self._raw_text)":
        raise Unsupported("System.__init__: the working text is not a copy of the stripped input")
    env = Env({"end_pos": ("end_pos", "Z")}, {"big_smiles_ext": ("input", "str"), "text": ("text", "str")})
    def val(k, ty):
        t, got = env.term(vs[k][1])
        if got != ty:
            raise Unsupported(f"value {k} of System.__init__ has type {got}")
        return t
    out = [
        "(* generated by harness/translate_sys.py from system.py (System.__init__) -- do not edit *)",
        "From Coq Require Import List ZArith Ascii String Bool.",
        "From GBS Require Import Model.PyStr Model.Num Model.Bond.",
        "Open Scope Z_scope.",
        f"Definition sp_raw (input : str) : str := {val(0, 'str')}.",
        f"Definition sp_continues (text : str) : bool := {env.truth(ts[0])}.",
        f"Definition sp_end_pos (text : str) : Z := {val(2, 'Z')}.",
        f"Definition sp_unclosed (end_pos : Z) : bool := {env.truth(ts[1])}.",
        f"Definition sp_rest (text : str) (end_pos : Z) : str := {val(3, 'str')}.",
        f"Definition sp_last_piece (text : str) : bool := {env.truth(ts[2])}.",
    ]
    return "\n".join(out) + "\n"


MOLINIT_SKELETON = '''self._raw_text = VAL0
self._elements = []
stochastic_text = VAL1
self.mixture = None
if TEST0:
    start = VAL2
    end = VAL3
    mixture_text = VAL4
    end_text = VAL5
    if TEST1:
        raise RuntimeError
    stochastic_text = VAL6
    self.mixture = Mixture(mixture_text)
res_id_counter = 0
while TEST2:
    pre_token = VAL7
    pre_stochastic = None
    if TEST3:
        pre_stochastic = SmilesToken(pre_token, 0, res_id_prefix + res_id_counter)
        res_id_counter += 1
        if TEST4:
            if TEST5:
                other_bd = self._elements[-1].right_terminal
            else:
                other_bd = self._elements[-1].bond_descriptors[-1]
            if TEST6:
                found_compatible = False
                for bd in pre_stochastic.bond_descriptors:
                    if TEST7:
                        if TEST8:
                            found_compatible = True
                    elif TEST9:
                        found_compatible = True
                if TEST10:
                    raise RuntimeError
            else:
                bond_string = VAL8
                pre_token = VAL9
                pre_stochastic = SmilesToken(pre_token, 0, res_id_prefix + res_id_counter)
                res_id_counter += 1
    stochastic_text = VAL10
    end_pos = VAL11
    if TEST11:
        raise RuntimeError
    if TEST12:
        end_pos = VAL12
    stochastic = Stochastic(stochastic_text[:end_pos], res_id_prefix + res_id_counter)
    res_id_counter += len(stochastic.residues)
    if TEST13:
        min_expected_bond_descriptors = 2
        if TEST14:
            min_expected_bond_descriptors = 1
        if TEST15:
            other_bd = stochastic.left_terminal
            bond_text = VAL13
            bond_text = VAL14
            pre_token += bond_text
            pre_stochastic = SmilesToken(pre_token, 0, res_id_prefix + res_id_counter)
            res_id_counter += 1
        self._elements.append(pre_stochastic)
    self._elements.append(stochastic)
    stochastic_text = VAL15
if TEST16:
    token = SmilesToken(stochastic_text, 0, res_id_prefix + res_id_counter)
    if TEST17:
        if TEST18:
            bond_text = VAL16
        else:
            bond_text = VAL17
        token = SmilesToken(bond_text + stochastic_text, 0, res_id_prefix + res_id_counter)
    res_id_counter += 1
    self._elements.append(token)'''

MIXINIT_SKELETON = '''self._raw_text = raw_text
if TEST0:
    raise RuntimeError
self._absolute_mass = None
self._relative_mass = None
self._system_mass = None
if TEST1:
    rel_mass = VAL0
    if TEST2:
        raise RuntimeError
    self._relative_mass = float(rel_mass)
else:
    try:
        abs_mass = VAL1
    except ValueError:
        warn
    else:
        if TEST3:
            raise RuntimeError
        self._absolute_mass = abs_mass'''

MOL_VALUES = {"self._raw_text", "stochastic_text", "start", "end", "mixture_text", "end_text", "pre_token", "end_pos", "bond_text", "bond_string"}
MOL_PINNED = {5: "isinstance(self._elements[-1], Stochastic)", 7: "isinstance(self._elements[-1], Stochastic)", 18: "isinstance(self._elements[-1], Stochastic)"}
MOL_PINNED_VALUES = {1: "copy.copy(self._raw_text)", 8: "_create_compatible_bond_text(other_bd)", 13: "_create_compatible_bond_text(other_bd)",
                     16: "_create_compatible_bond_text(self._elements[-1].right_terminal)", 17: "_create_compatible_bond_text(self._elements[-1].bond_descriptors[-1])"}


def translate_molparse(molecule_py):
    """molecule.py: Molecule.__init__; mixture.py: Mixture.__init__ -> Src/SrcMolParse.v"""
    import os
    mod = ast.parse(open(molecule_py).read())
    fn = _method(_class(mod, "Molecule"), "__init__", [])
    if [a.arg for a in fn.args.args] != ["self", "big_smiles_ext", "res_id_prefix"] or [ast.unparse(d) for d in fn.args.defaults] != ["0"]:
        raise Unsupported("signature of Molecule.__init__")
    sk, ts, vs = skeleton_v(fn, MOL_VALUES)
    if not same_skeleton(sk, MOLINIT_SKELETON) or len(ts) != 19 or len(vs) != 18:
        import difflib
        d = [l for l in difflib.unified_diff(MOLINIT_SKELETON.split("\n"), sk.split("\n"), lineterm="", n=0) if not l.startswith(("---", "+++", "@@"))]
        raise Unsupported("statement skeleton of Molecule.__init__ changed: " + " / ".join(d[:6]))
    for k, text in MOL_PINNED.items():
        if ast.dump(ts[k]) != ast.dump(ast.parse(text, mode="eval").body):
            raise Unsupported(f"decision {k} of Molecule.__init__ changed")
    for k, text in MOL_PINNED_VALUES.items():
        if ast.dump(vs[k][1]) != ast.dump(ast.parse(text, mode="eval").body):
            raise Unsupported(f"value {k} of Molecule.__init__ changed: {ast.unparse(vs[k][1])[:80]}")
    env = Env({"start": ("start", "Z"), "end": ("stop", "Z"), "end_pos": ("ep", "Z"), "len(self._elements)": ("(Z.of_nat nel)", "Z"),
               "len(pre_stochastic.bond_descriptors)": ("(Z.of_nat nb)", "Z"), "min_expected_bond_descriptors": ("(Z.of_nat minexp)", "Z"),
               "len(token.bond_descriptors)": ("(Z.of_nat ntb)", "Z")},
              {"big_smiles_ext": ("input", "str"), "stochastic_text": ("text", "str"), "end_text": ("et", "str"), "pre_token": ("pt", "str"), "bond_string": ("bs", "str"),
               "bond_text": ("bt", "str"), "found_compatible": ("found", "bool"), "pre_stochastic": ("pre", "opttoken")},
              {"stochastic_text[end_pos]": ("c", "char"), "bd.generate_string(False)": ("(print_descr fprint false bd)", "str"),
               "other_bd.generate_string(False)": ("(print_descr fprint false other)", "str"), "bd.is_compatible(other_bd)": ("(is_compatible bd other)", "bool")})
    def val(k, ty):
        t, got = env.term(vs[k][1])
        if got != ty:
            raise Unsupported(f"value {k} of Molecule.__init__ has type {got}")
        return t
    T = {k: env.truth(ts[k]) for k in range(19) if k not in MOL_PINNED}
    # Mixture.__init__
    mmod = ast.parse(open(os.path.join(os.path.dirname(molecule_py), "mixture.py")).read())
    mfn = _method(_class(mmod, "Mixture"), "__init__", [])
    if [a.arg for a in mfn.args.args] != ["self", "raw_text"]:
        raise Unsupported("signature of Mixture.__init__")
    msk, mts, mvs = skeleton_v(mfn, {"rel_mass", "abs_mass"})
    if not same_skeleton(msk, MIXINIT_SKELETON) or len(mts) != 4 or len(mvs) != 2:
        raise Unsupported("statement skeleton of Mixture.__init__ changed: " + msk.replace("\n", " / ")[:300])
    menv = Env({}, {"self._raw_text": ("raw", "str"), "rel_mass": ("r", "num"), "abs_mass": ("a", "num")}, {"self._raw_text[0]": ("c", "char")})
    def fval(k):
        v = mvs[k][1]
        if not (isinstance(v, ast.Call) and isinstance(v.func, ast.Name) and v.func.id == "float" and len(v.args) == 1):
            raise Unsupported("Mixture.__init__: a mass is not float(<text>)")
        t, ty = menv.term(v.args[0])
        if ty != "str":
            raise Unsupported("Mixture.__init__: float of a non-string")
        return t
    out = [
        "(* generated by harness/translate_sys.py from molecule.py (Molecule.__init__) and mixture.py (Mixture.__init__) -- do not edit *)",
        "From Coq Require Import List ZArith QArith Ascii String Bool.",
        "From GBS Require Import Model.PyStr Model.Num Model.Bond Model.Token Model.DistFam Src.SrcDist Model.Stoch Model.Mol Src.SrcBond.",
        "Import ListNotations. Open Scope Z_scope.",
        "(* input: big_smiles_ext; text: stochastic_text at that point; start / stop: the mixture specifier; pt: pre_token; ep: end_pos; c: text[end_pos];",
        "   nel / nb / ntb / minexp: element and descriptor counts; bs / bt: connector descriptor texts; is_compatible is regenerated from bond.py *)",
        f"Definition ml_raw (input : str) : str := {val(0, 'str')}.",
        f"Definition ml_has_mix (text : str) : bool := {T[0]}.",
        f"Definition ml_mix_start (text : str) : Z := {val(2, 'Z')}.",
        f"Definition ml_mix_stop (text : str) (start : Z) : Z := {val(3, 'Z')}.",
        f"Definition ml_mix_text (text : str) (start stop : Z) : str := {val(4, 'str')}.",
        f"Definition ml_after_mix (text : str) (stop : Z) : str := {val(5, 'str')}.",
        f"Definition ml_after_mix_nonempty (et : str) : bool := {T[1]}.",
        f"Definition ml_before_mix (text : str) (start : Z) : str := {val(6, 'str')}.",
        f"Definition ml_continues (text : str) : bool := {T[2]}.",
        f"Definition ml_pre_token (text : str) : str := {val(7, 'str')}.",
        f"Definition ml_has_pre (pt : str) : bool := {T[3]}.",
        f"Definition ml_has_elements (nel : nat) : bool := {T[4]}.",
        f"Definition ml_pre_has_descriptors (nb : nat) : bool := {T[6]}.",
        f"Definition ml_same_text (fprint : num -> str) (bd other : descr) : bool := {T[8]}.",
        f"Definition ml_compatible (bd other : descr) : bool := {T[9]}.",
        f"Definition ml_none_found (found : bool) : bool := {T[10]}.",
        f"Definition ml_prepend (bs pt : str) : str := {val(9, 'str')}.",
        f"Definition ml_text1 (text : str) : str := {val(10, 'str')}.",
        f"Definition ml_end_pos (text : str) : Z := {val(11, 'Z')}.",
        f"Definition ml_end_negative (ep : Z) : bool := {T[11]}.",
        f"Definition ml_dist_follows (text : str) (ep : Z) (c : ascii) : bool := {T[12]}.",
        f"Definition ml_end_pos_dist (text : str) (ep : Z) : Z := {val(12, 'Z')}.",
        f"Definition ml_pre_given (pre : option token) : bool := {T[13]}.",
        f"Definition ml_first_element (nel : nat) : bool := {T[14]}.",
        f"Definition ml_too_few (nb minexp : nat) : bool := {T[15]}.",
        f"Definition ml_auto_descriptor (bt : str) : str := {val(14, 'str')}.",
        f"Definition ml_rest (text : str) (ep : Z) : str := {val(15, 'str')}.",
        f"Definition ml_trailing (text : str) : bool := {T[16]}.",
        f"Definition ml_trailing_needs_descriptor (nel ntb : nat) : bool := {T[17]}.",
        "(* Mixture.__init__ *)",
        f"Definition mx_not_dot (c : ascii) : bool := {menv.truth(mts[0])}.",
        f"Definition mx_is_percent (raw : str) : bool := {menv.truth(mts[1])}.",
        f"Definition mx_percent_text (raw : str) : str := {fval(0)}.",
        f"Definition mx_percent_bad (r : num) : bool := {menv.truth(mts[2])}.",
        f"Definition mx_mass_text (raw : str) : str := {fval(1)}.",
        f"Definition mx_mass_bad (a : num) : bool := {menv.truth(mts[3])}.",
    ]
    return "\n".join(out) + "\n"


PRINT_DESCR_SKELETON = '''string = ''
string += VAL0
if TEST0:
    string += VAL1
    if TEST1:
        string += VAL2
    else:
        for t in self.transitions:
            string += VAL3
        string = VAL4
    string += VAL5
string += VAL6
return string.strip()'''

COMPAT_TEXT_SKELETON = '''compatible_symbol = '$'
if TEST0:
    compatible_symbol = '<'
if TEST1:
    compatible_symbol = '>'
bond_string = VAL0
return bond_string'''


def translate_descrprint(bond_py):
    """bond.py: BondDescriptor.generate_string and _create_compatible_bond_text -> Src/SrcDescrPrint.v"""
    mod = ast.parse(open(bond_py).read())
    fn = _method(_class(mod, "BondDescriptor"), "generate_string", [])
    if [a.arg for a in fn.args.args] != ["self", "extension"]:
        raise Unsupported("signature of BondDescriptor.generate_string")
    sk, ts, vs = skeleton_v(fn, {"string"}, aug=True)
    if not same_skeleton(sk, PRINT_DESCR_SKELETON) or len(ts) != 2 or len(vs) != 7:
        raise Unsupported("statement skeleton of BondDescriptor.generate_string changed: " + sk.replace("\n", " / ")[:300])
    env = Env({}, {"extension": ("ext", "bool"), "self.transitions": ("(d_trans d)", "optlist"), "self.weight": ("(d_weight d)", "num"), "string": ("s", "str")},
              {"{self.descriptor}": ("(d_sym d)", "str"), "{self.descriptor_id}": ("(id_str (d_id d))", "str"), "{self.weight}": ("(fprint (d_weight d))", "str"),
               "{t}": ("(fprint t)", "str")})
    def val(k):
        t, ty = env.term(vs[k][1])
        if ty != "str":
            raise Unsupported(f"value {k} of generate_string has type {ty}")
        return t
    cfn = _module_fn(mod, "_create_compatible_bond_text")
    if [a.arg for a in cfn.args.args] != ["bond"]:
        raise Unsupported("signature of _create_compatible_bond_text")
    csk, cts, cvs = skeleton_v(cfn, {"bond_string"})
    if not same_skeleton(csk, COMPAT_TEXT_SKELETON) or len(cts) != 2 or len(cvs) != 1:
        raise Unsupported("statement skeleton of _create_compatible_bond_text changed")
    # str(bond) contains '<' / '>' iff the symbol is (ids and weights are numeric text): Model/Bond.v
    cenv = Env({}, {}, {"'<' in str(bond)": ("(str_eqb (d_sym b) (lit \"<\"))", "bool"), "'>' in str(bond)": ("(str_eqb (d_sym b) (lit \">\"))", "bool"),
                        "{bond.preceding_characters}": ("(d_pre b)", "str"), "{compatible_symbol}": ("sym", "str"), "{bond.descriptor_id}": ("(id_str (d_id b))", "str")})
    ct, cty = cenv.term(cvs[0][1])
    out = [
        "(* generated by harness/translate_sys.py from bond.py (BondDescriptor.generate_string, _create_compatible_bond_text) -- do not edit *)",
        "From Coq Require Import List ZArith QArith Ascii String Bool.",
        "From GBS Require Import Model.PyStr Model.Num Model.Bond.",
        "Import ListNotations.",
        "Section SrcDescrPrint.",
        "  Variable fprint : num -> str.     (* Python's formatting of a float inside an f-string: repr (oracle) *)",
        f"  Definition pd_head (d : descr) : str := {val(0)}.",
        f"  Definition pd_shows_weight (ext : bool) (d : descr) : bool := {env.truth(ts[0])}.",
        f"  Definition pd_open_bar : str := {val(1)}.",
        f"  Definition pd_single (d : descr) : bool := {env.truth(ts[1])}.",
        f"  Definition pd_weight (d : descr) : str := {val(2)}.",
        f"  Definition pd_item (t : num) : str := {val(3)}.",
        f"  Definition pd_cut (s : str) : str := {val(4)}.",
        f"  Definition pd_close_bar : str := {val(5)}.",
        f"  Definition pd_close : str := {val(6)}.",
        "End SrcDescrPrint.",
        f"Definition ct_is_left (b : descr) : bool := {cenv.truth(cts[0])}.",
        f"Definition ct_is_right (b : descr) : bool := {cenv.truth(cts[1])}.",
        f"Definition ct_text (b : descr) (sym : str) : str := {ct}.",
    ]
    return "\n".join(out) + "\n"


TOKEN_PRINT_SKELETON = '''string = ''
for element in self.elements:
    if TEST0:
        string += VAL0
    else:
        string += VAL1
return string.strip()'''

STOCH_PRINT_SKELETON = '''string = '{'
string += VAL0
for token in self.repeat_tokens:
    string += VAL1
if TEST0:
    string = VAL2
if TEST1:
    string += VAL3
    for token in self.end_tokens:
        string += VAL4
    string = VAL5
string += VAL6
string += VAL7
if TEST2:
    string += VAL8
return string.strip()'''

MOL_PRINT_SKELETON = '''string = ''
for ele in self._elements:
    string += VAL0
if TEST0:
    string += VAL1
return string'''

SYS_PRINT_SKELETON = '''string = ''
for mol in self._molecules:
    string += VAL0
return string'''

MIX_PRINT_SKELETON = '''if TEST0:
    if TEST1:
        if TEST2:
            return RET0
        return RET1
    return RET2
return "."'''


def translate_printers(token_py):
    """generate_string of SmilesToken, Stochastic, Molecule, System, Mixture -> Src/SrcPrint.v"""
    import os
    d = os.path.dirname(token_py)
    def gs(fname, cname):
        fn = _method(_class(ast.parse(open(os.path.join(d, fname)).read()), cname), "generate_string", [])
        if [a.arg for a in fn.args.args] != ["self", "extension"]:
            raise Unsupported(f"signature of {cname}.generate_string")
        return fn
    def shaped(fn, skel, nt, nv, what):
        sk, ts, vs = skeleton_v(fn, {"string"}, aug=True)
        if not same_skeleton(sk, skel) or len(ts) != nt or len(vs) != nv:
            raise Unsupported(f"statement skeleton of {what}.generate_string changed: " + sk.replace("\n", " / ")[:300])
        return ts, vs
    # token
    ts, vs = shaped(gs("token.py", "SmilesToken"), TOKEN_PRINT_SKELETON, 1, 2, "SmilesToken")
    if ast.unparse(ts[0]) != "isinstance(element, str)" or [ast.unparse(v[1]) for v in vs] != ["element", "element.generate_string(extension)"]:
        raise Unsupported("SmilesToken.generate_string: element printing")
    # stochastic object
    ts, vs = shaped(gs("stochastic.py", "Stochastic"), STOCH_PRINT_SKELETON, 3, 9, "Stochastic")
    env = Env({"len(self.repeat_tokens)": ("(Z.of_nat nrep)", "Z"), "len(self.end_tokens)": ("(Z.of_nat nend)", "Z")},
              {"string": ("s", "str"), "self.distribution": ("dist", "optdist")},
              {"self.left_terminal.generate_string(extension)": ("(pdescr left)", "str"), "self.right_terminal.generate_string(extension)": ("(pdescr right)", "str"),
               "token.generate_string(extension)": ("(ptoken tok)", "str"), "self.distribution.generate_string(extension)": ("dtext", "str")})
    def sval(k):
        t, ty = env.term(vs[k][1])
        if ty != "str":
            raise Unsupported(f"Stochastic.generate_string value {k}")
        return t
    if ast.dump(vs[1][1]) != ast.dump(vs[4][1]) or ast.dump(vs[2][1]) != ast.dump(vs[5][1]):
        raise Unsupported("Stochastic.generate_string: the two token lists are printed differently")
    out = [
        "(* generated by harness/translate_sys.py from token.py, stochastic.py, molecule.py, system.py, mixture.py (generate_string) -- do not edit *)",
        "From Coq Require Import List ZArith QArith Ascii String Bool.",
        "From GBS Require Import Model.PyStr Model.Num Model.Bond Model.Token.",
        "Import ListNotations.",
        "(* SmilesToken.generate_string: text elements as written, every other element by its own generate_string; stripped (skeleton checked) *)",
        "Section SrcPrint.",
        "  Variable pdescr : descr -> str.   (* BondDescriptor.generate_string(extension): Src/SrcDescrPrint.v *)",
        "  Variable ptoken : token -> str.   (* SmilesToken.generate_string(extension) *)",
        f"  Definition ps_left_text (left : descr) : str := {sval(0)}.",
        f"  Definition ps_item (tok : token) : str := {sval(1)}.",
        f"  Definition ps_has_rep (nrep : nat) : bool := {env.truth(ts[0])}.",
        f"  Definition ps_cut (s : str) : str := {sval(2)}.",
        f"  Definition ps_has_end (nend : nat) : bool := {env.truth(ts[1])}.",
        f"  Definition ps_sep : str := {sval(3)}.",
        f"  Definition ps_right_text (right : descr) : str := {sval(6)}.",
        f"  Definition ps_close : str := {sval(7)}.",
        f"  Definition ps_has_dist {{D}} (dist : option D) : bool := {env.truth(ts[2])}.",
        f"  Definition ps_dist_text (dtext : str) : str := {sval(8)}.",
        "End SrcPrint.",
    ]
    # molecule / system / mixture: compared as text
    ts, vs = shaped(gs("molecule.py", "Molecule"), MOL_PRINT_SKELETON, 1, 2, "Molecule")
    if ast.unparse(ts[0]) != "self.mixture" or [ast.unparse(v[1]) for v in vs] != ["ele.generate_string(extension)", "self.mixture.generate_string(extension)"]:
        raise Unsupported("Molecule.generate_string")
    ts, vs = shaped(gs("system.py", "System"), SYS_PRINT_SKELETON, 0, 1, "System")
    if ast.unparse(vs[0][1]) != "mol.generate_string(extension)":
        raise Unsupported("System.generate_string")
    mfn = gs("mixture.py", "Mixture")
    sk, mts, mrs = skeleton_r(mfn)
    if not same_skeleton(sk, MIX_PRINT_SKELETON) or [ast.unparse(t) for t in mts] != ["extension", "self.absolute_mass is None", "self.relative_mass is None"]:
        raise Unsupported("Mixture.generate_string")
    menv = Env({}, {}, {"{self.relative_mass}": ("(fprint rel)", "str"), "{self.absolute_mass}": ("(fprint mass)", "str"), "self._raw_text": ("raw", "str")})
    out += [
        "(* Mixture.generate_string: the text as written if no mass is known at all, the percentage if no absolute mass is known, else the absolute mass *)",
        f"Definition mx_print_none (raw : str) : str := {menv.term(mrs[0])[0]}.",
        f"Definition mx_print_rel (fprint : num -> str) (rel : num) : str := {menv.term(mrs[1])[0]}.",
        f"Definition mx_print_abs (fprint : num -> str) (mass : num) : str := {menv.term(mrs[2])[0]}.",
    ]
    return "\n".join(out) + "\n"


FFSEL_SKELETON = '''match_dict = {}
for rule in self._rule_dict:
    rule_mol = Chem.MolFromSmarts(rule)
    matches = mol.GetSubstructMatches(rule_mol)
    for match in matches:
        if TEST0:
            RuntimeError("Match with more then atom, that doesn't make sense here.")
        match = match[0]
        try:
            match_dict[match].append(rule)
        except KeyError:
            match_dict[match] = [rule]
for atom_num in match_dict:
    final_match = match_dict[atom_num][0]
    for match_rule in match_dict[atom_num]:
        if TEST1:
            final_match = match_rule
    match_dict[atom_num] = final_match
final_dict = {}
for atom_num in match_dict:
    final_dict[atom_num] = self.get_ffparam(self.get_type(self._rule_dict[match_dict[atom_num]]))
if TEST2:
    raise FfAssignmentError
return final_dict'''

FFTYPES_SKELETON = '''if TEST0:
    raise RuntimeError
assigner = get_assignment_class(smarts_filename, nb_filename)
mol = self.mol
mol = Chem.AddHs(mol)
try:
    ffparam = assigner.get_type_assignments(mol)
except FfAssignmentError as exc:
    exc.attach_mol(mol)
    raise exc
return (ffparam, mol)'''


def translate_ffsel(ff_py):
    """forcefield_helper.py: SMARTS_ASSIGNMENTS.get_type_assignments; mol_gen.py: MolGen.get_forcefield_types -> Src/SrcFFSel.v"""
    import os
    mod = ast.parse(open(ff_py).read())
    ts = _check_fn(_method(_class(mod, "SMARTS_ASSIGNMENTS"), "get_type_assignments", []), ["self", "mol"], [], FFSEL_SKELETON, 3, "SMARTS_ASSIGNMENTS.get_type_assignments")
    if ast.unparse(ts[0]) != "len(match) > 1":
        raise Unsupported("get_type_assignments: the (ineffective) multi-atom test changed")
    gmod = ast.parse(open(os.path.join(os.path.dirname(ff_py), "mol_gen.py")).read())
    gt = _check_fn(_method(_class(gmod, "MolGen"), "get_forcefield_types", []), ["self", "smarts_filename", "nb_filename"], ["None", "None"], FFTYPES_SKELETON, 1,
                   "MolGen.get_forcefield_types")
    env = Env({"len(match_rule)": ("(Z.of_nat lnew)", "Z"), "len(final_match)": ("(Z.of_nat lcur)", "Z"), "len(final_dict)": ("(Z.of_nat nassigned)", "Z")},
              {"self.fully_generated": ("full", "bool")}, {"mol.GetNumAtoms()": ("(Z.of_nat natoms)", "Z")})
    out = [
        "(* generated by harness/translate_sys.py from forcefield_helper.py (get_type_assignments) and mol_gen.py (get_forcefield_types) -- do not edit *)",
        "From Coq Require Import List ZArith Bool.",
        "(* lnew / lcur: length of the SMARTS text of the rule looked at / of the rule kept so far (the first matching rule to begin with) *)",
        f"Definition ff_replaces (lnew lcur : nat) : bool := {env.truth(ts[1])}.",
        f"Definition ff_incomplete (nassigned natoms : nat) : bool := {env.truth(ts[2])}.",
        f"Definition ff_refused (full : bool) : bool := {env.truth(gt[0])}.",
    ]
    return "\n".join(out) + "\n"


def module_skeleton(mod, classname):
    """skeletons of all module-level functions and of all methods of one class, in source order, as one text; and their decisions"""
    out, tests = [], {}
    for n in mod.body:
        if isinstance(n, ast.FunctionDef):
            sk, ts = skeleton(n)
            out.append(f"def {n.name}({', '.join(a.arg for a in n.args.args)}):\n" + "\n".join("    " + l for l in sk.split("\n")))
            tests[n.name] = ts
        if isinstance(n, ast.ClassDef) and n.name == classname:
            for m in n.body:
                if isinstance(m, ast.FunctionDef):
                    sk, ts = skeleton(m)
                    out.append(f"def {classname}__{m.name}({', '.join(a.arg for a in m.args.args)}):\n" + "\n".join("    " + l for l in sk.split("\n")))
                    tests[m.name] = ts
                elif not (isinstance(m, ast.Expr) and isinstance(m.value, ast.Constant)):
                    out.append("CLASS_STATEMENT: " + ast.unparse(m))
    return "\n".join(out), tests


def check_module(py, classname, name, translated):
    """skeletons of every function of the module and every method of the class = harness/skeletons/<name>.txt; every decision that is not
    translated (keys in `translated`) = the text recorded in harness/skeletons/<name>.tests.txt.  Returns the decisions."""
    import os
    mod = ast.parse(open(py).read())
    got, tests = module_skeleton(mod, classname)
    base = os.path.join(os.path.dirname(os.path.abspath(__file__)), "skeletons", name)
    want = open(base + ".txt").read()
    gl, wl = got.split("\ndef "), want.split("\ndef ")
    if len(gl) != len(wl):
        raise Unsupported(f"functions / methods of {name}.py changed")
    for g, w in zip(gl, wl):
        g2, w2 = (g if g.startswith("def ") else "def " + g), (w if w.startswith("def ") else "def " + w)
        if "CLASS_STATEMENT" in g2 or "CLASS_STATEMENT" in w2:
            if g2 != w2:
                raise Unsupported(f"class-level statements of {classname} changed: " + g2[-200:].replace("\n", " / "))
            continue
        if not same_skeleton(g2, w2):
            import difflib
            d = [l for l in difflib.unified_diff(w2.split("\n"), g2.split("\n"), lineterm="", n=0) if not l.startswith(("---", "+++", "@@"))]
            raise Unsupported("statement skeleton of " + g2.split("(")[0][4:] + " changed: " + " / ".join(d[:6]))
    recorded = {}
    for line in open(base + ".tests.txt").read().split("\n"):
        if line.strip():
            fn, k, text = line.split(" ", 2)
            recorded[(fn, int(k))] = text
    seen = set()
    for fn, ts in tests.items():
        for k, t in enumerate(ts):
            seen.add((fn, k))
            if (fn, k) in translated:
                continue
            if (fn, k) not in recorded or ast.dump(t) != ast.dump(ast.parse(recorded[(fn, k)], mode="eval").body):
                raise Unsupported(f"decision {k} of {fn} changed: {ast.unparse(t)[:100]}")
    if seen != set(recorded):
        raise Unsupported(f"number of decisions in {name}.py changed")
    return tests


def translate_agen(gg_py):
    """graph_generate.py: every function of the module and every method of AtomGraph -> Src/SrcAGen.v (skeletons compared with
    harness/skeletons/graph_generate.txt; the edge classification, the growth / termination decisions and the flags of _add_node regenerated)"""
    translated = {("_is_stochastic_edge", 0), ("_is_termination_edge", 0), ("_is_transition_edge", 0), ("_is_static_edge", 0), ("_fill_static_edges", 0),
                  ("_next_stochastic_edge", 0), ("_fill_stochastic_edges", 1), ("_next_termination_edge", 0), ("_next_termination_edge", 1),
                  ("_add_node", 0), ("_add_node", 1), ("_add_node", 2)}
    tests = check_module(gg_py, "AtomGraph", "graph_generate", translated)
    env = Env({"weight": ("w", "Q"), "node": ("(Z.of_nat node)", "Z"), "len(edge_list)": ("(Z.of_nat nedges)", "Z")},
              {"exempt_node": ("ex", "optZ"), "transition_allowed": ("allowed", "bool"), "termination_allowed": ("allowed", "bool"), "stochastic_allowed": ("allowed", "bool")},
              {"edge['stochastic_weight']": ("w", "Q"), "edge['termination_weight']": ("w", "Q"), "edge['transition_weight']": ("w", "Q"), "edge['static_weight']": ("w", "Q"),
               "self.graph.nodes[current_atom]['stochastic_node']": ("(Z.of_nat sn)", "Z"), "self.mw[-1]": ("mw", "Q"),
               "get_target_mw(self, exempt_node, swap_self)": ("T", "Q"), "exempt_node != node": ("(negb (Z.eqb exz (Z.of_nat node)))", "bool"),
               "_is_transition_edge(edge_data)": ("is_kind", "bool"), "_is_termination_edge(edge_data)": ("is_kind", "bool"), "_is_stochastic_edge(edge_data)": ("is_kind", "bool")})
    def T(fn, k):
        return env.truth(tests[fn][k])
    out = [
        "(* generated by harness/translate_sys.py from graph_generate.py (module functions and AtomGraph) -- do not edit *)",
        "From Coq Require Import List ZArith QArith Bool.",
        "From GBS Require Import Model.PyStr Model.Num Model.Bond Model.Sys.",
        "Open Scope Q_scope.",
        "(* the statement skeletons of all fifteen functions / methods are the ones Model/AGen.v was written against (harness/skeletons/graph_generate.txt) *)",
        f"Definition ag_is_stochastic (w : Q) : bool := {T('_is_stochastic_edge', 0)}.",
        f"Definition ag_is_termination (w : Q) : bool := {T('_is_termination_edge', 0)}.",
        f"Definition ag_is_transition (w : Q) : bool := {T('_is_transition_edge', 0)}.",
        f"Definition ag_is_static (w : Q) : bool := {T('_is_static_edge', 0)}.",
        f"Definition ag_new_atom (sn node : nat) : bool := {T('_fill_static_edges', 0)}.",
        f"Definition ag_has_options (w : Q) : bool := {T('_next_stochastic_edge', 0)}.",
        f"Definition ag_grow (mw T : Q) : bool := {T('_fill_stochastic_edges', 1)}.",
        f"Definition ag_may_terminate (ex : option Z) (exz : Z) (node : nat) : bool := {T('_next_termination_edge', 0)}.",
        f"Definition ag_has_terminations (nedges : nat) : bool := {T('_next_termination_edge', 1)}.",
        f"Definition ag_keep_transition (is_kind allowed : bool) : bool := {T('_add_node', 0)}.",
        f"Definition ag_keep_termination (is_kind allowed : bool) : bool := {T('_add_node', 1)}.",
        f"Definition ag_keep_stochastic (is_kind allowed : bool) : bool := {T('_add_node', 2)}.",
    ]
    return "\n".join(out) + "\n"


def translate_agraph(sag_py):
    """stochastic_atom_graph.py: every function and every method of StochasticAtomGraph -> Src/SrcAGraph.v"""
    translated = {("_add_transition_bonds", 0), ("_add_stochastic_bonds", 0), ("_add_stochastic_bonds", 1), ("_add_stochastic_bonds", 2), ("_add_stochastic_bonds", 3),
                  ("_add_stochastic_bonds", 4), ("_add_stochastic_bonds", 5)}
    tests = check_module(sag_py, "StochasticAtomGraph", "stochastic_atom_graph", translated)
    env = Env({"graph_bd_token_idx": ("(Z.of_nat ti)", "Z"), "other_bd_token_idx": ("(Z.of_nat tj)", "Z"), "len(element.repeat_tokens)": ("(Z.of_nat nr)", "Z"), "p": ("p", "Q")},
              {"graph_bd.transitions": ("(d_trans d)", "optlist"), "other_bd.weight": ("(wq o)", "Q")},
              {"graph_bd.is_compatible(other_bd)": ("(is_compatible d o)", "bool"), "bd_lhs.is_compatible(bd_rhs)": ("(is_compatible dl dr)", "bool")})
    def T(fn, k):
        return env.truth(tests[fn][k])
    # the values assigned to terminal_ok / exclude_transition_into_terminal in _add_transition_bonds
    tfn = _method(_class(ast.parse(open(sag_py).read()), "StochasticAtomGraph"), "_add_transition_bonds", [])
    _, _, tv = skeleton_v(tfn, {"terminal_ok", "exclude_transition_into_terminal"})
    if [ast.unparse(v) for _, v in tv] != ["invert_terminal.is_compatible(bd_rhs)", "invert_terminal.is_compatible(bd_lhs)", "bd_rhs_idx < len(element_rhs.repeat_tokens)"]:
        raise Unsupported("_add_transition_bonds: the terminal / end-group tests changed: " + "; ".join(ast.unparse(v) for _, v in tv)[:200])
    tenv = Env({"bd_rhs_idx": ("(Z.of_nat tj)", "Z"), "len(element_rhs.repeat_tokens)": ("(Z.of_nat nr)", "Z")}, {},
               {"invert_terminal.is_compatible(bd_rhs)": ("(is_compatible inv dr)", "bool"), "invert_terminal.is_compatible(bd_lhs)": ("(is_compatible inv dl)", "bool")})
    out = [
        "(* generated by harness/translate_sys.py from stochastic_atom_graph.py -- do not edit *)",
        "From Coq Require Import List ZArith QArith Bool.",
        "From GBS Require Import Model.PyStr Model.Num Model.Bond Model.Sys Model.Select Model.Gen Model.RGraph Src.SrcBond.",
        "Open Scope Q_scope.",
        "(* the statement skeletons of all functions / methods are the ones Model/AGraph.v was written against (harness/skeletons/stochastic_atom_graph.txt);",
        "   d: the descriptor the links leave, on token ti; o: a candidate on token tj; nr: number of repeat tokens; is_compatible regenerated from bond.py *)",
        f"Definition sa_pair_compatible (dl dr : descr) : bool := {T('_add_transition_bonds', 0)}.",
        f"Definition sa_from_end_group (ti nr : nat) : bool := {T('_add_stochastic_bonds', 0)}.",
        f"Definition sa_has_list (d : descr) : bool := {T('_add_stochastic_bonds', 1)}.",
        f"Definition sa_list_compatible (d o : descr) : bool := {T('_add_stochastic_bonds', 2)}.",
        f"Definition sa_list_positive (p : Q) : bool := {T('_add_stochastic_bonds', 3)}.",
        f"Definition sa_weight_edge (d o : descr) : bool := {T('_add_stochastic_bonds', 4)}.",
        f"Definition sa_into_repeat (tj nr : nat) : bool := {T('_add_stochastic_bonds', 5)}.",
        "(* _add_transition_bonds: inv = the descriptor written from _create_compatible_bond_text of the neighbouring object's terminal *)",
        f"Definition sa_right_ok (inv dr : descr) : bool := {tenv.truth(tv[0][1])}.",
        f"Definition sa_left_ok (inv dl : descr) : bool := {tenv.truth(tv[1][1])}.",
        f"Definition sa_enters_repeat (tj nr : nat) : bool := {tenv.truth(tv[2][1])}.",
    ]
    return "\n".join(out) + "\n"


def translate_distparams(distribution_py):
    """distribution.py: the constructors of the six classes -> Src/SrcDistParams.v: which written parameter becomes which argument of which
    scipy law (order of the tuple, float / int conversion, keyword of the constructor call)"""
    mod = ast.parse(open(distribution_py).read())
    spec = {"Gauss": ("gauss", "norm", ["loc", "scale"], "LNorm"), "Uniform": ("uniform", "uniform", ["loc", "scale"], "LUnif"),
            "Poisson": ("poisson", "poisson", ["mu"], "LPoisson")}
    custom = {"FlorySchulz": ("flory_schulz", "flory_schulz_gen", ["_a"], "LFlorySchulz"), "SchulzZimm": ("schulz_zimm", "schulz_zimm_gen", ["_z", "_Mn"], "LSchulzZimm"),
              "LogNormal": ("log_normal", "log_normal_gen", ["_M", "_D"], "LLogNormal")}
    defs = []
    for cname in ["Gauss", "Uniform", "SchulzZimm", "LogNormal", "Poisson", "FlorySchulz"]:
        fn = _method(_class(mod, cname), "__init__", [])
        if [a.arg for a in fn.args.args] != ["self", "raw_text"]:
            raise Unsupported(f"signature of {cname}.__init__")
        body = [x for x in fn.body if not (isinstance(x, ast.Expr) and isinstance(x.value, ast.Constant))]
        prefix = (spec.get(cname) or custom.get(cname))[0]
        # super().__init__(raw_text); if not self._raw_text.startswith(<prefix>): raise
        if len(body) < 3 or ast.unparse(body[0]) != "super().__init__(raw_text)" or not isinstance(body[1], ast.If) or ast.unparse(body[1].test) != f"not self._raw_text.startswith('{prefix}')":
            raise Unsupported(f"{cname}.__init__: head")
        fields = {}      # field -> Coq term over the written parameters p0, p1
        call = None
        for st in body[2:]:
            if not isinstance(st, ast.Assign) or len(st.targets) != 1:
                raise Unsupported(f"{cname}.__init__: statement {ast.unparse(st)[:60]}")
            tgt, val = st.targets[0], st.value
            src = f"self._raw_text[len('{prefix}'):]"
            if isinstance(tgt, ast.Tuple) and ast.unparse(val) == f"make_tuple({src})":
                for k, e in enumerate(tgt.elts):
                    fields[ast.unparse(e)] = f"p{k}"
            elif ast.unparse(val) == f"float(make_tuple({src}))" or ast.unparse(val) == f"float(self._raw_text[len('{prefix}') + 1:-1])":
                fields[ast.unparse(tgt)] = "p0"
            elif isinstance(val, ast.Call) and isinstance(val.func, ast.Name) and val.func.id in ("float", "int") and len(val.args) == 1 and ast.unparse(val.args[0]) == ast.unparse(tgt):
                if ast.unparse(tgt) not in fields:
                    raise Unsupported(f"{cname}.__init__: conversion of an unset field")
                if val.func.id == "int":
                    fields[ast.unparse(tgt)] = f"(trunc {fields[ast.unparse(tgt)]})"
            elif ast.unparse(tgt) == "self._distribution":
                call = val
            else:
                env = Env({}, {k: (v, "Q") for k, v in fields.items()})
                t, ty = env.term(val)
                if ty != "Q":
                    raise Unsupported(f"{cname}.__init__: field expression")
                fields[ast.unparse(tgt)] = t
        if not isinstance(call, ast.Call):
            raise Unsupported(f"{cname}.__init__: no scipy law")
        env = Env({}, {k: (v, "Q") for k, v in fields.items()})
        if cname in spec:
            _, law, kws, ctor = spec[cname]
            if ast.unparse(call.func) != f"stats.{law}" or call.args or [k.arg for k in call.keywords] != kws:
                raise Unsupported(f"{cname}.__init__: constructor call {ast.unparse(call)[:80]}")
            args = [env.term(k.value)[0] for k in call.keywords]
        else:
            _, gen, used, ctor = custom[cname]
            if ast.unparse(call.func) != f"self.{gen}" or call.args or [k.arg for k in call.keywords] != ["name"]:
                raise Unsupported(f"{cname}.__init__: constructor call {ast.unparse(call)[:80]}")
            args = []
            for u in used:
                if "self." + u not in fields:
                    raise Unsupported(f"{cname}.__init__: field {u}")
                args.append(fields["self." + u])
        n = 1 if cname in ("Poisson", "FlorySchulz") else 2
        ps = " ".join(f"p{k}" for k in range(n))
        defs.append(f"Definition params_{cname} ({ps} : Q) : law_spec := {ctor} {' '.join(args)}.")
    out = [
        "(* generated by harness/translate_sys.py from distribution.py (the constructors of the six classes) -- do not edit *)",
        "From Coq Require Import List ZArith QArith Bool.",
        "From GBS Require Import Model.PyStr Model.DistFam Model.Dist.",
        "Open Scope Q_scope.",
        "(* p0, p1: the numbers written in the notation, in the written order; trunc: Python int() *)",
    ] + defs
    return "\n".join(out) + "\n"


STARTING_TOKENS_SKELETON = '''start_element = big_mol.elements[0]
start_fragments = []
start_probabilities = []
if TEST0:
    start_fragments.append(start_element)
    start_probabilities.append(1.0)
if TEST1:
    end_weights = []
    for end_token in start_element.end_tokens:
        start_fragments.append(end_token)
        weight = 0
        for bd in end_token.bond_descriptors:
            weight += bd.weight
        end_weights.append(weight)
    end_weights = np.asarray(end_weights)
    end_weights /= np.sum(end_weights)
    start_probabilities += list(end_weights)
if TEST2:
    raise ValueError
return (start_fragments, start_probabilities)'''

REMEMBER_ADD = {"__init__": (["self", "value"], "self._value = value\nself._previous = 0.0"), "value": (["self"], "return self._value"),
                "previous": (["self"], "return self._previous"),
                "__iadd__": (["self", "other"], "old_value = self._value\nself._value += other\nself._previous = old_value\nreturn self"),
                "__add__": (["self", "other"], "tmp = copy(self)\ntmp += other\nreturn tmp")}


def translate_prob(mol_prob_py):
    """mol_prob.py: the interval bookkeeping (class RememberAdd) and the start law (get_starting_tokens) -> Src/SrcProb.v.  The sub-structure
    search itself is not translated (it is not modelled)."""
    mod = ast.parse(open(mol_prob_py).read())
    ts = _check_fn(_module_fn(mod, "get_starting_tokens"), ["smiles", "big_mol"], [], STARTING_TOKENS_SKELETON, 3, "get_starting_tokens")
    if [ast.unparse(t) for t in ts] != ["isinstance(start_element, SmilesToken)", "isinstance(start_element, Stochastic)", "len(start_fragments) <= 0"]:
        raise Unsupported("decisions of get_starting_tokens")
    cls = _class(mod, "RememberAdd")
    for name, (args, skel) in REMEMBER_ADD.items():
        r = [n for n in cls.body if isinstance(n, ast.FunctionDef) and n.name == name]
        if len(r) != 1 or [a.arg for a in r[0].args.args] != args:
            raise Unsupported("RememberAdd." + name)
        sk, t2 = skeleton(r[0])
        if t2 or not same_skeleton(sk, skel):
            raise Unsupported(f"statement skeleton of RememberAdd.{name} changed: " + sk.replace("\n", " / ")[:200])
    out = [
        "(* generated by harness/translate_sys.py from mol_prob.py (class RememberAdd, get_starting_tokens; skeletons compared as text) -- do not edit *)",
        "From Coq Require Import List ZArith QArith Bool.",
        "Open Scope Q_scope.",
        "(* RememberAdd(value): (value, previous = 0.0); x += m: (value + m, previous = the old value).  Written out from the checked statements: *)",
        "Definition ra_new (value : Q) : Q * Q := (value, 0).",
        "Definition ra_iadd (x : Q * Q) (other : Q) : Q * Q := (fst x + other, fst x).",
        "(* get_starting_tokens: a leading token starts with probability 1; a leading object starts with one of its end tokens, with the sum of the",
        "   weights of that token's descriptors, normalised over the end tokens *)",
        "Definition start_weight (descriptor_weights : list Q) : Q := fold_left Qplus descriptor_weights 0.",
        "Definition start_law (tokens : list (list Q)) : list Q := map (fun t => start_weight t / fold_left Qplus (map start_weight tokens) 0) tokens.",
    ]
    return "\n".join(out) + "\n"


def _power_expr(e):
    """arithmetic over a : Q and k : nat with integer powers (a ** 2, x ** (k - 1))"""
    if isinstance(e, ast.Name) and e.id == "a":
        return "a"
    if isinstance(e, ast.Name) and e.id == "k":
        return "(inject_Z (Z.of_nat k))"
    if isinstance(e, ast.Constant) and isinstance(e.value, int) and not isinstance(e.value, bool):
        return qconst(e.value)
    if isinstance(e, ast.BinOp) and type(e.op) in (ast.Add, ast.Sub, ast.Mult):
        return f"({_power_expr(e.left)} {chr(43) if type(e.op) is ast.Add else chr(45) if type(e.op) is ast.Sub else chr(42)} {_power_expr(e.right)})"
    if isinstance(e, ast.BinOp) and isinstance(e.op, ast.Pow):
        return f"({_power_expr(e.left)} ^ {_zexpr(e.right)})"
    raise Unsupported("mass function expression " + ast.dump(e)[:100])


def _zexpr(e):
    if isinstance(e, ast.Name) and e.id == "k":
        return "(Z.of_nat k)"
    if isinstance(e, ast.Constant) and isinstance(e.value, int) and not isinstance(e.value, bool):
        return f"({e.value})%Z"
    if isinstance(e, ast.BinOp) and type(e.op) in (ast.Add, ast.Sub):
        return f"({_zexpr(e.left)} {chr(43) if type(e.op) is ast.Add else chr(45)} {_zexpr(e.right)})%Z"
    raise Unsupported("exponent " + ast.dump(e)[:100])


if __name__ == "__main__":
    import sys
    base = sys.argv[1] if len(sys.argv) > 1 else "/repo/src/gbigsmiles"
    print(translate_sys(base + "/system.py", base + "/mixture.py"))
    print(translate_sysgen(base + "/system.py"))
    print(translate_core(base + "/core.py"))
    print(translate_gen(base + "/stochastic.py"))
    print(translate_generable(base + "/stochastic.py"))
    print(translate_distlaw(base + "/distribution.py"))
    print(translate_attach(base + "/mol_gen.py"))
    print(translate_rgraph(base + "/molecule.py"))
    print(translate_descr(base + "/bond.py"))
    print(translate_token(base + "/token.py"))
    print(translate_stochparse(base + "/stochastic.py"))
    print(translate_sysparse(base + "/system.py"))
    print(translate_molparse(base + "/molecule.py"))
    print(translate_descrprint(base + "/bond.py"))
    print(translate_printers(base + "/token.py"))
    print(translate_ffsel(base + "/forcefield_helper.py"))
    print(translate_agen(base + "/graph_generate.py"))
    print(translate_agraph(base + "/stochastic_atom_graph.py"))
    print(translate_distparams(base + "/distribution.py"))
    print(translate_prob(base + "/mol_prob.py"))
