"""Fail-closed translator for system.py:_estimate_system_molecular_weight and the two linked setters of mixture.py.

The function is imperative (accumulators, in-place updates of the components), so it is tied in two parts:
  * its SKELETON -- every statement, in order, with the decision expressions and messages cut out -- must be exactly the
    skeleton Model/Sys.v was written against (compared as an ast dump; anything else raises Unsupported);
  * every DECISION expression (what is counted, when the remainder is filled in, what is rejected, when two estimates
    disagree, the guards of the setters) is translated to Gallina over the record of Model/Sys.v; Proofs/SysSrcP.v proves
    each equal to the condition the hand model uses.
So a change of a comparison, a constant, an `is not None` into a truth test, a dropped conjunct ... regenerates a different
predicate and the tie lemma no longer holds; a change of the statement structure is refused.
"""
import ast
from fractions import Fraction


class Unsupported(Exception):
    pass


CMPQ = {ast.Lt: "Qlt_bool {a} {b}", ast.Gt: "Qlt_bool {b} {a}", ast.LtE: "Qle_bool {a} {b}", ast.GtE: "Qle_bool {b} {a}", ast.Eq: "Qeq_bool {a} {b}",
        ast.NotEq: "negb (Qeq_bool {a} {b})"}
CMPZ = {ast.Lt: "Z.ltb {a} {b}", ast.Gt: "Z.ltb {b} {a}", ast.LtE: "Z.leb {a} {b}", ast.GtE: "Z.leb {b} {a}", ast.Eq: "Z.eqb {a} {b}", ast.NotEq: "negb (Z.eqb {a} {b})"}


def qconst(v):
    if isinstance(v, bool) or not isinstance(v, (int, float)):
        raise Unsupported(f"constant {v!r}")
    f = Fraction(repr(v)) if isinstance(v, float) else Fraction(v)
    if f.denominator == 1:
        return f"({f.numerator})" if f.numerator < 0 else f"{f.numerator}"
    return f"({f.numerator} # {f.denominator})"


class Env:
    """names of the Python scope -> (Coq term, type); types: Q, Z (counts), optQ, mix, optmix"""

    def __init__(self, names, attrs, exprs=None):
        self.names = names
        self.attrs = attrs          # dotted attribute path -> (term, type)
        self.exprs = exprs or {}    # exact source text of a sub-expression -> (term, type): library calls with a fixed meaning

    def path(self, e):
        parts = []
        while isinstance(e, ast.Attribute):
            parts.append(e.attr)
            e = e.value
        if isinstance(e, ast.Name):
            parts.append(e.id)
            return ".".join(reversed(parts))
        return None

    def term(self, e):
        """(coq, type)"""
        if ast.unparse(e) in self.exprs:
            return self.exprs[ast.unparse(e)]
        if isinstance(e, ast.Constant):
            if e.value is None:
                return ("None", "none")
            if isinstance(e.value, bool):
                return ("true" if e.value else "false", "bool")
            if isinstance(e.value, int) and not isinstance(e.value, bool):
                return (str(e.value), "lit")
            return (qconst(e.value), "Q")
        p = self.path(e)
        if p is not None:
            if p in self.attrs:
                return self.attrs[p]
            if p in self.names:
                return self.names[p]
            raise Unsupported("name " + p)
        if isinstance(e, ast.Call) and isinstance(e.func, ast.Name) and e.func.id == "len" and len(e.args) == 1 and not e.keywords:
            q = self.path(e.args[0])
            if q is not None and ("len(" + q + ")") in self.names:
                return self.names["len(" + q + ")"]
            raise Unsupported("len of " + ast.dump(e.args[0]))
        if isinstance(e, ast.Call) and isinstance(e.func, ast.Name) and e.func.id == "abs" and len(e.args) == 1 and not e.keywords:
            t, ty = self.term(e.args[0])
            if ty != "Q":
                raise Unsupported("abs of a non-number")
            return (f"(Qabs {t})", "Q")
        if isinstance(e, ast.Subscript) and isinstance(e.value, ast.Name):
            key = ast.unparse(e)
            if key in self.names:
                return self.names[key]
            raise Unsupported("subscript " + key)
        if isinstance(e, ast.BinOp) and type(e.op) in (ast.Add, ast.Sub, ast.Mult, ast.Div):
            (a, ta), (b, tb) = self.term(e.left), self.term(e.right)
            op = {ast.Add: "+", ast.Sub: "-", ast.Mult: "*", ast.Div: "/"}[type(e.op)]
            if "Z" in (ta, tb):
                if type(e.op) is ast.Div or not {ta, tb} <= {"Z", "lit"}:
                    raise Unsupported("arithmetic mixing counts and numbers")
                return (f"({a} {op} {b})%Z", "Z")
            if {ta, tb} <= {"Q", "lit"}:
                return (f"({a} {op} {b})", "Q")
            raise Unsupported(f"arithmetic on {ta}/{tb}")
        raise Unsupported("term " + ast.dump(e)[:120])

    def truth(self, e):
        """Python truth value of an expression as a Coq bool"""
        if ast.unparse(e) in self.exprs and self.exprs[ast.unparse(e)][1] == "bool":
            return self.exprs[ast.unparse(e)][0]
        if isinstance(e, ast.BoolOp):
            op = " && " if isinstance(e.op, ast.And) else " || "
            return "(" + op.join(self.truth(v) for v in e.values) + ")"
        if isinstance(e, ast.UnaryOp) and isinstance(e.op, ast.Not):
            return f"(negb {self.truth(e.operand)})"
        if isinstance(e, ast.Compare) and len(e.ops) == 1:
            (a, ta), (b, tb) = self.term(e.left), self.term(e.comparators[0])
            o = type(e.ops[0])
            if ta == "str" and tb == "str" and o in (ast.Eq, ast.NotEq):
                t = f"(str_eqb {a} {b})"
                return t if o is ast.Eq else f"(negb {t})"
            if o in (ast.Is, ast.IsNot):
                if tb != "none" or not ta.startswith("opt"):
                    raise Unsupported("identity test other than with None")
                t = f"(match {a} with Some _ => false | None => true end)"
                return t if o is ast.Is else f"(negb {t})"
            if "Z" in (ta, tb) and {ta, tb} <= {"Z", "lit"} and o in CMPZ:
                return "(" + CMPZ[o].format(a=a, b=b) + ")%Z"
            if {ta, tb} <= {"Q", "lit"} and "Q" in (ta, tb) and o in CMPQ:
                return "(" + CMPQ[o].format(a=a, b=b) + ")"
            raise Unsupported(f"comparison of {ta} with {tb}")
        if isinstance(e, ast.Compare) and ast.unparse(e) in self.exprs:
            return self.exprs[ast.unparse(e)][0]
        t, ty = self.term(e)
        if ty == "bool":
            return t
        if ty == "Q":
            return f"(truthy {t})"
        if ty == "optQ":
            return f"(otruthy {t})"
        if ty.startswith("opt") and ty != "optQ":   # objects of this library define neither __bool__ nor __len__: truthy iff not None
            return f"(match {t} with Some _ => true | None => false end)"
        raise Unsupported(f"truth value of {ty}")


class Cut(ast.NodeTransformer):
    """replaces the decision expressions (If.test) and all messages by placeholders, records the expressions"""

    def __init__(self, returns=False):
        self.tests = []
        self.returns = returns      # also cut the expressions of `return <expr>` (recorded in self.rets)
        self.rets = []

    def visit_Return(self, node):
        if self.returns and node.value is not None and not isinstance(node.value, (ast.Name, ast.Constant)):
            self.rets.append(node.value)
            return ast.Return(value=ast.Name(id=f"RET{len(self.rets) - 1}", ctx=ast.Load()))
        return node

    def visit_If(self, node):
        self.tests.append(node.test)
        node = ast.If(test=ast.Name(id=f"TEST{len(self.tests) - 1}", ctx=ast.Load()), body=[self.visit(s) for s in node.body], orelse=[self.visit(s) for s in node.orelse])
        return node

    def visit_While(self, node):
        self.tests.append(node.test)
        return ast.While(test=ast.Name(id=f"TEST{len(self.tests) - 1}", ctx=ast.Load()), body=[self.visit(s) for s in node.body], orelse=[self.visit(s) for s in node.orelse])

    def visit_Raise(self, node):
        exc = node.exc
        cls = exc.func.id if isinstance(exc, ast.Call) and isinstance(exc.func, ast.Name) else ast.unparse(exc) if exc is not None else ""
        return ast.Raise(exc=ast.Name(id=cls, ctx=ast.Load()), cause=None)

    def visit_Expr(self, node):
        v = node.value
        if isinstance(v, ast.Constant) and isinstance(v.value, str):
            return ast.Pass()
        if isinstance(v, ast.Call) and isinstance(v.func, ast.Name) and v.func.id == "warn":
            return ast.Expr(value=ast.Name(id="warn", ctx=ast.Load()))
        return self.generic_visit(node)


def same_skeleton(got_text, expected_text):
    """compared as syntax trees (the text form of ast.unparse differs between Python versions)"""
    try:
        return ast.dump(ast.parse(got_text)) == ast.dump(ast.parse(expected_text))
    except SyntaxError:
        return False


def skeleton(fn):
    c = Cut()
    body = [c.visit(s) for s in fn.body]
    return "\n".join(ast.unparse(ast.fix_missing_locations(s)) for s in body if not isinstance(s, ast.Pass)), c.tests


# the skeleton Model/Sys.v (estimate, fill_missing, set_all_sys, consistent) was written against
ESTIMATE_SKELETON = '''estimated_weights = []
if TEST0:
    estimated_weights.append(system_molweight)
num_fractions = 0
total_fraction = 0
total_mass = 0
num_mass = 0
for i in range(len(molecules)):
    mol = molecules[i]
    if TEST1:
        if TEST2:
            total_mass += mol.mixture.absolute_mass
            num_mass += 1
        if TEST3:
            total_fraction += mol.mixture.relative_mass
            num_fractions += 1
if TEST4:
    weight = 100.0 - total_fraction
    if TEST5:
        raise RuntimeError
    total_fraction += weight
    num_fractions += 1
    for mol in molecules:
        if TEST6:
            mol.mixture = Mixture(f'.|{weight}%|')
        if TEST7:
            mol.mixture.relative_mass = weight
if TEST8:
    raise RuntimeError
for mol in molecules:
    if TEST9:
        estimated_weights.append(mol.mixture.system_mass)
if TEST10:
    estimated_weights.append(total_mass)
if TEST11:
    for i in range(len(estimated_weights) - 1):
        if TEST12:
            raise RuntimeError
try:
    system_weight = estimated_weights[0]
except IndexError:
    warn
    return False
for mol in molecules:
    if TEST13:
        warn
        return False
    mol.mixture.system_mass = system_weight
return True'''

SET_REL_SKELETON = '''if TEST0:
    raise RuntimeError
self._relative_mass = fraction
if TEST1:
    self.system_mass = self.absolute_mass / (self.relative_mass / 100)'''

SET_SYS_SKELETON = '''if TEST0:
    raise RuntimeError
self._system_mass = mass
if TEST1:
    self._absolute_mass = self._relative_mass / 100.0 * mass
    return
if TEST2:
    self._relative_mass = 100 * self._absolute_mass / mass
    return'''


def _module_fn(mod, name):
    r = [n for n in mod.body if isinstance(n, ast.FunctionDef) and n.name == name]
    if len(r) != 1:
        raise Unsupported(f"function {name} not found exactly once")
    return r[0]


def _setter(mod, cls, prop):
    c = [n for n in mod.body if isinstance(n, ast.ClassDef) and n.name == cls]
    if len(c) != 1:
        raise Unsupported(f"class {cls}")
    r = [n for n in c[0].body if isinstance(n, ast.FunctionDef) and n.name == prop and any(isinstance(d, ast.Attribute) and d.attr == "setter" for d in n.decorator_list)]
    if len(r) != 1:
        raise Unsupported(f"setter {cls}.{prop}")
    return r[0]


def _getter_is_plain(mod, cls, prop, field):
    """@property def prop(self): return self._field"""
    c = [n for n in mod.body if isinstance(n, ast.ClassDef) and n.name == cls][0]
    r = [n for n in c.body if isinstance(n, ast.FunctionDef) and n.name == prop and any(isinstance(d, ast.Name) and d.id == "property" for d in n.decorator_list)]
    if len(r) != 1:
        raise Unsupported(f"getter {cls}.{prop}")
    body = [s for s in r[0].body if not (isinstance(s, ast.Expr) and isinstance(s.value, ast.Constant))]
    if len(body) != 1 or not isinstance(body[0], ast.Return) or ast.unparse(body[0].value) != f"self.{field}":
        raise Unsupported(f"getter {cls}.{prop} is not `return self.{field}`")


def translate_sys(system_py, mixture_py):
    smod = ast.parse(open(system_py).read())
    fn = _module_fn(smod, "_estimate_system_molecular_weight")
    if [a.arg for a in fn.args.args] != ["molecules", "system_molweight"] or fn.args.defaults or fn.args.kwonlyargs or fn.args.vararg or fn.args.kwarg:
        raise Unsupported("signature of _estimate_system_molecular_weight")
    sk, tests = skeleton(fn)
    if not same_skeleton(sk, ESTIMATE_SKELETON):
        import difflib
        d = [l for l in difflib.unified_diff(ESTIMATE_SKELETON.split("\n"), sk.split("\n"), lineterm="", n=0) if not l.startswith(("---", "+++", "@@"))]
        raise Unsupported("statement skeleton of _estimate_system_molecular_weight changed: " + " / ".join(d[:6]))
    if len(tests) != 14:
        raise Unsupported("number of decisions")
    mixattrs = {"mol.mixture": ("c", "optmix"), "mol.mixture.absolute_mass": ("(x_abs m)", "optQ"), "mol.mixture.relative_mass": ("(x_rel m)", "optQ"),
                "mol.mixture.system_mass": ("(x_sys m)", "optQ")}
    counts = {"num_fractions": ("(Z.of_nat nf)", "Z"), "num_mass": ("(Z.of_nat nm)", "Z"), "len(molecules)": ("(Z.of_nat n)", "Z"), "len(estimated_weights)": ("(Z.of_nat ne)", "Z"),
              "total_fraction": ("totf", "Q"), "weight": ("w", "Q"), "system_molweight": ("s", "Q"),
              "estimated_weights[i]": ("a", "Q"), "estimated_weights[i + 1]": ("b", "Q")}
    env = Env(counts, mixattrs)
    T = [None] * 14
    # inside `if mol.mixture is not None:` / after the None case was handled, m is the mixture
    T[0] = env.truth(tests[0])                      # caller-supplied mass counted
    T[1] = env.truth(tests[1])                      # component has a mixture
    T[2] = env.truth(tests[2])
    T[3] = env.truth(tests[3])
    T[4] = env.truth(tests[4])
    T[5] = env.truth(tests[5])
    T[6] = env.truth(tests[6])
    T[7] = env.truth(tests[7])
    T[8] = env.truth(tests[8])
    T[9] = env.truth(tests[9])
    T[10] = env.truth(tests[10])
    T[11] = env.truth(tests[11])
    T[12] = env.truth(tests[12])
    T[13] = env.truth(tests[13])
    # the remainder: weight = 100.0 - total_fraction (part of the skeleton text above; its constant is read here)
    mmod = ast.parse(open(mixture_py).read())
    for prop, field in (("absolute_mass", "_absolute_mass"), ("relative_mass", "_relative_mass"), ("system_mass", "_system_mass")):
        _getter_is_plain(mmod, "Mixture", prop, field)
    rel = _setter(mmod, "Mixture", "relative_mass")
    sysm = _setter(mmod, "Mixture", "system_mass")
    if [a.arg for a in rel.args.args] != ["self", "fraction"] or [a.arg for a in sysm.args.args] != ["self", "mass"]:
        raise Unsupported("setter signatures")
    skr, tr = skeleton(rel)
    sks, ts = skeleton(sysm)
    if not same_skeleton(skr, SET_REL_SKELETON):
        raise Unsupported("statement skeleton of Mixture.relative_mass.setter changed: " + skr.replace("\n", " / ")[:300])
    if not same_skeleton(sks, SET_SYS_SKELETON):
        raise Unsupported("statement skeleton of Mixture.system_mass.setter changed: " + sks.replace("\n", " / ")[:300])
    selfattrs = {"self.absolute_mass": ("(x_abs m)", "optQ"), "self.relative_mass": ("(x_rel m)", "optQ"), "self.system_mass": ("(x_sys m)", "optQ"),
                 "self._absolute_mass": ("(x_abs m)", "optQ"), "self._relative_mass": ("(x_rel m)", "optQ"), "self._system_mass": ("(x_sys m)", "optQ")}
    envm = Env({"fraction": ("f", "Q"), "mass": ("mass", "Q")}, selfattrs)
    R = [envm.truth(t) for t in tr]
    S = [envm.truth(t) for t in ts]
    out = [
        "(* generated by harness/translate_sys.py from system.py (_estimate_system_molecular_weight) and mixture.py (setters) -- do not edit *)",
        "From Coq Require Import List ZArith QArith Qabs Bool.",
        "From GBS Require Import Model.PyStr Model.Num Model.Bond Model.Sys.",
        "Open Scope Q_scope.",
        "(* the statement skeleton of the three functions is the one Model/Sys.v was written against (checked by the translator); below are",
        "   their decision expressions, in source order *)",
        f"Definition smw_counted (s : Q) : bool := {T[0]}.",
        f"Definition has_mixture (c : comp) : bool := {T[1]}.",
        f"Definition abs_counted (m : mix) : bool := {T[2]}.",
        f"Definition rel_counted (m : mix) : bool := {T[3]}.",
        f"Definition fill_cond (nf n : nat) : bool := {T[4]}.",
        f"Definition weight_bad (w : Q) : bool := {T[5]}.",
        f"Definition fill_new (c : comp) : bool := {T[6]}.",
        f"Definition fill_rel (m : mix) : bool := {T[7]}.",
        f"Definition total_bad (nf n : nat) (totf : Q) : bool := {T[8]}.",
        f"Definition sys_counted (c : comp) (m : mix) : bool := {T[9]}.",
        f"Definition mass_cond (nm n : nat) : bool := {T[10]}.",
        f"Definition several (ne : nat) : bool := {T[11]}.",
        f"Definition disagree (a b : Q) : bool := {T[12]}.",
        f"Definition missing (c : comp) : bool := {T[13]}.",
        "(* Mixture.relative_mass setter: rejected fraction; derive the system mass *)",
        f"Definition rel_rejected (f : Q) : bool := {R[0]}.",
        f"Definition rel_derives (m : mix) : bool := {R[1]}.",
        "(* Mixture.system_mass setter: rejected mass; absolute from relative; relative from absolute *)",
        f"Definition sys_rejected (mass : Q) : bool := {S[0]}.",
        f"Definition sys_abs_from_rel (m : mix) : bool := {S[1]}.",
        f"Definition sys_rel_from_abs (m : mix) : bool := {S[2]}.",
    ]
    return "\n".join(out) + "\n"


GENERABLE_SKELETON = '''if TEST0:
    return False
for mol in self._molecules:
    if TEST1:
        return False
return True'''

SYSTEM_MASS_SKELETON = '''if TEST0:
    raise ValueError
if TEST1:
    raise ValueError
system_mass = self._molecules[0].mixture.system_mass
for mol in self._molecules:
    if TEST2:
        raise RuntimeError
return system_mass'''

GENERATOR_SKELETON = '''if TEST0:
    raise RuntimeError
relative_fractions = [mol.mixture.relative_mass for mol in self._molecules]
generated_total_mass = 0
while TEST1:
    mol_idx = rng.choice(range(len(relative_fractions)), p=relative_fractions / np.sum(relative_fractions))
    mol = self._molecules[mol_idx]
    mol_gen = mol.generate(rng=rng)
    generated_total_mass += mol_gen.weight
    if TEST2:
        raise RuntimeError
    yield mol_gen'''

GENERATE_SKELETON = '''if TEST0:
    raise RuntimeError
relative_fractions = [mol.mixture.relative_mass for mol in self._molecules]
mol_idx = rng.choice(range(len(relative_fractions)), p=relative_fractions / np.sum(relative_fractions))
mol = self._molecules[mol_idx]
if TEST1:
    raise RuntimeError
mol_gen = mol.generate(rng=rng)
if TEST2:
    raise RuntimeError
return mol_gen'''


def _method(cls, name, deco):
    r = [n for n in cls.body if isinstance(n, ast.FunctionDef) and n.name == name and [ast.unparse(d) for d in n.decorator_list] == deco]
    if len(r) != 1:
        raise Unsupported(f"method System.{name} with decorators {deco}")
    return r[0]


def translate_sysgen(system_py):
    """System.generable / system_mass / generator / generate: checked skeletons + decision expressions -> Src/SrcSysGen.v"""
    smod = ast.parse(open(system_py).read())
    c = [n for n in smod.body if isinstance(n, ast.ClassDef) and n.name == "System"]
    if len(c) != 1:
        raise Unsupported("class System")
    cls = c[0]
    want = [("generable", ["property"], ["self"], [], GENERABLE_SKELETON, 2), ("system_mass", ["property"], ["self"], [], SYSTEM_MASS_SKELETON, 3),
            ("generator", ["property"], ["self", "rng"], ["_GLOBAL_RNG"], GENERATOR_SKELETON, 3), ("generate", [], ["self", "prefix", "rng"], ["None", "_GLOBAL_RNG"], GENERATE_SKELETON, 3)]
    tests = {}
    for name, deco, args, defaults, skel, nt in want:
        fn = _method(cls, name, deco)
        if [a.arg for a in fn.args.args] != args or [ast.unparse(d) for d in fn.args.defaults] != defaults or fn.args.kwonlyargs or fn.args.vararg or fn.args.kwarg:
            raise Unsupported(f"signature of System.{name}")
        sk, ts = skeleton(fn)
        if not same_skeleton(sk, skel):
            import difflib
            d = [l for l in difflib.unified_diff(skel.split("\n"), sk.split("\n"), lineterm="", n=0) if not l.startswith(("---", "+++", "@@"))]
            raise Unsupported(f"statement skeleton of System.{name} changed: " + " / ".join(d[:6]))
        if len(ts) != nt:
            raise Unsupported(f"number of decisions in System.{name}")
        tests[name] = ts
    env = Env({"len(self._molecules)": ("(Z.of_nat n)", "Z"), "generated_total_mass": ("acc", "Q"), "system_mass": ("s0", "Q")},
              {"self._generable": ("flag", "bool"), "mol.generable": ("g", "bool"), "self.generable": ("generable", "bool"), "mol_gen.fully_generated": ("full", "bool"),
               "self.system_mass": ("S", "Q"), "mol.mixture.system_mass": ("si", "Q")})
    G, M, I, O = (tests[k] for k in ("generable", "system_mass", "generator", "generate"))
    out = [
        "(* generated by harness/translate_sys.py from system.py (System.generable, system_mass, generator, generate) -- do not edit *)",
        "From Coq Require Import List ZArith QArith Qabs Bool.",
        "From GBS Require Import Model.PyStr Model.Num Model.Bond Model.Sys.",
        "Open Scope Q_scope.",
        "(* the statement skeletons of the four methods are the ones Model/SysGen.v was written against (checked by the translator): component picked",
        "   with p = relative masses / their sum, generate, add the mass, require full generation, yield.  Below: their decision expressions *)",
        f"Definition gen_flag_bad (flag : bool) : bool := {env.truth(G[0])}.",
        f"Definition gen_mol_bad (g : bool) : bool := {env.truth(G[1])}.",
        f"Definition mass_refused (generable : bool) : bool := {env.truth(M[0])}.",
        f"Definition mass_empty (n : nat) : bool := {env.truth(M[1])}.",
        f"Definition mass_inconsistent (s0 si : Q) : bool := {env.truth(M[2])}.",
        f"Definition iter_refused (generable : bool) : bool := {env.truth(I[0])}.",
        f"Definition iter_continues (acc S : Q) : bool := {env.truth(I[1])}.",
        f"Definition iter_member_bad (full : bool) : bool := {env.truth(I[2])}.",
        f"Definition single_refused (generable : bool) : bool := {env.truth(O[0])}.",
        f"Definition single_mol_bad (g : bool) : bool := {env.truth(O[1])}.",
        f"Definition single_member_bad (full : bool) : bool := {env.truth(O[2])}.",
    ]
    return "\n".join(out) + "\n"


COMPAT_IDS_SKELETON = '''compatible_idx = []
for (i, other) in enumerate(bond_descriptors):
    if TEST0:
        compatible_idx.append(i)
return np.asarray(compatible_idx, dtype=int)'''

CHOOSE_SKELETON = '''weights = []
compatible_idx = get_compatible_bond_descriptor_ids(bond_descriptors, bond)
for i in compatible_idx:
    weights.append(bond_descriptors[i].weight)
weights = np.asarray(weights)
if TEST0:
    weights += 1
weights /= np.sum(weights)
try:
    idx = rng.choice(compatible_idx, p=weights)
except ValueError as exc:
    warn
    raise exc
return idx'''

BASE_GENERATE_SKELETON = '''if TEST0:
    raise RuntimeError
if TEST1:
    if TEST2:
        raise RuntimeError'''


def _check_fn(fn, args, defaults, skel, nt, what):
    if [a.arg for a in fn.args.args] != args or [ast.unparse(d) for d in fn.args.defaults] != defaults or fn.args.kwonlyargs or fn.args.vararg or fn.args.kwarg:
        raise Unsupported(f"signature of {what}")
    sk, ts = skeleton(fn)
    if not same_skeleton(sk, skel):
        import difflib
        d = [l for l in difflib.unified_diff(skel.split("\n"), sk.split("\n"), lineterm="", n=0) if not l.startswith(("---", "+++", "@@"))]
        raise Unsupported(f"statement skeleton of {what} changed: " + " / ".join(d[:6]))
    if len(ts) != nt:
        raise Unsupported(f"number of decisions in {what}")
    return ts


def translate_core(core_py):
    """core.py: candidate filter, the selection law's +1 rule, the guards of BigSMILESbase.generate -> Src/SrcCore.v"""
    mod = ast.parse(open(core_py).read())
    ids = _check_fn(_module_fn(mod, "get_compatible_bond_descriptor_ids"), ["bond_descriptors", "bond"], [], COMPAT_IDS_SKELETON, 1, "get_compatible_bond_descriptor_ids")
    ch = _check_fn(_module_fn(mod, "choose_compatible_weight"), ["bond_descriptors", "bond", "rng"], [], CHOOSE_SKELETON, 1, "choose_compatible_weight")
    c = [n for n in mod.body if isinstance(n, ast.ClassDef) and n.name == "BigSMILESbase"]
    if len(c) != 1:
        raise Unsupported("class BigSMILESbase")
    bg = _check_fn(_method(c[0], "generate", []), ["self", "prefix", "rng"], ["None", "_GLOBAL_RNG"], BASE_GENERATE_SKELETON, 3, "BigSMILESbase.generate")
    env = Env({"len(compatible_idx)": ("(Z.of_nat (List.length idx))", "Z"), "len(prefix.bond_descriptors)": ("(Z.of_nat nopen)", "Z")},
              {"bond": ("bond", "optdescr"), "self.generable": ("generable", "bool"), "prefix": ("has_prefix", "bool")},
              {"bond is None": ("(match bond with Some _ => false | None => true end)", "bool"),
               "bond.is_compatible(other)": ("(match bond with Some b => is_compatible b other | None => false end)", "bool"),
               # numpy: element-wise equality with the first weight, all of them
               "np.all(weights == weights[0])": ("(match w with [] => true | x :: _ => all_eqb x w end)", "bool")})
    out = [
        "(* generated by harness/translate_sys.py from core.py (get_compatible_bond_descriptor_ids, choose_compatible_weight, BigSMILESbase.generate) -- do not edit *)",
        "From Coq Require Import List ZArith QArith Bool.",
        "From GBS Require Import Model.PyStr Model.Num Model.Bond Model.Select Src.SrcBond.",
        "Import ListNotations. Open Scope Q_scope.",
        "(* is_compatible below is the function regenerated from bond.py (Src/SrcBond.v) *)",
        f"Definition is_candidate (bond : option descr) (other : descr) : bool := {env.truth(ids[0])}.",
        f"Definition bump_cond (idx : list nat) (w : list Q) : bool := {env.truth(ch[0])}.",
        f"Definition base_refused (generable : bool) : bool := {env.truth(bg[0])}.",
        f"Definition base_has_prefix (has_prefix : bool) : bool := {env.truth(bg[1])}.",
        f"Definition base_prefix_bad (nopen : nat) : bool := {env.truth(bg[2])}.",
    ]
    return "\n".join(out) + "\n"


STOCH_GENERATE_SKELETON = '''def get_start():
    my_mol = prefix
    if TEST0:
        if TEST1:
            raise RuntimeError
        try:
            end_bond_idx = choose_compatible_weight(self.end_bonds, None, rng)
        except ValueError as exc:
            warn
            raise exc
        start_token = self.end_tokens[self.end_bond_token_idx[end_bond_idx]]
        if TEST2:
            raise RuntimeError
        my_mol = MolGen(start_token)
    else:
        if TEST3:
            raise RuntimeError
        if TEST4:
            raise RuntimeError
        prefix.bond_descriptors[0].transitions = self.left_terminal.transitions
        prefix.bond_descriptors[0].weight = self.left_terminal.weight
    return my_mol
def generate_repeat_units_and_finalize(my_mol):

    def add_repeat_unit(my_mol):
        starting_bond_idx = choose_compatible_weight(my_mol.bond_descriptors, None, rng)
        starting_bond = my_mol.bond_descriptors[starting_bond_idx]
        if TEST5:
            prob = starting_bond.transitions / starting_bond.weight
            connecting_bond_idx = rng.choice(range(len(prob)), p=prob)
        else:
            connecting_bond_idx = choose_compatible_weight(self.repeat_bonds, starting_bond, rng)
        if TEST6:
            token = self.repeat_tokens[self.repeat_bond_token_idx[connecting_bond_idx]]
            connecting_bond = self.repeat_bonds[connecting_bond_idx]
        else:
            connecting_bond_idx -= len(self.repeat_bonds)
            connecting_bond = self.end_bonds[connecting_bond_idx]
            token = self.end_tokens[self.end_bond_token_idx[connecting_bond_idx]]
        connecting_bond_idx = token.bond_descriptors.index(connecting_bond)
        new_mol = MolGen(token)
        my_mol = my_mol.attach_other(starting_bond_idx, new_mol, connecting_bond_idx)
        return my_mol
    starting_mol_weight = rdDescriptors.HeavyAtomMolWt(my_mol.mol)
    target_mol_weight = self.distribution.draw_mw(rng)
    while TEST7:
        my_mol = add_repeat_unit(my_mol)
        if TEST8:
            warn
            finalized_my_mol = my_mol
            break
        finalized_my_mol = finalize_mol(copy.deepcopy(my_mol))
        if TEST9:
            break
    return finalized_my_mol
def finalize_mol(my_mol):
    terminal_bond = None
    if TEST10:
        invert_text = _create_compatible_bond_text(self.right_terminal)
        invert_terminal = BondDescriptor(invert_text, 0, '', None)
        terminal_bond_idx = choose_compatible_weight(my_mol.bond_descriptors, invert_terminal, rng)
        terminal_bond = my_mol.bond_descriptors[terminal_bond_idx]
        del my_mol.bond_descriptors[terminal_bond_idx]
    while TEST11:
        starting_bond_idx = choose_compatible_weight(my_mol.bond_descriptors, None, rng)
        starting_bond = my_mol.bond_descriptors[starting_bond_idx]
        connecting_bond_idx = choose_compatible_weight(self.end_bonds, starting_bond, rng)
        token = self.end_tokens[self.end_bond_token_idx[connecting_bond_idx]]
        connecting_bond = self.end_bonds[connecting_bond_idx]
        connecting_bond_idx = token.bond_descriptors.index(connecting_bond)
        new_mol = MolGen(token)
        my_mol = my_mol.attach_other(starting_bond_idx, new_mol, connecting_bond_idx)
    if TEST12:
        my_mol.bond_descriptors.append(terminal_bond)
    return my_mol
super().generate(prefix, rng)
my_mol = get_start()
my_mol = generate_repeat_units_and_finalize(my_mol)
return my_mol'''

STOCH_GENERABLE_SKELETON = '''for bond in self.bond_descriptors:
    if TEST0:
        return False
for token in self.repeat_tokens + self.end_tokens:
    if TEST1:
        return False
if TEST2:
    return False
if TEST3:
    return False
return self._generable'''

TOKEN_GENERABLE_SKELETON = '''for bond in self.bond_descriptors:
    if TEST0:
        return False
return True'''

MOLECULE_GENERABLE_SKELETON = '''if TEST0:
    if TEST1:
        return False
for ele in self._elements:
    if TEST2:
        return False
return True'''

MOLECULE_GENERATE_SKELETON = '''my_mol = prefix
for element in self._elements:
    my_mol = element.generate(my_mol, rng)
return my_mol'''

TOKEN_GENERATE_SKELETON = '''super().generate(prefix, rng)
my_mol = MolGen(self)
if TEST0:
    my_idx = choose_compatible_weight(my_mol.bond_descriptors, prefix.bond_descriptors[0], rng)
    my_mol = prefix.attach_other(0, my_mol, my_idx)
return my_mol'''


def _class(mod, name):
    c = [n for n in mod.body if isinstance(n, ast.ClassDef) and n.name == name]
    if len(c) != 1:
        raise Unsupported("class " + name)
    return c[0]


def translate_gen(stochastic_py):
    return _translate_gen_both(stochastic_py, "gen")


def translate_generable(stochastic_py):
    return _translate_gen_both(stochastic_py, "generable")


def _translate_gen_both(stochastic_py, which):
    """Stochastic.generate, SmilesToken.generate, Molecule.generate -> Src/SrcGen.v; the generable chain -> Src/SrcGenerable.v.
    Each half checks only its own skeletons."""
    import os
    d = os.path.dirname(stochastic_py)
    smod = ast.parse(open(stochastic_py).read())
    tmod = ast.parse(open(os.path.join(d, "token.py")).read())
    bmod = ast.parse(open(os.path.join(d, "bond.py")).read())
    mmod = ast.parse(open(os.path.join(d, "molecule.py")).read())
    st = _class(smod, "Stochastic")
    tk = _class(tmod, "SmilesToken")
    ml = _class(mmod, "Molecule")
    env = Env({"len(start_token.bond_descriptors)": ("(Z.of_nat ntok)", "Z"), "len(prefix.bond_descriptors)": ("(Z.of_nat nopen)", "Z"),
               "len(my_mol.bond_descriptors)": ("(Z.of_nat nopen)", "Z"), "len(self.repeat_bonds)": ("(Z.of_nat nrep)", "Z"), "connecting_bond_idx": ("(Z.of_nat k)", "Z"),
               "starting_mol_weight": ("start", "Q"), "target_mol_weight": ("T", "Q")},
              {"my_mol": ("prefix", "optmolgen"), "starting_bond.transitions": ("(d_trans sb)", "optlist"), "terminal_bond": ("term", "optobd"),
               "bond.generable": ("gb", "bool"), "token.generable": ("gt", "bool"), "self.distribution": ("dist", "optdist"), "self.distribution.generable": ("gd", "bool"),
               "self.mixture": ("mix", "optmix"), "self.mixture.generable": ("gm", "bool"), "ele.generable": ("ge", "bool"), "prefix": ("prefix", "optmolgen")},
              {"str(self.left_terminal) != '[]'": ("(negb (is_empty_terminal (s_left s)))", "bool"),          # str(d) == "[]" iff d is the empty terminal (Model/Gen.v)
               "str(self.right_terminal) != '[]'": ("(negb (is_empty_terminal (s_right s)))", "bool"),
               "prefix.bond_descriptors[0].generate_string(False)": ("(print_noext a)", "str"),
               "self.left_terminal.generate_string(False)": ("(print_noext (s_left s))", "str"),
               "rdDescriptors.HeavyAtomMolWt(my_mol.mol)": ("mass", "Q")})
    if which == "gen":
        g = _check_fn(_method(st, "generate", []), ["self", "prefix", "rng"], ["None", "_GLOBAL_RNG"], STOCH_GENERATE_SKELETON, 13, "Stochastic.generate")
        tgen = _check_fn(_method(tk, "generate", []), ["self", "prefix", "rng"], ["None", "_GLOBAL_RNG"], TOKEN_GENERATE_SKELETON, 1, "SmilesToken.generate")
        _check_fn(_method(ml, "generate", []), ["self", "prefix", "rng"], ["None", "_GLOBAL_RNG"], MOLECULE_GENERATE_SKELETON, 0, "Molecule.generate")
        return _emit_gen([env.truth(t) for t in g], [env.truth(t) for t in tgen])
    sg = _check_fn(_method(st, "generable", ["property"]), ["self"], [], STOCH_GENERABLE_SKELETON, 4, "Stochastic.generable")
    tg = _check_fn(_method(tk, "generable", ["property"]), ["self"], [], TOKEN_GENERABLE_SKELETON, 1, "SmilesToken.generable")
    mg = _check_fn(_method(ml, "generable", ["property"]), ["self"], [], MOLECULE_GENERABLE_SKELETON, 3, "Molecule.generable")
    bd = _method(_class(bmod, "BondDescriptor"), "generable", ["property"])
    body = [x for x in bd.body if not (isinstance(x, ast.Expr) and isinstance(x.value, ast.Constant))]
    if [a.arg for a in bd.args.args] != ["self"] or len(body) != 1 or not isinstance(body[0], ast.Return):
        raise Unsupported("BondDescriptor.generable is not a single return")
    envb = Env({}, {}, {"self.weight >= 0": ("(num_ge0 (d_weight d))", "bool")})      # Python float comparison: NaN compares false (Model/Num.v)
    bgen = envb.truth(body[0].value)
    return _emit_generable(bgen, [env.truth(t) for t in tg], [env.truth(t) for t in sg], [env.truth(t) for t in mg])


def _emit_gen(T, TGEN):
    out = [
        "(* generated by harness/translate_sys.py from stochastic.py, token.py, molecule.py (generate) -- do not edit *)",
        "From Coq Require Import List ZArith QArith Bool.",
        "From GBS Require Import Model.PyStr Model.Num Model.Bond Model.Select Model.Sys Model.Gen.",
        "Import ListNotations. Open Scope Q_scope.",
        "(* the statement skeletons of these methods are the ones Model/Gen.v was written against (checked by the translator); their decisions: *)",
        f"Definition no_prefix (prefix : option molgen) : bool := {T[0]}.",
        f"Definition left_expects_prefix (s : gstoch) : bool := {T[1]}.",
        f"Definition start_token_bad (ntok : nat) : bool := {T[2]}.",
        f"Definition prefix_open_bad (nopen : nat) : bool := {T[3]}.",
        f"Definition prefix_mismatch (a : descr) (s : gstoch) : bool := {T[4]}.",
        f"Definition has_list (sb : descr) : bool := {T[5]}.",
        f"Definition is_repeat_pick (k nrep : nat) : bool := {T[6]}.",
        f"Definition growth_loops : bool := {T[7]}.",
        f"Definition closed_by_growth (nopen : nat) : bool := {T[8]}.",
        f"Definition mass_exceeded (mass start T : Q) : bool := {T[9]}.",
        f"Definition right_expects_suffix (s : gstoch) : bool := {T[10]}.",
        f"Definition cap_continues (nopen : nat) : bool := {T[11]}.",
        f"Definition reinsert (term : option obd) : bool := {T[12]}.",
        f"Definition token_has_prefix (prefix : option molgen) : bool := {TGEN[0]}.",
    ]
    return "\n".join(out) + "\n"


def _emit_generable(bgen, TG, SG, MG):
    out = [
        "(* generated by harness/translate_sys.py from bond.py, token.py, stochastic.py, molecule.py (generable) -- do not edit *)",
        "From Coq Require Import List ZArith QArith Bool.",
        "From GBS Require Import Model.PyStr Model.Num Model.Bond.",
        "Import ListNotations.",
        "(* generable: descriptor, token, stochastic object, molecule (statement skeletons checked by the translator) *)",
        f"Definition descr_generable_src (d : descr) : bool := {bgen}.",
        f"Definition tok_bond_bad (gb : bool) : bool := {TG[0]}.",
        f"Definition stoch_bond_bad (gb : bool) : bool := {SG[0]}.",
        f"Definition stoch_token_bad (gt : bool) : bool := {SG[1]}.",
        f"Definition stoch_no_dist {{D}} (dist : option D) : bool := {SG[2]}.",
        f"Definition stoch_dist_bad (gd : bool) : bool := {SG[3]}.",
        f"Definition mol_has_mixture {{M}} (mix : option M) : bool := {MG[0]}.",
        f"Definition mol_mixture_bad (gm : bool) : bool := {MG[1]}.",
        f"Definition mol_element_bad (ge : bool) : bool := {MG[2]}.",
    ]
    return "\n".join(out) + "\n"


def skeleton_r(fn):
    c = Cut(returns=True)
    body = [c.visit(s) for s in fn.body]
    return "\n".join(ast.unparse(ast.fix_missing_locations(s)) for s in body if not isinstance(s, ast.Pass)), c.tests, c.rets


PROB_INTERVAL_SKELETON = '''if TEST0:
    return RET0
return RET1'''

PROB_BASE_SKELETON = '''if TEST0:
    raise NotImplementedError
if TEST1:
    return RET0
return RET1'''

PROB_GAUSS_SKELETON = '''if TEST0:
    return 1.0
return RET0'''

PROB_POISSON_SKELETON = '''try:
    return RET0
except AttributeError:
    return RET1'''

DRAW_SKELETON = '''if TEST0:
    rng = _GLOBAL_RNG
return RET0'''

DRAW_BASE_SKELETON = '''if TEST0:
    raise NotImplementedError
if TEST1:
    rng = _GLOBAL_RNG
return RET0'''


def translate_distlaw(distribution_py):
    """distribution.py: the interval rule of prob_mw in every class, the point rule, the arguments handed to scipy by draw_mw,
    the Flory-Schulz mass function and the Schulz-Zimm shape parameter -> Src/SrcDistLaw.v"""
    mod = ast.parse(open(distribution_py).read())
    RA = "isinstance(mw, gbigsmiles.mol_prob.RememberAdd)"
    out = [
        "(* generated by harness/translate_sys.py from distribution.py (prob_mw, draw_mw, flory_schulz_gen._pmf, SchulzZimm.__init__) -- do not edit *)",
        "From Coq Require Import List ZArith QArith Qabs Bool.",
        "From GBS Require Import Model.PyStr Model.Num Model.Bond Model.Sys.",
        "Open Scope Q_scope.",
        "(* cdf / point: the scipy law of the object with the object's own parameters (the keyword arguments are checked to be the object's",
        "   fields, the same on both calls); previous / value: the two ends kept by RememberAdd *)",
    ]

    def method(cname, name):
        r = [n for n in _class(mod, cname).body if isinstance(n, ast.FunctionDef) and n.name == name]
        if len(r) != 1:
            raise Unsupported(f"{cname}.{name}")
        return r[0]

    def shaped(fn, args, defaults, skel, nt, nr, what):
        if [a.arg for a in fn.args.args] != args or [ast.unparse(d) for d in fn.args.defaults] != defaults:
            raise Unsupported("signature of " + what)
        sk, ts, rs = skeleton_r(fn)
        if not same_skeleton(sk, skel) or len(ts) != nt or len(rs) != nr:
            raise Unsupported(f"statement skeleton of {what} changed: " + sk.replace("\n", " / ")[:200])
        return ts, rs

    kw = {"Distribution": "", "FlorySchulz": ", a=self._a", "SchulzZimm": ", z=self._z, Mn=self._Mn", "LogNormal": ", M=self._M, D=self._D"}
    point = {"Distribution": "self._distribution.pdf(mw)", "FlorySchulz": "self._distribution.pmf(int(mw), a=self._a)",
             "SchulzZimm": "self._distribution.pmf(int(mw), z=self._z, Mn=self._Mn)", "LogNormal": "self._distribution.pdf(mw, M=self._M, D=self._D)"}
    for cname, k in kw.items():
        fn = method(cname, "prob_mw")
        if cname == "Distribution":
            ts, rs = shaped(fn, ["self", "mw"], [], PROB_BASE_SKELETON, 2, 2, cname + ".prob_mw")
            if [ast.unparse(t) for t in ts] != ["self._distribution is None", RA]:
                raise Unsupported("decisions of Distribution.prob_mw")
        else:
            ts, rs = shaped(fn, ["self", "mw"], [], PROB_INTERVAL_SKELETON, 1, 2, cname + ".prob_mw")
            if [ast.unparse(t) for t in ts] != [RA]:
                raise Unsupported(f"decision of {cname}.prob_mw")
        env = Env({}, {}, {f"self._distribution.cdf(mw.value{k})": ("(cdf value)", "Q"), f"self._distribution.cdf(mw.previous{k})": ("(cdf previous)", "Q"),
                           point[cname]: ("point", "Q")})
        t0, ty0 = env.term(rs[0])
        t1, ty1 = env.term(rs[1])
        if ty0 != "Q" or ty1 != "Q":
            raise Unsupported("interval rule type")
        out.append(f"Definition interval_{cname} (cdf : Q -> Q) (previous value : Q) : Q := {t0}.")
        out.append(f"Definition point_{cname} (point : Q) : Q := {t1}.")
    # Gauss: the shortcut decision; Poisson: the base rule, with the point mass as fallback
    ts, rs = shaped(method("Gauss", "prob_mw"), ["self", "mw"], [], PROB_GAUSS_SKELETON, 1, 1, "Gauss.prob_mw")
    if ast.unparse(rs[0]) != "super().prob_mw(mw)":
        raise Unsupported("Gauss.prob_mw does not defer to the base rule")
    envg = Env({"mw": ("mw", "Q")}, {"self._sigma": ("sigma", "Q"), "self._mu": ("mu", "Q")})
    out.append(f"Definition gauss_shortcut (mu sigma mw : Q) : bool := {envg.truth(ts[0])}.")
    ts, rs = shaped(method("Poisson", "prob_mw"), ["self", "mw"], [], PROB_POISSON_SKELETON, 0, 2, "Poisson.prob_mw")
    if [ast.unparse(r) for r in rs] != ["super().prob_mw(mw)", "self._distribution.pmf(int(mw))"]:
        raise Unsupported("Poisson.prob_mw")
    # draw_mw: one call of rvs with the object's own parameters and the caller's generator
    draws = {"Distribution": ("self._distribution.rvs(random_state=rng)", DRAW_BASE_SKELETON, ["self._distribution is None", "rng is None"]),
             "FlorySchulz": ("self._distribution.rvs(a=self._a, random_state=rng)", DRAW_SKELETON, ["rng is None"]),
             "SchulzZimm": ("self._distribution.rvs(z=self._z, Mn=self._Mn, random_state=rng)", DRAW_SKELETON, ["rng is None"]),
             "LogNormal": ("self._distribution.rvs(M=self._M, D=self._D, random_state=rng)", DRAW_SKELETON, ["rng is None"])}
    for cname, (call, skel, tests) in draws.items():
        ts, rs = shaped(method(cname, "draw_mw"), ["self", "rng"], ["None"], skel, len(tests), 1, cname + ".draw_mw")
        if [ast.unparse(t) for t in ts] != tests or ast.unparse(rs[0]) != call:
            raise Unsupported(f"{cname}.draw_mw does not draw once with the object's parameters and the caller's generator")
    for cname in ("Gauss", "Uniform", "Poisson"):
        if any(isinstance(n, ast.FunctionDef) and n.name == "draw_mw" for n in _class(mod, cname).body):
            raise Unsupported(f"{cname} overrides draw_mw")
    # Flory-Schulz mass function
    gen = [n for n in _class(mod, "FlorySchulz").body if isinstance(n, ast.ClassDef) and n.name == "flory_schulz_gen"]
    if len(gen) != 1:
        raise Unsupported("flory_schulz_gen")
    pmf = [n for n in gen[0].body if isinstance(n, ast.FunctionDef) and n.name == "_pmf"]
    body = [x for x in pmf[0].body if not (isinstance(x, ast.Expr) and isinstance(x.value, ast.Constant))] if len(pmf) == 1 else []
    if len(body) != 1 or not isinstance(body[0], ast.Return) or [a.arg for a in pmf[0].args.args] != ["self", "k", "a"]:
        raise Unsupported("flory_schulz_gen._pmf")
    out.append(f"Definition fs_pmf_src (a : Q) (k : nat) : Q := {_power_expr(body[0].value)}.")
    # Schulz-Zimm shape parameter
    init = method("SchulzZimm", "__init__")
    zs = [n for n in init.body if isinstance(n, ast.Assign) and len(n.targets) == 1 and ast.unparse(n.targets[0]) == "self._z"]
    if len(zs) != 1:
        raise Unsupported("SchulzZimm.__init__: assignment of self._z")
    envz = Env({}, {"self._Mn": ("Mn", "Q"), "self._Mw": ("Mw", "Q")})
    tz, tyz = envz.term(zs[0].value)
    out.append(f"Definition sz_shape (Mw Mn : Q) : Q := {tz}.")
    return "\n".join(out) + "\n"


def _power_expr(e):
    """arithmetic over a : Q and k : nat with integer powers (a ** 2, x ** (k - 1))"""
    if isinstance(e, ast.Name) and e.id == "a":
        return "a"
    if isinstance(e, ast.Name) and e.id == "k":
        return "(inject_Z (Z.of_nat k))"
    if isinstance(e, ast.Constant) and isinstance(e.value, int) and not isinstance(e.value, bool):
        return qconst(e.value)
    if isinstance(e, ast.BinOp) and type(e.op) in (ast.Add, ast.Sub, ast.Mult):
        return f"({_power_expr(e.left)} {chr(43) if type(e.op) is ast.Add else chr(45) if type(e.op) is ast.Sub else chr(42)} {_power_expr(e.right)})"
    if isinstance(e, ast.BinOp) and isinstance(e.op, ast.Pow):
        return f"({_power_expr(e.left)} ^ {_zexpr(e.right)})"
    raise Unsupported("mass function expression " + ast.dump(e)[:100])


def _zexpr(e):
    if isinstance(e, ast.Name) and e.id == "k":
        return "(Z.of_nat k)"
    if isinstance(e, ast.Constant) and isinstance(e.value, int) and not isinstance(e.value, bool):
        return f"({e.value})%Z"
    if isinstance(e, ast.BinOp) and type(e.op) in (ast.Add, ast.Sub):
        return f"({_zexpr(e.left)} {chr(43) if type(e.op) is ast.Add else chr(45)} {_zexpr(e.right)})%Z"
    raise Unsupported("exponent " + ast.dump(e)[:100])


if __name__ == "__main__":
    import sys
    base = sys.argv[1] if len(sys.argv) > 1 else "/repo/src/gbigsmiles"
    print(translate_sys(base + "/system.py", base + "/mixture.py"))
    print(translate_sysgen(base + "/system.py"))
    print(translate_core(base + "/core.py"))
    print(translate_gen(base + "/stochastic.py"))
    print(translate_generable(base + "/stochastic.py"))
    print(translate_distlaw(base + "/distribution.py"))
