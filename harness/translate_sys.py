"""Fail-closed translator for system.py:_estimate_system_molecular_weight and the two linked setters of mixture.py.

The function is imperative (accumulators, in-place updates of the components), so it is tied in two parts:
  * its SKELETON -- every statement, in order, with the decision expressions and messages cut out -- must be exactly the
    skeleton Model/Sys.v was written against (compared as an ast dump; anything else raises Unsupported);
  * every DECISION expression (what is counted, when the remainder is filled in, what is rejected, when two estimates
    disagree, the guards of the setters) is translated to Gallina over the record of Model/Sys.v; Proofs/SysSrcP.v proves
    each equal to the condition the hand model uses.
So a change of a comparison, a constant, an `is not None` into a truth test, a dropped conjunct ... regenerates a different
predicate and the tie lemma no longer holds; a change of the statement structure is refused.
"""
import ast
from fractions import Fraction


class Unsupported(Exception):
    pass


CMPQ = {ast.Lt: "Qlt_bool {a} {b}", ast.Gt: "Qlt_bool {b} {a}", ast.LtE: "Qle_bool {a} {b}", ast.GtE: "Qle_bool {b} {a}", ast.Eq: "Qeq_bool {a} {b}",
        ast.NotEq: "negb (Qeq_bool {a} {b})"}
CMPZ = {ast.Lt: "Z.ltb {a} {b}", ast.Gt: "Z.ltb {b} {a}", ast.LtE: "Z.leb {a} {b}", ast.GtE: "Z.leb {b} {a}", ast.Eq: "Z.eqb {a} {b}", ast.NotEq: "negb (Z.eqb {a} {b})"}


def qconst(v):
    if isinstance(v, bool) or not isinstance(v, (int, float)):
        raise Unsupported(f"constant {v!r}")
    f = Fraction(repr(v)) if isinstance(v, float) else Fraction(v)
    if f.denominator == 1:
        return f"({f.numerator})" if f.numerator < 0 else f"{f.numerator}"
    return f"({f.numerator} # {f.denominator})"


class Env:
    """names of the Python scope -> (Coq term, type); types: Q, Z (counts), optQ, mix, optmix"""

    def __init__(self, names, attrs):
        self.names = names
        self.attrs = attrs          # dotted attribute path -> (term, type)

    def path(self, e):
        parts = []
        while isinstance(e, ast.Attribute):
            parts.append(e.attr)
            e = e.value
        if isinstance(e, ast.Name):
            parts.append(e.id)
            return ".".join(reversed(parts))
        return None

    def term(self, e):
        """(coq, type)"""
        if isinstance(e, ast.Constant):
            if e.value is None:
                return ("None", "none")
            if isinstance(e.value, int) and not isinstance(e.value, bool):
                return (str(e.value), "lit")
            return (qconst(e.value), "Q")
        p = self.path(e)
        if p is not None:
            if p in self.attrs:
                return self.attrs[p]
            if p in self.names:
                return self.names[p]
            raise Unsupported("name " + p)
        if isinstance(e, ast.Call) and isinstance(e.func, ast.Name) and e.func.id == "len" and len(e.args) == 1 and not e.keywords:
            q = self.path(e.args[0])
            if q is not None and ("len(" + q + ")") in self.names:
                return self.names["len(" + q + ")"]
            raise Unsupported("len of " + ast.dump(e.args[0]))
        if isinstance(e, ast.Call) and isinstance(e.func, ast.Name) and e.func.id == "abs" and len(e.args) == 1 and not e.keywords:
            t, ty = self.term(e.args[0])
            if ty != "Q":
                raise Unsupported("abs of a non-number")
            return (f"(Qabs {t})", "Q")
        if isinstance(e, ast.Subscript) and isinstance(e.value, ast.Name):
            key = ast.unparse(e)
            if key in self.names:
                return self.names[key]
            raise Unsupported("subscript " + key)
        if isinstance(e, ast.BinOp) and type(e.op) in (ast.Add, ast.Sub, ast.Mult, ast.Div):
            (a, ta), (b, tb) = self.term(e.left), self.term(e.right)
            op = {ast.Add: "+", ast.Sub: "-", ast.Mult: "*", ast.Div: "/"}[type(e.op)]
            if "Z" in (ta, tb):
                if type(e.op) is ast.Div or not {ta, tb} <= {"Z", "lit"}:
                    raise Unsupported("arithmetic mixing counts and numbers")
                return (f"({a} {op} {b})%Z", "Z")
            if {ta, tb} <= {"Q", "lit"}:
                return (f"({a} {op} {b})", "Q")
            raise Unsupported(f"arithmetic on {ta}/{tb}")
        raise Unsupported("term " + ast.dump(e)[:120])

    def truth(self, e):
        """Python truth value of an expression as a Coq bool"""
        if isinstance(e, ast.BoolOp):
            op = " && " if isinstance(e.op, ast.And) else " || "
            return "(" + op.join(self.truth(v) for v in e.values) + ")"
        if isinstance(e, ast.UnaryOp) and isinstance(e.op, ast.Not):
            return f"(negb {self.truth(e.operand)})"
        if isinstance(e, ast.Compare) and len(e.ops) == 1:
            (a, ta), (b, tb) = self.term(e.left), self.term(e.comparators[0])
            o = type(e.ops[0])
            if o in (ast.Is, ast.IsNot):
                if tb != "none" or ta not in ("optQ", "optmix"):
                    raise Unsupported("identity test other than with None")
                t = f"(match {a} with Some _ => false | None => true end)"
                return t if o is ast.Is else f"(negb {t})"
            if "Z" in (ta, tb) and {ta, tb} <= {"Z", "lit"} and o in CMPZ:
                return "(" + CMPZ[o].format(a=a, b=b) + ")%Z"
            if {ta, tb} <= {"Q", "lit"} and "Q" in (ta, tb) and o in CMPQ:
                return "(" + CMPQ[o].format(a=a, b=b) + ")"
            raise Unsupported(f"comparison of {ta} with {tb}")
        t, ty = self.term(e)
        if ty == "bool":
            return t
        if ty == "Q":
            return f"(truthy {t})"
        if ty == "optQ":
            return f"(otruthy {t})"
        if ty == "optmix":        # a Mixture object has neither __bool__ nor __len__: truthy iff it is not None
            return f"(match {t} with Some _ => true | None => false end)"
        raise Unsupported(f"truth value of {ty}")


class Cut(ast.NodeTransformer):
    """replaces the decision expressions (If.test) and all messages by placeholders, records the expressions"""

    def __init__(self):
        self.tests = []

    def visit_If(self, node):
        self.tests.append(node.test)
        node = ast.If(test=ast.Name(id=f"TEST{len(self.tests) - 1}", ctx=ast.Load()), body=[self.visit(s) for s in node.body], orelse=[self.visit(s) for s in node.orelse])
        return node

    def visit_While(self, node):
        self.tests.append(node.test)
        return ast.While(test=ast.Name(id=f"TEST{len(self.tests) - 1}", ctx=ast.Load()), body=[self.visit(s) for s in node.body], orelse=[self.visit(s) for s in node.orelse])

    def visit_Raise(self, node):
        exc = node.exc
        cls = exc.func.id if isinstance(exc, ast.Call) and isinstance(exc.func, ast.Name) else ast.unparse(exc) if exc is not None else ""
        return ast.Raise(exc=ast.Name(id=cls, ctx=ast.Load()), cause=None)

    def visit_Expr(self, node):
        v = node.value
        if isinstance(v, ast.Constant) and isinstance(v.value, str):
            return ast.Pass()
        if isinstance(v, ast.Call) and isinstance(v.func, ast.Name) and v.func.id == "warn":
            return ast.Expr(value=ast.Name(id="warn", ctx=ast.Load()))
        return self.generic_visit(node)


def skeleton(fn):
    c = Cut()
    body = [c.visit(s) for s in fn.body]
    return "\n".join(ast.unparse(ast.fix_missing_locations(s)) for s in body if not isinstance(s, ast.Pass)), c.tests


# the skeleton Model/Sys.v (estimate, fill_missing, set_all_sys, consistent) was written against
ESTIMATE_SKELETON = '''estimated_weights = []
if TEST0:
    estimated_weights.append(system_molweight)
num_fractions = 0
total_fraction = 0
total_mass = 0
num_mass = 0
for i in range(len(molecules)):
    mol = molecules[i]
    if TEST1:
        if TEST2:
            total_mass += mol.mixture.absolute_mass
            num_mass += 1
        if TEST3:
            total_fraction += mol.mixture.relative_mass
            num_fractions += 1
if TEST4:
    weight = 100.0 - total_fraction
    if TEST5:
        raise RuntimeError
    total_fraction += weight
    num_fractions += 1
    for mol in molecules:
        if TEST6:
            mol.mixture = Mixture(f'.|{weight}%|')
        if TEST7:
            mol.mixture.relative_mass = weight
if TEST8:
    raise RuntimeError
for mol in molecules:
    if TEST9:
        estimated_weights.append(mol.mixture.system_mass)
if TEST10:
    estimated_weights.append(total_mass)
if TEST11:
    for i in range(len(estimated_weights) - 1):
        if TEST12:
            raise RuntimeError
try:
    system_weight = estimated_weights[0]
except IndexError:
    warn
    return False
for mol in molecules:
    if TEST13:
        warn
        return False
    mol.mixture.system_mass = system_weight
return True'''

SET_REL_SKELETON = '''if TEST0:
    raise RuntimeError
self._relative_mass = fraction
if TEST1:
    self.system_mass = self.absolute_mass / (self.relative_mass / 100)'''

SET_SYS_SKELETON = '''if TEST0:
    raise RuntimeError
self._system_mass = mass
if TEST1:
    self._absolute_mass = self._relative_mass / 100.0 * mass
    return
if TEST2:
    self._relative_mass = 100 * self._absolute_mass / mass
    return'''


def _module_fn(mod, name):
    r = [n for n in mod.body if isinstance(n, ast.FunctionDef) and n.name == name]
    if len(r) != 1:
        raise Unsupported(f"function {name} not found exactly once")
    return r[0]


def _setter(mod, cls, prop):
    c = [n for n in mod.body if isinstance(n, ast.ClassDef) and n.name == cls]
    if len(c) != 1:
        raise Unsupported(f"class {cls}")
    r = [n for n in c[0].body if isinstance(n, ast.FunctionDef) and n.name == prop and any(isinstance(d, ast.Attribute) and d.attr == "setter" for d in n.decorator_list)]
    if len(r) != 1:
        raise Unsupported(f"setter {cls}.{prop}")
    return r[0]


def _getter_is_plain(mod, cls, prop, field):
    """@property def prop(self): return self._field"""
    c = [n for n in mod.body if isinstance(n, ast.ClassDef) and n.name == cls][0]
    r = [n for n in c.body if isinstance(n, ast.FunctionDef) and n.name == prop and any(isinstance(d, ast.Name) and d.id == "property" for d in n.decorator_list)]
    if len(r) != 1:
        raise Unsupported(f"getter {cls}.{prop}")
    body = [s for s in r[0].body if not (isinstance(s, ast.Expr) and isinstance(s.value, ast.Constant))]
    if len(body) != 1 or not isinstance(body[0], ast.Return) or ast.unparse(body[0].value) != f"self.{field}":
        raise Unsupported(f"getter {cls}.{prop} is not `return self.{field}`")


def translate_sys(system_py, mixture_py):
    smod = ast.parse(open(system_py).read())
    fn = _module_fn(smod, "_estimate_system_molecular_weight")
    if [a.arg for a in fn.args.args] != ["molecules", "system_molweight"] or fn.args.defaults or fn.args.kwonlyargs or fn.args.vararg or fn.args.kwarg:
        raise Unsupported("signature of _estimate_system_molecular_weight")
    sk, tests = skeleton(fn)
    if sk != ESTIMATE_SKELETON:
        import difflib
        d = [l for l in difflib.unified_diff(ESTIMATE_SKELETON.split("\n"), sk.split("\n"), lineterm="", n=0) if not l.startswith(("---", "+++", "@@"))]
        raise Unsupported("statement skeleton of _estimate_system_molecular_weight changed: " + " / ".join(d[:6]))
    if len(tests) != 14:
        raise Unsupported("number of decisions")
    mixattrs = {"mol.mixture": ("c", "optmix"), "mol.mixture.absolute_mass": ("(x_abs m)", "optQ"), "mol.mixture.relative_mass": ("(x_rel m)", "optQ"),
                "mol.mixture.system_mass": ("(x_sys m)", "optQ")}
    counts = {"num_fractions": ("(Z.of_nat nf)", "Z"), "num_mass": ("(Z.of_nat nm)", "Z"), "len(molecules)": ("(Z.of_nat n)", "Z"), "len(estimated_weights)": ("(Z.of_nat ne)", "Z"),
              "total_fraction": ("totf", "Q"), "weight": ("w", "Q"), "system_molweight": ("s", "Q"),
              "estimated_weights[i]": ("a", "Q"), "estimated_weights[i + 1]": ("b", "Q")}
    env = Env(counts, mixattrs)
    T = [None] * 14
    # inside `if mol.mixture is not None:` / after the None case was handled, m is the mixture
    T[0] = env.truth(tests[0])                      # caller-supplied mass counted
    T[1] = env.truth(tests[1])                      # component has a mixture
    T[2] = env.truth(tests[2])
    T[3] = env.truth(tests[3])
    T[4] = env.truth(tests[4])
    T[5] = env.truth(tests[5])
    T[6] = env.truth(tests[6])
    T[7] = env.truth(tests[7])
    T[8] = env.truth(tests[8])
    T[9] = env.truth(tests[9])
    T[10] = env.truth(tests[10])
    T[11] = env.truth(tests[11])
    T[12] = env.truth(tests[12])
    T[13] = env.truth(tests[13])
    # the remainder: weight = 100.0 - total_fraction (part of the skeleton text above; its constant is read here)
    mmod = ast.parse(open(mixture_py).read())
    for prop, field in (("absolute_mass", "_absolute_mass"), ("relative_mass", "_relative_mass"), ("system_mass", "_system_mass")):
        _getter_is_plain(mmod, "Mixture", prop, field)
    rel = _setter(mmod, "Mixture", "relative_mass")
    sysm = _setter(mmod, "Mixture", "system_mass")
    if [a.arg for a in rel.args.args] != ["self", "fraction"] or [a.arg for a in sysm.args.args] != ["self", "mass"]:
        raise Unsupported("setter signatures")
    skr, tr = skeleton(rel)
    sks, ts = skeleton(sysm)
    if skr != SET_REL_SKELETON:
        raise Unsupported("statement skeleton of Mixture.relative_mass.setter changed: " + skr.replace("\n", " / ")[:300])
    if sks != SET_SYS_SKELETON:
        raise Unsupported("statement skeleton of Mixture.system_mass.setter changed: " + sks.replace("\n", " / ")[:300])
    selfattrs = {"self.absolute_mass": ("(x_abs m)", "optQ"), "self.relative_mass": ("(x_rel m)", "optQ"), "self.system_mass": ("(x_sys m)", "optQ"),
                 "self._absolute_mass": ("(x_abs m)", "optQ"), "self._relative_mass": ("(x_rel m)", "optQ"), "self._system_mass": ("(x_sys m)", "optQ")}
    envm = Env({"fraction": ("f", "Q"), "mass": ("mass", "Q")}, selfattrs)
    R = [envm.truth(t) for t in tr]
    S = [envm.truth(t) for t in ts]
    out = [
        "(* generated by harness/translate_sys.py from system.py (_estimate_system_molecular_weight) and mixture.py (setters) -- do not edit *)",
        "From Coq Require Import List ZArith QArith Qabs Bool.",
        "From GBS Require Import Model.PyStr Model.Num Model.Bond Model.Sys.",
        "Open Scope Q_scope.",
        "(* the statement skeleton of the three functions is the one Model/Sys.v was written against (checked by the translator); below are",
        "   their decision expressions, in source order *)",
        f"Definition smw_counted (s : Q) : bool := {T[0]}.",
        f"Definition has_mixture (c : comp) : bool := {T[1]}.",
        f"Definition abs_counted (m : mix) : bool := {T[2]}.",
        f"Definition rel_counted (m : mix) : bool := {T[3]}.",
        f"Definition fill_cond (nf n : nat) : bool := {T[4]}.",
        f"Definition weight_bad (w : Q) : bool := {T[5]}.",
        f"Definition fill_new (c : comp) : bool := {T[6]}.",
        f"Definition fill_rel (m : mix) : bool := {T[7]}.",
        f"Definition total_bad (nf n : nat) (totf : Q) : bool := {T[8]}.",
        f"Definition sys_counted (c : comp) (m : mix) : bool := {T[9]}.",
        f"Definition mass_cond (nm n : nat) : bool := {T[10]}.",
        f"Definition several (ne : nat) : bool := {T[11]}.",
        f"Definition disagree (a b : Q) : bool := {T[12]}.",
        f"Definition missing (c : comp) : bool := {T[13]}.",
        "(* Mixture.relative_mass setter: rejected fraction; derive the system mass *)",
        f"Definition rel_rejected (f : Q) : bool := {R[0]}.",
        f"Definition rel_derives (m : mix) : bool := {R[1]}.",
        "(* Mixture.system_mass setter: rejected mass; absolute from relative; relative from absolute *)",
        f"Definition sys_rejected (mass : Q) : bool := {S[0]}.",
        f"Definition sys_abs_from_rel (m : mix) : bool := {S[1]}.",
        f"Definition sys_rel_from_abs (m : mix) : bool := {S[2]}.",
    ]
    return "\n".join(out) + "\n"


GENERABLE_SKELETON = '''if TEST0:
    return False
for mol in self._molecules:
    if TEST1:
        return False
return True'''

SYSTEM_MASS_SKELETON = '''if TEST0:
    raise ValueError
if TEST1:
    raise ValueError
system_mass = self._molecules[0].mixture.system_mass
for mol in self._molecules:
    if TEST2:
        raise RuntimeError
return system_mass'''

GENERATOR_SKELETON = '''if TEST0:
    raise RuntimeError
relative_fractions = [mol.mixture.relative_mass for mol in self._molecules]
generated_total_mass = 0
while TEST1:
    mol_idx = rng.choice(range(len(relative_fractions)), p=relative_fractions / np.sum(relative_fractions))
    mol = self._molecules[mol_idx]
    mol_gen = mol.generate(rng=rng)
    generated_total_mass += mol_gen.weight
    if TEST2:
        raise RuntimeError
    yield mol_gen'''

GENERATE_SKELETON = '''if TEST0:
    raise RuntimeError
relative_fractions = [mol.mixture.relative_mass for mol in self._molecules]
mol_idx = rng.choice(range(len(relative_fractions)), p=relative_fractions / np.sum(relative_fractions))
mol = self._molecules[mol_idx]
if TEST1:
    raise RuntimeError
mol_gen = mol.generate(rng=rng)
if TEST2:
    raise RuntimeError
return mol_gen'''


def _method(cls, name, deco):
    r = [n for n in cls.body if isinstance(n, ast.FunctionDef) and n.name == name and [ast.unparse(d) for d in n.decorator_list] == deco]
    if len(r) != 1:
        raise Unsupported(f"method System.{name} with decorators {deco}")
    return r[0]


def translate_sysgen(system_py):
    """System.generable / system_mass / generator / generate: checked skeletons + decision expressions -> Src/SrcSysGen.v"""
    smod = ast.parse(open(system_py).read())
    c = [n for n in smod.body if isinstance(n, ast.ClassDef) and n.name == "System"]
    if len(c) != 1:
        raise Unsupported("class System")
    cls = c[0]
    want = [("generable", ["property"], ["self"], [], GENERABLE_SKELETON, 2), ("system_mass", ["property"], ["self"], [], SYSTEM_MASS_SKELETON, 3),
            ("generator", ["property"], ["self", "rng"], ["_GLOBAL_RNG"], GENERATOR_SKELETON, 3), ("generate", [], ["self", "prefix", "rng"], ["None", "_GLOBAL_RNG"], GENERATE_SKELETON, 3)]
    tests = {}
    for name, deco, args, defaults, skel, nt in want:
        fn = _method(cls, name, deco)
        if [a.arg for a in fn.args.args] != args or [ast.unparse(d) for d in fn.args.defaults] != defaults or fn.args.kwonlyargs or fn.args.vararg or fn.args.kwarg:
            raise Unsupported(f"signature of System.{name}")
        sk, ts = skeleton(fn)
        if sk != skel:
            import difflib
            d = [l for l in difflib.unified_diff(skel.split("\n"), sk.split("\n"), lineterm="", n=0) if not l.startswith(("---", "+++", "@@"))]
            raise Unsupported(f"statement skeleton of System.{name} changed: " + " / ".join(d[:6]))
        if len(ts) != nt:
            raise Unsupported(f"number of decisions in System.{name}")
        tests[name] = ts
    env = Env({"len(self._molecules)": ("(Z.of_nat n)", "Z"), "generated_total_mass": ("acc", "Q"), "system_mass": ("s0", "Q")},
              {"self._generable": ("flag", "bool"), "mol.generable": ("g", "bool"), "self.generable": ("generable", "bool"), "mol_gen.fully_generated": ("full", "bool"),
               "self.system_mass": ("S", "Q"), "mol.mixture.system_mass": ("si", "Q")})
    G, M, I, O = (tests[k] for k in ("generable", "system_mass", "generator", "generate"))
    out = [
        "(* generated by harness/translate_sys.py from system.py (System.generable, system_mass, generator, generate) -- do not edit *)",
        "From Coq Require Import List ZArith QArith Qabs Bool.",
        "From GBS Require Import Model.PyStr Model.Num Model.Bond Model.Sys.",
        "Open Scope Q_scope.",
        "(* the statement skeletons of the four methods are the ones Model/SysGen.v was written against (checked by the translator): component picked",
        "   with p = relative masses / their sum, generate, add the mass, require full generation, yield.  Below: their decision expressions *)",
        f"Definition gen_flag_bad (flag : bool) : bool := {env.truth(G[0])}.",
        f"Definition gen_mol_bad (g : bool) : bool := {env.truth(G[1])}.",
        f"Definition mass_refused (generable : bool) : bool := {env.truth(M[0])}.",
        f"Definition mass_empty (n : nat) : bool := {env.truth(M[1])}.",
        f"Definition mass_inconsistent (s0 si : Q) : bool := {env.truth(M[2])}.",
        f"Definition iter_refused (generable : bool) : bool := {env.truth(I[0])}.",
        f"Definition iter_continues (acc S : Q) : bool := {env.truth(I[1])}.",
        f"Definition iter_member_bad (full : bool) : bool := {env.truth(I[2])}.",
        f"Definition single_refused (generable : bool) : bool := {env.truth(O[0])}.",
        f"Definition single_mol_bad (g : bool) : bool := {env.truth(O[1])}.",
        f"Definition single_member_bad (full : bool) : bool := {env.truth(O[2])}.",
    ]
    return "\n".join(out) + "\n"


if __name__ == "__main__":
    import sys
    base = sys.argv[1] if len(sys.argv) > 1 else "/repo/src/gbigsmiles"
    print(translate_sys(base + "/system.py", base + "/mixture.py"))
    print(translate_sysgen(base + "/system.py"))
