"""Generation layer: the implementation's generator under a recording/scripting rng against the
extracted Gen.v model run with the same picks and targets."""
import json
from fractions import Fraction as Fr

import framework as fw
from rng import NeedPick, RecRNG

_frag_cache = {}


def order_name(bt):
    from rdkit.Chem import rdchem

    return str(rdchem.BondType.values[int(bt)]).split(".")[-1]


def fq(x):
    """exact rational text of a float/Fraction"""
    f = Fr(x)
    return f"{f.numerator}/{f.denominator}" if f.denominator != 1 else str(f.numerator)


def num_text(x):
    x = float(x)
    if x != x:
        return "nan"
    if x in (float("inf"), float("-inf")):
        return "inf" if x > 0 else "-inf"
    return fq(x)


def token_data(tok):
    """oracle data of a token: does MolGen(token) work, atoms and heavy-atom mass of its fragment"""
    from rdkit.Chem import Descriptors
    from gbigsmiles.mol_gen import MolGen

    key = (str(tok), tok.res_id)
    if key not in _frag_cache:
        try:
            mg = MolGen(tok)
            _frag_cache[key] = (True, mg._mol.GetNumAtoms(), Fr(Descriptors.HeavyAtomMolWt(mg._mol)))
        except Exception:
            _frag_cache[key] = (False, 0, Fr(0))
    return _frag_cache[key]


def sx_descr(bd):
    sym = bd.descriptor if bd.descriptor != "" else "E"
    did = "N" if bd.descriptor_id == "" else str(int(bd.descriptor_id))
    tr = "N" if bd.transitions is None else "(" + " ".join(num_text(t) for t in bd.transitions) + ")"
    at = getattr(bd, "atom_bonding_to", None)
    return f"(d {sym} {did} {num_text(bd.weight)} {tr} {order_name(bd.bond_type)} {'N' if at is None else int(at)} {bd.descriptor_num})"


def sx_token(tok):
    ok, nat, mass = token_data(tok)
    return f"(tok {nat} {fq(mass)} {'T' if ok else 'F'} " + " ".join(sx_descr(b) for b in tok.bond_descriptors) + ")"


def sx_elements(mol):
    from gbigsmiles.token import SmilesToken

    out = []
    for e in mol._elements:
        if isinstance(e, SmilesToken):
            out.append(sx_token(e))
        else:
            out.append(f"(st {sx_descr(e.left_terminal)} {sx_descr(e.right_terminal)} {'T' if e.generable else 'F'} "
                       f"(rep {' '.join(sx_token(t) for t in e.repeat_tokens)}) (end {' '.join(sx_token(t) for t in e.end_tokens)}))")
    return "(" + " ".join(out) + ")"


def token_of_ref(mol, ref):
    ei, kind, idx = ref
    e = mol._elements[ei]
    if kind == "tok":
        return e
    return e.repeat_tokens[idx] if kind == "rep" else e.end_tokens[idx]


def model_line(mol, picks, targets):
    return "\t".join(["gen", sx_elements(mol), ",".join(str(k) for k in picks), ",".join(fq(t) for t in targets)])


def run_model(lines):
    return [json.loads(o) if o.startswith("{") else {"r": "driver", "msg": o} for o in fw.run_driver(lines)]


class _DrawFailed(Exception):
    pass


class ImplRun:
    """one generation of the implementation under a recording or scripted generator"""

    def __init__(self, text, seed=0, script=None, forced_targets=None, timeout=60, fallback=False):
        import gbigsmiles
        from gbigsmiles.stochastic import Stochastic

        self.text = text
        self.mol = gbigsmiles.Molecule(text)
        self.targets = []
        self.need = None
        self.need_p = None
        self.draw_error = None
        forced = None if forced_targets is None else list(forced_targets)
        for e in self.mol._elements:
            if isinstance(e, Stochastic) and e.distribution is not None:
                orig = e.distribution.draw_mw

                def wrap(rng=None, orig=orig):
                    if forced is not None:
                        if not forced:
                            raise RuntimeError("harness: no forced target left")
                        v = forced.pop(0)
                    else:
                        try:
                            v = orig(rng)
                        except Exception as exc:  # scipy's sampler failed: a C11 matter, not generation logic
                            raise _DrawFailed(exc)
                    self.targets.append(float(v))
                    return v

                e.distribution.draw_mw = wrap
        self.rng = RecRNG(seed, script, fallback)
        self.error = None
        self.gen = None
        try:
            with fw.time_limit(timeout):
                self.gen = self.mol.generate(rng=self.rng)
        except NeedPick as e:
            self.need = e.n
            self.need_p = e.p
        except _DrawFailed as e:
            self.draw_error = e.args[0]
        except Exception as e:  # noqa
            self.error = e
        self.picks = [k for (_, _, k) in self.rng.log]

    def observe(self):
        """canonical observation of the returned MolGen"""
        g = self.gen
        if g is None:
            return None
        nodes = sorted(g.graph.nodes())
        res = [g.graph.nodes[n]["big_smiles"] for n in nodes]
        edges = sorted((min(u, v), max(u, v), order_name(d["bond_type"])) for u, v, d in g.graph.edges(data=True))
        # atoms are appended residue by residue (CombineMols): recover the residue of each atom
        sizes = []
        for n in nodes:
            sm = g.graph.nodes[n]["smiles"]
            sizes.append(_nat_of_fragment(sm))
        offs = [0]
        for s in sizes:
            offs.append(offs[-1] + s)
        natoms = g._mol.GetNumAtoms()

        def res_of(a):
            for r in range(len(sizes)):
                if offs[r] <= a < offs[r + 1]:
                    return r
            return None

        inter = []
        for b in g._mol.GetBonds():
            a1, a2 = b.GetBeginAtomIdx(), b.GetEndAtomIdx()
            if res_of(a1) != res_of(a2):
                inter.append((min(a1, a2), max(a1, a2), order_name(b.GetBondType())))
        return {
            "res": res, "edges": edges, "bonds": sorted(inter), "natoms": natoms, "sizes": sizes,
            "open": sorted((int(bd.node_idx), int(bd.atom_bonding_to), bd.descriptor, order_name(bd.bond_type)) for bd in g.bond_descriptors),
            "mass": float(g.weight), "fully": bool(g.fully_generated),
        }


_nat_cache = {}


def _nat_of_fragment(smiles):
    from rdkit import Chem

    if smiles not in _nat_cache:
        m = Chem.MolFromSmiles(smiles)
        _nat_cache[smiles] = m.GetNumAtoms()
    return _nat_cache[smiles]


def model_observe(mol, mo):
    """the same observation computed from the model's final state"""
    g = mo["mol"]
    if g is None:
        return None
    res = [str(token_of_ref(mol, r)) for r in g["res"]]
    edges = sorted((min(r["self"]["node"], r["other"]["node"]), max(r["self"]["node"], r["other"]["node"]), r["self"]["order"]) for r in g["log"])
    bonds = sorted((min(r["self"]["atom"], r["other"]["atom"]), max(r["self"]["atom"], r["other"]["atom"]), r["self"]["order"]) for r in g["log"])
    return {
        "res": res, "edges": edges, "bonds": bonds, "natoms": g["natoms"],
        "open": sorted((o["node"], o["atom"], o["sym"], o["order"]) for o in g["open"]),
        "mass": float(Fr(g["mass"])), "fully": len(g["open"]) == 0,
    }


def close(a, b, rel=1e-9, ab=1e-9):
    return abs(a - b) <= ab + rel * max(abs(a), abs(b))


def compare(run, mo):
    """list of differences between an implementation run and the model's run on its picks/targets"""
    d = []
    if run.need is not None:
        if mo["r"] != "needpicks" or mo["k"] != run.need:
            d.append(f"implementation needs a pick among {run.need}, model: {mo}")
        return d
    if run.error is not None:
        if mo["r"] != "err":
            d.append(f"implementation raised {type(run.error).__name__}: {str(run.error)[:80]}, model: {mo['r']}")
        return d
    if mo["r"] != "done":
        d.append(f"implementation returned a molecule, model: {mo}")
        return d
    it = run.rng.log
    mt = [e for e in mo["trace"] if e[0] == "c"]
    if len(it) != len(mt):
        d.append(f"number of choices {len(it)} vs model {len(mt)}")
    for n, ((c, p, k), e) in enumerate(zip(it, mt)):
        if c != e[1] or k != e[3]:
            d.append(f"choice {n}: candidates/pick {c}/{k} vs model {e[1]}/{e[3]}")
            break
        if p is not None and not all(close(x, float(Fr(y))) for x, y in zip(p, e[2])):
            d.append(f"choice {n}: p {p} vs model {[float(Fr(y)) for y in e[2]]}")
            break
    md = [float(Fr(e[1])) for e in mo["trace"] if e[0] == "d"]
    if len(md) != len(run.targets) or not all(close(a, b) for a, b in zip(md, run.targets)):
        d.append(f"draws {run.targets} vs model {md}")
    if mo["picks_left"] != 0:
        d.append(f"model left {mo['picks_left']} picks unused")
    io, mob = run.observe(), model_observe(run.mol, mo)
    if (io is None) != (mob is None):
        d.append("one side returned no molecule")
    elif io is not None:
        for k in ("res", "edges", "bonds", "natoms", "open", "fully"):
            if io[k] != mob[k]:
                d.append(f"{k}: {io[k]} vs model {mob[k]}")
        if not close(io["mass"], mob["mass"], rel=1e-9, ab=1e-6):
            d.append(f"mass {io['mass']} vs model {mob['mass']}")
    return d


def near_threshold(mo, rel=1e-7):
    """does any stop-rule comparison of the model lie within rel of its threshold? (float vs exact)"""
    if mo.get("r") != "done":
        return False
    for i in mo["infos"]:
        T = Fr(i["T"])
        for u in i["units"]:
            if abs(Fr(u) - T) <= rel * max(abs(T), 1):
                return True
    return False


def explore(text, targets, max_leaves=2000, timeout=60):
    """all choice sequences of the implementation (scripted generator), depth first.
    returns (leaves, truncated): leaves = list of (picks, ImplRun)"""
    stack = [[]]
    leaves = []
    while stack:
        script = stack.pop()
        r = ImplRun(text, 0, script=script, forced_targets=targets, timeout=timeout)
        if r.need is not None:
            # positions with p == 0 are never taken
            for k in reversed(range(r.need)):
                if r.need_p is None or r.need_p[k] > 0:
                    stack.append(script + [k])
        else:
            leaves.append((script, r))
            if len(leaves) >= max_leaves:
                return leaves, True
    return leaves, False
