"""Fresh-process baseline for C10: reads JSON lines {"text":..., "seed":...} and prints one JSON line per case with the canonical
SMILES and mass generated from a freshly parsed object with numpy.random.default_rng(seed) -- nothing else has happened in this process."""
import json
import sys
import warnings

warnings.simplefilter("ignore")
import numpy as np

import gbigsmiles

for line in sys.stdin:
    c = json.loads(line)
    try:
        o = (gbigsmiles.System if c.get("system") else gbigsmiles.Molecule)(c["text"])
        g = o.generate(rng=np.random.default_rng(c["seed"]))
        print(json.dumps({"smiles": g.smiles, "weight": float(g.weight), "str": str(o), "noext": o.generate_string(False), "generable": bool(o.generable)}))
    except Exception as e:  # noqa
        print(json.dumps({"error": type(e).__name__}))
    sys.stdout.flush()
