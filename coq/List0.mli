open Datatypes

val nth_error : 'a1 list -> nat -> 'a1 option

val rev : 'a1 list -> 'a1 list

val concat : 'a1 list list -> 'a1 list

val map : ('a1 -> 'a2) -> 'a1 list -> 'a2 list

val fold_left : ('a1 -> 'a2 -> 'a1) -> 'a2 list -> 'a1 -> 'a1

val existsb : ('a1 -> bool) -> 'a1 list -> bool

val firstn : nat -> 'a1 list -> 'a1 list

val skipn : nat -> 'a1 list -> 'a1 list
