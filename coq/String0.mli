
val list_ascii_of_string : char list -> char list
