open BinInt
open BinNums
open BinPos
open Zbool

type coq_Q = { coq_Qnum : coq_Z; coq_Qden : positive }

val inject_Z : coq_Z -> coq_Q

val coq_Qeq_bool : coq_Q -> coq_Q -> bool

val coq_Qle_bool : coq_Q -> coq_Q -> bool

val coq_Qplus : coq_Q -> coq_Q -> coq_Q

val coq_Qmult : coq_Q -> coq_Q -> coq_Q
