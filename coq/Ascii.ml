open BinNat
open BinNums
open Datatypes

(** val zero : char **)

let zero = '\000'

(** val one : char **)

let one = '\001'

(** val shift : bool -> char -> char **)

let shift = fun b c -> Char.chr (((Char.code c) lsl 1) land 255 + if b then 1 else 0)

(** val ascii_of_pos : positive -> char **)

let ascii_of_pos =
  let rec loop n p =
    match n with
    | O -> zero
    | S n' ->
      (match p with
       | Coq_xI p' -> shift true (loop n' p')
       | Coq_xO p' -> shift false (loop n' p')
       | Coq_xH -> one)
  in loop (S (S (S (S (S (S (S (S O))))))))

(** val ascii_of_N : coq_N -> char **)

let ascii_of_N = function
| N0 -> zero
| Npos p -> ascii_of_pos p

(** val ascii_of_nat : nat -> char **)

let ascii_of_nat a =
  ascii_of_N (N.of_nat a)

(** val coq_N_of_digits : bool list -> coq_N **)

let rec coq_N_of_digits = function
| [] -> N0
| b :: l' ->
  N.add (if b then Npos Coq_xH else N0)
    (N.mul (Npos (Coq_xO Coq_xH)) (coq_N_of_digits l'))

(** val coq_N_of_ascii : char -> coq_N **)

let coq_N_of_ascii a =
  (* If this appears, you're using Ascii internals. Please don't *)
 (fun f c ->
  let n = Char.code c in
  let h i = (n land (1 lsl i)) <> 0 in
  f (h 0) (h 1) (h 2) (h 3) (h 4) (h 5) (h 6) (h 7))
    (fun a0 a1 a2 a3 a4 a5 a6 a7 ->
    coq_N_of_digits
      (a0 :: (a1 :: (a2 :: (a3 :: (a4 :: (a5 :: (a6 :: (a7 :: [])))))))))
    a

(** val nat_of_ascii : char -> nat **)

let nat_of_ascii a =
  N.to_nat (coq_N_of_ascii a)
