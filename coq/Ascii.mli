open BinNat
open BinNums
open Datatypes

val zero : char

val one : char

val shift : bool -> char -> char

val ascii_of_pos : positive -> char

val ascii_of_N : coq_N -> char

val ascii_of_nat : nat -> char

val coq_N_of_digits : bool list -> coq_N

val coq_N_of_ascii : char -> coq_N

val nat_of_ascii : char -> nat
