open BinInt
open BinNums
open Datatypes

(** val coq_Zeq_bool : coq_Z -> coq_Z -> bool **)

let coq_Zeq_bool x y =
  match Z.compare x y with
  | Eq -> true
  | _ -> false
