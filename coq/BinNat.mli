open BinNums
open BinPos
open Datatypes

module N :
 sig
  val add : coq_N -> coq_N -> coq_N

  val mul : coq_N -> coq_N -> coq_N

  val to_nat : coq_N -> nat

  val of_nat : nat -> coq_N
 end
