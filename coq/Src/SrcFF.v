(* translator failed: get_assignment_class shape *)
From GBS Require Import Model.PyStr.
