(* C09 -- Block sizes in an ensemble follow the declared molecular-weight distribution.
   What is logic: (a) the event identity -- the block size is n exactly when the drawn target falls
   between the cumulative masses before and after the n-th unit, so for ANY law of the target the
   probability of size n is that law's mass of [M_{n-1}, M_n); (b) one independent draw per object
   (C07_one_draw); (c) name -> family dispatch (regenerated from get_distribution on every run) and
   parameter order.  That scipy's rvs follows the law it is given is an oracle (statistical backstop in
   the thorough tier); the statistical statement itself is not a theorem. *)
From Coq Require Import List ZArith QArith Bool String Qabs.
From GBS Require Import Model.PyStr Model.DistFam Model.Dist Src.SrcDist Proofs.DistP Src.SrcDistLaw Proofs.DistLawSrcP Src.SrcDistParams Proofs.DistParamsSrcP.
Import ListNotations.
Open Scope Q_scope.

Theorem C09_stop_event : forall ms T n,
  stop_index ms T = Some n <->
  exists m, (1 <= n)%nat /\ nth_error ms (n - 1) = Some m /\ T < m /\ forall i mi, (i < n - 1)%nat -> nth_error ms i = Some mi -> mi <= T.
Proof. exact stop_event. Qed.
Print Assumptions C09_stop_event.

Theorem C09_stop_event_interval : forall ms T n m mprev,
  (forall i j a b, (i < j)%nat -> nth_error ms i = Some a -> nth_error ms j = Some b -> a < b) ->
  (2 <= n)%nat -> nth_error ms (n - 1) = Some m -> nth_error ms (n - 2) = Some mprev ->
  (stop_index ms T = Some n <-> mprev <= T /\ T < m).
Proof. exact stop_event_increasing. Qed.
Print Assumptions C09_stop_event_interval.

Theorem C09_dispatch : forall f, dispatch (required_prefix f) = Some f.
Proof. exact dispatch_prefix_consistent. Qed.
Print Assumptions C09_dispatch.

(* documented parameter order and meaning *)
Theorem C09_params : forall x y,
  plumb FGauss [x; y] = LNorm x y /\
  plumb FUniform [x; y] = LUnif (trunc x) (trunc y - trunc x) /\
  plumb FLogNormal [x; y] = LLogNormal x y /\ plumb FPoisson [x] = LPoisson x /\ plumb FFlorySchulz [x] = LFlorySchulz x /\
  (~ x - y == 0 -> plumb FSchulzZimm [x; y] = LSchulzZimm (y / (x - y)) y).
Proof.
  intros x y. repeat split. intros H. unfold plumb. destruct (Qeq_bool (x - y) 0) eqn:E; [|reflexivity].
  apply Qeq_bool_iff in E. contradiction.
Qed.
Print Assumptions C09_params.

(* tie T: the Schulz-Zimm shape parameter REGENERATED from SchulzZimm.__init__ is the one of the parameter plumbing above; draw_mw of every
   class is checked by the translator to be ONE call of rvs with the object's own parameters and the caller's generator (Src/SrcDistLaw.v) *)
Theorem C09_schulz_zimm_shape_is_source : forall Mw Mn,
  plumb FSchulzZimm [Mw; Mn] = if Qeq_bool (Mw - Mn) 0 then LBad else LSchulzZimm (sz_shape Mw Mn) Mn.
Proof. exact sz_shape_is_source. Qed.
Print Assumptions C09_schulz_zimm_shape_is_source.

Theorem C09_gauss_shortcut_is_source : forall mu sigma mw,
  gauss_shortcut mu sigma mw = true -> (sigma < 1 # 1000000 /\ Qabs (mu - mw) < 1 # 1000000)%Q.
Proof. exact gauss_shortcut_sound. Qed.
Print Assumptions C09_gauss_shortcut_is_source.

(* tie T: which written number becomes which argument of which scipy law, REGENERATED from the six constructors of distribution.py
   (Src/SrcDistParams.v), is the documented parameter order of the plumbing above *)
Theorem C09_parameter_order_is_source :
  (forall mu sigma, plumb FGauss [mu; sigma] = params_Gauss mu sigma) /\
  (forall lo hi, plumb FUniform [lo; hi] = params_Uniform lo hi) /\
  (forall Mw Mn, plumb FSchulzZimm [Mw; Mn] = if Qeq_bool (Mw - Mn) 0 then LBad else params_SchulzZimm Mw Mn) /\
  (forall M D, plumb FLogNormal [M; D] = params_LogNormal M D) /\
  (forall N, plumb FPoisson [N] = params_Poisson N) /\
  (forall a, plumb FFlorySchulz [a] = params_FlorySchulz a).
Proof. exact params_are_source. Qed.
Print Assumptions C09_parameter_order_is_source.

Example C09_example : stop_index [28; 56; 84; 112] 60 = Some 3%nat.
Proof. reflexivity. Qed.
