(* C06 -- Well-posed molecules generate to completion, in the written element order.
   Proved here for every input, pick stream and target list (the safety half):
     - a returned molecule without open descriptor has used every descriptor instance of every
       residue in exactly one bond;
     - the residues appear element by element in the written order: a prefix/connector/suffix
       token exactly once; a stochastic object as [start end group]? ++ growth units (>= 1) ++
       capping end groups, all copies of its own tokens;
     - after an object with a non-empty right terminal exactly one descriptor is open (the one
       reserved for the hand-over), after an empty right terminal none.
     - termination: for every element list, pick stream and target list the generator model never
       runs out of fuel -- every iteration of the capping and growth loops consumes a random
       decision (C06_terminates); the number of growth steps is bounded by the drawn target and
       the lightest token whatever the random stream (C07_units_bounded).
   FULL STATEMENT (not proved): completion (no open descriptor left, no error) for every molecule
   accepted by the closability analysis [well_posed] (DESIGN.md section 7/C06) -- C06_complete.
   The implementation-level oracle checks completion on every generated case. *)
From Coq Require Import List ZArith QArith Ascii String Bool.
From GBS Require Import Model.PyStr Model.Num Model.Bond Model.Select Model.Gen Proofs.BondP Proofs.GenP Proofs.GenFuel Props.GenExample Src.SrcGen Proofs.GenSrcP Proofs.GenMolSrcP.
Import ListNotations.

Theorem C06_all_used_partial : forall els pk tg g infos st,
  run_gen els pk tg = Done (Some g, infos) st -> m_open g = [] ->
  forall n ref tok k, nth_error (m_res g) n = Some (ref, tok) -> (k < List.length (t_bds tok))%nat ->
    cnt (n, k) (used g) = 1%nat.
Proof.
  intros els pk tg g infos st H Ho n ref tok k Hn Hk. apply run_gen_inv in H as [H _].
  apply ginv_complete; auto. unfold all_keys. change n with (0 + n)%nat. eapply all_keys_from_In; eauto.
Qed.
Print Assumptions C06_all_used_partial.

Theorem C06_order_partial : forall els pk tg g infos st,
  run_gen els pk tg = Done (Some g, infos) st -> elems_res 0 els (m_res g) infos.
Proof. intros els pk tg g infos st H. apply run_gen_inv in H as [_ H]. exact H. Qed.
Print Assumptions C06_order_partial.

(* what the finalisation of one stochastic object leaves open *)
Theorem C06_finalize_partial : forall s ei g st g' st',
  GInv [] g -> finalize s ei g st = Done g' st' ->
  GInv [] g' /\ (exists caps, m_res g' = m_res g ++ caps /\ Forall (res_cap s ei) caps) /\
  (if is_empty_terminal (s_right s) then m_open g' = [] else exists term, m_open g' = [term] /\ In term (m_open g)).
Proof. intros s ei g st g' st' H E. exact (finalize_post s ei g H st g' st' E). Qed.
Print Assumptions C06_finalize_partial.

Theorem C06_terminates : forall els pk tg, run_gen els pk tg <> OutOfFuel.
Proof. exact run_gen_never_out_of_fuel. Qed.
Print Assumptions C06_terminates.

(* tie T: Stochastic.generate and SmilesToken.generate written over the decision expressions REGENERATED from the source (Src/SrcGen.v,
   Src/SrcCore.v; the statement skeletons -- get_start, add_repeat_unit, the growth loop, finalize_mol -- are checked by the translator)
   are, for every state of the run monad, the generator model of the theorems in this file *)
Theorem C06_stochastic_generate_is_source : forall s ei prefix st, gen_stoch_src s ei prefix st = gen_stoch s ei prefix st.
Proof. exact gen_stoch_is_source. Qed.
Print Assumptions C06_stochastic_generate_is_source.

Theorem C06_token_generate_is_source : forall tok ei prefix st, gen_token_src tok ei prefix st = gen_token tok ei prefix st.
Proof. exact gen_token_is_source. Qed.
Print Assumptions C06_token_generate_is_source.

Theorem C06_finalize_is_source : forall s ei g st, finalize_src s ei g st = finalize s ei g st.
Proof. exact finalize_is_source. Qed.
Print Assumptions C06_finalize_is_source.

(* Molecule.generate as a whole, rebuilt from the source, is the generator model: every theorem of C04-C08 about run_gen (all inputs, pick
   streams and targets) is a theorem about run_gen_src *)
Theorem C06_generation_is_source : forall els pk tg, run_gen_src els pk tg = run_gen els pk tg.
Proof. exact run_gen_is_source. Qed.
Print Assumptions C06_generation_is_source.

Example C06_example :
  match run_gen ex1_els ex1_picks ex1_targets with
  | Done (Some g, _) _ => m_open g = [] /\ List.length (m_res g) = ex1_nres
  | _ => False
  end.
Proof. vm_compute. split; reflexivity. Qed.
