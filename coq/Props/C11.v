(* C11 -- Each molecular-weight distribution is one coherent probability law.
   Proved: Flory-Schulz (the one law the library defines itself in closed form) is non-negative and
   sums to 1 (closed form of every partial sum over Q; convergence to 1 over R); the interval rule
   (cdf difference = mass of the interval) for any mass function; unknown names are rejected and
   every name reaches its own family (over the dispatch regenerated from the source).
   PARTIAL, stated plainly: normalisation of the Gaussian, log-normal and Gamma (Schulz-Zimm) laws and
   everything scipy computes numerically (cdf, ppf, rvs) is outside the proof; the oracle checks
   those numerically on parameter grids.  Runtime behaviour the model cannot exhibit: scipy's
   discrete ppf bisection (known finding). *)
From Coq Require Import List ZArith QArith Bool String Reals.
From Coquelicot Require Import Coquelicot.
From GBS Require Import Model.PyStr Model.DistFam Model.Dist Src.SrcDist Proofs.DistP Proofs.FSReal Src.SrcDistLaw Proofs.DistLawSrcP.
Import ListNotations.

Theorem C11_fs_partial_sum : forall (a : Q) n, (~ 1 - a == 0)%Q ->
  (fs_cdf a n == 1 - (1 - a) ^ (Z.of_nat n) * (1 + inject_Z (Z.of_nat n) * a))%Q.
Proof. exact fs_partial_sum. Qed.
Print Assumptions C11_fs_partial_sum.

Theorem C11_fs_nonneg : forall (a : Q) k, (0 <= a)%Q -> (a <= 1)%Q -> (0 <= fs_pmf a k)%Q.
Proof. exact fs_pmf_nonneg. Qed.
Print Assumptions C11_fs_nonneg.

Theorem C11_fs_sums_to_one : forall a : R, (0 < a < 1)%R -> is_series (fun i => fs_pmf_R a (S i)) 1%R.
Proof. exact fs_sums_to_one_R. Qed.
Print Assumptions C11_fs_sums_to_one.

Theorem C11_interval_is_cdf_difference : forall (f : nat -> Q) lo d,
  (sum_to f (lo + d) - sum_to f lo == sum_to (fun k => f (lo + k)%nat) d)%Q.
Proof. exact interval_is_cdf_difference. Qed.
Print Assumptions C11_interval_is_cdf_difference.

Theorem C11_unknown_rejected : forall t,
  contains (lit "flory_schulz") t = false -> contains (lit "gauss") t = false -> contains (lit "uniform") t = false ->
  contains (lit "schulz_zimm") t = false -> contains (lit "log_normal") t = false -> contains (lit "poisson") t = false ->
  dispatch t = None.
Proof. exact dispatch_unknown. Qed.
Print Assumptions C11_unknown_rejected.

Theorem C11_names : 
  dispatch (lit "flory_schulz(0.1)") = Some FFlorySchulz /\ dispatch (lit "gauss(100, 20)") = Some FGauss /\
  dispatch (lit "uniform(12, 72)") = Some FUniform /\ dispatch (lit "schulz_zimm(5000, 4500)") = Some FSchulzZimm /\
  dispatch (lit "log_normal(50, 1.1)") = Some FLogNormal /\ dispatch (lit "poisson(65)") = Some FPoisson.
Proof. exact dispatch_names. Qed.
Print Assumptions C11_names.

(* tie T: the interval rule of prob_mw REGENERATED from every class of distribution.py (Src/SrcDistLaw.v; both cdf calls are checked to
   carry the object's own parameters) is the difference of that law's cdf at the two ends kept by RememberAdd *)
Theorem C11_interval_rule_is_source : forall (cdf : Q -> Q) previous value,
  (interval_Distribution cdf previous value = cdf value - cdf previous /\
   interval_FlorySchulz cdf previous value = cdf value - cdf previous /\
   interval_SchulzZimm cdf previous value = cdf value - cdf previous /\
   interval_LogNormal cdf previous value = cdf value - cdf previous)%Q.
Proof. exact interval_rules_are_cdf_differences. Qed.
Print Assumptions C11_interval_rule_is_source.

(* hence, for every law and any cut points, the probabilities of consecutive intervals add up to cdf(last) - cdf(first): one coherent law *)
Theorem C11_source_intervals_telescope : forall (cdf : Q -> Q) cuts m0,
  (interval_sum interval_Distribution cdf m0 cuts == cdf (last cuts m0) - cdf m0 /\
   interval_sum interval_FlorySchulz cdf m0 cuts == cdf (last cuts m0) - cdf m0 /\
   interval_sum interval_SchulzZimm cdf m0 cuts == cdf (last cuts m0) - cdf m0 /\
   interval_sum interval_LogNormal cdf m0 cuts == cdf (last cuts m0) - cdf m0)%Q.
Proof. exact source_intervals_telescope. Qed.
Print Assumptions C11_source_intervals_telescope.

(* the Flory-Schulz mass function of the theorems above is the one written in the source *)
Theorem C11_fs_mass_function_is_source : forall a k, fs_pmf_src a k = fs_pmf a k.
Proof. exact fs_pmf_is_source. Qed.
Print Assumptions C11_fs_mass_function_is_source.

Example C11_example : (fs_cdf (1 # 2) 3 == 11 # 16)%Q.
Proof. vm_compute. reflexivity. Qed.
