(* C07 -- A stochastic object stops growing at the first unit that exceeds its drawn mass.
   For every input, pick stream and list of drawn targets (negative, tiny and huge ones included). *)
From Coq Require Import List ZArith QArith Ascii String Bool.
From GBS Require Import Model.PyStr Model.Num Model.Bond Model.Select Model.Gen Proofs.BondP Proofs.GenP Props.GenExample Proofs.GenFuel Model.Sys Src.SrcGen Proofs.GenSrcP.
Import ListNotations.
Open Scope Q_scope.

(* per stochastic object: at least one unit; every compared value but the last is <= target; the
   last one exceeds it unless growth ended because no open descriptor was left *)
Theorem C07_stop_rule : forall els pk tg g infos st,
  run_gen els pk tg = Done (Some g, infos) st ->
  Forall (fun i => exists front last,
                     si_units i = front ++ [last] /\ Forall (fun u => u <= si_target i) front /\
                     (si_exhausted i = false -> si_target i < last)) infos.
Proof.
  intros els pk tg g infos st H. apply run_gen_inv in H as [_ H]. apply elems_res_infos in H as [_ H].
  eapply Forall_impl; [|exact H]. intros i (front & last & E & F1 & F2). exists front, last. split; [exact E|]. split.
  - eapply Forall_impl; [|exact F1]. intros u Hu. apply Qle_bool_iff. exact Hu.
  - intros Hx. specialize (F2 Hx). apply Qnot_le_lt. intros Hle. apply Qle_bool_iff in Hle. congruence.
Qed.
Print Assumptions C07_stop_rule.

(* the compared value after the j-th growth step is the mass of the j residues this object's growth
   appended -- not the prefix, not earlier elements, not the start end group, not capping residues:
   [elems_res] lists, per object, start group / growth residues [rts] / caps separately and
   [units_ok 0 rts units] says  units[j] == mass(rts[0..j]) *)
Theorem C07_excludes : forall els pk tg g infos st,
  run_gen els pk tg = Done (Some g, infos) st -> elems_res 0 els (m_res g) infos.
Proof. intros els pk tg g infos st H. apply run_gen_inv in H as [_ H]. exact H. Qed.
Print Assumptions C07_excludes.

(* exactly one target is consumed per stochastic object per generation *)
Theorem C07_one_draw : forall els pk tg g infos st,
  run_gen els pk tg = Done (Some g, infos) st ->
  List.length tg = (List.length (targets st) + count_stoch els)%nat /\ List.length infos = count_stoch els.
Proof. exact run_gen_draws. Qed.
Print Assumptions C07_one_draw.

(* the stop decision as a function of the masses and the target: the number of units is the first n
   with M_n > T (C09's event identity is this statement read for a random T) *)
Theorem C07_loop_step : forall s ei start T fuel g units st r st',
  GInv [] g -> grow_loop fuel s ei start T g units st = Done r st' -> grow_post s ei start T g units r.
Proof. intros s ei start T fuel g units st r st' H E. exact (grow_loop_post s ei start T fuel g units H st r st' E). Qed.
Print Assumptions C07_loop_step.

(* whatever the random stream: (number of growth steps - 1) x (mass of the lightest token) <= drawn target *)
Theorem C07_units_bounded : forall s ei prefix st gi st' mmin front last,
  (forall g, prefix = Some g -> GInv [] g) -> gen_stoch s ei prefix st = Done gi st' ->
  (forall tok, In tok (s_rep s) \/ In tok (s_end s) -> mmin <= t_mass tok) ->
  si_units (snd gi) = front ++ [last] -> front <> [] ->
  inject_Z (Z.of_nat (List.length front)) * mmin <= si_target (snd gi).
Proof. exact gen_stoch_units_bounded. Qed.
Print Assumptions C07_units_bounded.

Theorem C07_loops_terminate : forall els pk tg, run_gen els pk tg <> OutOfFuel.
Proof. exact run_gen_never_out_of_fuel. Qed.
Print Assumptions C07_loops_terminate.

(* tie T: the growth loop written over the decision expressions REGENERATED from stochastic.py (Src/SrcGen.v; statement skeleton checked)
   is the loop of the theorems above; its stop decision is `added mass > drawn target`, evaluated after the unit was attached *)
Theorem C07_growth_loop_is_source : forall fuel s ei start T g units st,
  grow_loop_src fuel s ei start T g units st = grow_loop fuel s ei start T g units st.
Proof. exact grow_loop_is_source. Qed.
Print Assumptions C07_growth_loop_is_source.

Theorem C07_stop_decision_is_source : forall mass start T, mass_exceeded mass start T = negb (Qle_bool (Qred (mass - start)) T).
Proof. exact mass_exceeded_is. Qed.
Print Assumptions C07_stop_decision_is_source.

Example C07_example :
  match run_gen ex1_els ex1_picks ex1_targets with
  | Done (Some g, [i]) _ => (List.length (si_units i) >= 2)%nat /\ si_exhausted i = false
  | _ => False
  end.
Proof. vm_compute. split; [repeat constructor|reflexivity]. Qed.
