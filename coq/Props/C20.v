(* C20 -- Force-field typing is total, element-consistent, numbering- and history-free.
   [cache_step] is regenerated from forcefield_helper.get_assignment_class on every run (tie T).
   SMARTS matching is RDKit (oracle [matches]).  The element-mass table statement is checked
   exhaustively on the implementation (661 rules), not proved here. *)
From Coq Require Import List Bool Arith.
From GBS Require Import Model.FF Src.SrcFF Model.FFSel Proofs.FFP Src.SrcFFSel Proofs.FFSelSrcP.
Import ListNotations.

(* history-free: for EVERY history of (rule file, parameter file) requests, the assigner returned
   by the last request is the one built from that request's files *)
Theorem C20_cache_transparent : forall (h : list (file * file)) (r : file * file),
  g_cls (fold_left (fun st q => cache_step st (fst q) (snd q)) (h ++ [r]) init) = Some (build (fst r) (snd r)).
Proof. exact cache_transparent. Qed.
Print Assumptions C20_cache_transparent.

(* total or the dedicated error with the partial assignment *)
Theorem C20_total_or_error : forall rules matches natoms,
  match assign rules matches natoms with
  | FOk l => List.length l = natoms /\
             forall a r, nth_error l a = Some r -> best (rules_for rules matches a) = Some r /\ matches_atom matches a r = true
  | FPartial d => d = assignment rules matches natoms /\ exists a, a < natoms /\ rules_for rules matches a = []
  end.
Proof. exact assign_total_or_error. Qed.
Print Assumptions C20_total_or_error.

(* which rule: a matching one, none longer; earlier in the file on ties *)
Theorem C20_selection : forall rs b, best rs = Some b -> In b rs /\ forall x, In x rs -> r_len x <= r_len b.
Proof. exact best_spec. Qed.
Print Assumptions C20_selection.

Theorem C20_first_on_ties : forall r1 r2, r_len r1 = r_len r2 -> best [r1; r2] = Some r1.
Proof. exact best_first_on_ties. Qed.
Print Assumptions C20_first_on_ties.

(* numbering-free *)
Theorem C20_equivariant : forall rules matches matches' (pi : nat -> nat),
  (forall a b, pi a = pi b -> a = b) -> (forall r, matches' r = map pi (matches r)) ->
  forall a, best (rules_for rules matches' (pi a)) = best (rules_for rules matches a).
Proof. exact selection_equivariant. Qed.
Print Assumptions C20_equivariant.

(* partially generated molecules are refused *)
Theorem C20_refuses_partial : forall n, typing_guard (S n) = false.
Proof. reflexivity. Qed.
Print Assumptions C20_refuses_partial.

(* tie T: the per-atom selection rebuilt from the decision REGENERATED from SMARTS_ASSIGNMENTS.get_type_assignments (Src/SrcFFSel.v; statement
   skeleton checked: rules in file order, the first matching rule kept, replaced only by a strictly longer SMARTS text) is the selection of
   the theorems above; the dedicated error is raised iff an atom is left without a rule; partially generated molecules are refused *)
Theorem C20_selection_is_source : forall rs, best_src rs = best rs.
Proof. exact best_is_source. Qed.
Print Assumptions C20_selection_is_source.

Theorem C20_error_and_refusal_are_source : forall nassigned natoms open_descriptors,
  ff_incomplete nassigned natoms = negb (Nat.eqb nassigned natoms) /\ ff_refused (Nat.eqb open_descriptors 0) = negb (typing_guard open_descriptors).
Proof. intros. split; [apply incomplete_is_source|apply refused_is_source]. Qed.
Print Assumptions C20_error_and_refusal_are_source.

Example C20_example :
  g_cls (fold_left (fun st q => cache_step st (fst q) (snd q)) [(None, None); (Some 1, Some 2); (None, None)] init) = Some (build None None).
Proof. reflexivity. Qed.
