(* C17 -- The stochastic atom graph encodes all atoms, static bonds and admissible links.
   Model/AGraph.v follows stochastic_atom_graph.py; every node and edge is compared with the
   implementation on each run (tie K).  Two parts of the property are REFUTED on the faithful model
   (known findings): transition edges leave end groups; a descriptor carrying a list doubles each
   stochastic edge by a termination edge into a repeat unit. *)
From Coq Require Import List ZArith QArith Bool Arith String.
From GBS Require Import Model.PyStr Model.Num Model.Bond Model.Select Model.Gen Model.RGraph Model.AGraph Proofs.AGraphP Src.SrcAGraph Proofs.AGraphSrcP.
Import ListNotations.

Theorem C17_nodes : forall es, fst (atom_graph es) = fold_right Z.add 0%Z (map (fun e => fold_right Z.add 0%Z (map natoms_tok (toks_of e))) es).
Proof. exact node_count. Qed.
Print Assumptions C17_nodes.

Theorem C17_static : forall off t e,
  In e (static_edges off t) <->
  exists x y ty, In (x, y, ty) (k_bonds t) /\ a_bt e = ty /\ a_kind e = WStatic /\ a_w e = 1%Q /\
                 ((a_u e = (off + x)%Z /\ a_v e = (off + y)%Z) \/ (a_u e = (off + y)%Z /\ a_v e = (off + x)%Z)).
Proof. exact static_edges_spec. Qed.
Print Assumptions C17_static.

Theorem C17_links_sound : forall e offs x,
  In x (stoch_edges e offs) ->
  exists ti d tj o, In (ti, d) (flat e) /\ In (tj, o) (flat e) /\ (ti < nrep_of e)%nat /\ compatible d o = true /\
    a_u x = (datom d + off_of offs ti)%Z /\ a_v x = (datom o + off_of offs tj)%Z /\ a_bt x = order_code (d_order d) /\
    ((nolist d /\ (0 < wq o)%Q /\ a_w x = wq o /\ a_kind x = (if Nat.ltb tj (nrep_of e) then WStoch else WTerm)) \/
     (exists tr, qtrans d = Some (Some tr))).
Proof. exact stoch_edges_sound. Qed.
Print Assumptions C17_links_sound.

Theorem C17_links_complete : forall e offs ti d tj o,
  In (ti, d) (flat e) -> In (tj, o) (flat e) -> (ti < nrep_of e)%nat -> nolist d -> compatible d o = true -> (0 < wq o)%Q ->
  In {| a_u := (datom d + off_of offs ti)%Z; a_v := (datom o + off_of offs tj)%Z; a_bt := order_code (d_order d);
        a_kind := (if Nat.ltb tj (nrep_of e) then WStoch else WTerm); a_w := wq o |} (stoch_edges e offs).
Proof. exact stoch_edges_complete. Qed.
Print Assumptions C17_links_complete.

Theorem C17_links_not_from_end_group : forall e offs x,
  In x (stoch_edges e offs) -> exists ti d, In (ti, d) (flat e) /\ (ti < nrep_of e)%nat /\ a_u x = (datom d + off_of offs ti)%Z.
Proof. exact stoch_edges_not_from_end. Qed.
Print Assumptions C17_links_not_from_end_group.

Theorem C17_transitions_sound : forall lhs rhs offl offr x,
  In x (trans_edges lhs rhs offl offr) ->
  exists ti dl tj dr, In (ti, dl) (flat lhs) /\ In (tj, dr) (flat rhs) /\ compatible dl dr = true /\
    a_u x = (off_of offl ti + datom dl)%Z /\ a_v x = (off_of offr tj + datom dr)%Z /\ a_bt x = order_code (d_order dl) /\
    a_kind x = WTrans /\ a_w x = wq dr /\
    match rhs with AStoch l _ _ _ => (tj < nrep_of rhs)%nat /\ exists i, inv_terminal l = Some i /\ compatible i dr = true | ATok _ => True end /\
    match lhs with AStoch _ r _ _ => exists i, inv_terminal r = Some i /\ compatible i dl = true | ATok _ => True end.
Proof. exact trans_edges_sound. Qed.
Print Assumptions C17_transitions_sound.

Theorem C17_none_leaves_end_group_refuted :
  exists x, In x (snd (atom_graph leak_example)) /\ a_kind x = WTrans /\ a_u x = 4%Z /\ a_v x = 8%Z.
Proof. exact none_leaves_end_group_refuted. Qed.
Print Assumptions C17_none_leaves_end_group_refuted.

Theorem C17_termination_into_repeat_unit_refuted :
  exists x, In x (snd (atom_graph list_example)) /\ a_kind x = WTerm /\ a_u x = 1%Z /\ a_v x = 0%Z /\ a_w x = 3%Q.
Proof. exact termination_into_repeat_unit_refuted. Qed.
Print Assumptions C17_termination_into_repeat_unit_refuted.

(* tie T: the stochastic / termination edges of an object written over the decisions REGENERATED from _add_stochastic_bonds (Src/SrcAGraph.v;
   the statement skeletons of all functions / methods of stochastic_atom_graph.py and the remaining decisions are checked against
   harness/skeletons/stochastic_atom_graph*.txt; is_compatible regenerated from bond.py) are the model's *)
Theorem C17_object_edges_are_source : forall e offs, stoch_edges_src e offs = stoch_edges e offs.
Proof. exact stoch_edges_is_source. Qed.
Print Assumptions C17_object_edges_are_source.

(* tie T: the transition edges between consecutive elements written over the tests REGENERATED from _add_transition_bonds (pair test, both
   terminal tests, exclusion of a direct entry into an end group) are the model's, hence so is the whole graph of generate() *)
Theorem C17_transition_edges_are_source : forall lhs rhs offl offr, trans_edges_src lhs rhs offl offr = trans_edges lhs rhs offl offr.
Proof. exact trans_edges_is_source. Qed.
Print Assumptions C17_transition_edges_are_source.

Theorem C17_atom_graph_is_source : forall es, atom_graph_src es = atom_graph es.
Proof. exact atom_graph_is_source. Qed.
Print Assumptions C17_atom_graph_is_source.

Example C17_example : fst (atom_graph leak_example) = 9%Z /\ List.length (snd (atom_graph leak_example)) = 24%nat.
Proof. vm_compute. split; reflexivity. Qed.
