(* C10 -- Generation is a pure, reproducible function of string and supplied generator.
   (1) frame: for EVERY script of generation steps (new molecule / attach / the write of get_start) on tokens owned
       by parsed objects, no cell owned by a parsed object is ever written (Model/Heap.v: the copy discipline of
       mol_gen.py:38, 111 and stochastic.py:196-198);
   (2) the generator model is a function of (parsed content, picks, targets): nothing else -- no global generator,
       no cache, no history -- is an argument of run_gen;
   (3) typing: for every history of requests the assigner handed out is built from the files of the last request
       (the cache step regenerated from the source).
   PARTIAL: the Python object graph is modelled for descriptor cells only; the tie checks, on random operation
   histories, that no BondDescriptor reachable from a returned molecule IS a parsed object's descriptor, that a deep
   dump of every live parsed object is unchanged, and that outputs equal baselines computed in a fresh process. *)
From Coq Require Import List ZArith QArith Bool Arith String.
From GBS Require Import Model.PyStr Model.Num Model.Bond Model.Select Model.Gen Model.Heap Proofs.HeapP Model.FF Src.SrcFF Proofs.FFP.
Import ListNotations.
Open Scope nat_scope.

Theorem C10_frame : forall base ops s,
  base <= List.length (fst s) /\ Forall (fun a => base <= a /\ a < List.length (fst s)) (snd s) ->
  Forall (fun o => match o with HNew tok | HAttach _ tok _ => Forall (fun a => a < base) tok | HSetWt _ _ => True end) ops ->
  forall k, k < base -> nth_error (fst (hrun s ops)) k = nth_error (fst s) k.
Proof. exact generation_frame. Qed.
Print Assumptions C10_frame.

(* same parsed content (whichever instance it was parsed into), same picks, same targets: same result, trace included *)
Theorem C10_function_of_content_and_generator : forall els els' pk tg, els = els' -> run_gen els pk tg = run_gen els' pk tg.
Proof. intros els els' pk tg ->. reflexivity. Qed.
Print Assumptions C10_function_of_content_and_generator.

Theorem C10_typing_history_free : forall (h : list (file * file)) (r : file * file),
  g_cls (fold_left (fun st q => cache_step st (fst q) (snd q)) (h ++ [r]) init) = Some (build (fst r) (snd r)).
Proof. exact cache_transparent. Qed.
Print Assumptions C10_typing_history_free.

(* non-vacuity: a token with two descriptor cells, a generation of three steps: the token's cells are untouched, the write landed on a copy *)
Definition c0 : descr := {| d_sym := lit "$"%string; d_id := None; d_weight := Fin 1; d_trans := None; d_order := OSingle; d_pre := []; d_atom := Some 0%Z; d_num := 0%Z |}.
Example C10_example :
  let r := hrun ([c0; c0], []) [HNew [0; 1]; HAttach 0 [0; 1] 1; HSetWt (Fin 0) None] in
  nth_error (fst r) 0 = Some c0 /\ nth_error (fst r) 1 = Some c0 /\ List.length (fst r) = 8 /\ snd r = [3; 6].
Proof. vm_compute. repeat split. Qed.
