(* C04 -- Generation only ever bonds compatible, unused descriptors with their bond order.
   Statements over the generator model (Model/Gen.v) for EVERY input, EVERY pick stream and EVERY
   list of drawn targets; all paths (prefix attachment, growth, transition lists, capping, hand-over)
   go through [attach], which is the model of MolGen.attach_other.  Proofs in Proofs/GenP.v. *)
From Coq Require Import List ZArith QArith Ascii String Bool.
From GBS Require Import Model.PyStr Model.Num Model.Bond Model.Select Model.Gen Proofs.BondP Proofs.GenP Props.GenExample Src.SrcAttach Proofs.AttachSrcP.
Import ListNotations.

(* every bond of a returned molecule: [a_self] was an open descriptor of an earlier residue,
   [a_other] a descriptor of the residue created by this very attach; both are (copies of) descriptors
   written on their tokens; they satisfy the conjugation rule; the bond has their common order and
   joins the two atoms they sit on *)
Theorem C04_attach_sound : forall els pk tg g infos st,
  run_gen els pk tg = Done (Some g, infos) st ->
  forall k r, nth_error (m_log g) k = Some r ->
    compat_spec (o_d (a_self r)) (o_d (a_other r)) /\
    d_order (o_d (a_self r)) = d_order (o_d (a_other r)) /\
    inst_ok (m_res g) (a_self r) /\ inst_ok (m_res g) (a_other r) /\
    o_node (a_other r) = S k /\ (o_node (a_self r) <= k)%nat /\
    bond_of r = (atom_of (a_self r), atom_of (a_other r), d_order (o_d (a_other r))).
Proof. intros els pk tg g infos st H. apply ginv_attach_sound. eapply run_gen_inv; eauto. Qed.
Print Assumptions C04_attach_sound.

(* no descriptor instance (residue, position) is used by two bonds, and none that was used is open *)
Theorem C04_used_once : forall els pk tg g infos st,
  run_gen els pk tg = Done (Some g, infos) st -> NoDup (used g ++ map key (m_open g)).
Proof. intros els pk tg g infos st H. apply ginv_used_once. eapply run_gen_inv; eauto. Qed.
Print Assumptions C04_used_once.

(* the two bonded atoms lie in the atom ranges of the two residues (no index-shift error), for
   tokens whose descriptors sit on atoms of the token *)
Theorem C04_atoms_in_residues : forall els pk tg g infos st,
  run_gen els pk tg = Done (Some g, infos) st ->
  (forall rt, In rt (m_res g) -> wf_tok (snd rt)) ->
  forall k r, nth_error (m_log g) k = Some r ->
    (off (m_res g) (o_node (a_self r)) <= atom_of (a_self r) < off (m_res g) (S (o_node (a_self r))))%Z /\
    (off (m_res g) (S k) <= atom_of (a_other r) < off (m_res g) (S (S k)))%Z.
Proof.
  intros els pk tg g infos st H W k r Hr.
  destruct (C04_attach_sound _ _ _ _ _ _ H k r Hr) as (_ & _ & I1 & I2 & N & _).
  destruct (inst_atom_range _ _ I1 W) as (? & _ & R1). destruct (inst_atom_range _ _ I2 W) as (? & _ & R2).
  rewrite N in R2. split; assumption.
Qed.
Print Assumptions C04_atoms_in_residues.

(* a single attach refuses an incompatible pair (an explicit transition list pointing at an
   incompatible partner ends in an error, never in a bond) *)
Theorem C04_incompatible_is_error : forall g i tok ref j a b,
  nth_error (m_open g) i = Some a -> nth_error (instances tok (m_natoms g) (List.length (m_res g))) j = Some b ->
  compatible (o_d b) (o_d a) = false -> exists m, attach g i tok ref j = Err ERuntime m.
Proof.
  intros g i tok ref j a b Ha Hb Hc. unfold attach. destruct (negb (t_ok tok)); [eauto|].
  rewrite Ha, Hb, Hc. cbn [negb]. eauto.
Qed.
Print Assumptions C04_incompatible_is_error.

(* non-vacuity: a documented molecule, picks and target of a seeded run of the implementation *)
(* tie T: MolGen.attach_other written over its decisions REGENERATED from mol_gen.py (Src/SrcAttach.v; statement skeleton checked, the
   statements that only place atoms in space left out; is_compatible regenerated from bond.py) is the attach step of the theorems above:
   the bond is refused unless the two descriptors are compatible *)
Theorem C04_attach_is_source : forall g i tok ref j, attach_src g i tok ref j = attach g i tok ref j.
Proof. exact attach_is_source. Qed.
Print Assumptions C04_attach_is_source.

Example C04_example :
  match run_gen ex1_els ex1_picks ex1_targets with
  | Done (Some g, _) _ => List.length (m_log g) = 7%nat /\ m_open g = []
  | _ => False
  end.
Proof. vm_compute. split; reflexivity. Qed.
