(* C15 -- Ill-formed notation and misuse are rejected, never silently reinterpreted.
   Proved for ALL strings: the descriptor parser (no loop), the token parser (both loops, whatever the atom
   oracle answers) and the system-level splitting loop (system.py:105-126 as repaired by a fix commit found
   by this check) TERMINATE -- the distinguished OutOfFuel result is unreachable; what the descriptor and
   token parsers can accept at all; an unclosed mixture specifier is an error; negative weights are not generable;
   unknown distribution names are rejected (over the regenerated dispatch).
   PARTIAL: the constructors of stochastic objects and molecules are not modelled; their rejection rules and
   termination are checked on the malformed stream (breaking operators, byte-level mutations, 2 s limit). *)
From Coq Require Import List ZArith QArith Ascii String Bool.
From GBS Require Import Model.PyStr Model.Num Model.Bond Model.Token Model.SysSplit Model.DistFam Src.SrcDist Proofs.TotalP Proofs.DistP Model.Stoch Proofs.StochP Model.Mol Proofs.MolP Model.SystemM Proofs.SystemP Src.SrcStoch Src.SrcGenerable Proofs.GenerableSrcP Src.SrcDescr Proofs.DescrSrcP Src.SrcToken Proofs.TokenSrcP Src.SrcStochParse Proofs.StochParseSrcP Model.SysSplit Src.SrcSysParse Proofs.SysParseSrcP Src.SrcMolParse Proofs.MolParseSrcP Model.Sys Src.SrcSys Proofs.SysSrcP Proofs.SystemSrcP.
Import ListNotations.
Open Scope Z_scope.

Theorem C15_descriptor_parse_total : forall raw n pre atom, is_fuel (parse_descr raw n pre atom) = false.
Proof. exact parse_descr_not_fuel. Qed.
Print Assumptions C15_descriptor_parse_total.

Theorem C15_token_parse_total : forall valid_atom text off, is_fuel (parse_token valid_atom text off) = false.
Proof. exact parse_token_total. Qed.
Print Assumptions C15_token_parse_total.

Theorem C15_system_split_total : forall raw, is_fuel (system_pieces raw) = false.
Proof. exact system_pieces_total. Qed.
Print Assumptions C15_system_split_total.

Theorem C15_unclosed_specifier_rejected : forall text acc f,
  0 <= find (lit ".|") text -> find_at (lit "|") text (find (lit ".|") text + 2) = -1 ->
  exists m, split_system (S f) text acc = Err ERuntime m.
Proof. exact system_unclosed_rejected. Qed.
Print Assumptions C15_unclosed_specifier_rejected.

Theorem C15_descriptor_accepts_only : forall raw n pre atom d,
  parse_descr raw n pre atom = OK d -> d_sym d <> [] ->
  let r := raw_norm' raw pre in
  index r 0 = Some (ch "[") /\ index r (-1) = Some (ch "]") /\
  (exists c, index r 1 = Some c /\ in_set (lit "$<>") c = true /\ d_sym d = [c]) /\
  (contains (lit "|") r = true -> count_char (ch "|") r = 2) /\
  contains (lit "@") pre = false /\ contains (lit "/") pre = false /\ contains (lit "\") pre = false.
Proof. exact parse_descr_accepts_only. Qed.
Print Assumptions C15_descriptor_accepts_only.

Theorem C15_unbalanced_rejected : forall valid_atom text off t,
  parse_token valid_atom text off = OK t -> count_char (ch "(") text = count_char (ch ")") text.
Proof. exact parse_token_balanced. Qed.
Print Assumptions C15_unbalanced_rejected.

Theorem C15_negative_weight_not_generable : forall t d, In d (k_bds t) -> num_ge0 (d_weight d) = false -> token_generable t = false.
Proof. exact negative_weight_not_generable. Qed.
Print Assumptions C15_negative_weight_not_generable.

Theorem C15_unknown_distribution_rejected : forall t,
  contains (lit "flory_schulz") t = false -> contains (lit "gauss") t = false -> contains (lit "uniform") t = false ->
  contains (lit "schulz_zimm") t = false -> contains (lit "log_normal") t = false -> contains (lit "poisson") t = false ->
  dispatch t = None.
Proof. exact dispatch_unknown. Qed.
Print Assumptions C15_unknown_distribution_rejected.

(* non-vacuity: strings the parsers do reject / split *)
(* stochastic objects (Model/Stoch.v): the parser is total; in an accepted object every transition list, on a token descriptor or on a
   terminal, has exactly one entry per descriptor of the object -- any other length is rejected; a text that does not start with '{' is
   rejected *)
Theorem C15_object_parse_total : forall (valid_atom : str -> bool) text, is_fuel (parse_stoch valid_atom text) = false.
Proof. exact parse_stoch_total. Qed.
Print Assumptions C15_object_parse_total.

Theorem C15_wrong_length_list_rejected : forall (valid_atom : str -> bool) text s, parse_stoch valid_atom text = OK s ->
  forall d l, In d (ps_bds s ++ [ps_left s; ps_right s]) -> d_trans d = Some l -> List.length l = List.length (ps_bds s).
Proof. intros v text s H. destruct (parse_stoch_spec v text s H) as (_ & _ & _ & L & _). exact L. Qed.
Print Assumptions C15_wrong_length_list_rejected.

Theorem C15_object_needs_opening_brace : forall (valid_atom : str -> bool) text,
  (forall c rest, strip text = c :: rest -> c <> ch "{") -> forall s, parse_stoch valid_atom text <> OK s.
Proof. exact parse_stoch_needs_braces. Qed.
Print Assumptions C15_object_needs_opening_brace.

(* molecules (Model/Mol.v): the while loop over '{' terminates -- the fuel the model gives it is never exhausted -- for every text *)
Theorem C15_molecule_parse_total : forall (valid_atom : str -> bool) (fprint : num -> str) text, is_fuel (parse_molecule valid_atom fprint text) = false.
Proof. exact parse_molecule_total. Qed.
Print Assumptions C15_molecule_parse_total.

(* systems (Model/SystemM.v): splitting loop + molecule parser on every piece + mixture bookkeeping: total for every text and caller mass *)
Theorem C15_system_parse_total : forall (valid_atom : str -> bool) (fprint : num -> str) raw smw, is_fuel (parse_system valid_atom fprint raw smw) = false.
Proof. exact parse_system_total. Qed.
Print Assumptions C15_system_parse_total.

(* the same, stated with the length test TRANSLATED from the current source of Stochastic._validate (Src/SrcStoch.v, regenerated on every
   run): no accepted object lets that test fire -- if the source's test changes, this no longer follows *)
Theorem C15_accepted_objects_pass_the_source_validate : forall (valid_atom : str -> bool) text s, parse_stoch valid_atom text = OK s ->
  SrcStoch.validate_bad (ps_bds s) (ps_left s) (ps_right s) = false.
Proof.
  intros v text s H. rewrite validate_is_source. destruct (parse_stoch_spec v text s H) as (_ & _ & _ & L & _).
  destruct (existsb _ _) eqn:E; [|reflexivity]. apply existsb_exists in E as (d & Hin & Hd).
  destruct (d_trans d) as [l|] eqn:Et; [|discriminate]. rewrite (L d l Hin Et), Nat.eqb_refl in Hd. discriminate.
Qed.
Print Assumptions C15_accepted_objects_pass_the_source_validate.

(* tie T: the generable chain (BondDescriptor.generable -> SmilesToken.generable -> Stochastic.generable) written over the decision
   expressions REGENERATED from bond.py / token.py / stochastic.py (statement skeletons checked) is the model's: a negative weight on ANY
   descriptor of a token makes the token, and every object that contains it, not generable *)
Theorem C15_generable_chain_is_source : forall (d : descr) (t : token) (s : pstoch),
  descr_generable_src d = generable_descr d /\ token_generable_src (k_bds t) = token_generable t /\
  stoch_generable_src (map generable_descr (ps_bds s)) (map token_generable (ps_rep s ++ ps_end s)) (ps_dist s) true true = stoch_generable s.
Proof. intros d t s. split; [apply descr_generable_is_source|]. split; [apply token_generable_is_source|apply stoch_generable_is_source]. Qed.
Print Assumptions C15_generable_chain_is_source.

(* tie T: the parsers whose totality and rejections are proved above are the ones rebuilt from the source's own expressions *)
Theorem C15_parsers_are_source : forall (valid_atom : str -> bool),
  (forall raw n pre atom, parse_descr_src raw n pre atom = parse_descr raw n pre atom) /\
  (forall text off, parse_token_src valid_atom text off = parse_token valid_atom text off) /\
  (forall text, parse_stoch_src valid_atom text = parse_stoch valid_atom text) /\
  (forall fuel text acc, split_system_src fuel text acc = split_system fuel text acc).
Proof.
  intros va. split; [exact parse_descr_is_source|]. split; [exact (parse_token_is_source va)|]. split; [exact (parse_stoch_is_source va)|exact split_system_is_source].
Qed.
Print Assumptions C15_parsers_are_source.

Theorem C15_molecule_parser_is_source : forall (valid_atom : str -> bool) (fprint : num -> str) text,
  parse_molecule_src valid_atom fprint text = parse_molecule valid_atom fprint text.
Proof. intros va fp. exact (parse_molecule_is_source va fp). Qed.
Print Assumptions C15_molecule_parser_is_source.

(* System.__init__ as a whole -- splitting loop, molecule parser and bookkeeping, each rebuilt from the source -- is the model's parse_system *)
Theorem C15_system_parser_is_source : forall (valid_atom : str -> bool) (fprint : num -> str) raw smw,
  parse_system_src valid_atom fprint raw smw = parse_system valid_atom fprint raw smw.
Proof. intros va fp. exact (parse_system_is_source va fp). Qed.
Print Assumptions C15_system_parser_is_source.

Example C15_example :
  (exists m, parse_token (fun _ => true) (lit "C[$]C") 0 = Err ERuntime m) /\
  (exists m, parse_token (fun _ => true) (lit "CC(C[$]") 0 = Err ERuntime m) /\
  (exists m, system_pieces (lit "CC.|50") = Err ERuntime m) /\
  system_pieces (lit "CC.|50%|CCC.|5|") = OK ([lit "CC.|50%|"; lit "CCC.|5|"], []).
Proof. repeat split; try (eexists; vm_compute; reflexivity). Qed.
