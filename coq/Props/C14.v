(* C14 -- Generated ensembles have the declared composition by mass.
   The pick law of system.py (p_i = declared fraction) meets the property exactly when the mean
   molecule masses are equal; in general it does not: C14_refuted (known finding).
   One step is mathematics outside this development: the long-run mass share of component i under
   independent picks with law p and mean masses m is p_i m_i / sum_j p_j m_j (renewal-reward). *)
From Coq Require Import List ZArith QArith Bool String.
From GBS Require Import Model.PyStr Model.Num Model.Bond Model.Select Model.Sys Model.SysGen Proofs.SysGenP Src.SrcSysGen Proofs.SysGenSrcP Src.SrcSys Proofs.SysSrcP.
Import ListNotations.
Open Scope Q_scope.

(* the law the code uses *)
Theorem C14_code_law : forall rel i r, nth_error rel i = Some r -> nth_error (comp_law rel) i = Some (r / total rel).
Proof. intros rel i r H. unfold comp_law. rewrite nth_error_map, H. reflexivity. Qed.
Print Assumptions C14_code_law.

(* equal mean masses (any number of components): share = declared fraction *)
Theorem C14_outside_unequal_masses : forall f mu i fi, 0 < mu -> ~ total f == 0 ->
  nth_error f i = Some fi ->
  exists v, nth_error (share (comp_law f) (map (fun _ => mu) f)) i = Some v /\ v == fi / total f.
Proof. exact share_equal_masses. Qed.
Print Assumptions C14_outside_unequal_masses.

(* two components: the code's law gives the declared share if and only if the mean masses are equal *)
Theorem C14_holds_iff_equal_masses : forall f1 f2 m1 m2, 0 < f1 -> 0 < f2 -> 0 < m1 -> 0 < m2 -> f1 + f2 == 1 ->
  (f1 * m1 / (f1 * m1 + (f2 * m2 + 0)) == f1 <-> m1 == m2).
Proof. exact share_two_iff. Qed.
Print Assumptions C14_holds_iff_equal_masses.

(* the law that would meet the property: p_i proportional to f_i / m_i *)
Theorem C14_correct_law : forall f1 f2 m1 m2, 0 < f1 -> 0 < f2 -> 0 < m1 -> 0 < m2 ->
  (f1 / m1) * m1 / ((f1 / m1) * m1 + ((f2 / m2) * m2 + 0)) == f1 / (f1 + f2).
Proof. exact share_two_correct. Qed.
Print Assumptions C14_correct_law.

(* tie T: the component is picked inside the generator whose statement skeleton -- rng.choice(range(len(relative_fractions)),
   p=relative_fractions / np.sum(relative_fractions)) on the list of the components' relative masses, once per yielded molecule -- is
   checked against the source on every run (Src/SrcSysGen.v is regenerated only if it matches); the loop around the pick is the model's *)
Theorem C14_pick_loop_is_source : forall stream S acc, sys_loop_src S acc stream = sys_loop S acc stream.
Proof. exact sys_loop_is_source. Qed.
Print Assumptions C14_pick_loop_is_source.

Theorem C14_refuted :
  exists f m v, nth_error (share (comp_law f) m) 0 = Some v /\ nth_error f 0 = Some 90 /\ total f == 100 /\ v < 10 # 100.
Proof. exact share_refuted. Qed.
Print Assumptions C14_refuted.

Example C14_example : nth_error (share (comp_law [30; 70]) [50; 50]) 0 = Some (30 / (30 + (70 + 0)) * 50 / (30 / (30 + (70 + 0)) * 50 + (70 / (30 + (70 + 0)) * 50 + 0))).
Proof. reflexivity. Qed.

(* tie T: the shares the picks are made with are those of _estimate_system_molecular_weight, whose bookkeeping written over the decisions
   REGENERATED from system.py / mixture.py (Src/SrcSys.v) is Model/Sys.v's estimate -- the function comp_law is applied to *)
Theorem C14_shares_are_source : forall cs smw, estimate_src cs smw = estimate cs smw.
Proof. exact estimate_is_source. Qed.
Print Assumptions C14_shares_are_source.
