(* C05 -- A generated molecule is a tree of whole, unmodified copies of the written tokens.
   Model-level part: residues in creation order are whole copies of tokens of the input, atoms are
   appended residue by residue, one bond and one residue edge per attach, the residue graph is a
   rooted tree (connected, |E| = |V| - 1), the mass is the sum of the residue masses.  For every
   input, pick stream and target list.  (Sanitisation / hydrogens: RDKit, oracle-checked only.) *)
From Coq Require Import List ZArith QArith Ascii String Bool.
From GBS Require Import Model.PyStr Model.Num Model.Bond Model.Select Model.Gen Proofs.BondP Proofs.GenP Props.GenExample Src.SrcAttach Proofs.AttachSrcP.
Import ListNotations.

(* the atoms are exactly the atoms of the residues, concatenated in creation order *)
Theorem C05_partition : forall els pk tg g infos st,
  run_gen els pk tg = Done (Some g, infos) st ->
  m_natoms g = off (m_res g) (List.length (m_res g)).
Proof. intros els pk tg g infos st H. apply run_gen_inv in H as [H _]. apply (gi_natoms _ _ H). Qed.
Print Assumptions C05_partition.

(* every residue is a copy of a token written in the input: of the element's own token, or of a
   repeat / end token of its stochastic object *)
Theorem C05_residues_are_tokens : forall els pk tg g infos st,
  run_gen els pk tg = Done (Some g, infos) st ->
  forall rt, In rt (m_res g) -> exists e, In e els /\
    match e with ETok t => snd rt = t | EStoch s => In (snd rt) (s_rep s) \/ In (snd rt) (s_end s) end.
Proof. intros els pk tg g infos st H. apply run_gen_inv in H as [_ H]. eapply elems_res_toks; eauto. Qed.
Print Assumptions C05_residues_are_tokens.

(* residue graph: edge k joins the residue created by attach k (number k+1) to an earlier one;
   |E| + 1 = |V|; every residue is linked to residue 0: a tree *)
Theorem C05_tree : forall els pk tg g infos st,
  run_gen els pk tg = Done (Some g, infos) st ->
  (List.length (m_edges g) + 1 = List.length (m_res g))%nat /\
  (forall k p c o, nth_error (m_edges g) k = Some (p, c, o) -> c = S k /\ (p <= k)%nat) /\
  (forall n, (n < List.length (m_res g))%nat -> linked (m_edges g) n 0).
Proof.
  intros els pk tg g infos st H. apply run_gen_inv in H as [H _]. destruct (ginv_edges g H) as [E1 E2].
  split; [exact E1|]. split; [exact E2|]. apply ginv_connected. exact H.
Qed.
Print Assumptions C05_tree.

(* exactly one inter-residue bond per residue edge *)
Theorem C05_one_bond_per_edge : forall g : molgen,
  List.length (m_bonds g) = List.length (m_edges g) /\
  forall k r, nth_error (m_log g) k = Some r ->
    nth_error (m_bonds g) k = Some (bond_of r) /\ nth_error (m_edges g) k = Some (edge_of r).
Proof. exact bonds_edges_biject. Qed.
Print Assumptions C05_one_bond_per_edge.

(* heavy-atom mass = sum of the residue masses *)
Theorem C05_mass_additive : forall els pk tg g infos st,
  run_gen els pk tg = Done (Some g, infos) st ->
  m_mass g == total (map mass_of (m_res g)).
Proof. intros els pk tg g infos st H. apply run_gen_inv in H as [H _]. apply (gi_mass _ _ H). Qed.
Print Assumptions C05_mass_additive.

(* tie T: the attach step (one residue added whole, one bond, the two descriptors consumed) rebuilt from mol_gen.py's regenerated decisions is
   the model's; MolGen.fully_generated is "no open descriptor left" *)
Theorem C05_attach_is_source : forall g i tok ref j, attach_src g i tok ref j = attach g i tok ref j.
Proof. exact attach_is_source. Qed.
Print Assumptions C05_attach_is_source.

Theorem C05_fully_generated_is_source : forall n, fully_generated_src n = Nat.eqb n 0.
Proof. exact fully_generated_is_source. Qed.
Print Assumptions C05_fully_generated_is_source.

Example C05_example :
  match run_gen ex2_els ex2_picks ex2_targets with
  | Done (Some g, _) _ => List.length (m_res g) = ex2_nres /\ List.length (m_edges g) = 5%nat
  | _ => False
  end.
Proof. vm_compute. split; reflexivity. Qed.
