(* C03 -- Bond-descriptor compatibility is exactly the BigSMILES conjugation rule.
   Property statements only; every proof is `exact <lemma>` (or a kernel computation over the
   finite universe the property names).  [is_compatible] and [order_of_pre] are the terms the
   translator regenerates from /repo/src/gbigsmiles/bond.py on every run. *)
From Coq Require Import List ZArith QArith Ascii String Bool.
From GBS Require Import Model.PyStr Model.Num Model.Bond Src.SrcBond Proofs.BondP.
Import ListNotations.

(* two descriptors may bond iff both non-empty, same id, same order, $-$ or <-> *)
Theorem C03_iff : forall a b : descr,
  is_compatible a b = true <->
  (d_sym a <> [] /\ d_sym b <> [] /\ d_id a = d_id b /\ d_order a = d_order b /\
   ((d_sym a = lit "$" /\ d_sym b = lit "$") \/ (d_sym a = lit "<" /\ d_sym b = lit ">") \/
    (d_sym a = lit ">" /\ d_sym b = lit "<"))).
Proof. exact src_compat_iff. Qed.
Print Assumptions C03_iff.

Theorem C03_symmetric : forall a b : descr, is_compatible a b = is_compatible b a.
Proof. exact src_compat_sym. Qed.
Print Assumptions C03_symmetric.

Theorem C03_empty_bonds_nothing : forall a b : descr,
  d_sym a = [] -> is_compatible a b = false /\ is_compatible b a = false.
Proof. exact src_compat_empty. Qed.
Print Assumptions C03_empty_bonds_nothing.

Theorem C03_weight_irrelevant : forall a b w t w' t',
  is_compatible (with_weight a w t) (with_weight b w' t') = is_compatible a b.
Proof. exact src_compat_weight_irrelevant. Qed.
Print Assumptions C03_weight_irrelevant.

(* only symbol, id and order matter at all *)
Theorem C03_class_only : forall a a' b b',
  same_class a a' -> same_class b b' -> is_compatible a b = is_compatible a' b'.
Proof. exact src_compat_class. Qed.
Print Assumptions C03_class_only.

Theorem C03_order_table :
  order_of_pre [] = OSingle /\ order_of_pre (lit "-") = OSingle /\
  order_of_pre (lit "=") = ODouble /\ order_of_pre (lit "#") = OTriple /\
  order_of_pre (lit ":") = OArom.
Proof. exact src_order_table. Qed.
Print Assumptions C03_order_table.

(* what the descriptor parser hands to is_compatible *)
Theorem C03_parsed_fields : forall raw n pre atom d,
  parse_descr raw n pre atom = OK d ->
  wf_sym (d_sym d) /\ d_pre d = pre /\ d_num d = n /\
  (d_sym d = [] -> raw = lit "[]" /\ d_order d = order_empty /\ d_weight d = Fin 1 /\ d_trans d = None /\ d_id d = None) /\
  (d_sym d <> [] -> d_order d = order_of_pre pre /\ d_atom d = atom).
Proof. exact parse_descr_shape. Qed.
Print Assumptions C03_parsed_fields.

(* the hand-written model used by the generator model is the translated function *)
Theorem C03_model_is_source : forall a b, is_compatible a b = compatible a b.
Proof. exact src_compat_model. Qed.
Print Assumptions C03_model_is_source.

(* ---- the property's finite universe, end to end through the descriptor parser ----
   {[], $, <, >} x ids {none, 0..12} x prefixes {none, -, =, #, :} x weight forms {none, scalar, list}
   = 840 texts, all 705 600 ordered pairs, decided by kernel computation. *)
Inductive usym := UE | UD | UL | UG.
Inductive upre := PNone | PDash | PEq | PHash | PColon.
Inductive uwt := WNone | WScalar | WList.
Definition utuple := (usym * option nat * upre * uwt)%type.

Definition u_syms := [UE; UD; UL; UG].
Definition u_ids : list (option nat) := None :: map Some (seq 0 13).
Definition u_pres := [PNone; PDash; PEq; PHash; PColon].
Definition u_wts := [WNone; WScalar; WList].
Definition universe : list utuple :=
  flat_map (fun s => flat_map (fun i => flat_map (fun p => map (fun w => (s, i, p, w)) u_wts) u_pres) u_ids) u_syms.

Definition sym_text (s : usym) : str :=
  match s with UE => [] | UD => lit "$" | UL => lit "<" | UG => lit ">" end.
Definition pre_text (p : upre) : str :=
  match p with PNone => [] | PDash => lit "-" | PEq => lit "=" | PHash => lit "#" | PColon => lit ":" end.
Definition wt_text (w : uwt) : str :=
  match w with WNone => [] | WScalar => lit "|2.5|" | WList => lit "|0 3 1.5e1 .5|" end.
Definition u_text (t : utuple) : str :=
  let '(s, i, p, w) := t in
  match s with
  | UE => lit "[]"
  | _ => (lit "[" ++ sym_text s ++ (match i with None => [] | Some n => z_to_str (Z.of_nat n) end) ++ wt_text w ++ lit "]")%list
  end.
Definition u_parse (t : utuple) : result descr :=
  let '(s, i, p, w) := t in parse_descr (u_text t) 0%Z (pre_text p) (Some 0%Z).

(* the conjugation rule stated on the tuple, not on anything parsed *)
Definition u_order (p : upre) : order :=
  match p with PNone | PDash => OSingle | PEq => ODouble | PHash => OTriple | PColon => OArom end.
Definition u_conj (a b : usym) : bool :=
  match a, b with UD, UD | UL, UG | UG, UL => true | _, _ => false end.
Definition u_id_eqb (a b : option nat) : bool :=
  match a, b with None, None => true | Some x, Some y => Nat.eqb x y | _, _ => false end.
Definition u_rule (t1 t2 : utuple) : bool :=
  let '(s1, i1, p1, _) := t1 in let '(s2, i2, p2, _) := t2 in
  u_conj s1 s2 && u_id_eqb i1 i2 && order_eqb (u_order p1) (u_order p2).

Definition u_check (x y : utuple * result descr) : bool :=
  match snd x, snd y with
  | OK a, OK b => Bool.eqb (is_compatible a b) (u_rule (fst x) (fst y))
  | _, _ => false
  end.
Definition u_all (U : list utuple) : bool :=
  let P := map (fun t => (t, u_parse t)) U in forallb (fun x => forallb (u_check x) P) P.

Lemma universe_all_pairs : u_all universe = true.
Proof. vm_cast_no_check (eq_refl true). Qed.   (* one kernel VM evaluation, at Qed *)

Lemma u_all_spec U : u_all U = true -> forall t1 t2, In t1 U -> In t2 U ->
  u_check (t1, u_parse t1) (t2, u_parse t2) = true.
Proof.
  unfold u_all. intros H t1 t2 H1 H2. rewrite forallb_forall in H.
  assert (I1 : In (t1, u_parse t1) (map (fun t => (t, u_parse t)) U)) by (apply in_map_iff; exists t1; auto).
  assert (I2 : In (t2, u_parse t2) (map (fun t => (t, u_parse t)) U)) by (apply in_map_iff; exists t2; auto).
  specialize (H _ I1). rewrite forallb_forall in H. exact (H _ I2).
Qed.

Theorem C03_universe : forall t1 t2, In t1 universe -> In t2 universe ->
  exists a b, u_parse t1 = OK a /\ u_parse t2 = OK b /\ is_compatible a b = u_rule t1 t2.
Proof.
  intros t1 t2 H1 H2.
  pose proof (u_all_spec universe universe_all_pairs t1 t2 H1 H2) as H.
  unfold u_check in H. cbn [fst snd] in H.
  destruct (u_parse t1) as [a|]; [|discriminate]. destruct (u_parse t2) as [b|]; [|discriminate].
  exists a, b. repeat split. apply eqb_prop. exact H.
Qed.
Print Assumptions C03_universe.

Example C03_universe_size : List.length universe = 840%nat.
Proof. vm_compute. reflexivity. Qed.

(* non-vacuity: concrete descriptors parsed from text meet both sides *)
Example C03_example_compatible :
  exists a b, parse_descr (lit "[<3|2.5|]") 0%Z (lit "=") (Some 1%Z) = OK a /\
              parse_descr (lit "[>3]") 1%Z (lit "=") (Some 0%Z) = OK b /\
              is_compatible a b = true /\ is_compatible b a = true.
Proof. eexists. eexists. vm_compute. repeat split. Qed.
Example C03_example_incompatible_id :
  exists a b, parse_descr (lit "[$1]") 0%Z [] (Some 1%Z) = OK a /\
              parse_descr (lit "[$]") 1%Z [] (Some 0%Z) = OK b /\ is_compatible a b = false.
Proof. eexists. eexists. vm_compute. repeat split. Qed.
