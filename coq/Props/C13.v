(* C13 -- Ensemble generation yields complete member molecules up to the system mass.
   Model/SysGen.v: the loop of system.py:156-172 over an arbitrary stream of generated molecules. *)
From Coq Require Import List ZArith QArith Bool String.
From GBS Require Import Model.PyStr Model.Num Model.Bond Model.Select Model.Sys Model.SysGen Proofs.SysGenP.
Import ListNotations.
Open Scope Q_scope.

(* for EVERY stream of generated molecules and every system mass: the yielded molecules are a prefix
   of the stream, all fully generated; before each yielded molecule the accumulated mass was below
   the system mass; iteration ends exactly when the accumulated mass reaches it (LStop), or with an
   error at the first molecule that is not fully generated, which is not yielded (LErr) *)
Theorem C13_prefix_and_stop : forall S stream acc,
  let r := sys_loop S acc stream in
  exists rest, stream = yielded r ++ rest /\
    Forall (fun m => mb_full m = true) (yielded r) /\
    (forall k, (k < List.length (yielded r))%nat -> acc + msum (firstn k (yielded r)) < S) /\
    match ending r with
    | LStop => S <= acc + msum (yielded r)
    | LNeed => rest = [] /\ acc + msum (yielded r) < S
    | LErr => acc + msum (yielded r) < S /\ exists m rest', rest = m :: rest' /\ mb_full m = false
    | LYield _ _ => False
    end.
Proof. exact sys_loop_spec. Qed.
Print Assumptions C13_prefix_and_stop.

(* a system that is not generable refuses both entry points *)
Theorem C13_refuses : forall c, guard false c = false.
Proof. intros c. reflexivity. Qed.
Print Assumptions C13_refuses.

Example C13_example :
  yielded (sys_loop 100 0 [{| mb_comp := 0; mb_mass := 60; mb_full := true |}; {| mb_comp := 1; mb_mass := 70; mb_full := true |};
                           {| mb_comp := 0; mb_mass := 60; mb_full := true |}]) =
  [{| mb_comp := 0; mb_mass := 60; mb_full := true |}; {| mb_comp := 1; mb_mass := 70; mb_full := true |}].
Proof. reflexivity. Qed.
