(* C13 -- Ensemble generation yields complete member molecules up to the system mass.
   Model/SysGen.v: the loop of system.py:156-172 over an arbitrary stream of generated molecules. *)
From Coq Require Import List ZArith QArith Bool String.
From GBS Require Import Model.PyStr Model.Num Model.Bond Model.Select Model.Sys Model.SysGen Proofs.SysGenP Src.SrcSysGen Proofs.SysGenSrcP.
Import ListNotations.
Open Scope Q_scope.

(* for EVERY stream of generated molecules and every system mass: the yielded molecules are a prefix
   of the stream, all fully generated; before each yielded molecule the accumulated mass was below
   the system mass; iteration ends exactly when the accumulated mass reaches it (LStop), or with an
   error at the first molecule that is not fully generated, which is not yielded (LErr) *)
Theorem C13_prefix_and_stop : forall S stream acc,
  let r := sys_loop S acc stream in
  exists rest, stream = yielded r ++ rest /\
    Forall (fun m => mb_full m = true) (yielded r) /\
    (forall k, (k < List.length (yielded r))%nat -> acc + msum (firstn k (yielded r)) < S) /\
    match ending r with
    | LStop => S <= acc + msum (yielded r)
    | LNeed => rest = [] /\ acc + msum (yielded r) < S
    | LErr => acc + msum (yielded r) < S /\ exists m rest', rest = m :: rest' /\ mb_full m = false
    | LYield _ _ => False
    end.
Proof. exact sys_loop_spec. Qed.
Print Assumptions C13_prefix_and_stop.

(* a system that is not generable refuses both entry points *)
Theorem C13_refuses : forall c, guard false c = false.
Proof. intros c. reflexivity. Qed.
Print Assumptions C13_refuses.

(* tie T: the loop and the guards written over the decision expressions REGENERATED from system.py (Src/SrcSysGen.v; the statement
   skeletons of generable / system_mass / generator / generate are checked by the translator) are the model of the theorems above *)
Theorem C13_loop_is_source : forall stream S acc, sys_loop_src S acc stream = sys_loop S acc stream.
Proof. exact sys_loop_is_source. Qed.
Print Assumptions C13_loop_is_source.

Theorem C13_guards_are_source : forall generable c, guard_src generable c = guard generable c.
Proof. exact guard_is_source. Qed.
Print Assumptions C13_guards_are_source.

(* System.generable is the bookkeeping's flag and every component generable; single generation returns only a fully generated
   molecule of a generable component of a generable system *)
Theorem C13_generable_and_single_are_source : forall flag gs generable g full,
  sys_generable_src flag gs = flag && forallb (fun x => x) gs /\ single_src generable g full = generable && g && full.
Proof. intros. split; [apply sys_generable_is_source|apply single_is_source]. Qed.
Print Assumptions C13_generable_and_single_are_source.

(* the stop rule, stated of the loop built from the source's own expressions *)
Theorem C13_source_loop_stops_at_system_mass : forall S stream acc,
  ending (sys_loop_src S acc stream) = LStop -> S <= acc + msum (yielded (sys_loop_src S acc stream)).
Proof.
  intros S stream acc. rewrite sys_loop_is_source. intros H.
  destruct (sys_loop_spec S stream acc) as (rest & _ & _ & _ & E). rewrite H in E. exact E.
Qed.
Print Assumptions C13_source_loop_stops_at_system_mass.

Example C13_example :
  yielded (sys_loop 100 0 [{| mb_comp := 0; mb_mass := 60; mb_full := true |}; {| mb_comp := 1; mb_mass := 70; mb_full := true |};
                           {| mb_comp := 0; mb_mass := 60; mb_full := true |}]) =
  [{| mb_comp := 0; mb_mass := 60; mb_full := true |}; {| mb_comp := 1; mb_mass := 70; mb_full := true |}].
Proof. reflexivity. Qed.
