(* C08 -- Every random decision follows the weights written in the notation.
   The selection law (Model/Select.v = core.py:102-122, stochastic.py:207-209) and its use at every
   decision of every run of the generator model. *)
From Coq Require Import List ZArith QArith Ascii String Bool.
From GBS Require Import Model.PyStr Model.Num Model.Bond Model.Select Model.Gen Proofs.BondP Proofs.SelectP Props.GenExample Src.SrcBond Src.SrcCore Proofs.CoreSrcP.
Import ListNotations.
Open Scope Q_scope.

Theorem C08_law_normalised : forall w, w <> [] -> Forall (fun x => 0 <= x) w ->
  total (law w) == 1 /\ Forall (fun p => 0 <= p) (law w) /\ List.length (law w) = List.length w.
Proof. intros w H1 H2. split; [apply law_sums_to_one; auto|]. split; [apply law_nonneg; auto|apply law_length]. Qed.
Print Assumptions C08_law_normalised.

Theorem C08_law_proportional : forall w x w', w = x :: w' -> all_eqb x w = false ->
  forall i wi, nth_error w i = Some wi -> exists p, nth_error (law w) i = Some p /\ p == wi / total w.
Proof. exact law_proportional. Qed.
Print Assumptions C08_law_proportional.

Theorem C08_law_uniform : forall w x w', w = x :: w' -> all_eqb x w = true -> Forall (fun y => 0 <= y) w ->
  forall i wi, nth_error w i = Some wi -> exists p, nth_error (law w) i = Some p /\ p == 1 / inject_Z (Z.of_nat (List.length w)).
Proof. exact law_uniform. Qed.
Print Assumptions C08_law_uniform.

Theorem C08_transition_list : forall tr w, w == total tr -> ~ w == 0 ->
  total (trans_law tr w) == 1 /\ forall i t, nth_error tr i = Some t -> nth_error (trans_law tr w) i = Some (t / w).
Proof. intros tr w H1 H2. split; [apply trans_law_normalised; auto|]. intros i t. apply trans_law_entry. Qed.
Print Assumptions C08_transition_list.

(* candidates = exactly the compatible descriptors *)
Theorem C08_candidates : forall l b i,
  In i (compat_idx l (Some b)) <-> exists o, nth_error l i = Some o /\ compatible b o = true.
Proof. exact compat_idx_spec. Qed.
Print Assumptions C08_candidates.

(* what one weighted choice records: candidates, the law of their weights (sum 1), the position *)
Theorem C08_choice_site : forall bds bond st k st',
  choose bds bond st = Done k st' ->
  exists w pos, map_opt (fun i => match nth_error bds i with Some d => qw d | None => None end) (compat_idx bds bond) = Some w /\
                trace st' = EvChoice (compat_idx bds bond) (law w) pos :: trace st /\
                nth_error (compat_idx bds bond) pos = Some k /\ total (law w) == 1.
Proof. exact choose_event. Qed.
Print Assumptions C08_choice_site.

(* an option of probability zero is never taken: every recorded decision of every run *)
Theorem C08_zero_never : forall els pk tg r st,
  run_gen els pk tg = Done r st ->
  Forall (fun e => match e with
                   | EvChoice cands p k => List.length cands = List.length p /\ exists pk, nth_error p k = Some pk /\ 0 < pk
                   | EvDraw _ => True
                   end) (trace st).
Proof. exact run_gen_events_good. Qed.
Print Assumptions C08_zero_never.

(* tie T: the candidate filter and the +1 rule written over the decision expressions REGENERATED from core.py (Src/SrcCore.v; the
   statement skeletons of get_compatible_bond_descriptor_ids and choose_compatible_weight -- weights collected in candidate order, the
   rule, `weights /= np.sum(weights)`, `rng.choice(compatible_idx, p=weights)` -- are checked by the translator; is_compatible is the
   function regenerated from bond.py) are the selection model of the theorems in this file *)
Theorem C08_candidates_are_source : forall l bond, compat_idx_src l bond = compat_idx l bond.
Proof. exact compat_idx_is_source. Qed.
Print Assumptions C08_candidates_are_source.

Theorem C08_law_is_source : forall idx w, List.length idx = List.length w -> law_src idx w = law w.
Proof. exact law_is_source. Qed.
Print Assumptions C08_law_is_source.

Example C08_example : law [1; 2; 1] = [1 / (1 + (2 + (1 + 0))); 2 / (1 + (2 + (1 + 0))); 1 / (1 + (2 + (1 + 0)))] /\
                      Forall (fun p => p == 1 # 2) (law [0; 0]).
Proof. split; [reflexivity|]. repeat constructor. Qed.
