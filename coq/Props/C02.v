(* C02 -- Parsing recovers exactly the structure the notation denotes.
   Proved here for ALL inputs: what the descriptor parser recovers (weight default 1, list weight = sum of the
   list, a single number, symbol / id / order table via C03_parsed_fields) and that every descriptor of every
   accepted token is attached to an atom of that token.  The token model (Model/Token.v) follows token.py as
   REPAIRED by the two fix commits (branch bookkeeping in written order; bond characters of a descriptor);
   the former defect witnesses are kernel computations below.
   FULL STATEMENT (not proved):
     C02_parse_denotes : forall a : Ast.token, Ast.wf a -> forall ws nf,
        parse_token (Ast.print ws nf a) = OK t /\ atoms t = Ast.atoms a /\ descrs t = Ast.denote a
   The specification side (AST, printer, denotation) lives in harness/tokast.py; the oracle compares it with the
   implementation on exhaustive small and random deep ASTs on every run. *)
From Coq Require Import List ZArith QArith Ascii String Bool.
From GBS Require Import Model.PyStr Model.Num Model.Bond Model.Token Src.SrcBond Proofs.BondP Proofs.TokenP Model.DistFam Src.SrcDist Model.Stoch Proofs.TotalP Proofs.StochP Model.Mol Proofs.MolP Src.SrcDescr Proofs.DescrSrcP Src.SrcToken Proofs.TokenSrcP Src.SrcStochParse Proofs.StochParseSrcP Src.SrcMolParse Proofs.MolParseSrcP Proofs.StrP Proofs.MixRoundTrip.
Import ListNotations.
Open Scope Z_scope.

Theorem C02_descriptor_weight_partial : forall raw n pre atom d,
  parse_descr raw n pre atom = OK d -> d_sym d <> [] ->
  (contains (lit "|") (raw_norm raw pre) = false -> d_weight d = Fin 1 /\ d_trans d = None) /\
  (forall l, d_trans d = Some l -> d_weight d = num_sum l /\
             map_opt py_float (split_ws (strip_chars (lit "|") (weight_text (raw_norm raw pre)))) = Some l) /\
  (contains (lit "|") (raw_norm raw pre) = true -> d_trans d = None ->
     map_opt py_float (split_ws (strip_chars (lit "|") (weight_text (raw_norm raw pre)))) = Some [d_weight d]).
Proof. exact parse_descr_weight. Qed.
Print Assumptions C02_descriptor_weight_partial.

Theorem C02_descriptor_fields_partial : forall raw n pre atom d,
  parse_descr raw n pre atom = OK d ->
  wf_sym (d_sym d) /\ d_pre d = pre /\ d_num d = n /\
  (d_sym d = [] -> raw = lit "[]" /\ d_order d = order_empty /\ d_weight d = Fin 1 /\ d_trans d = None /\ d_id d = None) /\
  (d_sym d <> [] -> d_order d = order_of_pre pre /\ d_atom d = atom).
Proof. exact parse_descr_shape. Qed.
Print Assumptions C02_descriptor_fields_partial.

Theorem C02_descriptors_on_atoms_partial : forall valid_atom text off t,
  parse_token valid_atom text off = OK t ->
  Forall (fun d => d_sym d = [] \/ exists a, d_atom d = Some a /\ 0 <= a /\ (a < Z.of_nat (List.length (k_atoms t)) \/ a = 0)) (k_bds t).
Proof. exact parse_token_descrs_on_atoms. Qed.
Print Assumptions C02_descriptors_on_atoms_partial.

(* the former defects, on the model of the repaired code *)
Definition summary (s : string) : option (list (str * option Z * order)) :=
  match parse_token (fun _ => true) (lit s) 0 with
  | OK t => Some (map (fun d => (d_sym d, d_atom d, d_order d)) (k_bds t))
  | Err _ _ => None
  end.

(* a descriptor in a branch that follows another branch binds to the branching atom, not to the methyl group *)
(* the stochastic-object layer (Model/Stoch.v): for every accepted object the descriptor table is the descriptors of the repeat tokens
   followed by those of the end tokens, every token was parsed at the offset "descriptors before it", the left terminal carries number 0
   and the right terminal the number of descriptors of the object *)
Theorem C02_object_descriptor_table_partial : forall (valid_atom : str -> bool) text s, parse_stoch valid_atom text = OK s ->
  ps_bds s = (flat_map k_bds (ps_rep s) ++ flat_map k_bds (ps_end s))%list /\
  units_at valid_atom 0 (ps_rep s) /\ units_at valid_atom (List.length (flat_map k_bds (ps_rep s))) (ps_end s) /\
  (exists raw pre, parse_descr raw 0 pre None = OK (ps_left s)) /\
  (exists raw pre, parse_descr raw (Z.of_nat (List.length (ps_bds s))) pre None = OK (ps_right s)).
Proof. intros v text s H. destruct (parse_stoch_spec v text s H) as (A & B & C & _ & D & E). auto. Qed.
Print Assumptions C02_object_descriptor_table_partial.

(* the molecule layer (Model/Mol.v): the elements of an accepted molecule alternate -- a token is directly followed by a stochastic object
   unless it is the last element; never two tokens in a row *)
Theorem C02_molecule_elements_alternate_partial : forall (valid_atom : str -> bool) (fprint : num -> str) text m,
  parse_molecule valid_atom fprint text = OK m -> alternates (ml_elems m).
Proof. exact parse_molecule_alternates. Qed.
Print Assumptions C02_molecule_elements_alternate_partial.

(* tie T: the descriptor, token and stochastic-object parsers rebuilt from the string expressions and decisions REGENERATED from bond.py,
   token.py (with its two atom letter tables and _push_pop_atom_branch) and stochastic.py -- statement skeletons checked -- are the parsers
   of the theorems in this file *)
Theorem C02_parsers_are_source : forall (valid_atom : str -> bool),
  (forall raw n pre atom, parse_descr_src raw n pre atom = parse_descr raw n pre atom) /\
  (forall text off, parse_token_src valid_atom text off = parse_token valid_atom text off) /\
  (forall text, parse_stoch_src valid_atom text = parse_stoch valid_atom text).
Proof. intros va. split; [exact parse_descr_is_source|]. split; [exact (parse_token_is_source va)|exact (parse_stoch_is_source va)]. Qed.
Print Assumptions C02_parsers_are_source.

Theorem C02_molecule_parser_is_source : forall (valid_atom : str -> bool) (fprint : num -> str),
  (forall text, parse_molecule_src valid_atom fprint text = parse_molecule valid_atom fprint text) /\
  (forall raw, parse_mixture_src raw = parse_mixture raw).
Proof. intros va fp. split; [exact (parse_molecule_is_source va fp)|exact parse_mixture_is_source]. Qed.
Print Assumptions C02_molecule_parser_is_source.

Example C02_example_branch_after_branch :
  summary "[<]CC(C)([>])C(=O)OC" = Some [(lit "<", Some 0, OSingle); (lit ">", Some 1, OSingle)].
Proof. vm_compute. reflexivity. Qed.

(* a '$' descriptor following a branch-closing descriptor is a single bond, not a quadruple one *)
Example C02_example_dollar_after_branch : summary "C([$])[$]" = Some [(lit "$", Some 0, OSingle); (lit "$", Some 0, OSingle)].
Proof. vm_compute. reflexivity. Qed.

(* the mixture specification: the mass (percentage) is the number written between the bars, in whatever float syntax (".5", "5.", "5e-1") --
   for every text s without bar and percent sign.  On the pinned tree the rule stripped '.' together with the bars and read ".|.5|" as 5
   (old_rule_misread in Proofs/MixRoundTrip.v; repaired, DESIGN 12.2). *)
Theorem C02_mixture_mass_is_the_number_written : forall s, s <> [] -> nochar (ch "|") s = true -> nochar (ch "%") s = true ->
  parse_mixture (lit ".|" ++ s ++ lit "|") =
    match py_float s with
    | None => OK {| mx_abs := None; mx_rel := None |}
    | Some a => if num_lt0 a then Err ERuntime "invalid absolute mass" else OK {| mx_abs := Some a; mx_rel := None |}
    end /\
  parse_mixture (lit ".|" ++ s ++ lit "%|") =
    match py_float s with
    | None => Err EValue "could not convert string to float"
    | Some r => if num_lt0 r || num_gt r 100 then Err ERuntime "invalid percent" else OK {| mx_abs := None; mx_rel := Some r |}
    end.
Proof. intros s H1 H2 H3. split; [exact (mixture_reads_what_is_written s H1 H2 H3)|exact (mixture_reads_the_percentage_written s H1 H2 H3)]. Qed.
Print Assumptions C02_mixture_mass_is_the_number_written.

(* bond characters: after a leading descriptor, before any other *)
Example C02_example_orders :
  summary "[$]=CC(=[<])C#[>]" = Some [(lit "$", Some 0, ODouble); (lit "<", Some 1, ODouble); (lit ">", Some 2, OTriple)].
Proof. vm_compute. reflexivity. Qed.

(* adjacent descriptors do not inherit each other's characters *)
Example C02_example_adjacent : summary "CN[>][$2]=[<]" = Some [(lit ">", Some 1, OSingle); (lit "$", Some 1, OSingle); (lit "<", Some 1, ODouble)].
Proof. vm_compute. reflexivity. Qed.
