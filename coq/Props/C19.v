(* C19 -- Ensemble probability of linear directed chains equals generation probability.
   Model/Prob.v: the closed form of what get_ensemble_prob returns on this class (code_prob) and the probability
   with which the generator produces the molecule (gen_prob; block factor from the stop rule C07 / C09_stop_event:
   n units iff (n-1)u <= T < n u, T < u for n = 1).  The cdf of each law is an abstract function (scipy: oracle),
   assumed only to respect equality of rationals.  The full equality is REFUTED (known findings): the search starts
   the first interval at cdf(0) instead of at probability 0, and counts the mass of a starting end group inside the
   first block.  Outside those two shapes the equality is proved for any number of blocks.
   The sub-structure search itself (RDKit matching, path enumeration) is not modelled: the tie compares its result
   with code_prob on generated chains; atom-order independence is oracle-only. *)
From Coq Require Import List ZArith QArith Bool.
From GBS Require Import Model.Prob Proofs.ProbP Src.SrcProb Proofs.ProbSrcP.
Import ListNotations.
Open Scope Q_scope.

Theorem C19_equal_outside_start_mass_and_first_interval : forall pstart bs,
  Forall (fun b => (forall x y, x == y -> b_F b x == b_F b y) /\ b_m0 b == 0 /\ ((2 <= b_n b)%nat \/ (b_n b = 1%nat /\ b_F b 0 == 0))) bs ->
  code_prob pstart bs == gen_prob pstart bs.
Proof. exact chain_equal_outside. Qed.
Print Assumptions C19_equal_outside_start_mass_and_first_interval.

(* the generator's probabilities of the chain lengths 1..N of one block add up to F(N u): they sum to 1 as F -> 1 *)
Theorem C19_sums_to_one : forall (F : Q -> Q), (forall x y, x == y -> F x == F y) ->
  forall u N, (1 <= N)%nat -> sum_n (gen_block F u) N == F (nQ N * u).
Proof. exact gen_sums. Qed.
Print Assumptions C19_sums_to_one.

(* the reported ones add up to F(m0 + N u) - F(m0) *)
Theorem C19_reported_sums : forall (F : Q -> Q), (forall x y, x == y -> F x == F y) ->
  forall m0 u N, sum_n (code_block F m0 u) N == F (m0 + nQ N * u) - F m0.
Proof. exact code_sums. Qed.
Print Assumptions C19_reported_sums.

Theorem C19_equal_refuted_first_interval : ~ code_block F_ex 0 10 1 == gen_block F_ex 10 1.
Proof. exact equal_refuted_first_interval. Qed.
Print Assumptions C19_equal_refuted_first_interval.

Theorem C19_equal_refuted_start_group : ~ code_block F_ex 40 30 2 == gen_block F_ex 30 2.
Proof. exact equal_refuted_start_group. Qed.
Print Assumptions C19_equal_refuted_start_group.

(* tie T: the (value, previous) pair kept by mol_prob.RememberAdd -- its statements are checked against the source, Src/SrcProb.v writes them
   out -- after a block of n units is the interval of the closed form above; the search that decides which masses are added is not modelled *)
Theorem C19_interval_bookkeeping_is_source : forall m0 u n, (1 <= n)%nat ->
  fst (add_units (m0, 0) u n) == fst (code_interval m0 u n) /\ snd (add_units (m0, 0) u n) == snd (code_interval m0 u n).
Proof. exact remember_add_is_the_interval. Qed.
Print Assumptions C19_interval_bookkeeping_is_source.

Example C19_example : code_block F_ex 0 30 3 == gen_block F_ex 30 3 /\ gen_block F_ex 30 3 == 0 /\ gen_block F_ex 30 4 == 1 # 2.
Proof. vm_compute. repeat split. Qed.
