(* C18 -- Atom-graph generation yields trees of whole residues joined along graph edges.
   Model/AGen.v follows graph_generate.AtomGraph.generate statement by statement (static completion, growth, provisional termination on a
   snapshot and swap-back, transition); the theorems hold for EVERY stochastic atom graph, EVERY pick stream and EVERY list of draws:
   (1) termination: no loop iteration without a random decision -- the distinguished OutOfFuel result is unreachable;
   (2) every bond between residues follows a non-static edge of the stochastic atom graph, with its bond order, and enters a fresh residue
       at its first atom; every other bond is a static bond of the graph between two atoms of one residue;
   (3) the residues form a tree: each residue but the first hangs by exactly one bond from an atom of an earlier residue;
   (4) whole residues: every residue instance consists of its first atom followed by the other atoms of the depth-first order over static
       bonds from that atom, each once; on a graph whose static adjacency stays inside the node range that set is closed under static
       adjacency (the depth-first search is complete: its fuel never runs out) -- all atoms of the token; and every static bond of the
       graph between two atoms of the residue is present as a bond of that residue -- all internal bonds of the token;
   equal seeds give equal molecules: run_agen is a function of (graph, picks, draws) and of nothing else.
   PARTIAL: chemistry (sanitisation) is RDKit's and is checked on the implementation only; that the model IS the code is the
   correspondence check (nodes, instances, bonds with their kind, the sequence of decisions, on every run). *)
From Coq Require Import List ZArith QArith Bool Arith Lia.
From GBS Require Import Model.PyStr Model.Num Model.Bond Model.Select Model.Gen Model.AGen Proofs.GenP Proofs.AGenP Proofs.DfsP Proofs.AGenW Src.SrcAGen Proofs.AGenSrcP.
Import ListNotations.
Open Scope nat_scope.

Theorem C18_terminates : forall G start pk tg, run_agen G start pk tg <> OutOfFuel.
Proof. exact agen_never_out_of_fuel. Qed.
Print Assumptions C18_terminates.

Theorem C18_links_follow_graph_edges : forall G start pk tg st rs, run_agen G start pk tg = Done st rs ->
  forall e, In e (a_edges st) -> ge_link e = true ->
  exists ga gb, nth_error (a_nodes st) (ge_a e) = Some ga /\ nth_error (a_nodes st) (ge_b e) = Some gb /\
    ge_a e < ge_b e /\ g_inst gb = ge_b e /\ g_inst ga < ge_b e /\
    exists se, (In se (sn_T (snode_at G (g_sn ga))) \/ In se (sn_E (snode_at G (g_sn ga))) \/ In se (sn_S (snode_at G (g_sn ga)))) /\
               se_v se = g_sn gb /\ se_bt se = ge_bt e.
Proof.
  intros G start pk tg st rs H e He Hl. apply agen_inv in H as [_ C]. pose proof (ci_edges _ _ _ C) as F. rewrite Forall_forall in F.
  destruct (F e He) as (ca & cb & Ha & Hb & K). rewrite Hl in K. rewrite nth_error_map in Ha, Hb.
  destruct (nth_error (a_nodes st) (ge_a e)) as [ga|]; [|discriminate]. destruct (nth_error (a_nodes st) (ge_b e)) as [gb|]; [|discriminate].
  injection Ha as <-. injection Hb as <-. exists ga, gb. unfold core in K. cbn [fst snd] in K. unfold nonstatic in K. tauto.
Qed.
Print Assumptions C18_links_follow_graph_edges.

Theorem C18_other_bonds_are_static_inside_a_residue : forall G start pk tg st rs, run_agen G start pk tg = Done st rs ->
  forall e, In e (a_edges st) -> ge_link e = false ->
  exists ga gb, nth_error (a_nodes st) (ge_a e) = Some ga /\ nth_error (a_nodes st) (ge_b e) = Some gb /\
    g_inst ga = g_inst gb /\ In (g_sn ga, g_sn gb, ge_bt e) (sg_static G).
Proof.
  intros G start pk tg st rs H e He Hl. apply agen_inv in H as [_ C]. pose proof (ci_edges _ _ _ C) as F. rewrite Forall_forall in F.
  destruct (F e He) as (ca & cb & Ha & Hb & K). rewrite Hl in K. rewrite nth_error_map in Ha, Hb.
  destruct (nth_error (a_nodes st) (ge_a e)) as [ga|]; [|discriminate]. destruct (nth_error (a_nodes st) (ge_b e)) as [gb|]; [|discriminate].
  injection Ha as <-. injection Hb as <-. exists ga, gb. unfold core in K. cbn [fst snd] in K. tauto.
Qed.
Print Assumptions C18_other_bonds_are_static_inside_a_residue.

(* residues = atoms with the same g_inst; the first atom r of a residue has g_inst = r *)
Theorem C18_residues_form_a_tree : forall G start pk tg st rs, run_agen G start pk tg = Done st rs ->
  let C := map core (a_nodes st) in
  (forall n g, nth_error (a_nodes st) n = Some g -> g_inst g <= n /\ exists r, nth_error (a_nodes st) (g_inst g) = Some r /\ g_inst r = g_inst g) /\
  (forall n g, nth_error (a_nodes st) n = Some g -> up C (a_edges st) (g_inst g)) /\
  NoDup (map ge_b (links (a_edges st))) /\
  List.length (roots_from 0 (map snd C)) = S (List.length (links (a_edges st))).
Proof.
  intros G start pk tg st rs H C. apply agen_inv in H as [_ Ci]. destruct (cinv_tree G _ _ Ci) as (T1 & T2 & T3). split; [|split; [|split]]; try assumption.
  - intros n g Hg. destruct (ci_inst _ _ _ Ci n (core g)) as (A & r & B1 & B2); [rewrite nth_error_map, Hg; reflexivity|]. cbn [core snd] in *.
    split; [exact A|]. rewrite nth_error_map in B1. destruct (nth_error (a_nodes st) (g_inst g)) as [gr|]; [|discriminate]. injection B1 as <-. exists gr. split; [reflexivity|exact B2].
  - intros n g Hg. apply (T1 n (core g)). unfold C. rewrite nth_error_map, Hg. reflexivity.
Qed.
Print Assumptions C18_residues_form_a_tree.

(* whole residues: atoms (in order) and internal bonds *)
Theorem C18_residues_are_whole : forall G start pk tg st rs, run_agen G start pk tg = Done st rs ->
  forall r g, nth_error (a_nodes st) r = Some g -> g_inst g = r ->
  members r (cores st) = g_sn g :: others G (g_sn g) /\
  (forall u v bt, In (u, v, bt) (sg_static G) -> In u (members r (cores st)) -> In v (members r (cores st)) ->
     exists e, In e (a_edges st) /\ ge_link e = false /\ ge_bt e = bt /\
               nth_error (cores st) (ge_a e) = Some (u, r) /\ nth_error (cores st) (ge_b e) = Some (v, r)).
Proof. exact agen_whole. Qed.
Print Assumptions C18_residues_are_whole.

(* all atoms of the token, each once: the residue's atoms are closed under static adjacency *)
Theorem C18_residue_has_all_atoms_of_its_token : forall G start pk tg st rs, run_agen G start pk tg = Done st rs ->
  (forall u, u < List.length (sg_nodes G) -> Forall (fun v => v < List.length (sg_nodes G)) (sn_adj (snode_at G u))) ->
  forall r g, nth_error (a_nodes st) r = Some g -> g_inst g = r -> g_sn g < List.length (sg_nodes G) ->
  NoDup (members r (cores st)) /\
  (forall u, In u (members r (cores st)) -> forall v, In v (sn_adj (snode_at G u)) -> In v (members r (cores st))).
Proof. exact agen_residue_closed. Qed.
Print Assumptions C18_residue_has_all_atoms_of_its_token.

Theorem C18_function_of_graph_and_stream : forall G G' s s' pk tg, G = G' -> s = s' -> run_agen G s pk tg = run_agen G' s' pk tg.
Proof. intros G G' s s' pk tg -> ->. reflexivity. Qed.
Print Assumptions C18_function_of_graph_and_stream.

(* non-vacuity: ethylene repeat unit C0-C1 with an ethanol-like end group C2-C3-O4; start 0; three repeat units, then the free end is capped by the WHOLE end group *)
Definition ex_graph : sgraph :=
  let e v w := {| se_v := v; se_bt := 1%Z; se_w := w |} in
  {| sg_nodes := [ {| sn_mass := 12; sn_key := (0, 0)%Q; sn_T := []; sn_E := [e 2 1%Q]; sn_S := []; sn_adj := [1] |};
                   {| sn_mass := 12; sn_key := (0, 0)%Q; sn_T := []; sn_E := [e 2 1%Q]; sn_S := [e 0 1%Q]; sn_adj := [0] |};
                   {| sn_mass := 12; sn_key := (0, 0)%Q; sn_T := []; sn_E := []; sn_S := []; sn_adj := [3] |};
                   {| sn_mass := 12; sn_key := (0, 0)%Q; sn_T := []; sn_E := []; sn_S := []; sn_adj := [2; 4] |};
                   {| sn_mass := 16; sn_key := (0, 0)%Q; sn_T := []; sn_E := []; sn_S := []; sn_adj := [3] |} ];
     sg_static := [(0, 1, 1%Z); (2, 3, 1%Z); (3, 4, 1%Z)] |}.
(* tie T: the static completion, the choice of the next stochastic node, the termination pass and the growth loop written over the decisions
   REGENERATED from graph_generate.py (Src/SrcAGen.v; the statement skeletons of all fifteen functions / methods and the remaining decisions
   are checked against harness/skeletons/graph_generate*.txt) are, for every state of the run monad, the model of the theorems above *)
Theorem C18_growth_loop_is_source : forall fuel G st s, stoch_loop_src fuel G st s = stoch_loop fuel G st s.
Proof. exact stoch_loop_is_source. Qed.
Print Assumptions C18_growth_loop_is_source.

Theorem C18_generation_is_source : forall G start pk tg, run_agen_src G start pk tg = run_agen G start pk tg.
Proof. exact run_agen_is_source. Qed.
Print Assumptions C18_generation_is_source.

Theorem C18_termination_pass_is_source : forall fuel G st ex s, terminate_src fuel G st ex s = terminate fuel G st ex s.
Proof. exact terminate_is_source. Qed.
Print Assumptions C18_termination_pass_is_source.

Theorem C18_static_completion_is_source : forall G st cur, fill_static_src G st cur = fill_static G st cur.
Proof. exact fill_static_is_source. Qed.
Print Assumptions C18_static_completion_is_source.

Example C18_example :
  match run_agen ex_graph 0 [0; 0; 0; 0; 0; 0; 0; 0; 0] [100%Q] with
  | Done st rs => map g_sn (a_nodes st) = [0; 1; 0; 1; 0; 1; 2; 3; 4] /\ map g_inst (a_nodes st) = [0; 0; 2; 2; 4; 4; 6; 6; 6] /\
                  map (fun e => (ge_a e, ge_b e, ge_link e)) (a_edges st) =
                    [(0, 1, false); (1, 2, true); (2, 3, false); (3, 4, true); (4, 5, false); (0, 6, true); (6, 7, false); (7, 8, false)] /\ picks rs = []
  | _ => False
  end.
Proof. vm_compute. repeat split. Qed.
Example C18_example_wf : forall u, u < List.length (sg_nodes ex_graph) -> Forall (fun v => v < List.length (sg_nodes ex_graph)) (sn_adj (snode_at ex_graph u)).
Proof. intros u H. do 5 (destruct u as [|u]; [repeat constructor|]). cbn in H. lia. Qed.
