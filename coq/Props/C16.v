(* C16 -- Reaction graph states the generator's probabilities, normalised at every node.
   Model/RGraph.v follows Molecule.gen_reaction_graph; every edge of every graph is compared with the
   implementation on each run (tie K).  Statements below hold at EVERY descriptor node (the code's own
   validation only looks at the last node visited). *)
From Coq Require Import List ZArith QArith Bool Arith String.
From GBS Require Import Model.PyStr Model.Num Model.Bond Model.Select Model.Gen Model.RGraph Proofs.SelectP Proofs.RGraphP Props.GenExample Src.SrcRGraph Proofs.RGraphSrcP.
Import ListNotations.
Open Scope Q_scope.

(* descriptor without list, inside a stochastic object with non-negative weights: reaction and
   termination probabilities each sum to 1 or are absent *)
Theorem C16_normalised : forall ei s j d,
  qtrans d = Some None -> Forall (fun o => 0 <= wq o) (elem_bds (EStoch s)) ->
  let es := intra_edges ei (EStoch s) j d in
  (sum_kind KProb es == 1 \/ forall e, In e es -> e_kind e <> KProb) /\
  (sum_kind KTermP es == 1 \/ forall e, In e es -> e_kind e <> KTermP).
Proof. intros ei s j d H1 H2. exact (intra_normalised ei s j d H1 H2). Qed.
Print Assumptions C16_normalised.

(* weight edges join compatible descriptors only; value = weight / total weight of the compatible
   descriptors of that side (repeat units: reaction; end groups: termination) *)
Theorem C16_compatible_only : forall ei s j d e,
  qtrans d = Some None -> In e (intra_edges ei (EStoch s) j d) ->
  exists i o, nth_error (elem_bds (EStoch s)) i = Some o /\ compatible d o = true /\ 0 < wq o /\ e_src e = (ei, j) /\ e_dst e = (ei, i) /\
    ((Nat.ltb i (n_rep (EStoch s)) = true /\ e_kind e = KProb /\
      e_p e = wq o / wsum (fun k o => Nat.ltb k (n_rep (EStoch s)) && compatible d o) 0 (elem_bds (EStoch s))) \/
     (Nat.ltb i (n_rep (EStoch s)) = false /\ e_kind e = KTermP /\
      e_p e = wq o / wsum (fun k o => negb (Nat.ltb k (n_rep (EStoch s))) && compatible d o) 0 (elem_bds (EStoch s)))).
Proof. intros ei s j d e H1 H2. exact (intra_edge_spec ei s j d H1 e H2). Qed.
Print Assumptions C16_compatible_only.

(* that value IS the generator's law: the denominator is the total weight of the generator's candidate
   list (the compatible repeat descriptors), and weight / total = law(candidate weights) at that position *)
Theorem C16_denominator_is_candidate_total : forall d reps ends,
  wsum (fun k o => Nat.ltb k (List.length reps) && compatible d o) 0 (reps ++ ends) == total (map wq (filter (compatible d) reps)).
Proof. exact reaction_denominator. Qed.
Print Assumptions C16_denominator_is_candidate_total.

Theorem C16_equals_gen_law : forall w i wi, Forall (fun x => 0 <= x) w -> 0 < total w -> nth_error w i = Some wi ->
  exists p, nth_error (law w) i = Some p /\ p == wi / total w.
Proof. exact law_ratio. Qed.
Print Assumptions C16_equals_gen_law.

(* descriptors carrying a list: edge i has value tr_i / weight *)
Theorem C16_list_edges : forall ei e j d tr, qtrans d = Some (Some tr) -> ~ wq d == 0 ->
  forall x, In x (intra_edges ei e j d) ->
    exists i t, nth_error tr i = Some t /\ e_src x = (ei, j) /\ e_dst x = (ei, i) /\ e_kind x = KProb /\ e_p x = t / wq d /\ 0 <= t / wq d.
Proof. exact list_edges_spec. Qed.
Print Assumptions C16_list_edges.

(* FULL STATEMENT (refuted): "every graph probability equals the generator's" fails when ALL compatible
   candidates have weight zero: the generator then picks uniformly (law [0;0] = [1/2;1/2]) but the graph
   has no reaction edge at all.  Known finding. *)
Definition zd (s : string) (w : Q) (a : Z) : descr :=
  {| d_sym := lit s; d_id := None; d_weight := Fin w; d_trans := None; d_order := OSingle; d_pre := []; d_atom := Some a; d_num := 0%Z |}.
Definition zero_obj : gstoch :=
  {| s_left := zd ">" 1 0; s_right := zd "<" 1 0;
     s_rep := [{| t_natoms := 2; t_mass := 24; t_bds := [zd "<" 0 0; zd ">" 0 1]; t_ok := true |};
               {| t_natoms := 3; t_mass := 38; t_bds := [zd "<" 0 0; zd ">" 0 2]; t_ok := true |}];
     s_end := []; s_generable := true |}.
Theorem C16_all_zero_refuted :
  intra_edges 1 (EStoch zero_obj) 1 (zd ">" 0 1) = [] /\ law [0; 0] = [(0 + 1) / (0 + 1 + (0 + 1 + 0)); (0 + 1) / (0 + 1 + (0 + 1 + 0))].
Proof. split; reflexivity. Qed.
Print Assumptions C16_all_zero_refuted.

(* tie T: the edge construction written over the weight / compatibility / membership decisions REGENERATED from Molecule.gen_reaction_graph
   (Src/SrcRGraph.v; statement skeleton checked; is_compatible regenerated from bond.py) is the graph of the theorems above *)
Theorem C16_graph_is_source : forall els ei, graph_from_src ei els = graph_from ei els.
Proof. exact reaction_graph_is_source. Qed.
Print Assumptions C16_graph_is_source.

Theorem C16_handover_edges_are_source : forall ei e next j d, inter_edges_src ei e next j d = inter_edges ei e next j d.
Proof. exact inter_edges_is_source. Qed.
Print Assumptions C16_handover_edges_are_source.

Example C16_example : List.length (reaction_graph ex1_els) = 33%nat.
Proof. vm_compute. reflexivity. Qed.
