(* C12 -- Mixture bookkeeping: percentages sum to 100 and masses are consistent.
   Model/Sys.v follows mixture.py and system.py:15-84 over exact rationals.
   The full soundness and completeness statements are FALSE of the faithful model (and of the
   pinned code): C12_sound_refuted / C12_complete_refuted carry the witnesses; they are recorded
   as known findings.  What does hold for every specification is proved below.
   FULL STATEMENT (not proved, refuted as stated):
     C12_sound    : estimate spec = OK (true, out) -> percentages of out sum to 100 /\ user values preserved
     C12_complete : determined spec -> estimate spec = OK (true, solution spec)                     *)
From Coq Require Import List ZArith QArith Qabs Bool String.
From GBS Require Import Model.PyStr Model.Num Model.Bond Model.Sys Proofs.SysP Src.SrcSys Proofs.SysSrcP.
Import ListNotations.
Open Scope Q_scope.

(* every accepted system: one system mass, each component's absolute mass is its percentage of it *)
Theorem C12_accepted_consistent_partial : forall cs smw out,
  estimate cs smw = OK (true, out) ->
  exists s, Forall (fun c => exists m, c = Some m /\ x_sys m = Some s /\
                      ((exists a r, x_abs m = Some a /\ x_rel m = Some r /\ a == r / 100 * s) \/
                       (x_abs m = None /\ x_rel m = None))) out.
Proof. exact estimate_accepted_consistent. Qed.
Print Assumptions C12_accepted_consistent_partial.

(* all percentages written, sum off by more than the tolerated 1e-6: rejected *)
Theorem C12_rejects_bad_percent_sum : forall cs smw,
  List.length (somes (map rel_known cs)) = List.length cs ->
  (1 # 1000000) < Qabs (sumq (somes (map rel_known cs)) - 100) ->
  exists m, estimate cs smw = Err ERuntime m.
Proof. exact estimate_rejects_bad_sum. Qed.
Print Assumptions C12_rejects_bad_percent_sum.

(* one percentage missing, the others already above 100: rejected *)
Theorem C12_rejects_over_100 : forall cs smw,
  S (List.length (somes (map rel_known cs))) = List.length cs ->
  100 < sumq (somes (map rel_known cs)) ->
  exists m, estimate cs smw = Err ERuntime m.
Proof. exact estimate_rejects_over_100. Qed.
Print Assumptions C12_rejects_over_100.

(* tie T: the bookkeeping written over the decision expressions REGENERATED from system.py / mixture.py (Src/SrcSys.v; the statement
   skeleton is checked by the translator) is the hand model the theorems above and below are about *)
Theorem C12_model_is_source : forall cs smw, estimate_src cs smw = estimate cs smw.
Proof. exact estimate_is_source. Qed.
Print Assumptions C12_model_is_source.

Theorem C12_setters_are_source : forall m x, set_rel_src m x = set_rel m x /\ set_sys_src m x = set_sys m x.
Proof. intros m x. split; [apply set_rel_is_source|apply set_sys_is_source]. Qed.
Print Assumptions C12_setters_are_source.

(* hence the rejection theorem holds of the function built from the source's own expressions *)
Theorem C12_source_rejects_bad_percent_sum : forall cs smw,
  List.length (somes (map rel_known_src cs)) = List.length cs ->
  (1 # 1000000) < Qabs (sumq (somes (map rel_known_src cs)) - 100) ->
  exists m, estimate_src cs smw = Err ERuntime m.
Proof.
  intros cs smw. rewrite (map_ext _ _ rel_known_is_source), estimate_is_source. apply estimate_rejects_bad_sum.
Qed.
Print Assumptions C12_source_rejects_bad_percent_sum.

Theorem C12_sound_refuted :
  exists cs smw out, estimate cs smw = OK (true, out) /\ ~ sumq (rels out) == 100.
Proof. exact sound_refuted. Qed.
Print Assumptions C12_sound_refuted.

Theorem C12_complete_refuted :
  exists (cs : list comp) (out : list comp), estimate cs None = OK (false, out) /\
    (forall S : Q, 100 + 200 + (50 # 100) * S == S -> S == 600).
Proof. exact complete_refuted. Qed.
Print Assumptions C12_complete_refuted.

(* non-vacuity: a determined two-component system (90 % + 50000) is accepted with S = 500000 *)
Example C12_example :
  estimate [pct 90; absm 50000] None =
  OK (true, [Some {| x_abs := Some (90 / 100 * (50000 / ((100 - (0 + 90)) / 100))); x_rel := Some 90; x_sys := Some (50000 / ((100 - (0 + 90)) / 100)) |};
             Some {| x_abs := Some ((100 - (0 + 90)) / 100 * (50000 / ((100 - (0 + 90)) / 100))); x_rel := Some (100 - (0 + 90)); x_sys := Some (50000 / ((100 - (0 + 90)) / 100)) |}]).
Proof. reflexivity. Qed.
