(* C01 -- Canonical notation round-trips: fixed point, same object, extensions erasable.
   Proved: (1) printing without extensions IS the erasure of every |...| segment, and contains no '|', for EVERY
   rendering made of bar-free chunks and bar-free extension texts -- the printers of descriptors, tokens, stochastic
   objects, molecules and systems are such renderings (Model/Render.v writes them down over parsed components; for
   descriptors the equality with the printer model print_descr is itself a theorem); (2) the full round trip --
   accepted, re-printed, accepted again with identical fields, printing to itself, extension-free form = erasure --
   for every descriptor of the complete finite universe of C03 (840 texts), by kernel computation.
   (3) the same round trip for EVERY accepted descriptor text, no bound on ids, lists or numbers (Proofs/RoundTrip.v): the
   printed text is accepted again and gives the identical record -- same symbol, id, weight, transition list, bond order,
   attachment -- hence prints to itself.  The float printer is a parameter of which the theorem asks, for the weights of that
   descriptor, what Python's repr guarantees (float(repr x) = x; no blank, bar or bracket in repr x).
   FULL STATEMENT (not proved): C01_fixed_point for all accepted strings of the token / object / molecule / system
   layers.  The implementation-level oracle runs the complete round trip on every accepted string of every archetype
   and on the 119 documented strings; the erasure itself is evaluated with the extracted [erase_ext]. *)
From Coq Require Import List ZArith QArith Ascii String Bool.
From GBS Require Import Model.PyStr Model.Num Model.Bond Model.Token Model.Render Src.SrcBond Proofs.BondP Proofs.TokenP Proofs.RenderP Proofs.StrP Proofs.RoundTrip Src.SrcDescr Proofs.DescrSrcP Src.SrcDescrPrint Proofs.DescrPrintSrcP Model.DistFam Model.Stoch Src.SrcPrint Proofs.PrintSrcP Src.SrcDist Model.Mol Proofs.MixRoundTrip.
From GBS Require Props.C03.
Import ListNotations.

Theorem C01_noext_is_erasure : forall ps, forallb part_ok ps = true ->
  erase_ext (render true ps) = render false ps /\ barfree (render false ps) = true.
Proof. intros ps H. split; [apply erase_render|apply render_false_barfree]; exact H. Qed.
Print Assumptions C01_noext_is_erasure.

(* the descriptor printer of the model is the rendering of its parts; hence its two forms are related by erasure *)
Theorem C01_descriptor_printer_is_rendering : forall (fprint : num -> str) ext d,
  d_trans d <> Some [] -> print_descr fprint ext d = render ext (descr_parts fprint d).
Proof. intros fprint ext d. apply print_descr_is_render. Qed.
Print Assumptions C01_descriptor_printer_is_rendering.

Theorem C01_descriptor_noext_is_erasure : forall (fprint : num -> str), (forall x, barfree (fprint x) = true) ->
  forall d, barfree (d_sym d) = true -> d_trans d <> Some [] ->
  print_descr fprint false d = erase_ext (print_descr fprint true d) /\ barfree (print_descr fprint false d) = true.
Proof. exact descr_noext_is_erasure. Qed.
Print Assumptions C01_descriptor_noext_is_erasure.

(* for every descriptor the parser accepts -- no side condition left *)
Theorem C01_parsed_descriptor_noext_is_erasure : forall (fprint : num -> str), (forall x, barfree (fprint x) = true) ->
  forall raw n pre atom d, parse_descr raw n pre atom = OK d ->
  print_descr fprint false d = erase_ext (print_descr fprint true d) /\ barfree (print_descr fprint false d) = true.
Proof.
  intros fprint Hf raw n pre atom d H. apply descr_noext_is_erasure; [exact Hf| |eapply parse_descr_trans_nonempty; exact H].
  apply parse_descr_shape in H as (Hs & _). destruct Hs as [ E | [ E | [ E | E ] ] ]; rewrite E; reflexivity.
Qed.
Print Assumptions C01_parsed_descriptor_noext_is_erasure.

(* systems (hence molecules, objects, tokens): whenever their chunks are bar-free *)
Theorem C01_system_noext_is_erasure : forall (fprint : num -> str) (ms : list pmol),
  forallb part_ok (sys_parts fprint ms) = true ->
  erase_ext (render true (sys_parts fprint ms)) = render false (sys_parts fprint ms).
Proof. intros fprint ms. apply erase_render. Qed.
Print Assumptions C01_system_noext_is_erasure.

(* ---- the complete round trip on the finite universe of C03 ---- *)
Definition nums_eqb (a b : option (list num)) : bool :=
  match a, b with
  | None, None => true
  | Some x, Some y => Nat.eqb (List.length x) (List.length y) && forallb (fun p => num_eqb (fst p) (snd p)) (combine x y)
  | _, _ => false
  end.
Definition descr_eqb (a b : descr) : bool :=
  str_eqb (d_sym a) (d_sym b) && id_eqb (d_id a) (d_id b) && num_eqb (d_weight a) (d_weight b) && nums_eqb (d_trans a) (d_trans b)
  && order_eqb (d_order a) (d_order b) && (match d_atom a, d_atom b with Some x, Some y => Z.eqb x y | None, None => true | _, _ => false end).
Definition rt_ok (t : C03.utuple) : bool :=
  let '(s, i, p, w) := t in
  match C03.u_parse t with
  | OK d =>
      let s1 := print_descr fprint_dec true d in
      match parse_descr s1 0%Z (C03.pre_text p) (Some 0%Z) with
      | OK d' => descr_eqb d d' && str_eqb (print_descr fprint_dec true d') s1
                 && str_eqb (print_descr fprint_dec false d) (erase_ext s1) && barfree (print_descr fprint_dec false d)
      | Err _ _ => false
      end
  | Err _ _ => false
  end.

Lemma universe_round_trips : forallb rt_ok C03.universe = true.
Proof. vm_cast_no_check (eq_refl true). Qed.

Theorem C01_descriptor_round_trip_universe : forall t, In t C03.universe -> rt_ok t = true.
Proof. apply forallb_forall. exact universe_round_trips. Qed.
Print Assumptions C01_descriptor_round_trip_universe.

(* ---- the round trip for every accepted descriptor ---- *)
Theorem C01_descriptor_round_trip : forall (fprint : num -> str) raw n pre atom d,
  parse_descr raw n pre atom = OK d ->
  Forall (reads_back fprint) (descr_weights d) ->
  parse_descr (print_descr fprint true d) n pre atom = OK d.
Proof. exact descr_round_trip. Qed.
Print Assumptions C01_descriptor_round_trip.

(* accepted again, the same object, and a fixed point of printing *)
Theorem C01_descriptor_canonical_fixed_point : forall (fprint : num -> str) raw n pre atom d,
  parse_descr raw n pre atom = OK d -> Forall (reads_back fprint) (descr_weights d) ->
  exists d', parse_descr (print_descr fprint true d) n pre atom = OK d' /\ d' = d /\
             print_descr fprint true d' = print_descr fprint true d.
Proof. exact descr_canonical_fixed_point. Qed.
Print Assumptions C01_descriptor_canonical_fixed_point.

(* the integer printer is read back by int(): ids of any size survive *)
Theorem C01_id_read_back : forall z, py_int (z_to_str z) = Some z.
Proof. exact py_int_z_to_str. Qed.
Print Assumptions C01_id_read_back.

(* tie T: the descriptor parser rebuilt, statement by statement, from the string expressions and decisions REGENERATED from
   BondDescriptor.__init__ (Src/SrcDescr.v, Src/SrcBond.v; statement skeleton checked) is parse_descr; so the round trip holds of it *)
Theorem C01_descriptor_parser_is_source : forall raw n pre atom, parse_descr_src raw n pre atom = parse_descr raw n pre atom.
Proof. exact parse_descr_is_source. Qed.
Print Assumptions C01_descriptor_parser_is_source.

Theorem C01_source_descriptor_round_trip : forall (fprint : num -> str) raw n pre atom d,
  parse_descr_src raw n pre atom = OK d -> Forall (reads_back fprint) (descr_weights d) ->
  parse_descr_src (print_descr fprint true d) n pre atom = OK d.
Proof. intros fprint raw n pre atom d. rewrite !parse_descr_is_source. apply descr_round_trip. Qed.
Print Assumptions C01_source_descriptor_round_trip.

(* tie T, printer side: BondDescriptor.generate_string rebuilt from the pieces REGENERATED from bond.py (f-strings translated into
   concatenations over the float formatter; Src/SrcDescrPrint.v) is print_descr.  The round trip is therefore a statement about a parser and
   a printer that are BOTH rebuilt from the current source *)
Theorem C01_descriptor_printer_is_source : forall (fprint : num -> str) ext d, print_descr_src fprint ext d = print_descr fprint ext d.
Proof. exact print_descr_is_source. Qed.
Print Assumptions C01_descriptor_printer_is_source.

Theorem C01_source_round_trip_both_sides : forall (fprint : num -> str) raw n pre atom d,
  parse_descr_src raw n pre atom = OK d -> Forall (reads_back fprint) (descr_weights d) ->
  parse_descr_src (print_descr_src fprint true d) n pre atom = OK d.
Proof. intros fprint raw n pre atom d. rewrite print_descr_is_source, !parse_descr_is_source. apply descr_round_trip. Qed.
Print Assumptions C01_source_round_trip_both_sides.

(* the stochastic-object printer rebuilt from the pieces regenerated from Stochastic.generate_string is the model's: the trailing ", " is cut
   only after a non-empty token list (the defect repaired by the fix commit recorded in known_findings.json) *)
Theorem C01_object_printer_is_source : forall (fprint : num -> str) dprint ext s, print_stoch_src fprint dprint ext s = print_stoch fprint dprint ext s.
Proof. exact print_stoch_is_source. Qed.
Print Assumptions C01_object_printer_is_source.

(* the hypotheses are met: a descriptor outside the finite universe (id 1234, a list of three numbers) *)
Example C01_round_trip_example :
  exists d, parse_descr (lit "[<1_234| 0.5  2.25 10|]") 3 (lit "=") (Some 7%Z) = OK d /\
            Forall (reads_back fprint_dec) (descr_weights d) /\
            print_descr fprint_dec true d = lit "[<1234|0.5 2.25 10.0|]".
Proof.
  eexists. split; [vm_compute; reflexivity|]. split; [|vm_compute; reflexivity].
  repeat constructor; vm_compute; try reflexivity; discriminate.
Qed.

(* the mixture specifier, for EVERY accepted text: what Mixture.generate_string prints (the printer written over the expressions regenerated
   from mixture.py: the text as written when no mass was read, else the percentage, else the absolute mass) is read back by
   Mixture.__init__ as the same masses.  mass_text is what Python's repr guarantees of a float (reads back, not empty, no bar, no '%');
   the harness checks it on every printed mass.  On the pinned tree a specifier without a number printed as ".|None%|", which is rejected:
   the hypothesis-free first case of the proof did not go through (repaired, DESIGN 12.2). *)
Theorem C01_mixture_round_trip : forall fprint raw x, parse_mixture raw = OK x ->
  (forall w, mx_abs x = Some w \/ mx_rel x = Some w -> mass_text fprint w) ->
  parse_mixture (print_mix_src fprint raw x) = OK x.
Proof. intros fprint raw x H Hw. rewrite print_mix_is_source. exact (mixture_round_trip fprint raw x H Hw). Qed.
Print Assumptions C01_mixture_round_trip.

Example C01_mixture_example :
  parse_mixture (lit ".| 12.5 %|") = OK {| mx_abs := None; mx_rel := Some (Fin (25 # 2)) |} /\
  print_mix_src fprint_dec (lit ".| 12.5 %|") {| mx_abs := None; mx_rel := Some (Fin (25 # 2)) |} = lit ".|12.5%|" /\
  print_mix_src fprint_dec (lit ".|x|") {| mx_abs := None; mx_rel := None |} = lit ".|x|".
Proof. vm_compute. repeat split; reflexivity. Qed.

Example C01_example :
  erase_ext (lit "C[$|0.5|]{[$][$|2.0|]CC[$]; [$][H][$]}|gauss(10.0, 1.0)|[$]O.|50.0%|") = lit "C[$]{[$][$]CC[$]; [$][H][$]}[$]O.".
Proof. vm_compute. reflexivity. Qed.
