open BinNums
open BinPos
open Datatypes

module N =
 struct
  (** val add : coq_N -> coq_N -> coq_N **)

  let add n m =
    match n with
    | N0 -> m
    | Npos p -> (match m with
                 | N0 -> n
                 | Npos q -> Npos (Pos.add p q))

  (** val mul : coq_N -> coq_N -> coq_N **)

  let mul n m =
    match n with
    | N0 -> N0
    | Npos p -> (match m with
                 | N0 -> N0
                 | Npos q -> Npos (Pos.mul p q))

  (** val to_nat : coq_N -> nat **)

  let to_nat = function
  | N0 -> O
  | Npos p -> Pos.to_nat p

  (** val of_nat : nat -> coq_N **)

  let of_nat = function
  | O -> N0
  | S n' -> Npos (Pos.of_succ_nat n')
 end
