open BinInt
open BinNums
open Datatypes
open QArith_base

val coq_Qred : coq_Q -> coq_Q
