(* Extraction of the executable model for the correspondence driver (ocaml/driver.ml).
   Only the standard ExtrOcamlBasic / ExtrOcamlString directives; numbers stay inductive.
   Run from /verif/build (extraction writes to the current directory in Coq 8.16). *)
From Coq Require Import List ZArith QArith Ascii String Bool.
From Coq Require Import ExtrOcamlBasic ExtrOcamlString.
From GBS Require Import Model.PyStr Model.Num Model.Bond Model.Select Model.Gen Model.Sys Model.SysGen Model.FFSel Model.DistFam Model.Dist Model.RGraph Model.AGraph Model.Token Model.Render Model.SysSplit Model.AGen Model.Stoch Model.Mol Model.SystemM Check.Show.
Extraction "model.ml" parse_descr print_descr compatible generable_descr compatible_bond_text py_float py_int
  law trans_law compat_idx run_gen estimate sys_loop yielded ending comp_law share assign plumb fs_pmf fs_cdf stop_index reaction_graph atom_graph parse_token print_token fragment_string token_generable erase_ext system_pieces run_agen parse_stoch stoch_generable parse_molecule molecule_generable parse_system check_descr check_token check_mol.
