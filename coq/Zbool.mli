open BinInt
open BinNums
open Datatypes

val coq_Zeq_bool : coq_Z -> coq_Z -> bool
