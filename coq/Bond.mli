open BinInt
open BinNums
open Datatypes
open List0
open Num
open PyStr
open QArith_base
open Qreduction

type order =
| OUnspec
| OSingle
| ODouble
| OTriple
| OQuad
| OArom

type err =
| ERuntime
| EValue
| EIndex
| EType
| EZeroDiv
| EAttr
| EOther
| EFuel

type 'a result =
| OK of 'a
| Err of err * char list

val bind : 'a1 result -> ('a1 -> 'a2 result) -> 'a2 result

type descr = { d_sym : str; d_id : coq_Z option; d_weight : num;
               d_trans : num list option; d_order : order; d_pre : str;
               d_atom : coq_Z option; d_num : coq_Z }

val order_eqb : order -> order -> bool

val id_eqb : coq_Z option -> coq_Z option -> bool

val order_of_pre : str -> order

val map_opt : ('a1 -> 'a2 option) -> 'a1 list -> 'a2 list option

val num_add : num -> num -> num

val num_sum : num list -> num

val parse_descr : str -> coq_Z -> str -> coq_Z option -> descr result

val compatible : descr -> descr -> bool

val generable_descr : descr -> bool

val id_str : coq_Z option -> str

val print_descr : (num -> str) -> bool -> descr -> str

val compatible_bond_text : descr -> str
