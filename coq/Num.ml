open Ascii
open BinInt
open BinNums
open Datatypes
open List0
open Nat0
open PeanoNat
open PyStr
open QArith_base
open Qreduction

type num =
| Fin of coq_Q
| PInf
| NInf
| NaN

(** val lower : char -> char **)

let lower c =
  let n = nat_of_ascii c in
  if (&&)
       (Nat.leb (S (S (S (S (S (S (S (S (S (S (S (S (S (S (S (S (S (S (S (S
         (S (S (S (S (S (S (S (S (S (S (S (S (S (S (S (S (S (S (S (S (S (S (S
         (S (S (S (S (S (S (S (S (S (S (S (S (S (S (S (S (S (S (S (S (S (S
         O))))))))))))))))))))))))))))))))))))))))))))))))))))))))))))))))) n)
       (Nat.leb n (S (S (S (S (S (S (S (S (S (S (S (S (S (S (S (S (S (S (S (S
         (S (S (S (S (S (S (S (S (S (S (S (S (S (S (S (S (S (S (S (S (S (S (S
         (S (S (S (S (S (S (S (S (S (S (S (S (S (S (S (S (S (S (S (S (S (S (S
         (S (S (S (S (S (S (S (S (S (S (S (S (S (S (S (S (S (S (S (S (S (S (S
         (S
         O)))))))))))))))))))))))))))))))))))))))))))))))))))))))))))))))))))))))))))))))))))))))))))
  then ascii_of_nat
         (add n (S (S (S (S (S (S (S (S (S (S (S (S (S (S (S (S (S (S (S (S
           (S (S (S (S (S (S (S (S (S (S (S (S
           O)))))))))))))))))))))))))))))))))
  else c

(** val digitpart_aux :
    str -> coq_Z -> nat -> ((coq_Z * nat) * str) option **)

let rec digitpart_aux s acc n =
  match s with
  | [] -> Some ((acc, n), [])
  | c :: s' ->
    if is_digit c
    then digitpart_aux s'
           (Z.add (Z.mul acc (Zpos (Coq_xO (Coq_xI (Coq_xO Coq_xH)))))
             (digit_val c)) (S n)
    else if (=) c (ch ('_'::[]))
         then (match n with
               | O -> None
               | S _ ->
                 (match s' with
                  | [] -> None
                  | d :: _ ->
                    if is_digit d then digitpart_aux s' acc n else None))
         else Some ((acc, n), s)

(** val digitpart : str -> ((coq_Z * nat) * str) option **)

let digitpart s =
  digitpart_aux s Z0 O

(** val split_sign : str -> bool * str **)

let split_sign s = match s with
| [] -> (false, [])
| c :: r ->
  if (=) c (ch ('-'::[]))
  then (true, r)
  else if (=) c (ch ('+'::[])) then (false, r) else (false, s)

(** val pow10 : coq_Z -> coq_Q **)

let pow10 e =
  if Z.ltb e Z0
  then { coq_Qnum = (Zpos Coq_xH); coq_Qden =
         (Z.to_pos (Z.pow (Zpos (Coq_xO (Coq_xI (Coq_xO Coq_xH)))) (Z.opp e))) }
  else inject_Z (Z.pow (Zpos (Coq_xO (Coq_xI (Coq_xO Coq_xH)))) e)

(** val py_float : str -> num option **)

let py_float s0 =
  let s = strip s0 in
  let (neg, r) = split_sign s in
  let lr = map lower r in
  if (||) (str_eqb lr (lit ('i'::('n'::('f'::[])))))
       (str_eqb lr
         (lit ('i'::('n'::('f'::('i'::('n'::('i'::('t'::('y'::[]))))))))))
  then Some (if neg then NInf else PInf)
  else if str_eqb lr (lit ('n'::('a'::('n'::[]))))
       then Some NaN
       else (match digitpart r with
             | Some p ->
               let (p0, r1) = p in
               let (ip, ni) = p0 in
               let frac =
                 match r1 with
                 | [] -> Some ((Z0, O), r1)
                 | c :: r1' ->
                   if (=) c (ch ('.'::[]))
                   then (match r1' with
                         | [] -> Some ((Z0, O), r1')
                         | d :: _ ->
                           if is_digit d
                           then digitpart r1'
                           else Some ((Z0, O), r1'))
                   else Some ((Z0, O), r1)
               in
               (match frac with
                | Some p1 ->
                  let (p2, r2) = p1 in
                  let (fp, nf) = p2 in
                  if Nat.eqb (add ni nf) O
                  then None
                  else let ex =
                         match r2 with
                         | [] -> Some Z0
                         | c :: r2' ->
                           if (=) (lower c) (ch ('e'::[]))
                           then let (eneg, r3) = split_sign r2' in
                                (match digitpart r3 with
                                 | Some p3 ->
                                   let (p4, s1) = p3 in
                                   let (ev, n) = p4 in
                                   (match n with
                                    | O -> None
                                    | S _ ->
                                      (match s1 with
                                       | [] ->
                                         Some (if eneg then Z.opp ev else ev)
                                       | _ :: _ -> None))
                                 | None -> None)
                           else None
                       in
                       (match ex with
                        | Some e ->
                          let m =
                            Z.add
                              (Z.mul ip
                                (Z.pow (Zpos (Coq_xO (Coq_xI (Coq_xO
                                  Coq_xH)))) (Z.of_nat nf))) fp
                          in
                          let q =
                            coq_Qred
                              (coq_Qmult
                                (inject_Z (if neg then Z.opp m else m))
                                (pow10 (Z.sub e (Z.of_nat nf))))
                          in
                          Some (Fin q)
                        | None -> None)
                | None -> None)
             | None -> None)

(** val py_int : str -> coq_Z option **)

let py_int s0 =
  let s = strip s0 in
  let (neg, r) = split_sign s in
  (match digitpart r with
   | Some p ->
     let (p0, s1) = p in
     let (v, n) = p0 in
     (match n with
      | O -> None
      | S _ ->
        (match s1 with
         | [] -> Some (if neg then Z.opp v else v)
         | _ :: _ -> None))
   | None -> None)

(** val num_eqb : num -> num -> bool **)

let num_eqb a b =
  match a with
  | Fin x -> (match b with
              | Fin y -> coq_Qeq_bool x y
              | _ -> false)
  | PInf -> (match b with
             | PInf -> true
             | _ -> false)
  | NInf -> (match b with
             | NInf -> true
             | _ -> false)
  | NaN -> false

(** val num_ge0 : num -> bool **)

let num_ge0 = function
| Fin x -> coq_Qle_bool { coq_Qnum = Z0; coq_Qden = Coq_xH } x
| PInf -> true
| _ -> false
