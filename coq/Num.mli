open Ascii
open BinInt
open BinNums
open Datatypes
open List0
open Nat0
open PeanoNat
open PyStr
open QArith_base
open Qreduction

type num =
| Fin of coq_Q
| PInf
| NInf
| NaN

val lower : char -> char

val digitpart_aux : str -> coq_Z -> nat -> ((coq_Z * nat) * str) option

val digitpart : str -> ((coq_Z * nat) * str) option

val split_sign : str -> bool * str

val pow10 : coq_Z -> coq_Q

val py_float : str -> num option

val py_int : str -> coq_Z option

val num_eqb : num -> num -> bool

val num_ge0 : num -> bool
