(* Canonical text renderings of parser results, used to compare the KERNEL's evaluation of the model (vm_compute inside coqc) with the
   extracted OCaml code on the same inputs (harness/kernel_eval.py): a check of the extraction and of the driver glue, not a proof. *)
From Coq Require Import List ZArith QArith Ascii String Bool.
From GBS Require Import Model.PyStr Model.Num Model.Bond Model.Token Model.DistFam Src.SrcDist Model.Stoch Model.Mol.
Import ListNotations.
Open Scope Z_scope.

Definition fq (x : num) : str :=
  match x with
  | Fin q => (z_to_str (Qnum q) ++ lit "/" ++ z_to_str (Zpos (Qden q)))%list
  | PInf => lit "inf" | NInf => lit "-inf" | NaN => lit "nan"
  end.
Definition show_err (e : err) : str :=
  match e with
  | ERuntime => lit "Runtime" | EValue => lit "Value" | EIndex => lit "Index" | EType => lit "Type"
  | EZeroDiv => lit "ZeroDivision" | EAttr => lit "Attribute" | EOther => lit "Other" | EFuel => lit "OutOfFuel"
  end.
Definition show_order (o : order) : str :=
  match o with OUnspec => lit "U" | OSingle => lit "1" | ODouble => lit "2" | OTriple => lit "3" | OQuad => lit "4" | OArom => lit "a" end.
Definition show_descr (d : descr) : str :=
  (print_descr fq true d ++ lit "~" ++ show_order (d_order d) ++ lit "~" ++ (match d_atom d with Some a => z_to_str a | None => lit "-" end)
   ++ lit "~" ++ z_to_str (d_num d))%list.

Definition check_descr (raw pre : str) : str :=
  match parse_descr raw 0 pre (Some 0) with OK d => show_descr d | Err e _ => (lit "ERR " ++ show_err e)%list end.

Definition valid_in (valid : list str) (s : str) : bool := existsb (str_eqb s) valid.
Definition show_token (t : token) : str :=
  (print_token fq true t ++ lit "~" ++ z_to_str (Z.of_nat (List.length (k_atoms t))) ++ lit "~" ++ List.concat (map (fun d => (show_descr d ++ lit ",")%list) (k_bds t)))%list.
Definition check_token (valid : list str) (raw : str) : str :=
  match parse_token (valid_in valid) raw 0 with OK t => show_token t | Err e _ => (lit "ERR " ++ show_err e)%list end.

Definition show_elem (e : melem) : str :=
  match e with
  | MTok t => (lit "T:" ++ show_token t)%list
  | MStoch s => (lit "S:" ++ show_descr (ps_left s) ++ lit "|" ++ show_descr (ps_right s) ++ lit "|"
                 ++ List.concat (map (fun t => (show_token t ++ lit ";")%list) (ps_rep s ++ ps_end s))
                 ++ (match ps_dist s with Some (_, t) => t | None => lit "none" end))%list
  end.
Definition check_mol (valid : list str) (raw : str) : str :=
  match parse_molecule (valid_in valid) fq raw with
  | OK m => (List.concat (map (fun e => (show_elem e ++ lit "#")%list) (ml_elems m))
             ++ (match ml_mix m with Some x => (lit "mix:" ++ (match mx_abs x with Some a => fq a | None => lit "-" end) ++ lit ";" ++ (match mx_rel x with Some a => fq a | None => lit "-" end))%list | None => lit "nomix" end))%list
  | Err e _ => (lit "ERR " ++ show_err e)%list
  end.

(* positions at which two lists of texts differ (and a marker when the lengths differ) *)
Fixpoint mismatches (k : nat) (a b : list str) : list nat :=
  match a, b with
  | [], [] => []
  | x :: a', y :: b' => (if str_eqb x y then [] else [k]) ++ mismatches (S k) a' b'
  | _, _ => [k]
  end.
