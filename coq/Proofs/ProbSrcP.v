(* Tie T for the interval bookkeeping of mol_prob.py: the statements of class RememberAdd and of get_starting_tokens are checked against the
   source (Src/SrcProb.v writes them out).  Proved: after a block of n >= 1 units of mass u has been added to an element that already held
   m0, the pair (value, previous) kept by RememberAdd is the interval of Model/Prob.v's closed form; hence the reported block factor is
   F(value) - F(previous) = code_block.  The sub-structure search that decides WHICH masses are added is not modelled. *)
From Coq Require Import List ZArith QArith Bool Lia.
From GBS Require Import Model.Prob Src.SrcProb.
Import ListNotations.
Open Scope Q_scope.

Fixpoint add_units (x : Q * Q) (u : Q) (n : nat) : Q * Q := match n with O => x | S k => ra_iadd (add_units x u k) u end.

Lemma add_units_value x u n : fst (add_units x u n) == fst x + nQ n * u.
Proof.
  induction n as [|k IH]; [cbn; unfold nQ; cbn; ring|]. cbn [add_units ra_iadd fst]. rewrite IH. unfold nQ.
  rewrite Nat2Z.inj_succ, <- Z.add_1_r, inject_Z_plus. ring.
Qed.

Theorem remember_add_is_the_interval m0 u n : (1 <= n)%nat ->
  fst (add_units (m0, 0) u n) == fst (code_interval m0 u n) /\ snd (add_units (m0, 0) u n) == snd (code_interval m0 u n).
Proof.
  intros H. destruct n as [|k]; [lia|]. unfold code_interval. cbn [fst snd]. split.
  - apply add_units_value.
  - cbn [add_units ra_iadd snd]. rewrite add_units_value. cbn [fst]. replace (S k - 1)%nat with k by lia. reflexivity.
Qed.

(* a new element starts with previous = 0: the first interval of an element that receives mass m as its first addition is (0, m] only if it
   held nothing before -- the origin of the known finding "start-group mass counted" *)
Theorem first_addition m0 m : ra_iadd (ra_new m0) m = (m0 + m, m0).
Proof. reflexivity. Qed.
