(* C13: the accumulate-until-system-mass loop.  C14: mass-share algebra of the component pick law. *)
From Coq Require Import List ZArith QArith Qfield Lqa Lia Bool String.
From GBS Require Import Model.PyStr Model.Num Model.Bond Model.Select Model.Sys Model.SysGen Proofs.SelectP.
Import ListNotations.
Open Scope Q_scope.

Definition msum (l : list member) : Q := total (map mb_mass l).

Lemma Qlt_bool_true a b : Qlt_bool a b = true <-> a < b.
Proof.
  unfold Qlt_bool. rewrite negb_true_iff. split.
  - intros H. apply Qnot_le_lt. intros L. apply Qle_bool_iff in L. congruence.
  - intros H. destruct (Qle_bool b a) eqn:E; [|reflexivity]. apply Qle_bool_iff in E. exfalso. lra.
Qed.
Lemma Qlt_bool_false a b : Qlt_bool a b = false <-> b <= a.
Proof.
  unfold Qlt_bool. rewrite negb_false_iff. apply Qle_bool_iff.
Qed.

Lemma msum_app a b : msum (a ++ b) == msum a + msum b.
Proof. unfold msum. rewrite map_app. unfold total. induction (map mb_mass a) as [|x l IH]; cbn [app fold_right]; [ring|]. rewrite IH. ring. Qed.

(* the yielded molecules are a prefix of the stream, all fully generated; every proper prefix of
   them is below the system mass (so iteration had to continue); and how it ends *)
Theorem sys_loop_spec S : forall stream acc,
  let r := sys_loop S acc stream in
  exists rest, stream = yielded r ++ rest /\
    Forall (fun m => mb_full m = true) (yielded r) /\
    (forall k, (k < List.length (yielded r))%nat -> acc + msum (firstn k (yielded r)) < S) /\
    match ending r with
    | LStop => S <= acc + msum (yielded r)
    | LNeed => rest = [] /\ acc + msum (yielded r) < S
    | LErr => acc + msum (yielded r) < S /\ exists m rest', rest = m :: rest' /\ mb_full m = false
    | LYield _ _ => False
    end.
Proof.
  induction stream as [|m stream IH]; intros acc; cbv zeta; cbn [sys_loop].
  - destruct (Qlt_bool acc S) eqn:E; cbn [yielded ending].
    + exists []. split; [reflexivity|]. split; [constructor|]. split; [intros k Hk; cbn [List.length yielded] in Hk; lia|].
      split; [reflexivity|]. apply Qlt_bool_true in E. unfold msum, total. cbn [map fold_right]. lra.
    + exists []. split; [reflexivity|]. split; [constructor|]. split; [intros k Hk; cbn [List.length yielded] in Hk; lia|].
      apply Qlt_bool_false in E. unfold msum, total. cbn [map fold_right]. lra.
  - destruct (Qlt_bool acc S) eqn:E.
    + destruct (mb_full m) eqn:Ef; cbn [yielded ending].
      * destruct (IH (acc + mb_mass m)) as (rest & H1 & H2 & H3 & H4). cbv zeta in *.
        exists rest. split; [cbn [app]; f_equal; exact H1|]. split; [constructor; assumption|]. split.
        -- intros [|k] Hk; cbn [firstn].
           ++ apply Qlt_bool_true in E. unfold msum, total. cbn [map fold_right]. lra.
           ++ cbn [List.length] in Hk. specialize (H3 k ltac:(lia)). unfold msum in *. cbn [map]. unfold total in *. cbn [fold_right]. lra.
        -- assert (Hm : acc + msum (m :: yielded (sys_loop S (acc + mb_mass m) stream)) == acc + mb_mass m + msum (yielded (sys_loop S (acc + mb_mass m) stream))).
           { unfold msum, total. cbn [map fold_right]. ring. }
           destruct (ending (sys_loop S (acc + mb_mass m) stream)); try rewrite Hm; auto.
      * exists (m :: stream). split; [reflexivity|]. split; [constructor|]. split; [intros k Hk; cbn [List.length yielded] in Hk; lia|].
        apply Qlt_bool_true in E. split; [unfold msum, total; cbn [map fold_right]; lra|]. eauto.
    + cbn [yielded ending]. exists (m :: stream). split; [reflexivity|]. split; [constructor|]. split; [intros k Hk; cbn [List.length yielded] in Hk; lia|].
      apply Qlt_bool_false in E. unfold msum, total. cbn [map fold_right]. lra.
Qed.

(* ---- C14 ---- *)
Lemma nth_error_combine {A B} (a : list A) (b : list B) i x y :
  nth_error a i = Some x -> nth_error b i = Some y -> nth_error (combine a b) i = Some (x, y).
Proof.
  revert b i; induction a as [|a0 a IH]; intros [|b0 b] [|i] Ha Hb; cbn in *; try discriminate.
  - congruence.
  - auto.
Qed.

(* the share of component i *)
Theorem share_entry p m i pi mi :
  nth_error p i = Some pi -> nth_error m i = Some mi ->
  nth_error (share p m) i = Some (pi * mi / total (pm p m)).
Proof.
  intros Hp Hm. unfold share, pm. rewrite nth_error_map, nth_error_map, (nth_error_combine _ _ _ _ _ Hp Hm). reflexivity.
Qed.

Lemma total_map_scale (f : Q -> Q) l c : (forall x, f x == x * c) -> total (map f l) == total l * c.
Proof. intros H. unfold total. induction l as [|x l IH]; cbn [map fold_right]; [ring|]. rewrite IH, H. ring. Qed.

Lemma pm_const p mu : pm p (map (fun _ => mu) p) = map (fun x => x * mu) p.
Proof. unfold pm. induction p as [|x p IH]; cbn [map combine]; [reflexivity|]. rewrite IH. reflexivity. Qed.

(* equal mean masses: the code's pick law gives every component its declared fraction *)
Theorem share_equal_masses f mu i fi : 0 < mu -> ~ total f == 0 ->
  nth_error f i = Some fi ->
  exists v, nth_error (share (comp_law f) (map (fun _ => mu) f)) i = Some v /\ v == fi / total f.
Proof.
  intros Hmu Hf Hi.
  assert (Hp : nth_error (comp_law f) i = Some (fi / total f)) by (unfold comp_law; rewrite nth_error_map, Hi; reflexivity).
  assert (Hm : nth_error (map (fun _ : Q => mu) f) i = Some mu) by (rewrite nth_error_map, Hi; reflexivity).
  eexists. split; [apply (share_entry _ _ _ _ _ Hp Hm)|].
  replace (map (fun _ : Q => mu) f) with (map (fun _ : Q => mu) (comp_law f)) by (unfold comp_law; rewrite map_map; reflexivity).
  rewrite pm_const. rewrite (total_map_scale (fun x => x * mu) (comp_law f) mu) by (intros; reflexivity).
  assert (H1 : total (comp_law f) == 1).
  { unfold comp_law. rewrite (total_map_div f (total f) Hf). field. exact Hf. }
  rewrite H1. field. split; [exact Hf|lra].
Qed.

(* two components with the code's law p = f: the share of the first is f1 m1 / (f1 m1 + f2 m2) *)
Theorem share_two f1 f2 m1 m2 :
  nth_error (share [f1; f2] [m1; m2]) 0 = Some (f1 * m1 / (f1 * m1 + (f2 * m2 + 0))).
Proof. reflexivity. Qed.

(* ... which is the declared fraction only if the mean masses are equal *)
Theorem share_two_iff f1 f2 m1 m2 : 0 < f1 -> 0 < f2 -> 0 < m1 -> 0 < m2 -> f1 + f2 == 1 ->
  (f1 * m1 / (f1 * m1 + (f2 * m2 + 0)) == f1 <-> m1 == m2).
Proof.
  intros H1 H2 H3 H4 Hs.
  assert (P1 : 0 < f1 * m1) by (apply Qmult_lt_0_compat; assumption).
  assert (P2 : 0 < f2 * m2) by (apply Qmult_lt_0_compat; assumption).
  set (D := f1 * m1 + (f2 * m2 + 0)). assert (HD : 0 < D) by (unfold D; lra).
  split; intros H.
  - assert (E : f1 * m1 == f1 * D).
    { transitivity (f1 * m1 / D * D); [field; lra|]. rewrite H. reflexivity. }
    apply Qmult_inj_l in E; [|lra].
    assert (E2 : f2 * m1 == f2 * m2).
    { unfold D in E. assert (F : f2 == 1 - f1) by lra. rewrite F in E |- *. ring_simplify in E. ring_simplify. lra. }
    apply Qmult_inj_l in E2; [exact E2|lra].
  - assert (E : D == m1).
    { unfold D. rewrite <- H. transitivity ((f1 + f2) * m1); [ring|]. rewrite Hs. ring. }
    rewrite E. field. lra.
Qed.

(* the correct law: picking with p_i proportional to f_i / m_i gives share_i = f_i / sum f (2 components) *)
Theorem share_two_correct f1 f2 m1 m2 : 0 < f1 -> 0 < f2 -> 0 < m1 -> 0 < m2 ->
  (f1 / m1) * m1 / ((f1 / m1) * m1 + ((f2 / m2) * m2 + 0)) == f1 / (f1 + f2).
Proof. intros. field. repeat split; lra. Qed.

(* C14 is false of the code's law: 90 % light solvent (60) / 10 % polymer (5000) gives about 9.7 % solvent by mass *)
Theorem share_refuted :
  exists f m v, nth_error (share (comp_law f) m) 0 = Some v /\ nth_error f 0 = Some 90 /\ total f == 100 /\ v < 10 # 100.
Proof.
  exists [90; 10], [60; 5000]. eexists. split; [reflexivity|]. split; [reflexivity|]. split; vm_compute; reflexivity.
Qed.
