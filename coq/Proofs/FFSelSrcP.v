(* Tie T for the rule selection: Src/SrcFFSel.v holds the decisions of SMARTS_ASSIGNMENTS.get_type_assignments and of
   MolGen.get_forcefield_types REGENERATED from the source (statement skeletons checked: rules visited in file order, the first
   matching rule kept, replaced only where <ff_replaces>, FfAssignmentError iff <ff_incomplete>).  The selection rebuilt from them is
   proved equal to Model/FFSel.v, which the C20 selection theorems are about. *)
From Coq Require Import List ZArith Bool Arith Lia.
From GBS Require Import Model.FFSel Src.SrcFFSel.
Import ListNotations.

Definition longer_src (b x : rule) : rule := if ff_replaces (r_len x) (r_len b) then x else b.
Definition best_src (rs : list rule) : option rule := match rs with [] => None | r :: rest => Some (fold_left longer_src rest r) end.

Lemma longer_is_source b x : longer_src b x = longer b x.
Proof.
  unfold longer_src, longer, ff_replaces. destruct (Nat.ltb (r_len b) (r_len x)) eqn:E.
  - apply Nat.ltb_lt in E. replace (Z.ltb (Z.of_nat (r_len b)) (Z.of_nat (r_len x))) with true by (symmetry; apply Z.ltb_lt; lia). reflexivity.
  - apply Nat.ltb_ge in E. replace (Z.ltb (Z.of_nat (r_len b)) (Z.of_nat (r_len x))) with false by (symmetry; apply Z.ltb_ge; lia). reflexivity.
Qed.

Theorem best_is_source rs : best_src rs = best rs.
Proof.
  destruct rs as [|r rest]; [reflexivity|]. cbn [best_src best]. f_equal. revert r.
  induction rest as [|x rest IH]; intros r; [reflexivity|]. cbn [fold_left]. rewrite longer_is_source. apply IH.
Qed.

(* the dedicated error is raised exactly when fewer atoms were assigned than the molecule has *)
Theorem incomplete_is_source nassigned natoms : ff_incomplete nassigned natoms = negb (Nat.eqb nassigned natoms).
Proof.
  unfold ff_incomplete. f_equal. destruct (Nat.eqb nassigned natoms) eqn:E.
  - apply Nat.eqb_eq in E. apply Z.eqb_eq. lia.
  - apply Nat.eqb_neq in E. apply Z.eqb_neq. lia.
Qed.

(* typing is refused for a molecule that is not fully generated (an open descriptor is left) *)
Theorem refused_is_source open_descriptors : ff_refused (Nat.eqb open_descriptors 0) = negb (typing_guard open_descriptors).
Proof. reflexivity. Qed.
