(* C16: the reaction-graph model (Model/RGraph.v): normalisation at EVERY descriptor node, equality
   with the generator's selection law, compatible-only weight edges.  No axioms. *)
From Coq Require Import List ZArith QArith Qfield Lqa Lia Bool Arith.
From GBS Require Import Model.PyStr Model.Num Model.Bond Model.Select Model.Gen Model.RGraph Proofs.SelectP.
Import ListNotations.
Open Scope Q_scope.

Definition kind_eqb (a b : ekind) : bool :=
  match a, b with KProb, KProb | KTermP, KTermP | KTransP, KTransP => true | _, _ => false end.
Definition of_kind (K : ekind) (l : list redge) : list redge := filter (fun e => kind_eqb (e_kind e) K) l.
Definition sum_kind (K : ekind) (l : list redge) : Q := total (map e_p (of_kind K l)).

Lemma total_app' a b : total (a ++ b) == total a + total b.
Proof. unfold total. induction a as [|x a IH]; cbn [app fold_right]; [ring|]. rewrite IH. ring. Qed.

Lemma sum_kind_app K a b : sum_kind K (a ++ b) == sum_kind K a + sum_kind K b.
Proof. unfold sum_kind, of_kind. rewrite filter_app, map_app. apply total_app'. Qed.

(* sum over the edges produced by one scan = selected weight / common denominator *)
Lemma sum_edges_to K D src ei sel kind den : forall l k,
  (forall i, kind i = K -> den i == D) ->
  sum_kind K (edges_to src ei sel kind den k l) == wsum (fun i o => sel i o && kind_eqb (kind i) K) k l / D.
Proof.
  induction l as [|o l IH]; intros k HD; cbn [edges_to wsum].
  - unfold sum_kind, of_kind, total, Qdiv. cbn [filter map fold_right]. ring.
  - rewrite sum_kind_app, IH by exact HD. destruct (sel k o); cbn [andb].
    + destruct (kind_eqb (kind k) K) eqn:E.
      * unfold sum_kind, of_kind. cbn [filter e_kind]. rewrite E. cbn [map e_p]. unfold total. cbn [fold_right].
        assert (kind k = K) by (destruct (kind k), K; cbn in E; congruence). rewrite (HD k H). unfold Qdiv. ring.
      * unfold sum_kind, of_kind. cbn [filter e_kind]. rewrite E. unfold total, Qdiv. cbn [map fold_right]. ring.
    + unfold sum_kind, of_kind, total, Qdiv. cbn [filter map fold_right]. ring.
Qed.

Lemma wsum_ext sel1 sel2 : forall l k, (forall i o, In o l -> sel1 i o = sel2 i o) -> wsum sel1 k l == wsum sel2 k l.
Proof.
  induction l as [|o l IH]; intros k H; cbn [wsum]; [reflexivity|].
  rewrite (H k o (or_introl eq_refl)), IH; [reflexivity|]. intros i o' Hin. apply H. right. exact Hin.
Qed.

Lemma wsum_nonneg sel : forall l k, Forall (fun o => 0 <= wq o) l -> 0 <= wsum sel k l.
Proof.
  induction l as [|o l IH]; intros k H; cbn [wsum]; [lra|]. inversion H; subst. specialize (IH (S k) H3).
  destruct (sel k o); lra.
Qed.

(* dropping the zero-weight candidates does not change the selected weight *)
Lemma wsum_drop_zero sel : forall l k, Forall (fun o => 0 <= wq o) l ->
  wsum (fun i o => sel i o && negb (Qle_bool (wq o) 0)) k l == wsum sel k l.
Proof.
  induction l as [|o l IH]; intros k H; cbn [wsum]; [reflexivity|]. inversion H; subst. rewrite IH by assumption.
  destruct (sel k o); cbn [andb]; [|reflexivity].
  destruct (Qle_bool (wq o) 0) eqn:E; cbn [negb]; [|reflexivity]. apply Qle_bool_iff in E. lra.
Qed.

(* a zero total of non-negative weights: nothing with positive weight is selected *)
Lemma wsum_zero_none sel : forall l k, Forall (fun o => 0 <= wq o) l -> wsum sel k l == 0 ->
  forall i o, nth_error l i = Some o -> sel (k + i)%nat o = true -> Qle_bool (wq o) 0 = true.
Proof.
  induction l as [|o l IH]; intros k H Hz i o' Hn Hs; [destruct i; discriminate|].
  inversion H; subst. cbn [wsum] in Hz. pose proof (wsum_nonneg sel l (S k) H3).
  destruct i as [|i]; cbn [nth_error] in Hn.
  - injection Hn as <-. rewrite Nat.add_0_r in Hs. rewrite Hs in Hz. apply Qle_bool_iff. lra.
  - apply (IH (S k) H3) with (i := i); auto.
    + destruct (sel k o); lra.
    + replace (S k + i)%nat with (k + S i)%nat by lia. exact Hs.
Qed.

Lemma edges_to_nil src ei sel kind den : forall l k,
  (forall i o, nth_error l i = Some o -> sel (k + i)%nat o = false) -> edges_to src ei sel kind den k l = [].
Proof.
  induction l as [|o l IH]; intros k H; cbn [edges_to]; [reflexivity|].
  rewrite <- (Nat.add_0_r k) at 1. rewrite (H O o eq_refl). cbn [app]. apply IH.
  intros i o' Hn. replace (S k + i)%nat with (k + S i)%nat by lia. apply H. exact Hn.
Qed.

Lemma edges_to_In src ei sel kind den e : forall l k,
  In e (edges_to src ei sel kind den k l) ->
  exists i o, nth_error l i = Some o /\ sel (k + i)%nat o = true /\ e_src e = src /\ e_dst e = (ei, (k + i)%nat) /\
              e_kind e = kind (k + i)%nat /\ e_p e = wq o / den (k + i)%nat.
Proof.
  induction l as [|o l IH]; intros k H; cbn [edges_to] in H; [contradiction|].
  apply in_app_or in H as [H|H].
  - destruct (sel k o) eqn:E; [|contradiction]. destruct H as [<-|[]]. exists O, o. rewrite Nat.add_0_r. repeat split; auto.
  - apply IH in H as (i & o' & H1 & H2 & H3). exists (S i), o'. replace (k + S i)%nat with (S k + i)%nat by lia. auto.
Qed.

(* ------------------------------------------------------------------------------------------ *)
(* a descriptor without list inside a stochastic object *)
Lemma nth_error_index_from_rg {A} s (l : list A) j k d :
  nth_error (index_from s l) j = Some (k, d) -> k = (s + j)%nat /\ nth_error l j = Some d.
Proof.
  revert s j; induction l as [|x l IH]; intros s [|j] H; simpl in *; try discriminate.
  - injection H as <- <-. split; [lia|reflexivity].
  - apply IH in H as [-> H]. split; [lia|exact H].
Qed.

Section Intra.
  Variable ei : nat.
  Variable s : gstoch.
  Variable j : nat.
  Variable d : descr.
  Hypothesis Hnolist : qtrans d = Some None.
  Hypothesis Hnonneg : Forall (fun o => 0 <= wq o) (elem_bds (EStoch s)).

  Let nr := n_rep (EStoch s).
  Let bds := elem_bds (EStoch s).
  Let rw := wsum (fun k o => Nat.ltb k nr && compatible d o) 0 bds.
  Let ew := wsum (fun k o => negb (Nat.ltb k nr) && compatible d o) 0 bds.
  Let es := intra_edges ei (EStoch s) j d.

  Lemma intra_unfold : es = edges_to (ei, j) ei (fun k o => compatible d o && negb (Qle_bool (wq o) 0))
                                     (fun k => if Nat.ltb k nr then KProb else KTermP) (fun k => if Nat.ltb k nr then rw else ew) 0 bds.
  Proof. unfold es, intra_edges. rewrite Hnolist. reflexivity. Qed.

  Lemma intra_sum_prob : sum_kind KProb es == rw / rw.
  Proof.
    rewrite intra_unfold, (sum_edges_to KProb rw).
    - apply Qmult_comp; [|reflexivity]. unfold rw.
      rewrite <- (wsum_drop_zero (fun k o => Nat.ltb k nr && compatible d o) bds 0 Hnonneg).
      apply wsum_ext. intros i o _. destruct (Nat.ltb i nr), (compatible d o), (Qle_bool (wq o) 0); reflexivity.
    - intros i H. destruct (Nat.ltb i nr); [reflexivity|discriminate].
  Qed.

  Lemma intra_sum_term : sum_kind KTermP es == ew / ew.
  Proof.
    rewrite intra_unfold, (sum_edges_to KTermP ew).
    - apply Qmult_comp; [|reflexivity]. unfold ew.
      rewrite <- (wsum_drop_zero (fun k o => negb (Nat.ltb k nr) && compatible d o) bds 0 Hnonneg).
      apply wsum_ext. intros i o _. destruct (Nat.ltb i nr), (compatible d o), (Qle_bool (wq o) 0); reflexivity.
    - intros i H. destruct (Nat.ltb i nr); [discriminate|reflexivity].
  Qed.

  Lemma intra_absent (K : ekind) (tot : Q) (side : nat -> bool) :
    tot = wsum (fun k o => side k && compatible d o) 0 bds -> tot == 0 ->
    (forall k, (if Nat.ltb k nr then KProb else KTermP) = K -> side k = true) ->
    of_kind K es = [].
  Proof.
    intros Ht Hz Hside. rewrite intra_unfold. unfold of_kind.
    apply (proj2 (filter_nil_iff _ _)) || idtac.
  Abort.

  (* reaction and termination probabilities each sum to one or are absent -- at THIS node, whichever it is *)
  Theorem intra_normalised :
    (sum_kind KProb es == 1 \/ forall e, In e es -> e_kind e <> KProb) /\
    (sum_kind KTermP es == 1 \/ forall e, In e es -> e_kind e <> KTermP).
  Proof.
    split.
    - destruct (Qeq_dec rw 0) as [Z|NZ].
      + right. intros e He Hk. rewrite intra_unfold in He. apply edges_to_In in He as (i & o & H1 & H2 & _ & _ & H5 & _).
        cbn [plus] in *. rewrite Hk in H5. destruct (Nat.ltb i nr) eqn:El; [|discriminate].
        apply andb_true_iff in H2 as [Hc Hp].
        assert (Qle_bool (wq o) 0 = true).
        { apply (wsum_zero_none (fun k o => Nat.ltb k nr && compatible d o) bds 0 Hnonneg Z i o H1). cbn [plus]. rewrite El, Hc. reflexivity. }
        rewrite H in Hp. discriminate.
      + left. rewrite intra_sum_prob. field. exact NZ.
    - destruct (Qeq_dec ew 0) as [Z|NZ].
      + right. intros e He Hk. rewrite intra_unfold in He. apply edges_to_In in He as (i & o & H1 & H2 & _ & _ & H5 & _).
        cbn [plus] in *. rewrite Hk in H5. destruct (Nat.ltb i nr) eqn:El; [discriminate|].
        apply andb_true_iff in H2 as [Hc Hp].
        assert (Qle_bool (wq o) 0 = true).
        { apply (wsum_zero_none (fun k o => negb (Nat.ltb k nr) && compatible d o) bds 0 Hnonneg Z i o H1). cbn [plus]. rewrite El, Hc. reflexivity. }
        rewrite H in Hp. discriminate.
      + left. rewrite intra_sum_term. field. exact NZ.
  Qed.

  (* weight edges join compatible descriptors only, and carry weight / (total compatible weight of that side) *)
  Theorem intra_edge_spec e : In e es ->
    exists i o, nth_error bds i = Some o /\ compatible d o = true /\ 0 < wq o /\ e_src e = (ei, j) /\ e_dst e = (ei, i) /\
                ((Nat.ltb i nr = true /\ e_kind e = KProb /\ e_p e = wq o / rw) \/
                 (Nat.ltb i nr = false /\ e_kind e = KTermP /\ e_p e = wq o / ew)).
  Proof.
    intros He. rewrite intra_unfold in He. apply edges_to_In in He as (i & o & H1 & H2 & H3 & H4 & H5 & H6). cbn [plus] in *.
    apply andb_true_iff in H2 as [Hc Hp]. exists i, o. split; [exact H1|]. split; [exact Hc|]. split.
    { apply negb_true_iff in Hp. apply Qnot_le_lt. intros L. apply Qle_bool_iff in L. congruence. }
    split; [exact H3|]. split; [exact H4|].
    destruct (Nat.ltb i nr); [left|right]; auto.
  Qed.
End Intra.

(* ------------------------------------------------------------------------------------------ *)
(* the generator's law on a candidate list equals weight / total whenever the total is positive *)
Lemma total_all_equal x l : Forall (fun y => x == y) l -> total l == x * inject_Z (Z.of_nat (List.length l)).
Proof.
  unfold total. induction 1 as [|y l Hy Hl IH]; [cbn; ring|].
  cbn [fold_right List.length]. rewrite IH, Nat2Z.inj_succ, <- Z.add_1_r, inject_Z_plus. change (inject_Z 1) with 1. rewrite <- Hy. ring.
Qed.

Theorem law_ratio w i wi : Forall (fun x => 0 <= x) w -> 0 < total w -> nth_error w i = Some wi ->
  exists p, nth_error (law w) i = Some p /\ p == wi / total w.
Proof.
  intros Hnn Hpos Hi. destruct w as [|x w'] eqn:Ew; [destruct i; discriminate|]. rewrite <- Ew in *.
  destruct (all_eqb x w) eqn:Ea.
  - destruct (law_uniform w x w' Ew Ea Hnn i wi Hi) as (p & Hp & Hv). exists p. split; [exact Hp|]. rewrite Hv.
    assert (Hall : Forall (fun y => x == y) w) by (apply all_eqb_spec; exact Ea).
    assert (Hwi : x == wi) by (rewrite Forall_forall in Hall; apply Hall; eapply nth_error_In; eauto).
    rewrite (total_all_equal x w Hall) in *. rewrite <- Hwi.
    assert (0 < inject_Z (Z.of_nat (List.length w))).
    { rewrite Ew. change 0 with (inject_Z 0). rewrite <- Zlt_Qlt. cbn [List.length]. lia. }
    assert (~ x == 0) by (intros Z; rewrite Z in Hpos; lra).
    field. split; [lra|assumption].
  - destruct (law_proportional w x w' Ew Ea i wi Hi) as (p & Hp & Hv). exists p. split; [exact Hp|exact Hv].
Qed.

(* the denominator the graph uses for reaction edges is the total weight of the generator's candidates *)
Lemma wsum_shift_gen sel : forall l k m, wsum sel (k + m)%nat l == wsum (fun i o => sel (k + i)%nat o) m l.
Proof.
  induction l as [|o l IH]; intros k m; cbn [wsum]; [reflexivity|].
  replace (S (k + m)) with (k + S m)%nat by lia. rewrite IH. reflexivity.
Qed.
Lemma wsum_shift sel l k : wsum sel k l == wsum (fun i o => sel (k + i)%nat o) 0 l.
Proof. rewrite <- (wsum_shift_gen sel l k 0). rewrite Nat.add_0_r. reflexivity. Qed.

Lemma wsum_total sel : forall l, (forall i o, sel i o = sel 0%nat o) ->
  wsum sel 0 l == total (map wq (filter (sel 0%nat) l)).
Proof.
  intros l H. induction l as [|o l IH]; cbn [wsum filter]; [reflexivity|].
  rewrite (wsum_shift sel l 1). rewrite (wsum_ext _ sel l 0) by (intros i o' _; rewrite H; symmetry; apply H). rewrite IH.
  destruct (sel 0%nat o); cbn [map]; unfold total; cbn [fold_right]; ring.
Qed.

Theorem reaction_denominator d reps ends :
  wsum (fun k o => Nat.ltb k (List.length reps) && compatible d o) 0 (reps ++ ends) == total (map wq (filter (compatible d) reps)).
Proof.
  assert (G : forall k l, wsum (fun i o => Nat.ltb i (List.length reps) && compatible d o) (List.length reps + k) l == 0).
  { intros k l. revert k. induction l as [|o l IH]; intros k; cbn [wsum]; [reflexivity|].
    replace (S (List.length reps + k)) with (List.length reps + S k)%nat by lia. rewrite IH.
    assert (Nat.ltb (List.length reps + k) (List.length reps) = false) by (apply Nat.ltb_ge; lia). rewrite H. cbn [andb]. ring. }
  assert (A : forall pre k, (k + List.length pre = List.length reps)%nat ->
              wsum (fun i o => Nat.ltb i (List.length reps) && compatible d o) k (pre ++ ends) == total (map wq (filter (compatible d) pre))).
  { induction pre as [|o pre IH]; intros k Hk.
    - cbn [app filter map]. cbn [List.length] in Hk. replace k with (List.length reps + 0)%nat by lia. rewrite G. reflexivity.
    - cbn [app wsum filter]. cbn [List.length] in Hk. rewrite (IH (S k)) by lia.
      assert (Nat.ltb k (List.length reps) = true) by (apply Nat.ltb_lt; lia). rewrite H. cbn [andb].
      destruct (compatible d o); cbn [map]; unfold total; cbn [fold_right]; ring. }
  apply (A reps 0%nat); lia.
Qed.

(* explicit transition list: edge i carries tr_i / weight; these sum to one when weight = total of the list *)
Theorem list_edges_spec ei e j d tr : qtrans d = Some (Some tr) -> ~ wq d == 0 ->
  forall x, In x (intra_edges ei e j d) ->
    exists i t, nth_error tr i = Some t /\ e_src x = (ei, j) /\ e_dst x = (ei, i) /\ e_kind x = KProb /\ e_p x = t / wq d /\ 0 <= t / wq d.
Proof.
  intros Ht Hw x Hx. unfold intra_edges in Hx. rewrite Ht in Hx.
  destruct (Qeq_bool (wq d) 0) eqn:E; [apply Qeq_bool_iff in E; contradiction|].
  apply in_flat_map in Hx as ([i t] & Hin & Hx). cbn [fst snd] in Hx.
  destruct (Qle_bool 0 (t / wq d)) eqn:El; [|contradiction]. destruct Hx as [<-|[]].
  apply In_nth_error in Hin as [n Hn]. destruct (nth_error_index_from_rg 0 tr n i t Hn) as [-> Hn'].
  exists n, t. cbn. repeat split; auto. apply Qle_bool_iff. exact El.
Qed.
