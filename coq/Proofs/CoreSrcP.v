(* Tie T for the selection layer: Src/SrcCore.v holds the decision expressions of core.py's candidate filter, of the +1 rule of
   choose_compatible_weight and of the guards of BigSMILESbase.generate, REGENERATED from the source (statement skeletons checked by the
   translator; is_compatible is itself the function regenerated from bond.py).  The filter and the rule rebuilt from them are proved
   equal to Model/Select.v, which the C08 / C04 theorems are about. *)
From Coq Require Import List ZArith QArith Bool Lia.
From GBS Require Import Model.PyStr Model.Num Model.Bond Model.Select Src.SrcBond Proofs.BondP Src.SrcCore.
Import ListNotations.
Open Scope Q_scope.

(* for i, other in enumerate(bond_descriptors): if <is_candidate>: append i *)
Fixpoint compat_idx_src_from (k : nat) (l : list descr) (bond : option descr) : list nat :=
  match l with
  | [] => []
  | o :: l' => if is_candidate bond o then k :: compat_idx_src_from (S k) l' bond else compat_idx_src_from (S k) l' bond
  end.
Definition compat_idx_src (l : list descr) (bond : option descr) : list nat := compat_idx_src_from 0 l bond.

Theorem compat_idx_is_source l bond : compat_idx_src l bond = compat_idx l bond.
Proof.
  unfold compat_idx_src, compat_idx. generalize 0%nat. induction l as [|o l IH]; intros k; [reflexivity|].
  cbn [compat_idx_src_from compat_idx_from]. rewrite IH. unfold is_candidate.
  destruct bond as [b|]; cbn [orb]; [|reflexivity]. rewrite src_compat_model. reflexivity.
Qed.

(* if <bump_cond>: weights += 1 *)
Definition bump_src (idx : list nat) (w : list Q) : list Q := if bump_cond idx w then map (fun y => y + 1) w else w.

Theorem bump_is_source idx w : List.length idx = List.length w -> bump_src idx w = bump w.
Proof.
  intros H. unfold bump_src, bump_cond, bump. destruct w as [|x r].
  - destruct idx; [reflexivity|discriminate].
  - destruct idx as [|i idx]; [discriminate|]. cbn [List.length].
    replace (Z.ltb 0 (Z.of_nat (S (List.length idx)))) with true by (symmetry; apply Z.ltb_lt; lia). reflexivity.
Qed.

(* the law handed to rng.choice: weights /= np.sum(weights) after the rule (in the checked skeleton) *)
Definition law_src (idx : list nat) (w : list Q) : list Q := let b := bump_src idx w in map (fun y => y / total b) b.
Theorem law_is_source idx w : List.length idx = List.length w -> law_src idx w = law w.
Proof. intros H. unfold law_src, law. rewrite (bump_is_source idx w H). reflexivity. Qed.

(* BigSMILESbase.generate: refused when not generable; a prefix must have exactly one open descriptor *)
Theorem base_guards_are_source generable has_prefix nopen :
  base_refused generable = negb generable /\ base_has_prefix has_prefix = has_prefix /\ base_prefix_bad nopen = negb (Nat.eqb nopen 1).
Proof.
  repeat split. unfold base_prefix_bad. f_equal. destruct (Nat.eqb nopen 1) eqn:E.
  - apply Nat.eqb_eq in E. subst. reflexivity.
  - apply Nat.eqb_neq in E. apply Z.eqb_neq. lia.
Qed.
