(* The system parser (Model/SystemM.v) is total: splitting loop, molecule parser on every piece, mixture bookkeeping -- the distinguished
   fuel result is unreachable for every text, every caller-supplied mass and every atom oracle. *)
From Coq Require Import List ZArith QArith Ascii String Bool Lia.
From GBS Require Import Model.PyStr Model.Num Model.Bond Model.Token Model.DistFam Src.SrcDist Model.Stoch Model.Mol Model.Sys Model.SystemM
     Proofs.TotalP Proofs.StochP Proofs.MolP.
Import ListNotations.
Open Scope nat_scope.

Ltac nf := repeat first [ reflexivity
                        | match goal with
                          | |- is_fuel (if ?b then _ else _) = false => destruct b
                          | |- is_fuel (match ?x with _ => _ end) = false => destruct x
                          end ].

Lemma set_sys_nf m s : is_fuel (set_sys m s) = false.
Proof. unfold set_sys. nf. Qed.
Lemma set_rel_nf m f : is_fuel (set_rel m f) = false.
Proof. unfold set_rel. destruct (_ || _)%bool; [reflexivity|]. destruct (x_abs m); [|reflexivity]. destruct (truthy q); [|reflexivity]. destruct (Qeq_bool f 0); [reflexivity|apply set_sys_nf]. Qed.

Lemma bind_nf {A B} (r : result A) (f : A -> result B) : is_fuel r = false -> (forall a, is_fuel (f a) = false) -> is_fuel (Bond.bind r f) = false.
Proof. destruct r as [a|e m]; cbn [Bond.bind]; auto. Qed.

Lemma fill_missing_nf : forall cs w, is_fuel (fill_missing cs w) = false.
Proof.
  induction cs as [|c r IH]; intros w; cbn [fill_missing]; [reflexivity|]. apply bind_nf.
  - destruct c as [m|]; [destruct (x_rel m); [reflexivity|apply set_rel_nf]|destruct (_ || _)%bool; reflexivity].
  - intros c'. apply bind_nf; [apply IH|reflexivity].
Qed.
Lemma set_all_sys_nf : forall cs s done, is_fuel (set_all_sys cs s done) = false.
Proof.
  induction cs as [|c r IH]; intros s done; cbn [set_all_sys]; [reflexivity|]. destruct c as [m|]; [|reflexivity].
  apply bind_nf; [apply set_sys_nf|]. intros m'. apply IH.
Qed.
Lemma estimate_nf cs smw : is_fuel (estimate cs smw) = false.
Proof.
  unfold estimate. apply bind_nf.
  - destruct (Nat.eqb _ _); [|reflexivity]. destruct (_ || _)%bool; [reflexivity|]. apply bind_nf; [apply fill_missing_nf|reflexivity].
  - intros [[cs1 totf] nf']. destruct (_ && _)%bool; [reflexivity|]. destruct (negb _); [reflexivity|].
    destruct (if Nat.eqb _ _ then _ else _) as [|s l]; [reflexivity|apply set_all_sys_nf].
Qed.

Lemma map_result_nf {A B} (f : A -> result B) : (forall a, is_fuel (f a) = false) -> forall l, is_fuel (map_result f l) = false.
Proof. intros H. induction l as [|a r IH]; cbn [map_result]; [reflexivity|]. apply bind_nf; [apply H|]. intros b. apply bind_nf; [exact IH|reflexivity]. Qed.
Lemma comp_of_mix_nf m : is_fuel (comp_of_mix m) = false.
Proof.
  unfold comp_of_mix. destruct m as [x|]; [|reflexivity]. apply bind_nf; [unfold fin_of; nf|]. intros a. apply bind_nf; [unfold fin_of; nf|reflexivity].
Qed.

Section SystemP.
  Variable valid_atom : str -> bool.
  Variable fprint : num -> str.

  Lemma system_loop_total : forall fuel text acc, List.length text < fuel -> is_fuel (system_loop valid_atom fprint fuel text acc) = false.
  Proof.
    induction fuel as [|f IH]; intros text acc H; [lia|]. cbn [system_loop].
    destruct (find (lit ".|") text <? 0)%Z eqn:E1; [reflexivity|]. apply Z.ltb_ge in E1.
    destruct (find_at (lit "|") text (find (lit ".|") text + 2) + 1 <=? 0)%Z eqn:E2; [reflexivity|]. apply Z.leb_gt in E2.
    apply bind_nf; [apply parse_molecule_total|]. intros m. apply IH. unfold strip.
    assert (text <> []) by (intros ->; cbn in E1; lia).
    pose proof (strip_by_length is_ws (slice text (Some (find_at (lit "|") text (find (lit ".|") text + 2) + 1)%Z) None)).
    pose proof (slice_from_lt text (find_at (lit "|") text (find (lit ".|") text + 2) + 1)%Z ltac:(lia) H0). lia.
  Qed.

  Theorem parse_system_total raw smw : is_fuel (parse_system valid_atom fprint raw smw) = false.
  Proof.
    unfold parse_system. apply bind_nf; [apply system_loop_total; lia|]. intros [ms rest].
    apply bind_nf.
    - destruct rest; [reflexivity|]. apply bind_nf; [apply parse_molecule_total|reflexivity].
    - intros ms'. apply bind_nf; [apply map_result_nf, comp_of_mix_nf|]. intros cs. apply bind_nf; [apply estimate_nf|reflexivity].
  Qed.
End SystemP.
