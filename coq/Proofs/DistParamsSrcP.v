(* Tie T for the parameter plumbing of the six distribution constructors: Src/SrcDistParams.v states, REGENERATED from distribution.py, which
   written number becomes which argument of which scipy law (tuple order, float / int conversion, keyword of the call).  They are the
   plumbing of Model/Dist.v, i.e. the documented order gauss(mean, sigma), uniform(low, high), schulz_zimm(Mw, Mn), log_normal(Mn, dispersity),
   poisson(mean), flory_schulz(a). *)
From Coq Require Import List ZArith QArith Bool.
From GBS Require Import Model.PyStr Model.DistFam Model.Dist Src.SrcDistParams.
Import ListNotations.
Open Scope Q_scope.

Theorem params_are_source :
  (forall mu sigma, plumb FGauss [mu; sigma] = params_Gauss mu sigma) /\
  (forall lo hi, plumb FUniform [lo; hi] = params_Uniform lo hi) /\
  (forall Mw Mn, plumb FSchulzZimm [Mw; Mn] = if Qeq_bool (Mw - Mn) 0 then LBad else params_SchulzZimm Mw Mn) /\
  (forall M D, plumb FLogNormal [M; D] = params_LogNormal M D) /\
  (forall N, plumb FPoisson [N] = params_Poisson N) /\
  (forall a, plumb FFlorySchulz [a] = params_FlorySchulz a).
Proof. repeat split. Qed.
