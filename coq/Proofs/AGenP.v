(* C18: atom-graph generation (Model/AGen.v), for every graph, every pick stream and every list of draws:
   (1) no loop runs without consuming a random decision -- the OutOfFuel result is unreachable;
   (2) bonds between residues follow non-static edges of the stochastic atom graph, with their order; bonds inside a residue are
       static bonds of the graph;
   (3) the residues form a tree: every residue but the first hangs by exactly one bond from an atom of an earlier residue. *)
From Coq Require Import List ZArith QArith Bool Arith Lia.
From GBS Require Import Model.PyStr Model.Num Model.Bond Model.Select Model.Gen Model.AGen Proofs.GenP.
Import ListNotations.
Open Scope nat_scope.

(* ------------------------------------------------------------------------------------------ *)
(* 1. termination *)
Definition safe_at {A} (m : run A) (st : rstate) : Prop :=
  m st <> OutOfFuel /\ forall a st', m st = Done a st' -> List.length (picks st') <= List.length (picks st).

Lemma safe_ret {A} (a : A) st : safe_at (ret a) st.
Proof. split; [discriminate|]. intros b st' E. injection E as _ <-. lia. Qed.
Lemma safe_fail {A} e s st : safe_at (@fail A e s) st.
Proof. split; [discriminate|]. intros b st' E. discriminate. Qed.
Lemma safe_bind {A B} (m : run A) (k : A -> run B) st :
  safe_at m st -> (forall a st1, m st = Done a st1 -> safe_at (k a) st1) -> safe_at (rbind m k) st.
Proof.
  intros [H1 H2] Hk. unfold safe_at, rbind. destruct (m st) as [a st1| | | | |] eqn:Em; try (split; [discriminate|intros ? ? E; discriminate]).
  - destruct (Hk a st1 eq_refl) as [K1 K2]. split; [exact K1|]. intros b st' E. specialize (K2 b st' E). specialize (H2 a st1 eq_refl). lia.
  - congruence.
Qed.
Lemma safe_with_fuel {A} (F : nat -> run A) st : safe_at (F (S (List.length (picks st)))) st -> safe_at (with_fuel F) st.
Proof. intros H. exact H. Qed.

Lemma pickn_strict n st a st' : pickn n st = Done a st' -> List.length (picks st') < List.length (picks st).
Proof.
  unfold pickn, pick. destruct (picks st) as [|k rest] eqn:Ep; [discriminate|].
  destruct (nth_error (seq 0 n) k); [|discriminate]. destruct (nth_error (repeat 1%Q n) k); [|discriminate].
  destruct (Qle_bool q 0); [discriminate|]. intros E. injection E as _ <-. cbn [picks List.length]. lia.
Qed.
Lemma pickn_safe n st : safe_at (pickn n) st.
Proof.
  split.
  - unfold pickn, pick. destruct (picks st); [discriminate|]. destruct (nth_error (seq 0 n) n0); [|discriminate].
    destruct (nth_error (repeat 1%Q n) n0); [|discriminate]. destruct (Qle_bool q 0); discriminate.
  - intros a st' E. apply pickn_strict in E. lia.
Qed.
Lemma draw_safe st : safe_at draw st.
Proof. split; unfold draw; destruct (targets st); try discriminate. intros a st' E. injection E as _ <-. cbn [picks]. lia. Qed.

(* a run that consumes a pick whenever it returns a value satisfying P *)
Definition strict_at {A} (m : run A) (st : rstate) (P : A -> Prop) : Prop :=
  forall a st', m st = Done a st' -> P a -> List.length (picks st') < List.length (picks st).

Lemma next_stoch_safe s st : safe_at (next_stoch s) st /\ strict_at (next_stoch s) st (fun r => r <> None).
Proof.
  unfold next_stoch. destruct (positions_where _ 0 (a_nodes s)) as [|c cs].
  - split; [apply safe_ret|]. intros a st' E Hn. injection E as <- _. congruence.
  - split.
    + apply safe_bind; [apply pickn_safe|]. intros k st1 _. apply safe_ret.
    + intros a st' E _. apply rbind_done in E as (k & st1 & E1 & E2). injection E2 as _ <-. eapply pickn_strict; eauto.
Qed.

Lemma next_term_safe s ex st : safe_at (next_term s ex) st /\ strict_at (next_term s ex) st (fun r => r <> None).
Proof.
  unfold next_term. destruct (positions_where _ 0 (a_nodes s)) as [|c cs].
  { split; [apply safe_ret|]. intros a st' E Hn. injection E as <- _. congruence. }
  destruct (filter _ (c :: cs)) as [|i rest].
  { split; [apply safe_ret|]. intros a st' E Hn. injection E as <- _. congruence. }
  destruct (nth_error (a_nodes s) i) as [g|].
  2:{ split; [apply safe_ret|]. intros a st' E Hn. injection E as <- _. congruence. }
  split.
  - apply safe_bind; [apply pickn_safe|]. intros k st1 _. apply safe_ret.
  - intros a st' E _. apply rbind_done in E as (k & st1 & E1 & E2). injection E2 as _ <-. eapply pickn_strict; eauto.
Qed.

Lemma terminate_safe G : forall fuel s ex st, List.length (picks st) < fuel -> safe_at (terminate fuel G s ex) st.
Proof.
  induction fuel as [|f IH]; intros s ex st Hf; [lia|]. cbn [terminate].
  destruct (next_term_safe s ex st) as [S1 S2]. apply safe_bind; [exact S1|].
  intros r st1 E. destruct r as [[i e]|]; [|apply safe_ret].
  assert (List.length (picks st1) < List.length (picks st)) by (eapply S2; [exact E|discriminate]).
  destruct (add_node G s (se_v e) None false false false) as [st1' nid]. apply IH. lia.
Qed.

Lemma target_of_safe G s nid st : safe_at (target_of G s nid) st.
Proof.
  unfold target_of. destruct (lookup_draw _ _); [apply safe_ret|]. apply safe_bind; [apply draw_safe|]. intros v st1 _. apply safe_ret.
Qed.

Lemma add_conn_safe G s i st : safe_at (add_conn G s i) st.
Proof.
  unfold add_conn. destruct (nth_error (a_nodes s) i) as [g|]; [|apply safe_fail].
  apply safe_bind; [apply pickn_safe|]. intros k st1 _. destruct (nth_error (g_S g) k) as [e|]; [|apply safe_fail].
  destruct (add_node G _ (se_v e) None false false false). apply safe_ret.
Qed.

Lemma stoch_loop_safe G : forall fuel s st, List.length (picks st) < fuel -> safe_at (stoch_loop fuel G s) st.
Proof.
  induction fuel as [|f IH]; intros s st Hf; [lia|]. cbn [stoch_loop].
  destruct (next_stoch_safe s st) as [S1 S2]. apply safe_bind; [exact S1|].
  intros r st1 E. destruct r as [ex|]; [|apply safe_ret].
  assert (L1 : List.length (picks st1) < List.length (picks st)) by (eapply S2; [exact E|discriminate]).
  apply safe_bind; [apply safe_with_fuel, terminate_safe; lia|]. intros capped st2 E2.
  assert (L2 : List.length (picks st2) <= List.length (picks st1)).
  { pose proof (terminate_safe G (S (List.length (picks st1))) s ex st1 ltac:(lia)) as [_ K]. apply (K capped st2). exact E2. }
  apply safe_bind; [apply target_of_safe|]. intros [T capped'] st3 E3.
  assert (L3 : List.length (picks st3) <= List.length (picks st2)) by (destruct (target_of_safe G capped ex st2) as [_ K]; eapply K; eauto).
  destruct (negb (Qle_bool T (head_mw capped'))); [|apply safe_ret].
  apply safe_bind; [apply add_conn_safe|]. intros r' st4 E4.
  assert (L4 : List.length (picks st4) <= List.length (picks st3)) by (destruct (add_conn_safe G {| a_nodes := a_nodes s; a_edges := a_edges s; a_mw := a_mw s; a_draws := a_draws capped' |} ex st3) as [_ K]; eapply K; eauto).
  apply IH. lia.
Qed.

Lemma fill_stoch_safe G s last st : safe_at (fill_stoch G s last) st.
Proof.
  unfold fill_stoch. apply safe_bind; [apply safe_with_fuel, stoch_loop_safe; lia|]. intros s' st1 _. apply safe_ret.
Qed.

Lemma trans_loop_safe G : forall fuel s nid st, List.length (picks st) < fuel -> safe_at (trans_loop fuel G s nid) st.
Proof.
  induction fuel as [|f IH]; intros s nid st Hf; [lia|]. cbn [trans_loop].
  apply safe_bind; [apply fill_stoch_safe|]. intros s1 st1 E1.
  assert (L1 : List.length (picks st1) <= List.length (picks st)) by (destruct (fill_stoch_safe G s nid st) as [_ K]; eapply K; eauto).
  apply safe_bind; [apply pickn_safe|]. intros i st2 E2. pose proof (pickn_strict _ _ _ _ E2) as L2.
  destruct (nth_error (a_nodes s1) i) as [g|]; [|apply safe_fail].
  destruct (g_T g) as [|t ts] eqn:ET; [apply safe_ret|].
  apply safe_bind; [apply pickn_safe|]. intros k st3 E3. pose proof (pickn_strict _ _ _ _ E3) as L3.
  destruct (nth_error (t :: ts) k) as [e|]; [|apply safe_fail].
  destruct (add_node G _ (se_v e) None false false false) as [s2 nid']. apply IH. lia.
Qed.

(* for every graph, start node, pick stream and draws: the generation never runs out of fuel *)
Theorem agen_never_out_of_fuel G start pk tg : run_agen G start pk tg <> OutOfFuel.
Proof.
  unfold run_agen, agen. destruct (add_node G _ start None true true true) as [st0 nid].
  apply safe_with_fuel, trans_loop_safe. lia.
Qed.

(* ------------------------------------------------------------------------------------------ *)
(* 2. the structure of the generated graph *)
Definition core (g : gnode) : nat * nat := (g_sn g, g_inst g).

Definition lists_ok (G : sgraph) (g : gnode) : Prop :=
  incl (g_T g) (sn_T (snode_at G (g_sn g))) /\ incl (g_E g) (sn_E (snode_at G (g_sn g))) /\ incl (g_S g) (sn_S (snode_at G (g_sn g))).

(* a non-static edge of the stochastic atom graph from u to v with bond order bt *)
Definition nonstatic (G : sgraph) (u v : nat) (bt : Z) : Prop :=
  exists e, (In e (sn_T (snode_at G u)) \/ In e (sn_E (snode_at G u)) \/ In e (sn_S (snode_at G u))) /\ se_v e = v /\ se_bt e = bt.

Definition edge_ok (G : sgraph) (C : list (nat * nat)) (e : gedge) : Prop :=
  exists ca cb, nth_error C (ge_a e) = Some ca /\ nth_error C (ge_b e) = Some cb /\
    if ge_link e then ge_a e < ge_b e /\ snd cb = ge_b e /\ snd ca < ge_b e /\ nonstatic G (fst ca) (fst cb) (ge_bt e)
    else snd ca = snd cb /\ In (fst ca, fst cb, ge_bt e) (sg_static G).

Fixpoint roots_from (k : nat) (l : list nat) : list nat :=
  match l with [] => [] | i :: r => (if Nat.eqb i k then [k] else []) ++ roots_from (S k) r end.
Definition links (E : list gedge) : list gedge := filter ge_link E.

Record CInv (G : sgraph) (C : list (nat * nat)) (E : list gedge) : Prop := {
  ci_inst : forall n c, nth_error C n = Some c -> snd c <= n /\ exists r, nth_error C (snd c) = Some r /\ snd r = snd c;
  ci_edges : Forall (edge_ok G C) E;
  ci_roots : roots_from 0 (map snd C) = 0 :: map ge_b (links E) }.

Definition AInv (G : sgraph) (st : astate) : Prop :=
  Forall (lists_ok G) (a_nodes st) /\ CInv G (map core (a_nodes st)) (a_edges st).

Lemma edge_ok_app G C c e : edge_ok G C e -> edge_ok G (C ++ [c]) e.
Proof.
  intros (ca & cb & Ha & Hb & H). exists ca, cb. split; [|split; [|exact H]].
  - rewrite nth_error_app1; [exact Ha|]. apply nth_error_Some. congruence.
  - rewrite nth_error_app1; [exact Hb|]. apply nth_error_Some. congruence.
Qed.

Lemma roots_from_app k l x : roots_from k (l ++ [x]) = roots_from k l ++ (if Nat.eqb x (k + List.length l) then [k + List.length l] else []).
Proof.
  revert k; induction l as [|i l IH]; intros k; cbn [app roots_from List.length].
  - rewrite Nat.add_0_r, app_nil_r. reflexivity.
  - rewrite IH, <- app_assoc. replace (S k + List.length l) with (k + S (List.length l)) by lia. reflexivity.
Qed.

Lemma links_app E1 E2 : links (E1 ++ E2) = links E1 ++ links E2.
Proof. apply filter_app. Qed.

(* a new residue: root atom, hanging by one link from atom i *)
Lemma cinv_new_root G C E i ca sn bt :
  CInv G C E -> nth_error C i = Some ca -> nonstatic G (fst ca) sn bt ->
  CInv G (C ++ [(sn, List.length C)]) (E ++ [{| ge_a := i; ge_b := List.length C; ge_bt := bt; ge_link := true |}]).
Proof.
  intros [H1 H2 H3] Hi Hn. assert (Li : i < List.length C) by (apply nth_error_Some; congruence). split.
  - intros n c Hc. destruct (Nat.lt_ge_cases n (List.length C)) as [L|L].
    + rewrite nth_error_app1 in Hc by exact L. destruct (H1 n c Hc) as (A & r & B1 & B2). split; [exact A|]. exists r. split; [|exact B2].
      rewrite nth_error_app1; [exact B1|]. apply nth_error_Some. congruence.
    + assert (n = List.length C).
      { assert (n < List.length (C ++ [(sn, List.length C)])) by (apply nth_error_Some; congruence). rewrite app_length in H. cbn [List.length] in H. lia. }
      subst n. rewrite nth_error_app2, Nat.sub_diag in Hc by lia. injection Hc as <-. cbn [snd]. split; [lia|].
      exists (sn, List.length C). split; [|reflexivity]. rewrite nth_error_app2, Nat.sub_diag by lia. reflexivity.
  - apply Forall_app. split.
    + eapply Forall_impl; [|exact H2]. intros e. apply edge_ok_app.
    + constructor; [|constructor]. exists ca, (sn, List.length C). cbn [ge_a ge_b ge_link ge_bt fst snd].
      split; [rewrite nth_error_app1 by exact Li; exact Hi|]. split; [rewrite nth_error_app2, Nat.sub_diag by lia; reflexivity|].
      split; [exact Li|]. split; [reflexivity|]. split; [destruct (H1 i ca Hi) as [A _]; lia|exact Hn].
  - rewrite map_app. cbn [map snd]. rewrite roots_from_app, map_length, H3, links_app. cbn [links filter ge_link Nat.add].
    rewrite Nat.eqb_refl, map_app. reflexivity.
Qed.

(* one more atom of an existing residue *)
Lemma cinv_member G C E cur cc sn :
  CInv G C E -> nth_error C cur = Some cc -> CInv G (C ++ [(sn, snd cc)]) E.
Proof.
  intros [H1 H2 H3] Hc. assert (Lc : cur < List.length C) by (apply nth_error_Some; congruence).
  destruct (H1 cur cc Hc) as (A & r & B1 & B2). split.
  - intros n c Hn. destruct (Nat.lt_ge_cases n (List.length C)) as [L|L].
    + rewrite nth_error_app1 in Hn by exact L. destruct (H1 n c Hn) as (A' & r' & B1' & B2'). split; [exact A'|]. exists r'. split; [|exact B2'].
      rewrite nth_error_app1; [exact B1'|]. apply nth_error_Some. congruence.
    + assert (n = List.length C).
      { assert (n < List.length (C ++ [(sn, snd cc)])) by (apply nth_error_Some; congruence). rewrite app_length in H. cbn [List.length] in H. lia. }
      subst n. rewrite nth_error_app2, Nat.sub_diag in Hn by lia. injection Hn as <-. cbn [snd]. split; [lia|].
      exists r. split; [|exact B2]. rewrite nth_error_app1; [exact B1|]. apply nth_error_Some. congruence.
  - eapply Forall_impl; [|exact H2]. intros e. apply edge_ok_app.
  - rewrite map_app. cbn [map snd]. rewrite roots_from_app, map_length, H3. cbn [Nat.add].
    destruct (Nat.eqb_spec (snd cc) (List.length C)); [lia|]. apply app_nil_r.
Qed.

(* bonds inside residues *)
Lemma cinv_static_edges G C E new : CInv G C E -> Forall (edge_ok G C) new -> Forall (fun e => ge_link e = false) new -> CInv G C (E ++ new).
Proof.
  intros [H1 H2 H3] Hn Hl. split; [exact H1|apply Forall_app; split; assumption|].
  rewrite links_app. replace (links new) with (@nil gedge); [rewrite app_nil_r; exact H3|].
  clear Hn. induction new as [|e r IH]; [reflexivity|]. inversion Hl as [|x y Hx Hy]; subst. unfold links in *. cbn [filter]. rewrite Hx. apply IH. exact Hy.
Qed.

(* ---- add_node ---- *)
Lemma add_node_nodes G st sn inst tr te sc :
  a_nodes (fst (add_node G st sn inst tr te sc)) =
    a_nodes st ++ [{| g_sn := sn; g_inst := match inst with Some r => r | None => List.length (a_nodes st) end;
                      g_T := if tr then sn_T (snode_at G sn) else []; g_E := if te then sn_E (snode_at G sn) else [];
                      g_S := if sc then sn_S (snode_at G sn) else [] |}]
  /\ a_edges (fst (add_node G st sn inst tr te sc)) = a_edges st /\ snd (add_node G st sn inst tr te sc) = List.length (a_nodes st).
Proof. unfold add_node. cbn [fst snd a_nodes a_edges]. auto. Qed.

Lemma lists_ok_new G sn inst (tr te sc : bool) :
  lists_ok G {| g_sn := sn; g_inst := inst; g_T := if tr then sn_T (snode_at G sn) else []; g_E := if te then sn_E (snode_at G sn) else [];
                g_S := if sc then sn_S (snode_at G sn) else [] |}.
Proof. unfold lists_ok. cbn [g_sn g_T g_E g_S]. destruct tr, te, sc; repeat split; try apply incl_refl; apply incl_nil_l. Qed.

Lemma assoc_In k m b : assoc k m = Some b -> In (k, b) m.
Proof.
  induction m as [|[a c] m IH]; cbn [assoc]; [discriminate|]. destruct (Nat.eqb_spec a k); intros H.
  - injection H as <-. subst. left. reflexivity.
  - right. apply IH. exact H.
Qed.

(* ---- fill_static ---- *)
Definition smap_ok (C : list (nat * nat)) (inst : nat) (m : list (nat * nat)) : Prop :=
  forall u a, In (u, a) m -> nth_error C a = Some (u, inst).

Lemma fs_step_eq G sn inst s m n :
  fs_step G sn inst (s, m) n = if Nat.eqb n sn then (s, m)
                               else (fst (add_node G s n (Some inst) true true true), (n, snd (add_node G s n (Some inst) true true true)) :: m).
Proof. unfold fs_step. destruct (Nat.eqb n sn); [reflexivity|]. destruct (add_node G s n (Some inst) true true true). reflexivity. Qed.

Lemma fs_fold_inv G sn inst cur cc : forall order s m,
  AInv G s -> nth_error (map core (a_nodes s)) cur = Some cc -> snd cc = inst -> smap_ok (map core (a_nodes s)) inst m ->
  AInv G (fst (fold_left (fs_step G sn inst) order (s, m))) /\
  smap_ok (map core (a_nodes (fst (fold_left (fs_step G sn inst) order (s, m))))) inst (snd (fold_left (fs_step G sn inst) order (s, m))) /\
  a_edges (fst (fold_left (fs_step G sn inst) order (s, m))) = a_edges s.
Proof.
  induction order as [|n order IH]; intros s m Hs Hc Hi Hm; cbn [fold_left]; [cbn [fst snd]; auto|].
  rewrite fs_step_eq. destruct (Nat.eqb n sn); [apply IH; assumption|].
  pose proof (add_node_nodes G s n (Some inst) true true true) as (N1 & E1 & I1).
  destruct (add_node G s n (Some inst) true true true) as [s' id]. cbn [fst snd] in *.
  assert (Hcore : map core (a_nodes s') = map core (a_nodes s) ++ [(n, snd cc)]).
  { rewrite N1, map_app. cbn [map core g_sn g_inst]. rewrite Hi. reflexivity. }
  assert (Hs' : AInv G s').
  { destruct Hs as [L Ci]. split.
    - rewrite N1. apply Forall_app. split; [exact L|]. constructor; [apply (lists_ok_new G n inst true true true)|constructor].
    - rewrite Hcore, E1. eapply cinv_member; eauto. }
  assert (Hlen : cur < List.length (map core (a_nodes s))) by (apply nth_error_Some; congruence).
  destruct (IH s' ((n, id) :: m) Hs') as (A & B & C).
  - rewrite Hcore, nth_error_app1 by exact Hlen. exact Hc.
  - exact Hi.
  - intros u a [H|H].
    + injection H as <- <-. rewrite Hcore, I1, <- (map_length core), nth_error_app2, Nat.sub_diag by lia. cbn [nth_error]. rewrite Hi. reflexivity.
    + rewrite Hcore, nth_error_app1; [apply Hm; exact H|]. apply nth_error_Some. rewrite (Hm u a H). discriminate.
  - split; [exact A|]. split; [exact B|]. rewrite C. exact E1.
Qed.

Lemma fs_edges_ok_gen G C inst m : smap_ok C inst m -> forall l, incl l (sg_static G) ->
  Forall (edge_ok G C) (flat_map (fs_edge m) l) /\ Forall (fun e => ge_link e = false) (flat_map (fs_edge m) l).
Proof.
  intros Hm. induction l as [|[[u v] bt] l IH]; intros Hl; [split; constructor|].
  destruct IH as [I1 I2]; [intros x Hx; apply Hl; right; exact Hx|]. cbn [flat_map]. unfold fs_edge at 1 3.
  destruct (assoc u m) as [a|] eqn:Ea; [destruct (assoc v m) as [b|] eqn:Eb|]; cbn [app]; try (split; assumption).
  split; constructor; try assumption; [|reflexivity].
  exists (u, inst), (v, inst). cbn [ge_a ge_b ge_link ge_bt fst snd].
  split; [apply Hm, assoc_In; exact Ea|]. split; [apply Hm, assoc_In; exact Eb|]. split; [reflexivity|]. apply Hl. left. reflexivity.
Qed.

Lemma fill_static_inv G s cur g : AInv G s -> nth_error (a_nodes s) cur = Some g -> AInv G (fill_static G s cur).
Proof.
  intros Hs Hg. unfold fill_static. rewrite Hg.
  assert (Hc : nth_error (map core (a_nodes s)) cur = Some (core g)) by (rewrite nth_error_map, Hg; reflexivity).
  pose proof (fs_fold_inv G (g_sn g) (g_inst g) cur (core g) (dfs_order G (g_sn g)) s [(g_sn g, cur)] Hs Hc eq_refl) as H.
  destruct H as (A & B & C).
  { intros u a [H|[]]. injection H as <- <-. exact Hc. }
  destruct (fold_left _ _ _) as [st1 smap]. cbn [fst snd] in *. destruct A as [L Ci]. split; cbn [a_nodes a_edges]; [exact L|].
  destruct (fs_edges_ok_gen G _ _ _ B (sg_static G) (incl_refl _)) as [F1 F2]. apply cinv_static_edges; assumption.
Qed.

(* ---- replacing a node by one with the same identity and smaller lists ---- *)
Lemma set_core : forall (N : list gnode) i g g', nth_error N i = Some g -> core g' = core g ->
  map core (firstn i N ++ [g'] ++ skipn (S i) N) = map core N.
Proof.
  induction N as [|x N IH]; intros [|i] g g' H Hc; cbn [nth_error] in H; try discriminate.
  - injection H as ->. cbn [firstn skipn app map]. rewrite Hc. reflexivity.
  - cbn [firstn skipn app map]. f_equal. apply (IH i g g' H Hc).
Qed.
Lemma set_forall (P : gnode -> Prop) : forall (N : list gnode) i g', Forall P N -> P g' -> Forall P (firstn i N ++ [g'] ++ skipn (S i) N).
Proof.
  induction N as [|x N IH]; intros [|i] g' H Hg; cbn [firstn skipn app]; try (constructor; [exact Hg|]); try constructor.
  - inversion H; assumption.
  - inversion H; assumption.
  - apply IH; [inversion H; assumption|exact Hg].
Qed.

Lemma AInv_ext G st st' : a_nodes st' = a_nodes st -> a_edges st' = a_edges st -> AInv G st -> AInv G st'.
Proof. unfold AInv. intros -> ->. auto. Qed.

Lemma AInv_core G st st' : map core (a_nodes st') = map core (a_nodes st) -> a_edges st' = a_edges st -> Forall (lists_ok G) (a_nodes st') ->
  AInv G st -> AInv G st'.
Proof. unfold AInv. intros -> -> H [_ C]. auto. Qed.

Lemma lists_ok_clear G g : lists_ok G (clear_node g).
Proof. unfold lists_ok, clear_node. cbn [g_T g_E g_S]. repeat split; apply incl_nil_l. Qed.

Lemma set_node_clear_inv G st i g : AInv G st -> nth_error (a_nodes st) i = Some g -> AInv G (set_node st i (clear_node g)).
Proof.
  intros H Hi. eapply AInv_core; [| |  |exact H]; unfold set_node; cbn [a_nodes a_edges].
  - eapply set_core; [exact Hi|reflexivity].
  - reflexivity.
  - apply set_forall; [apply H|apply lists_ok_clear].
Qed.

Lemma link_step_inv G s i g v bt st2 :
  AInv G s -> nth_error (a_nodes s) i = Some g -> nonstatic G (g_sn g) v bt ->
  a_nodes st2 = a_nodes (fst (add_node G s v None false false false)) ->
  a_edges st2 = a_edges s ++ [{| ge_a := i; ge_b := List.length (a_nodes s); ge_bt := bt; ge_link := true |}] ->
  AInv G st2 /\ exists g', nth_error (a_nodes st2) (List.length (a_nodes s)) = Some g'.
Proof.
  intros [L Ci] Hi Hn HN HE. destruct (add_node_nodes G s v None false false false) as (N1 & _ & _). rewrite N1 in HN. split.
  - split.
    + rewrite HN. apply Forall_app. split; [exact L|]. constructor; [apply (lists_ok_new G v _ false false false)|constructor].
    + rewrite HN, HE, map_app. cbn [map core g_sn g_inst]. rewrite <- (map_length core).
      eapply (cinv_new_root G _ _ i (core g)); [exact Ci|rewrite nth_error_map, Hi; reflexivity|exact Hn].
  - rewrite HN, nth_error_app2, Nat.sub_diag by lia. eexists. reflexivity.
Qed.

(* ---- the random decisions return edges still listed at the atom ---- *)
Lemma next_term_post s ex :
  post (next_term s ex) (fun r => match r with Some (i, e) => exists g, nth_error (a_nodes s) i = Some g /\ In e (g_E g) | None => True end).
Proof.
  unfold next_term. destruct (positions_where _ 0 (a_nodes s)) as [|c cs]; [apply post_ret; exact I|].
  destruct (filter _ (c :: cs)) as [|i rest]; [apply post_ret; exact I|].
  destruct (nth_error (a_nodes s) i) as [g|] eqn:Eg; [|apply post_ret; exact I].
  eapply post_bind; [apply post_true|]. intros k _. apply post_ret.
  destruct (nth_error (g_E g) k) as [e|] eqn:Ee; cbn [option_map]; [|exact I]. exists g. split; [exact Eg|]. eapply nth_error_In; eauto.
Qed.

Lemma terminate_inv G : forall fuel s ex, AInv G s -> post (terminate fuel G s ex) (AInv G).
Proof.
  induction fuel as [|f IH]; intros s ex Hs; [apply post_nofuel|]. cbn [terminate].
  eapply post_bind; [apply next_term_post|]. intros [[i e]|] Hr; [|apply post_ret; exact Hs].
  destruct Hr as (g & Hg & He).
  pose proof (add_node_nodes G s (se_v e) None false false false) as (N1 & E1 & I1).
  destruct (add_node G s (se_v e) None false false false) as [st1 nid] eqn:Ea. cbn [fst snd] in N1, E1, I1. subst nid.
  set (st2 := {| a_nodes := a_nodes st1; a_edges := a_edges st1 ++ [{| ge_a := i; ge_b := List.length (a_nodes s); ge_bt := se_bt e; ge_link := true |}];
                 a_mw := a_mw st1; a_draws := a_draws st1 |}).
  assert (Hn : nonstatic G (g_sn g) (se_v e) (se_bt e)).
  { destruct Hs as [L _]. rewrite Forall_forall in L. destruct (L g (nth_error_In _ _ Hg)) as (_ & LE & _). exists e. auto. }
  destruct (link_step_inv G s i g (se_v e) (se_bt e) st2 Hs Hg Hn) as [H2 [g' Hg']].
  { rewrite Ea. reflexivity. } { cbn [st2 a_edges]. rewrite E1. reflexivity. }
  pose proof (fill_static_inv G st2 _ g' H2 Hg') as H3.
  apply IH. destruct (nth_error (a_nodes (fill_static G st2 (List.length (a_nodes s)))) i) as [gi|] eqn:Ei; [|exact H3].
  apply set_node_clear_inv; assumption.
Qed.

Lemma add_conn_inv G s i : AInv G s ->
  post (add_conn G s i) (fun r => AInv G (fst r) /\ exists g', nth_error (a_nodes (fst r)) (snd r) = Some g').
Proof.
  intros Hs. unfold add_conn. destruct (nth_error (a_nodes s) i) as [g|] eqn:Eg; [|apply post_fail].
  eapply post_bind; [apply post_true|]. intros k _. destruct (nth_error (g_S g) k) as [e|] eqn:Ee; [|apply post_fail].
  assert (Hn : nonstatic G (g_sn g) (se_v e) (se_bt e)).
  { destruct Hs as [L _]. rewrite Forall_forall in L. destruct (L g (nth_error_In _ _ Eg)) as (_ & _ & LS). exists e. split; [right; right; apply LS; eapply nth_error_In; eauto|auto]. }
  pose proof (set_node_clear_inv G s i g Hs Eg) as H1.
  set (s1 := set_node s i (clear_node g)) in *.
  assert (Hlen : List.length (a_nodes s1) = List.length (a_nodes s)).
  { rewrite <- (map_length core (a_nodes s1)), <- (map_length core (a_nodes s)). f_equal. unfold s1, set_node. cbn [a_nodes]. eapply set_core; [exact Eg|reflexivity]. }
  assert (Eg1 : exists g1, nth_error (a_nodes s1) i = Some g1 /\ g_sn g1 = g_sn g).
  { assert (Hm : nth_error (map core (a_nodes s1)) i = nth_error (map core (a_nodes s)) i).
    { f_equal. unfold s1, set_node. cbn [a_nodes]. eapply set_core; [exact Eg|reflexivity]. }
    rewrite !nth_error_map, Eg in Hm. destruct (nth_error (a_nodes s1) i) as [g1|]; [|discriminate]. cbn [option_map] in Hm.
    injection Hm as Hsn _. eauto. }
  destruct Eg1 as (g1 & Eg1 & Hsn).
  pose proof (add_node_nodes G s1 (se_v e) None false false false) as (N1 & E1 & I1).
  destruct (add_node G s1 (se_v e) None false false false) as [st2 nid] eqn:Ea. cbn [fst snd] in N1, E1, I1. subst nid.
  apply post_ret. cbn [fst snd].
  eapply (link_step_inv G s1 i g1 (se_v e) (se_bt e)); [exact H1|exact Eg1|rewrite Hsn; exact Hn|cbn [a_nodes]; rewrite Ea; reflexivity|cbn [a_edges]; rewrite E1; reflexivity].
Qed.

Lemma next_stoch_post s : post (next_stoch s) (fun r => match r with Some i => i < List.length (a_nodes s) \/ True | None => True end).
Proof. apply post_weaken with (Q1 := fun _ => True); [apply post_true|]. intros [i|] _; auto. Qed.

Lemma clear_ES_inv G st : AInv G st ->
  AInv G {| a_nodes := map (fun g => {| g_sn := g_sn g; g_inst := g_inst g; g_T := g_T g; g_E := []; g_S := [] |}) (a_nodes st);
            a_edges := a_edges st; a_mw := a_mw st; a_draws := a_draws st |}.
Proof.
  intros H. eapply AInv_core; [| | |exact H]; cbn [a_nodes a_edges]; [rewrite map_map; apply map_ext; reflexivity|reflexivity|].
  destruct H as [L _]. rewrite Forall_forall in *. intros x Hx. apply in_map_iff in Hx as (g & <- & Hg). destruct (L g Hg) as (A & _ & _).
  unfold lists_ok. cbn [g_sn g_T g_E g_S]. repeat split; [exact A|apply incl_nil_l|apply incl_nil_l].
Qed.
Lemma clear_T_inv G st : AInv G st ->
  AInv G {| a_nodes := map (fun g => {| g_sn := g_sn g; g_inst := g_inst g; g_T := []; g_E := g_E g; g_S := g_S g |}) (a_nodes st);
            a_edges := a_edges st; a_mw := a_mw st; a_draws := a_draws st |}.
Proof.
  intros H. eapply AInv_core; [| | |exact H]; cbn [a_nodes a_edges]; [rewrite map_map; apply map_ext; reflexivity|reflexivity|].
  destruct H as [L _]. rewrite Forall_forall in *. intros x Hx. apply in_map_iff in Hx as (g & <- & Hg). destruct (L g Hg) as (_ & B & C).
  unfold lists_ok. cbn [g_sn g_T g_E g_S]. repeat split; [apply incl_nil_l|exact B|exact C].
Qed.

Lemma target_of_nodes G s nid : post (target_of G s nid) (fun r => a_nodes (snd r) = a_nodes s /\ a_edges (snd r) = a_edges s).
Proof.
  unfold target_of. destruct (lookup_draw _ _); [apply post_ret; auto|]. eapply post_bind; [apply post_true|]. intros v _. apply post_ret. auto.
Qed.

Lemma stoch_loop_inv G : forall fuel s, AInv G s -> post (stoch_loop fuel G s) (AInv G).
Proof.
  induction fuel as [|f IH]; intros s Hs; [apply post_nofuel|]. cbn [stoch_loop].
  eapply post_bind; [apply post_true|]. intros [ex|] _; [|apply post_ret; exact Hs].
  eapply post_bind; [apply post_with_fuel; intros f'; apply terminate_inv; exact Hs|]. intros capped Hc.
  eapply post_bind; [apply target_of_nodes|]. intros [T capped'] [HN HE]. cbn [snd] in HN, HE.
  destruct (negb (Qle_bool T (head_mw capped'))).
  - eapply post_bind; [apply add_conn_inv; eapply AInv_ext; [| |exact Hs]; reflexivity|].
    intros r [Hr [g' Hg']]. apply IH. eapply fill_static_inv; eauto.
  - apply post_ret. apply clear_ES_inv. eapply AInv_ext; [exact HN|exact HE|exact Hc].
Qed.

Lemma fill_stoch_inv G s last g : AInv G s -> nth_error (a_nodes s) last = Some g -> post (fill_stoch G s last) (AInv G).
Proof.
  intros Hs Hg. unfold fill_stoch. eapply post_bind; [apply post_with_fuel; intros f; apply stoch_loop_inv; eapply fill_static_inv; eauto|].
  intros s' H'. apply post_ret. eapply AInv_ext; [| |exact H']; reflexivity.
Qed.

Lemma trans_loop_inv G : forall fuel s nid g, AInv G s -> nth_error (a_nodes s) nid = Some g -> post (trans_loop fuel G s nid) (AInv G).
Proof.
  induction fuel as [|f IH]; intros s nid g Hs Hg; [apply post_nofuel|]. cbn [trans_loop].
  eapply post_bind; [eapply fill_stoch_inv; eauto|]. intros s1 H1.
  eapply post_bind; [apply post_true|]. intros i _. destruct (nth_error (a_nodes s1) i) as [gi|] eqn:Ei; [|apply post_fail].
  destruct (g_T gi) as [|t ts] eqn:ET; [apply post_ret; exact H1|]. rewrite <- ET.
  eapply post_bind; [apply post_true|]. intros k _. destruct (nth_error (g_T gi) k) as [e|] eqn:Ee; [|apply post_fail].
  assert (Hn : nonstatic G (g_sn gi) (se_v e) (se_bt e)).
  { destruct H1 as [L _]. rewrite Forall_forall in L. destruct (L gi (nth_error_In _ _ Ei)) as (LT & _ & _). exists e. split; [left; apply LT; eapply nth_error_In; eauto|auto]. }
  pose proof (clear_T_inv G s1 H1) as Hc.
  set (cleared := {| a_nodes := map (fun g0 => {| g_sn := g_sn g0; g_inst := g_inst g0; g_T := []; g_E := g_E g0; g_S := g_S g0 |}) (a_nodes s1);
                     a_edges := a_edges s1; a_mw := a_mw s1; a_draws := a_draws s1 |}) in *.
  assert (Eic : exists gc, nth_error (a_nodes cleared) i = Some gc /\ g_sn gc = g_sn gi).
  { cbn [cleared a_nodes]. rewrite nth_error_map, Ei. cbn [option_map]. eexists. split; reflexivity. }
  destruct Eic as (gc & Eic & Hsn).
  assert (Hlen : List.length (a_nodes cleared) = List.length (a_nodes s1)) by (cbn [cleared a_nodes]; apply map_length).
  pose proof (add_node_nodes G cleared (se_v e) None false false false) as (N1 & E1 & I1).
  destruct (add_node G cleared (se_v e) None false false false) as [st2 nid'] eqn:Ea. cbn [fst snd] in N1, E1, I1. subst nid'.
  edestruct (link_step_inv G cleared i gc (se_v e) (se_bt e)) as [H2 [g2 Hg2]]; [exact Hc|exact Eic|rewrite Hsn; exact Hn| | |].
  3:{ eapply IH; [exact H2|exact Hg2]. }
  - cbn [a_nodes]. rewrite Ea. reflexivity.
  - cbn [a_edges]. rewrite E1. reflexivity.
Qed.

Lemma init_inv G start : AInv G (fst (add_node G {| a_nodes := []; a_edges := []; a_mw := [0%Q]; a_draws := [] |} start None true true true)).
Proof.
  unfold add_node, AInv. cbn [fst a_nodes a_edges app List.length map core g_sn g_inst]. split.
  - constructor; [apply (lists_ok_new G start 0 true true true)|constructor].
  - split.
    + intros n c H. destruct n as [|n]; cbn [nth_error] in H; [|destruct n; discriminate]. injection H as <-. unfold core. cbn [snd g_inst g_sn]. split; [lia|].
      eexists. split; reflexivity.
    + constructor.
    + reflexivity.
Qed.

(* for every graph, start node, pick stream and draws *)
Theorem agen_inv G start pk tg st rs : run_agen G start pk tg = Done st rs -> AInv G st.
Proof.
  unfold run_agen, agen. pose proof (init_inv G start) as H0.
  destruct (add_node G _ start None true true true) as [st0 nid] eqn:Ea. cbn [fst] in H0.
  assert (Hn : exists g, nth_error (a_nodes st0) nid = Some g).
  { unfold add_node in Ea. injection Ea as <- <-. cbn [a_nodes List.length app nth_error]. eexists. reflexivity. }
  destruct Hn as [g Hg]. intros E. eapply (post_with_fuel (fun f => trans_loop f G st0 nid) (AInv G)); [|exact E].
  intros f. eapply trans_loop_inv; eauto.
Qed.

(* ------------------------------------------------------------------------------------------ *)
(* 3. consequences *)
Lemma roots_from_spec : forall l k x, In x (roots_from k l) <-> k <= x /\ nth_error l (x - k) = Some x.
Proof.
  induction l as [|i l IH]; intros k x; cbn [roots_from].
  - split; [intros []|]. intros [_ H]. destruct (x - k); discriminate.
  - rewrite in_app_iff, IH. split.
    + intros [H|[H1 H2]].
      * destruct (Nat.eqb_spec i k); [|destruct H]. destruct H as [<-|[]]. subst. rewrite Nat.sub_diag. split; [lia|reflexivity].
      * split; [lia|]. replace (x - k) with (S (x - S k)) by lia. exact H2.
    + intros [H1 H2]. destruct (Nat.eq_dec x k) as [->|Hne].
      * rewrite Nat.sub_diag in H2. injection H2 as ->. left. rewrite Nat.eqb_refl. left. reflexivity.
      * right. split; [lia|]. replace (x - k) with (S (x - S k)) in H2 by lia. exact H2.
Qed.

Lemma roots_from_NoDup : forall l k, NoDup (roots_from k l).
Proof.
  induction l as [|i l IH]; intros k; cbn [roots_from]; [constructor|].
  destruct (Nat.eqb i k); cbn [app]; [|apply IH]. constructor; [|apply IH]. intros H. apply roots_from_spec in H. lia.
Qed.

(* the residue of atom index r reaches the first residue through links *)
Inductive up (C : list (nat * nat)) (E : list gedge) : nat -> Prop :=
| up_first : up C E 0
| up_link e ca : In e E -> ge_link e = true -> nth_error C (ge_a e) = Some ca -> up C E (snd ca) -> up C E (ge_b e).

Lemma cinv_root_up G C E : CInv G C E -> forall r cr, nth_error C r = Some cr -> snd cr = r -> up C E r.
Proof.
  intros [H1 H2 H3]. induction r as [r IH] using lt_wf_ind. intros cr Hr Hs. destruct r as [|r']; [constructor|].
  assert (Hin : In (S r') (roots_from 0 (map snd C))).
  { apply roots_from_spec. split; [lia|]. rewrite Nat.sub_0_r, nth_error_map, Hr. cbn [option_map]. rewrite Hs. reflexivity. }
  rewrite H3 in Hin. destruct Hin as [Hin|Hin]; [discriminate|]. apply in_map_iff in Hin as (e & Hb & He).
  apply filter_In in He as [HeE Hl]. rewrite Forall_forall in H2. destruct (H2 e HeE) as (ca & cb & Ha & Hcb & Hk). rewrite Hl in Hk.
  destruct Hk as (_ & _ & Hlt & _). rewrite <- Hb. eapply up_link; [exact HeE|exact Hl|exact Ha|].
  destruct (H1 _ _ Ha) as (_ & ra & Hra & Hsa). eapply IH; [lia|exact Hra|exact Hsa].
Qed.

Theorem cinv_tree G C E : CInv G C E ->
  (forall n c, nth_error C n = Some c -> up C E (snd c)) /\
  NoDup (map ge_b (links E)) /\
  List.length (roots_from 0 (map snd C)) = S (List.length (links E)).
Proof.
  intros H. split; [|split].
  - intros n c Hc. destruct (ci_inst _ _ _ H n c Hc) as (_ & r & Hr & Hs). eapply cinv_root_up; [exact H|exact Hr|exact Hs].
  - pose proof (roots_from_NoDup (map snd C) 0) as N. rewrite (ci_roots _ _ _ H) in N. inversion N; assumption.
  - rewrite (ci_roots _ _ _ H). cbn [List.length]. rewrite map_length. reflexivity.
Qed.
