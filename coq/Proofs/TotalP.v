(* C15, termination: the descriptor parser has no loop; the token parser's two loops and the
   system-level splitting loop never exhaust the fuel they are given -- for EVERY input string. *)
From Coq Require Import List ZArith QArith Ascii String Bool Lia.
From GBS Require Import Model.PyStr Model.Num Model.Bond Model.Token Model.SysSplit.
Import ListNotations.
Open Scope Z_scope.

Definition is_fuel {A} (r : result A) : bool := match r with Err EFuel _ => true | _ => false end.

(* ---- strings ---- *)
Lemma find_from_range p : forall s i r, find_from p s i = r -> r = -1 \/ i <= r.
Proof.
  induction s as [|c s IH]; intros i r H; cbn [find_from] in H.
  - destruct (is_prefix p []); lia.
  - destruct (is_prefix p (c :: s)); [lia|]. apply IH in H. lia.
Qed.

Lemma find_ge_m1 p s : -1 <= find p s.
Proof. unfold find. destruct (find_from_range p s 0 _ eq_refl); lia. Qed.

Lemma slice_from_le s a : (List.length (slice s (Some a) None) <= List.length s)%nat.
Proof. unfold slice. rewrite firstn_length, skipn_length. lia. Qed.

Lemma slice_from_lt s a : 1 <= a -> s <> [] -> (List.length (slice s (Some a) None) < List.length s)%nat.
Proof.
  intros Ha Hs. unfold slice. rewrite firstn_length, skipn_length.
  assert (1 <= len s) by (destruct s; [congruence|unfold len; cbn [List.length]; lia]).
  assert (1 <= norm_idx (len s) a) by (unfold norm_idx; destruct (a <? 0) eqn:E; lia).
  unfold len in *. lia.
Qed.

Lemma strip_by_length f s : (List.length (strip_by f s) <= List.length s)%nat.
Proof.
  assert (L : forall l, (List.length (lstrip_by f l) <= List.length l)%nat).
  { induction l as [|c l IH]; cbn [lstrip_by]; [lia|]. destruct (f c); cbn [List.length]; lia. }
  unfold strip_by, rstrip_by. rewrite rev_length. etransitivity; [apply L|]. rewrite rev_length. apply L.
Qed.

(* ---- descriptor parser: no fuel at all ---- *)
Lemma pushpop_not_fuel : forall s st, is_fuel (pushpop s st) = false.
Proof.
  induction s as [|c s IH]; intros st; cbn [pushpop]; [reflexivity|].
  destruct (Ascii.eqb c (ch "(")); [destruct st; [reflexivity|apply IH]|].
  destruct (Ascii.eqb c (ch ")")); [destruct st; [reflexivity|apply IH]|apply IH].
Qed.

Lemma parse_descr_not_fuel raw n pre atom : is_fuel (parse_descr raw n pre atom) = false.
Proof.
  unfold parse_descr.
  repeat (match goal with
          | |- context [if ?c then _ else _] => destruct c
          | |- context [match ?x with _ => _ end] => destruct x
          end; cbn [Bond.bind is_fuel]; try reflexivity).
Qed.

(* ---- token parser ---- *)
Section TokTotal.
  Variable valid_atom : str -> bool.

  Lemma scan_total : forall fuel,
    (forall cur sub els, (2 * List.length cur < fuel)%nat -> is_fuel (scan valid_atom fuel cur sub els) = false) /\
    (forall c rest sub els, (2 * List.length rest + 1 < fuel)%nat -> is_fuel (scan1 valid_atom fuel c rest sub els) = false).
  Proof.
    induction fuel as [|f [IH1 IH2]]; [split; intros; lia|]. split.
    - intros cur sub els H. cbn [scan]. destruct cur as [|c rest]; [reflexivity|]. cbn [List.length] in H.
      destruct rest as [|c2 rest2].
      + apply IH2. cbn [List.length]. lia.
      + destruct (is_double c c2); [apply IH1; cbn [List.length] in *; lia|apply IH2; cbn [List.length] in *; lia].
    - intros c rest sub els H. cbn [scan1].
      destruct (in_set single_letters c); [apply IH1; lia|].
      destruct (Ascii.eqb c (ch "[")) eqn:Ec; [|apply IH1; lia].
      destruct (find (lit "]") (c :: rest) <? 0) eqn:Ek; [reflexivity|]. apply Z.ltb_ge in Ek.
      assert (Hk : 1 <= find (lit "]") (c :: rest)).
      { unfold find in *. cbn [find_from] in *. apply Ascii.eqb_eq in Ec. subst c.
        change (is_prefix (lit "]") (ch "[" :: rest)) with false in *. cbn iota in *.
        destruct (find_from_range (lit "]") rest (0 + 1) _ eq_refl) as [H0|H0]; lia. }
      assert (Hl : (List.length (slice (c :: rest) (Some (find (lit "]") (c :: rest) + 1)%Z) None) <= List.length rest)%nat).
      { pose proof (slice_from_lt (c :: rest) (find (lit "]") (c :: rest) + 1) ltac:(lia) ltac:(discriminate)). cbn [List.length] in *. lia. }
      destruct (has_descr_char _); [apply IH1; lia|]. destruct (valid_atom _); [apply IH1; lia|reflexivity].
  Qed.

  Lemma mu_app_cons e l : mu (e :: l) = (mu_el e + mu l)%nat.
  Proof. reflexivity. Qed.

  Lemma bind_total off : forall fuel todo s, (mu todo < fuel)%nat -> is_fuel (bind fuel off todo s) = false.
  Proof.
    induction fuel as [|f IH]; intros todo s H; [lia|]. cbn [bind].
    destruct todo as [|[a|el|d] rest]; [reflexivity| | |]; rewrite mu_app_cons in H; cbn [mu_el] in H.
    - destruct (p_stack s); [reflexivity|]. apply IH. lia.
    - destruct (has_descr_char el).
      + destruct (find (lit "[") el <? 0); [reflexivity|]. destruct (find (lit "]") el <=? 0) eqn:Ek; [reflexivity|]. apply Z.leb_gt in Ek.
        destruct (pushpop _ (p_stack s)) as [st|e m] eqn:Ep; cbn [Bond.bind].
        2:{ pose proof (pushpop_not_fuel (slice el None (Some (find (lit "[") el))) (p_stack s)) as P. rewrite Ep in P. exact P. }
        destruct (contains (lit ".") _); [reflexivity|]. destruct st as [|top st0]; [reflexivity|].
        destruct (_ && _ && _ && _)%bool; [reflexivity|].
        match goal with |- context [parse_descr ?bt ?nn ?pre ?aa] => pose proof (parse_descr_not_fuel bt nn pre aa) as P; destruct (parse_descr bt nn pre aa) as [bd|e m] end; cbn [Bond.bind]; [|exact P].
        apply IH.
        assert (Hne : el <> []) by (intros ->; cbn in Ek; lia).
        pose proof (slice_from_lt el (find (lit "]") el + 1) ltac:(lia) Hne) as HB.
        destruct (slice el (Some (find (lit "]") el + 1)) None) as [|b0 B] eqn:EB; [lia|].
        rewrite mu_app_cons. cbn [mu_el]. cbn [List.length] in *. lia.
      + destruct (pushpop el (p_stack s)) as [st|e m] eqn:Ep; cbn [Bond.bind].
        * apply IH. lia.
        * pose proof (pushpop_not_fuel el (p_stack s)) as P. rewrite Ep in P. exact P.
    - apply IH. lia.
  Qed.

  (* the token parser terminates on every string, whatever the atom oracle says *)
  Theorem parse_token_total text off : is_fuel (parse_token valid_atom text off) = false.
  Proof.
    unfold parse_token. destruct (off <? 0); [reflexivity|]. destruct (negb _); [reflexivity|].
    pose proof (proj1 (scan_total (S (S (2 * List.length (strip text))))) (strip text) [] [] ltac:(lia)) as P.
    destruct (scan _ _ _ _ _) as [els|e m]; cbn [Bond.bind]; [|exact P].
    pose proof (bind_total off (S (mu els)) els {| p_done := []; p_natoms := 0; p_stack := [-1]; p_bds := [] |} ltac:(lia)) as Q.
    destruct (bind _ _ _ _) as [s|e m]; cbn [Bond.bind]; [reflexivity|exact Q].
  Qed.
End TokTotal.

(* ---- system-level splitting loop ---- *)
Lemma split_system_total : forall fuel text acc, (List.length text < fuel)%nat -> is_fuel (split_system fuel text acc) = false.
Proof.
  induction fuel as [|f IH]; intros text acc H; [lia|]. cbn [split_system].
  destruct (find (lit ".|") text <? 0) eqn:E1; [reflexivity|]. apply Z.ltb_ge in E1.
  destruct (find_at (lit "|") text (find (lit ".|") text + 2) + 1 <=? 0) eqn:E2; [reflexivity|]. apply Z.leb_gt in E2.
  apply IH. unfold strip.
  assert (text <> []).
  { intros ->. cbn in E1. lia. }
  pose proof (strip_by_length is_ws (slice text (Some (find_at (lit "|") text (find (lit ".|") text + 2) + 1)) None)).
  pose proof (slice_from_lt text (find_at (lit "|") text (find (lit ".|") text + 2) + 1) ltac:(lia) H0). lia.
Qed.

Theorem system_pieces_total raw : is_fuel (system_pieces raw) = false.
Proof. unfold system_pieces. apply split_system_total. lia. Qed.

(* an unclosed specifier is an error, never a silent loop or an object *)
Theorem system_unclosed_rejected text acc f :
  0 <= find (lit ".|") text -> find_at (lit "|") text (find (lit ".|") text + 2) = -1 ->
  exists m, split_system (S f) text acc = Err ERuntime m.
Proof.
  intros H1 H2. cbn [split_system]. destruct (find (lit ".|") text <? 0) eqn:E; [apply Z.ltb_lt in E; lia|].
  rewrite H2. cbn. eauto.
Qed.

(* ---- what is never accepted ---- *)
Definition raw_norm' (raw pre : str) : str := if (len pre =? 0) then slice raw (Some (find (lit "[") raw)) None else raw.

(* an accepted non-empty descriptor: bracketed, known symbol, exactly two bars if any, no bracket inside the id, no stereo characters in front *)
Theorem parse_descr_accepts_only raw n pre atom d :
  parse_descr raw n pre atom = OK d -> d_sym d <> [] ->
  let r := raw_norm' raw pre in
  index r 0 = Some (ch "[") /\ index r (-1) = Some (ch "]") /\
  (exists c, index r 1 = Some c /\ in_set (lit "$<>") c = true /\ d_sym d = [c]) /\
  (contains (lit "|") r = true -> count_char (ch "|") r = 2) /\
  contains (lit "@") pre = false /\ contains (lit "/") pre = false /\ contains (lit "\") pre = false.
Proof.
  unfold parse_descr. destruct (str_eqb raw (lit "[]")).
  { intros H; injection H as <-. cbn [d_sym]. congruence. }
  fold (raw_norm' raw pre). set (r := raw_norm' raw pre). cbv zeta.
  destruct (index r 0) as [c0|]; [|discriminate]. destruct (index r (-1)) as [cl|]; [|discriminate].
  destruct (negb (Ascii.eqb c0 (ch "[") && Ascii.eqb cl (ch "]"))) eqn:Eb; [discriminate|].
  apply negb_false_iff, andb_true_iff in Eb as [Eb1 Eb2]. apply Ascii.eqb_eq in Eb1, Eb2. subst c0 cl.
  destruct (index r 1) as [c1|]; [|discriminate].
  destruct (negb (in_set _ c1)) eqn:Es; [discriminate|]. apply negb_false_iff in Es.
  destruct (_ || _)%bool; [discriminate|].
  match goal with |- context [Bond.bind ?x _] => destruct x as [id|]; cbn [Bond.bind]; [|discriminate] end.
  destruct (contains (lit "|") r) eqn:Ec.
  - destruct (negb (count_char (ch "|") r =? 2)) eqn:En; [cbn [Bond.bind]; discriminate|]. apply negb_false_iff, Z.eqb_eq in En.
    destruct (negb (str_eqb _ (lit "]"))); [cbn [Bond.bind]; discriminate|].
    match goal with |- context [Bond.bind ?x _] => destruct x as [wt|]; cbn [Bond.bind]; [|discriminate] end.
    destruct (contains (lit "@") pre || contains (lit "/") pre || contains (lit "\") pre)%bool eqn:Ex; [discriminate|].
    apply orb_false_iff in Ex as [Ex E3]. apply orb_false_iff in Ex as [E1 E2].
    intros H; injection H as <-; intros _. cbn [d_sym]. repeat split; auto. exists c1. auto.
  - cbn [Bond.bind].
    destruct (contains (lit "@") pre || contains (lit "/") pre || contains (lit "\") pre)%bool eqn:Ex; [discriminate|].
    apply orb_false_iff in Ex as [Ex E3]. apply orb_false_iff in Ex as [E1 E2].
    intros H; injection H as <-; intros _. cbn [d_sym]. repeat split; auto; [exists c1; auto|discriminate].
Qed.

(* unbalanced branches are never accepted *)
Theorem parse_token_balanced valid_atom text off t :
  parse_token valid_atom text off = OK t -> count_char (ch "(") text = count_char (ch ")") text.
Proof.
  unfold parse_token. destruct (off <? 0); [discriminate|].
  destruct (count_char (ch "(") text =? count_char (ch ")") text) eqn:E; cbn [negb]; [|discriminate].
  intros _. apply Z.eqb_eq. exact E.
Qed.

(* a negative (or NaN) weight makes the token not generable *)
Theorem negative_weight_not_generable t d : In d (k_bds t) -> num_ge0 (d_weight d) = false -> token_generable t = false.
Proof.
  intros Hin Hw. unfold token_generable. apply not_true_is_false. intros H. rewrite forallb_forall in H.
  specialize (H d Hin). unfold generable_descr in H. congruence.
Qed.
