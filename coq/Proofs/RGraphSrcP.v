(* Tie T for the reaction graph: Src/SrcRGraph.v holds the weight / compatibility / membership decisions of Molecule.gen_reaction_graph
   REGENERATED from molecule.py (statement skeleton checked; the type dispatch and the validation thresholds are compared as text;
   is_compatible is the function regenerated from bond.py).  The edge construction rebuilt from them is proved equal to
   Model/RGraph.v, which the C16 theorems are about. *)
From Coq Require Import List ZArith QArith Bool Arith Lia.
From GBS Require Import Model.PyStr Model.Num Model.Bond Model.Sys Model.Select Model.Gen Model.RGraph Src.SrcBond Proofs.BondP Src.SrcRGraph.
Import ListNotations.
Open Scope Q_scope.

Lemma wsum_ext (s1 s2 : nat -> descr -> bool) : (forall k o, s1 k o = s2 k o) -> forall l k, wsum s1 k l = wsum s2 k l.
Proof. intros H. induction l as [|o r IH]; intros k; [reflexivity|]. cbn [wsum]. rewrite H, IH. reflexivity. Qed.

Lemma edges_to_ext src ei (s1 s2 : nat -> descr -> bool) kind den : (forall k o, s1 k o = s2 k o) ->
  forall l k, edges_to src ei s1 kind den k l = edges_to src ei s2 kind den k l.
Proof. intros H. induction l as [|o r IH]; intros k; [reflexivity|]. cbn [edges_to]. rewrite H, IH. reflexivity. Qed.

Lemma edges_to_none src ei (s : nat -> descr -> bool) kind den : (forall k o, s k o = false) -> forall l k, edges_to src ei s kind den k l = [].
Proof. intros H. induction l as [|o r IH]; intros k; [reflexivity|]. cbn [edges_to]. rewrite H, IH. reflexivity. Qed.

(* ---- edges inside an element ---- *)
(* for element_bd ...: if <edge_counts>: if <edge_repeat>: add prob edge; if <edge_end>: add term_prob edge *)
Fixpoint edges2_src (src : nat * nat) (ei : nat) (d : descr) (nr : nat) (rw ew : Q) (k : nat) (l : list descr) : list redge :=
  match l with
  | [] => []
  | o :: r =>
      (if edge_counts d o then
         (if edge_repeat k nr then [{| e_src := src; e_dst := (ei, k); e_kind := KProb; e_p := wq o / rw |}] else []) ++
         (if edge_end k nr then [{| e_src := src; e_dst := (ei, k); e_kind := KTermP; e_p := wq o / ew |}] else [])
       else []) ++ edges2_src src ei d nr rw ew (S k) r
  end.

Lemma edges2_is src ei d nr rw ew : forall l k,
  edges2_src src ei d nr rw ew k l =
  edges_to src ei (fun k o => compatible d o && negb (Qle_bool (wq o) 0)) (fun k => if Nat.ltb k nr then KProb else KTermP)
           (fun k => if Nat.ltb k nr then rw else ew) k l.
Proof.
  induction l as [|o r IH]; intros k; [reflexivity|]. cbn [edges2_src edges_to]. rewrite IH.
  unfold edge_counts, edge_repeat, edge_end, Qlt_bool. rewrite src_compat_model.
  destruct (compatible d o && negb (Qle_bool (wq o) 0)); [|reflexivity]. destruct (Nat.ltb k nr); reflexivity.
Qed.

Definition intra_edges_src (ei : nat) (e : gelem) (j : nat) (d : descr) : list redge :=
  match qtrans d with
  | Some (Some tr) =>
      let w := wq d in
      if Qeq_bool w 0 then [] else
      flat_map (fun it => if list_edge_ok (snd it / w)
                          then [{| e_src := (ei, j); e_dst := (ei, fst it); e_kind := KProb; e_p := snd it / w |}] else [])
               (index_from 0 tr)
  | Some None =>
      match e with
      | ETok _ => []
      | EStoch s =>
          let nr := n_rep e in
          let bds := elem_bds e in
          let rw := wsum (fun k o => sum_counts d o && sum_repeat k nr) 0 bds in
          let ew := wsum (fun k o => sum_counts d o && sum_end k nr) 0 bds in
          edges2_src (ei, j) ei d nr rw ew 0 bds
      end
  | None => []
  end.

Theorem intra_edges_is_source ei e j d : intra_edges_src ei e j d = intra_edges ei e j d.
Proof.
  unfold intra_edges_src, intra_edges. destruct (qtrans d) as [[tr|]|]; [reflexivity| |reflexivity].
  destruct e as [t|s]; [reflexivity|]. cbv zeta. rewrite edges2_is.
  rewrite (wsum_ext (fun k o => sum_counts d o && sum_repeat k (n_rep (EStoch s))) (fun k o => Nat.ltb k (n_rep (EStoch s)) && compatible d o))
    by (intros k o; unfold sum_counts, sum_repeat; rewrite src_compat_model; apply andb_comm).
  rewrite (wsum_ext (fun k o => sum_counts d o && sum_end k (n_rep (EStoch s))) (fun k o => negb (Nat.ltb k (n_rep (EStoch s))) && compatible d o))
    by (intros k o; unfold sum_counts, sum_end; rewrite src_compat_model; apply andb_comm).
  reflexivity.
Qed.

(* ---- edges into the next element ---- *)
Definition unit_weight (o : descr) : descr :=
  {| d_sym := d_sym o; d_id := d_id o; d_weight := Fin 1; d_trans := d_trans o; d_order := d_order o; d_pre := d_pre o; d_atom := d_atom o; d_num := d_num o |}.
Definition flag_weight (o : descr) : descr :=
  {| d_sym := d_sym o; d_id := d_id o; d_weight := (if Qle_bool (wq o) 0 then Fin 0 else Fin 1); d_trans := d_trans o; d_order := d_order o;
     d_pre := d_pre o; d_atom := d_atom o; d_num := d_num o |}.

Definition inter_edges_src (ei : nat) (e next : gelem) (j : nat) (d : descr) : list redge :=
  let nb := elem_bds next in
  let nnr := n_rep next in
  match e, next with
  | ETok _, ETok _ => edges_to (ei, j) (S ei) (fun k o => tt_edge d o) (fun _ => KTransP) (fun k => 1) 0 (map unit_weight nb)
  | ETok _, EStoch sn =>
      let tot := wsum (fun k o => ts_sum d o (s_left sn) k nnr) 0 nb in
      let tot := if ts_floor tot then 1 else tot in
      edges_to (ei, j) (S ei) (fun k o => ts_edge d o (s_left sn) k nnr) (fun _ => KTransP) (fun _ => tot) 0 nb
  | EStoch s, ETok _ =>
      edges_to (ei, j) (S ei) (fun k o => st_edge d o (s_right s) j (n_rep e)) (fun _ => KTransP) (fun k => 1) 0 (map flag_weight nb)
  | EStoch s, EStoch sn =>
      let tot := wsum (fun k o => ss_sum d o (s_left sn) (s_right s) k nnr j (n_rep e)) 0 nb in
      let tot := if ss_floor tot then 1 else tot in
      edges_to (ei, j) (S ei) (fun k o => ss_edge d o (s_left sn) (s_right s) k nnr j (n_rep e)) (fun _ => KTransP) (fun _ => tot) 0 nb
  end.

Theorem inter_edges_is_source ei e next j d : inter_edges_src ei e next j d = inter_edges ei e next j d.
Proof.
  unfold inter_edges_src, inter_edges. destruct e as [t|s], next as [tn|sn]; cbv zeta.
  - apply edges_to_ext. intros k o. unfold tt_edge. apply src_compat_model.
  - rewrite (wsum_ext (fun k o => ts_sum d o (s_left sn) k (n_rep (EStoch sn)))
                      (fun k o => compatible d o && compatible o (s_left sn) && Nat.ltb k (n_rep (EStoch sn))))
      by (intros k o; unfold ts_sum; rewrite (src_compat_model d o), (src_compat_model o (s_left sn)); reflexivity).
    unfold ts_floor, Qlt_bool. apply edges_to_ext. intros k o. unfold ts_edge. rewrite (src_compat_model d o), (src_compat_model o (s_left sn)). reflexivity.
  - destruct (compatible d (s_right s) && Nat.ltb j (n_rep (EStoch s))) eqn:E.
    + apply andb_true_iff in E as [E1 E2]. apply edges_to_ext. intros k o. unfold st_edge, Qlt_bool. rewrite (src_compat_model d o), (src_compat_model d (s_right s)), E1, E2.
      rewrite !andb_true_r. reflexivity.
    + apply edges_to_none. intros k o. unfold st_edge. rewrite (src_compat_model d o), (src_compat_model d (s_right s)).
      apply andb_false_iff in E as [E|E]; rewrite E; rewrite ?andb_false_r; reflexivity.
  - rewrite (wsum_ext (fun k o => ss_sum d o (s_left sn) (s_right s) k (n_rep (EStoch sn)) j (n_rep (EStoch s)))
                      (fun k o => compatible d o && compatible o (s_left sn) && Nat.ltb k (n_rep (EStoch sn)) && compatible d (s_right s) && Nat.ltb j (n_rep (EStoch s))))
      by (intros k o; unfold ss_sum; rewrite (src_compat_model d o), (src_compat_model o (s_left sn)), (src_compat_model d (s_right s)); reflexivity).
    unfold ss_floor, Qlt_bool. apply edges_to_ext. intros k o. unfold ss_edge. rewrite (src_compat_model d o), (src_compat_model o (s_left sn)), (src_compat_model d (s_right s)). reflexivity.
Qed.

(* ---- the whole graph ---- *)
Fixpoint graph_from_src (ei : nat) (els : list gelem) : list redge :=
  match els with
  | [] => []
  | e :: r =>
      flat_map (fun jd => intra_edges_src ei e (fst jd) (snd jd)) (index_from 0 (elem_bds e))
      ++ (match r with
          | next :: _ => flat_map (fun jd => inter_edges_src ei e next (fst jd) (snd jd)) (index_from 0 (elem_bds e))
          | [] => []
          end)
      ++ graph_from_src (S ei) r
  end.

Lemma flat_map_ext' {A B} (f g : A -> list B) l : (forall a, f a = g a) -> flat_map f l = flat_map g l.
Proof. intros H. induction l as [|a r IH]; [reflexivity|]. cbn [flat_map]. rewrite H, IH. reflexivity. Qed.

Theorem reaction_graph_is_source : forall els ei, graph_from_src ei els = graph_from ei els.
Proof.
  induction els as [|e r IH]; intros ei; [reflexivity|]. cbn [graph_from_src graph_from]. rewrite IH.
  rewrite (flat_map_ext' (fun jd => intra_edges_src ei e (fst jd) (snd jd)) (fun jd => intra_edges ei e (fst jd) (snd jd))) by (intros; apply intra_edges_is_source).
  destruct r as [|next r']; [reflexivity|].
  rewrite (flat_map_ext' (fun jd => inter_edges_src ei e next (fst jd) (snd jd)) (fun jd => inter_edges ei e next (fst jd) (snd jd))) by (intros; apply inter_edges_is_source).
  reflexivity.
Qed.
