(* Tie T for atom-graph generation: Src/SrcAGen.v holds the decisions of graph_generate.py REGENERATED from the source -- the edge
   classification, "this atom is new" of the static completion, "this node still has stochastic options", "keep growing" (accumulated mass
   below the drawn target), the candidate test and order of the termination pass, the flags of _add_node -- and the statement skeletons of all
   fifteen functions / methods are checked against harness/skeletons/graph_generate.txt.  The static completion, the choice of the next
   stochastic node, the termination pass and the growth loop rebuilt from them are proved equal to Model/AGen.v, for every state of the
   run monad. *)
From Coq Require Import List ZArith QArith Bool Arith String Lia.
From GBS Require Import Model.PyStr Model.Num Model.Bond Model.Select Model.Sys Model.Gen Model.AGen Src.SrcAGen Proofs.GenSrcP.
Import ListNotations.
Open Scope nat_scope.

(* ---- _add_node: an out-edge is kept iff it is of the kind and the kind is allowed; sn_T / sn_E / sn_S are the out-edges of each kind ---- *)
Lemma keep_flags tr te sc :
  ag_keep_transition true tr = tr /\ ag_keep_termination true te = te /\ ag_keep_stochastic true sc = sc /\
  (forall b, ag_keep_transition false b = false /\ ag_keep_termination false b = false /\ ag_keep_stochastic false b = false).
Proof. repeat split. Qed.
Lemma edge_kinds w : ag_is_stochastic w = negb (Qeq_bool w 0) /\ ag_is_termination w = negb (Qeq_bool w 0) /\
                     ag_is_transition w = negb (Qeq_bool w 0) /\ ag_is_static w = negb (Qeq_bool w 0).
Proof. repeat split. Qed.

(* ---- _fill_static_edges ---- *)
Definition fs_step_src (G : sgraph) (sn inst : nat) (acc : astate * list (nat * nat)) (n : nat) : astate * list (nat * nat) :=
  let '(s, m) := acc in
  if ag_new_atom sn n then let '(s', id) := add_node G s n (Some inst) true true true in (s', (n, id) :: m) else (s, m).
Lemma new_atom_is sn n : ag_new_atom sn n = negb (Nat.eqb n sn).
Proof.
  unfold ag_new_atom. f_equal. destruct (Nat.eqb n sn) eqn:E.
  - apply Nat.eqb_eq in E. subst. apply Z.eqb_refl.
  - apply Nat.eqb_neq in E. apply Z.eqb_neq. lia.
Qed.
Lemma fs_step_is_source G sn inst acc n : fs_step_src G sn inst acc n = fs_step G sn inst acc n.
Proof. unfold fs_step_src, fs_step. destruct acc as [s m]. rewrite new_atom_is. destruct (Nat.eqb n sn); reflexivity. Qed.

Definition fill_static_src (G : sgraph) (st : astate) (cur : nat) : astate :=
  let sn := match nth_error (a_nodes st) cur with Some g => g_sn g | None => 0 end in
  let inst := match nth_error (a_nodes st) cur with Some g => g_inst g | None => cur end in
  let '(st1, smap) := fold_left (fs_step_src G sn inst) (dfs_order G sn) (st, [(sn, cur)]) in
  {| a_nodes := a_nodes st1; a_edges := a_edges st1 ++ fs_edges G smap; a_mw := a_mw st1; a_draws := a_draws st1 |}.

Lemma fold_left_ext {A B} (f g : A -> B -> A) l a : (forall x y, f x y = g x y) -> fold_left f l a = fold_left g l a.
Proof. intros H. revert a. induction l as [|y l IH]; intros a; [reflexivity|]. cbn [fold_left]. rewrite H. apply IH. Qed.

Theorem fill_static_is_source G st cur : fill_static_src G st cur = fill_static G st cur.
Proof. unfold fill_static_src, fill_static. cbv zeta. rewrite (fold_left_ext _ (fs_step G _ _)) by (intros; apply fs_step_is_source). reflexivity. Qed.

(* ---- _next_stochastic_edge: the nodes that still have stochastic options, in node order ---- *)
Definition next_stoch_src (st : astate) : run (option nat) :=
  let cands := positions_where (fun g => ag_has_options (wsumQ (g_S g))) 0 (a_nodes st) in
  match cands with
  | [] => ret None
  | _ => rdo k <- pickn (List.length cands) ;; ret (nth_error cands k)
  end.
Theorem next_stoch_is_source st : next_stoch_src st = next_stoch st.
Proof. reflexivity. Qed.

(* ---- _next_termination_edge: the FIRST node, in node order, that is not the exempt one and has termination edges ---- *)
Fixpoint first_where {A} (f : nat -> A -> bool) (k : nat) (l : list A) : option nat :=
  match l with [] => None | x :: r => if f k x then Some k else first_where f (S k) r end.
Definition term_candidate (ex : nat) (i : nat) (g : gnode) : bool :=
  ag_may_terminate (Some (Z.of_nat ex)) (Z.of_nat ex) i && ag_has_terminations (List.length (g_E g)).

Definition next_term_src (st : astate) (ex : nat) : run (option (nat * sedge)) :=
  match first_where (term_candidate ex) 0 (a_nodes st) with
  | None => ret None
  | Some i =>
      match nth_error (a_nodes st) i with
      | None => ret None
      | Some g => rdo k <- pickn (List.length (g_E g)) ;; ret (option_map (fun e => (i, e)) (nth_error (g_E g) k))
      end
  end.

Lemma term_candidate_is ex i g : term_candidate ex i g = (match g_E g with [] => false | _ => true end) && negb (Nat.eqb i ex).
Proof.
  unfold term_candidate, ag_may_terminate, ag_has_terminations. cbn [orb]. rewrite andb_comm. f_equal.
  - destruct (g_E g); [reflexivity|]. apply Z.ltb_lt. cbn [List.length]. lia.
  - f_equal. destruct (Nat.eqb i ex) eqn:E; [apply Nat.eqb_eq in E; subst; apply Z.eqb_refl|apply Nat.eqb_neq in E; apply Z.eqb_neq; lia].
Qed.

Lemma first_where_is ex : forall l k,
  first_where (term_candidate ex) k l =
  match filter (fun i => negb (Nat.eqb i ex)) (positions_where (fun g : gnode => match g_E g with [] => false | _ => true end) k l) with
  | [] => None | i :: _ => Some i end.
Proof.
  induction l as [|g l IH]; intros k; [reflexivity|]. cbn [first_where positions_where]. rewrite term_candidate_is.
  destruct (g_E g) as [|e es]; cbn [andb app]; [apply IH|]. cbn [filter]. destruct (negb (Nat.eqb k ex)); [reflexivity|apply IH].
Qed.

Theorem next_term_is_source st ex : next_term_src st ex = next_term st ex.
Proof.
  unfold next_term_src, next_term. rewrite first_where_is.
  destruct (positions_where _ 0 (a_nodes st)) as [|p ps] eqn:Ep; [reflexivity|].
  destruct (filter _ (p :: ps)); reflexivity.
Qed.

(* ---- _terminate_graph ---- *)
Fixpoint terminate_src (fuel : nat) (G : sgraph) (st : astate) (ex : nat) : run astate :=
  match fuel with
  | O => fun _ => OutOfFuel
  | S f =>
      rdo r <- next_term_src st ex ;;
      match r with
      | None => ret st
      | Some (i, e) =>
          let '(st1, nid) := add_node G st (se_v e) None false false false in
          let st2 := {| a_nodes := a_nodes st1; a_edges := a_edges st1 ++ [{| ge_a := i; ge_b := nid; ge_bt := se_bt e; ge_link := true |}]; a_mw := a_mw st1; a_draws := a_draws st1 |} in
          let st2' := fill_static_src G st2 nid in
          let st3 := match nth_error (a_nodes st2') i with Some g => set_node st2' i (clear_node g) | None => st2' end in
          terminate_src f G st3 ex
      end
  end.
Theorem terminate_is_source : forall fuel G st ex s, terminate_src fuel G st ex s = terminate fuel G st ex s.
Proof.
  induction fuel as [|f IH]; intros G st ex s; [reflexivity|]. cbn [terminate_src terminate]. rewrite next_term_is_source.
  apply rbind_ext. intros r s'. destruct r as [[i e]|]; [|reflexivity].
  destruct (add_node G st (se_v e) None false false false) as [st1 nid]. cbv zeta. rewrite fill_static_is_source. apply IH.
Qed.

(* ---- the growth loop of _fill_stochastic_edges ---- *)
Fixpoint stoch_loop_src (fuel : nat) (G : sgraph) (st : astate) : run astate :=
  match fuel with
  | O => fun _ => OutOfFuel
  | S f =>
      rdo nx <- next_stoch_src st ;;
      match nx with
      | None => ret st
      | Some ex =>
          rdo capped <- with_fuel (fun f' => terminate_src f' G st ex) ;;
          rdo tv <- target_of G capped ex ;;
          let '(T, capped') := tv in
          if ag_grow (head_mw capped') T then
            let back := {| a_nodes := a_nodes st; a_edges := a_edges st; a_mw := a_mw st; a_draws := a_draws capped' |} in
            rdo r <- add_conn G back ex ;;
            stoch_loop_src f G (fill_static_src G (fst r) (snd r))
          else
            ret {| a_nodes := map (fun g => {| g_sn := g_sn g; g_inst := g_inst g; g_T := g_T g; g_E := []; g_S := [] |}) (a_nodes capped');
                   a_edges := a_edges capped'; a_mw := a_mw capped'; a_draws := a_draws capped' |}
      end
  end.

Theorem stoch_loop_is_source : forall fuel G st s, stoch_loop_src fuel G st s = stoch_loop fuel G st s.
Proof.
  induction fuel as [|f IH]; intros G st s; [reflexivity|]. cbn [stoch_loop_src stoch_loop]. rewrite next_stoch_is_source.
  apply rbind_ext. intros nx s1. destruct nx as [ex|]; [|reflexivity].
  apply rbind_ext2; [intros s2; apply with_fuel_ext; intros n s3; apply terminate_is_source|].
  intros capped s2. apply rbind_ext. intros [T capped'] s3. unfold ag_grow, Qlt_bool.
  destruct (negb (Qle_bool T (head_mw capped'))); [|reflexivity].
  apply rbind_ext. intros r s4. rewrite fill_static_is_source. apply IH.
Qed.

(* ---- _fill_stochastic_edges, the transition loop of generate, and generate itself ---- *)
Definition fill_stoch_src (G : sgraph) (st : astate) (last : nat) : run astate :=
  rdo st' <- with_fuel (fun f => stoch_loop_src f G (fill_static_src G st last)) ;;
  ret {| a_nodes := a_nodes st'; a_edges := a_edges st'; a_mw := 0%Q :: a_mw st'; a_draws := a_draws st' |}.
Lemma fill_stoch_is_source G st last s : fill_stoch_src G st last s = fill_stoch G st last s.
Proof.
  unfold fill_stoch_src, fill_stoch. apply rbind_ext2; [|reflexivity]. intros s'. apply with_fuel_ext. intros n s''.
  rewrite fill_static_is_source. apply stoch_loop_is_source.
Qed.

Fixpoint trans_loop_src (fuel : nat) (G : sgraph) (st : astate) (nid : nat) : run astate :=
  match fuel with
  | O => fun _ => OutOfFuel
  | S f =>
      rdo st1 <- fill_stoch_src G st nid ;;
      rdo i <- pickn (List.length (a_nodes st1)) ;;
      match nth_error (a_nodes st1) i with
      | None => fail EIndex "node"
      | Some g =>
          match g_T g with
          | [] => ret st1
          | T =>
              rdo k <- pickn (List.length T) ;;
              match nth_error T k with
              | None => fail EIndex "edge"
              | Some e =>
                  let cleared := {| a_nodes := map (fun g => {| g_sn := g_sn g; g_inst := g_inst g; g_T := []; g_E := g_E g; g_S := g_S g |}) (a_nodes st1);
                                    a_edges := a_edges st1; a_mw := a_mw st1; a_draws := a_draws st1 |} in
                  let '(st2, nid') := add_node G cleared (se_v e) None false false false in
                  trans_loop_src f G {| a_nodes := a_nodes st2; a_edges := a_edges st2 ++ [{| ge_a := i; ge_b := nid'; ge_bt := se_bt e; ge_link := true |}]; a_mw := a_mw st2; a_draws := a_draws st2 |} nid'
              end
          end
      end
  end.
Lemma trans_loop_is_source : forall fuel G st nid s, trans_loop_src fuel G st nid s = trans_loop fuel G st nid s.
Proof.
  induction fuel as [|f IH]; intros G st nid s; [reflexivity|]. cbn [trans_loop_src trans_loop].
  apply rbind_ext2; [intros s'; apply fill_stoch_is_source|]. intros st1 s1. apply rbind_ext. intros i s2.
  destruct (nth_error (a_nodes st1) i) as [g|]; [|reflexivity]. destruct (g_T g) as [|t0 ts] eqn:ET; [reflexivity|].
  apply rbind_ext. intros k s3. destruct (nth_error (t0 :: ts) k) as [e|]; [|reflexivity].
  cbv zeta. destruct (add_node G _ (se_v e) None false false false) as [st2 nid']. apply IH.
Qed.

Definition run_agen_src (G : sgraph) (start : nat) (pk : list nat) (tg : list Q) :=
  let '(st0, nid) := add_node G {| a_nodes := []; a_edges := []; a_mw := [0%Q]; a_draws := [] |} start None true true true in
  with_fuel (fun f => trans_loop_src f G st0 nid) {| picks := pk; targets := tg; trace := [] |}.
Theorem run_agen_is_source G start pk tg : run_agen_src G start pk tg = run_agen G start pk tg.
Proof.
  unfold run_agen_src, run_agen, agen. destruct (add_node G _ start None true true true) as [st0 nid].
  apply with_fuel_ext. intros n s. apply trans_loop_is_source.
Qed.
