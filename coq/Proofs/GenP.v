(* Invariants of the generator model (Model/Gen.v) for every pick stream and every list of drawn
   targets: C04 (only compatible, unused descriptors are bonded, with their order), C05 (tree of
   whole residues, additive atoms and mass), C06 (safety half: no open descriptor => every
   descriptor instance used exactly once; element order).  No axioms. *)
From Coq Require Import List ZArith QArith Qfield Lqa Lia Bool Arith FinFun.
From GBS Require Import Model.PyStr Model.Num Model.Bond Model.Select Model.Gen Proofs.BondP.
Import ListNotations.

(* ------------------------------------------------------------------------------------------ *)
(* the run monad *)
Lemma rbind_done {A B} (m : run A) (k : A -> run B) st b st' :
  rbind m k st = Done b st' -> exists a st1, m st = Done a st1 /\ k a st1 = Done b st'.
Proof. unfold rbind. destruct (m st) as [a st1| | | | |]; try discriminate. eauto. Qed.

(* partial-correctness triple with a post-condition on the value only *)
Definition post {A} (m : run A) (Q : A -> Prop) : Prop := forall st a st', m st = Done a st' -> Q a.

Lemma post_ret {A} (a : A) (Q : A -> Prop) : Q a -> post (ret a) Q.
Proof. intros H st b st' E. injection E as <- _. exact H. Qed.
Lemma post_fail {A} e s (Q : A -> Prop) : post (fail e s) Q.
Proof. intros st a st' E. discriminate. Qed.
Lemma post_bind {A B} (m : run A) (k : A -> run B) Q1 (Q2 : B -> Prop) :
  post m Q1 -> (forall a, Q1 a -> post (k a) Q2) -> post (rbind m k) Q2.
Proof. intros H1 H2 st b st' E. apply rbind_done in E as (a & st1 & E1 & E2). eapply H2; eauto. Qed.
Lemma post_lift {A} (r : result A) (Q : A -> Prop) : (forall a, r = OK a -> Q a) -> post (lift r) Q.
Proof. intros H. destruct r as [a|e s]; cbn [lift]; [apply post_ret; auto | apply post_fail]. Qed.
Lemma post_weaken {A} (m : run A) (Q1 Q2 : A -> Prop) : post m Q1 -> (forall a, Q1 a -> Q2 a) -> post m Q2.
Proof. intros H1 H2 st a st' E. eauto. Qed.
Lemma post_true {A} (m : run A) : post m (fun _ => True).
Proof. intros st a st' _. exact I. Qed.
Lemma post_with_fuel {A} (F : nat -> run A) Q : (forall f, post (F f) Q) -> post (with_fuel F) Q.
Proof. intros H st a st' E. unfold with_fuel in E. eapply H; eauto. Qed.
Lemma post_nofuel {A} (Q : A -> Prop) : post (fun _ : rstate => @OutOfFuel A) Q.
Proof. intros st a st' E. discriminate. Qed.

(* ------------------------------------------------------------------------------------------ *)
(* lists *)
Lemma remove_nth_In {A} n (l : list A) x : In x (remove_nth n l) -> In x l.
Proof. revert n; induction l as [|y l IH]; intros [|n] H; simpl in *; auto. destruct H; auto. right; eauto. Qed.

Lemma Forall_remove_nth {A} (P : A -> Prop) n l : Forall P l -> Forall P (remove_nth n l).
Proof. rewrite !Forall_forall. intros H x Hx. apply H. eapply remove_nth_In; eauto. Qed.

Lemma nth_error_index_from {A} s (l : list A) j k d :
  nth_error (index_from s l) j = Some (k, d) -> k = (s + j)%nat /\ nth_error l j = Some d.
Proof.
  revert s j; induction l as [|x l IH]; intros s [|j] H; simpl in *; try discriminate.
  - injection H as <- <-. split; [lia|reflexivity].
  - apply IH in H as [-> H]. split; [lia|exact H].
Qed.

Lemma map_fst_index_from {A} s (l : list A) : map fst (index_from s l) = seq s (length l).
Proof. revert s; induction l as [|x l IH]; intros s; simpl; [reflexivity|]. now rewrite IH. Qed.

Definition key (o : obd) : nat * nat := (o_node o, o_k o).
Definition kdec : forall a b : nat * nat, {a = b} + {a <> b}.
Proof. decide equality; apply Nat.eq_dec. Defined.
Definition cnt (x : nat * nat) (l : list (nat * nat)) : nat := count_occ kdec l x.

Lemma cnt_app x l1 l2 : cnt x (l1 ++ l2) = (cnt x l1 + cnt x l2)%nat.
Proof. apply count_occ_app. Qed.

Lemma cnt_cons x y l : cnt x (y :: l) = (cnt x [y] + cnt x l)%nat.
Proof. change (y :: l) with ([y] ++ l). apply cnt_app. Qed.

Lemma cnt_remove_nth x i (l : list obd) a :
  nth_error l i = Some a -> cnt x (map key l) = (cnt x [key a] + cnt x (map key (remove_nth i l)))%nat.
Proof.
  revert i; induction l as [|y l IH]; intros [|i] H; cbn [nth_error remove_nth map] in *; try discriminate.
  - injection H as ->. apply cnt_cons.
  - apply IH in H. rewrite (cnt_cons x (key y) (map key l)), (cnt_cons x (key y) (map key (remove_nth i l))). lia.
Qed.

(* ------------------------------------------------------------------------------------------ *)
(* residues, offsets, descriptor instances *)
Definition res_keys (n : nat) (tok : gtoken) : list (nat * nat) := map (fun k => (n, k)) (seq 0 (length (t_bds tok))).
Fixpoint all_keys_from (n : nat) (res : list (rref * gtoken)) : list (nat * nat) :=
  match res with [] => [] | rt :: r => res_keys n (snd rt) ++ all_keys_from (S n) r end.
Definition all_keys (g : molgen) := all_keys_from 0 (m_res g).
Definition used (g : molgen) : list (nat * nat) := flat_map (fun r => [key (a_self r); key (a_other r)]) (m_log g).

Lemma all_keys_from_app n l x : all_keys_from n (l ++ [x]) = all_keys_from n l ++ res_keys (n + length l) (snd x).
Proof.
  revert n; induction l as [|y l IH]; intros n; simpl.
  - now rewrite Nat.add_0_r, app_nil_r.
  - rewrite IH, app_assoc. do 2 f_equal. lia.
Qed.

Lemma map_key_instances tok off n : map key (instances tok off n) = res_keys n tok.
Proof.
  unfold instances, res_keys. rewrite map_map. cbn [key o_node o_k].
  rewrite <- (map_fst_index_from 0 (t_bds tok)), map_map. reflexivity.
Qed.

Lemma nth_error_instances tok off n j b :
  nth_error (instances tok off n) j = Some b ->
  exists d, nth_error (t_bds tok) j = Some d /\ b = {| o_d := shift_descr d off; o_node := n; o_k := j |}.
Proof.
  unfold instances. intros H. rewrite nth_error_map in H.
  destruct (nth_error (index_from 0 (t_bds tok)) j) as [[k d]|] eqn:E; [|discriminate].
  apply nth_error_index_from in E as [-> E]. injection H as <-. exists d. split; [exact E|reflexivity].
Qed.

Lemma In_instances tok off n o :
  In o (instances tok off n) ->
  exists j d, nth_error (t_bds tok) j = Some d /\ o = {| o_d := shift_descr d off; o_node := n; o_k := j |}.
Proof. intros H. apply In_nth_error in H as [j H]. apply nth_error_instances in H as (d & H1 & H2). eauto. Qed.

Definition natoms_of (rt : rref * gtoken) : Z := t_natoms (snd rt).
Definition mass_of (rt : rref * gtoken) : Q := t_mass (snd rt).
Definition sumZ (l : list Z) : Z := fold_right Z.add 0%Z l.
Definition off (res : list (rref * gtoken)) (n : nat) : Z := sumZ (map natoms_of (firstn n res)).

Lemma sumZ_app a b : sumZ (a ++ b) = (sumZ a + sumZ b)%Z.
Proof. induction a as [|x a IH]; simpl; [reflexivity|]. rewrite IH. lia. Qed.

Lemma off_app_le res x n : (n <= length res)%nat -> off (res ++ [x]) n = off res n.
Proof. intros H. unfold off. rewrite firstn_app. replace (n - length res)%nat with O by lia. simpl. now rewrite app_nil_r. Qed.

Lemma off_app_last res x : off (res ++ [x]) (length res + 1) = (off res (length res) + natoms_of x)%Z.
Proof.
  unfold off. rewrite firstn_app, (firstn_all2 (n := length res + 1) res) by lia.
  replace (length res + 1 - length res)%nat with 1%nat by lia.
  cbn [firstn]. rewrite map_app, sumZ_app, firstn_all. cbn [map sumZ fold_right]. lia.
Qed.

Definition core (d : descr) := (d_sym d, d_id d, d_order d, d_atom d).

(* [o] is (a copy of) descriptor number [o_k o] of the token of residue [o_node o], moved to that
   residue's atom offset; weight and transition list may have been overwritten (stochastic.py:196-198) *)
Definition inst_ok (res : list (rref * gtoken)) (o : obd) : Prop :=
  exists ref tok d, nth_error res (o_node o) = Some (ref, tok) /\ nth_error (t_bds tok) (o_k o) = Some d /\
                    core (o_d o) = core (shift_descr d (off res (o_node o))).

Lemma inst_ok_app res x o : inst_ok res o -> inst_ok (res ++ [x]) o.
Proof.
  intros (ref & tok & d & H1 & H2 & H3). exists ref, tok, d.
  assert (o_node o < length res)%nat by (apply nth_error_Some; congruence).
  split; [rewrite nth_error_app1; auto|]. split; [exact H2|]. rewrite off_app_le by lia. exact H3.
Qed.

Lemma inst_ok_new res ref tok d j :
  nth_error (t_bds tok) j = Some d ->
  inst_ok (res ++ [(ref, tok)]) {| o_d := shift_descr d (off res (length res)); o_node := length res; o_k := j |}.
Proof.
  intros H. exists ref, tok, d. cbn [o_node o_k o_d].
  split; [rewrite nth_error_app2, Nat.sub_diag by lia; reflexivity|]. split; [exact H|].
  now rewrite off_app_le by lia.
Qed.

(* ------------------------------------------------------------------------------------------ *)
(* the invariant; [rsv] = descriptor instances taken out of the open list for the moment
   (the terminal reserved by finalize_mol, stochastic.py:271-281) *)
Record GInv (rsv : list obd) (g : molgen) : Prop := {
  gi_len : (length (m_log g) + 1 = length (m_res g))%nat;
  gi_tree : forall k r, nth_error (m_log g) k = Some r -> o_node (a_other r) = S k /\ (o_node (a_self r) <= k)%nat;
  gi_compat : Forall (fun r => compatible (o_d (a_other r)) (o_d (a_self r)) = true) (m_log g);
  gi_count : forall x, (cnt x (used g) + cnt x (map key (m_open g)) + cnt x (map key rsv) = cnt x (all_keys g))%nat;
  gi_open : Forall (inst_ok (m_res g)) (m_open g);
  gi_rsv : Forall (inst_ok (m_res g)) rsv;
  gi_log : Forall (fun r => inst_ok (m_res g) (a_self r) /\ inst_ok (m_res g) (a_other r)) (m_log g);
  gi_natoms : m_natoms g = off (m_res g) (length (m_res g));
  gi_mass : (m_mass g == total (map mass_of (m_res g)))%Q
}.

Lemma used_app g r : flat_map (fun r => [key (a_self r); key (a_other r)]) (m_log g ++ [r]) = used g ++ [key (a_self r); key (a_other r)].
Proof. unfold used. rewrite flat_map_app. simpl. reflexivity. Qed.

Lemma total_app a b : (total (a ++ b) == total a + total b)%Q.
Proof. unfold total. induction a as [|x a IH]; cbn [app fold_right]; [ring|]. rewrite IH. ring. Qed.

Lemma new_mol_inv tok ref g : new_mol tok ref = OK g -> GInv [] g.
Proof.
  unfold new_mol. destruct (negb (t_ok tok)); [discriminate|]. intros H; injection H as <-.
  constructor; cbn [m_log m_res m_open m_natoms m_mass].
  - reflexivity.
  - intros [|k] r H; discriminate.
  - constructor.
  - intros x. unfold used, all_keys. cbn [m_log m_res flat_map all_keys_from snd]. rewrite map_key_instances, app_nil_r. simpl. lia.
  - apply Forall_forall. intros o Ho. apply In_instances in Ho as (j & d & H1 & ->).
    exists ref, tok, d. cbn [o_node o_k o_d nth_error]. repeat split; auto.
  - constructor.
  - constructor.
  - unfold off, natoms_of. simpl. lia.
  - unfold mass_of. simpl. ring.
Qed.

Lemma attach_inv rsv g i tok ref j g' : GInv rsv g -> attach g i tok ref j = OK g' -> GInv rsv g'.
Proof.
  intros [Hlen Htree Hcomp Hcount Hopen Hrsv Hlog Hnat Hmass]. unfold attach.
  destruct (negb (t_ok tok)); [discriminate|].
  destruct (nth_error (m_open g) i) as [a|] eqn:Ea; [|discriminate].
  destruct (nth_error (instances tok (m_natoms g) (length (m_res g))) j) as [b|] eqn:Eb; [|discriminate].
  destruct (negb (compatible (o_d b) (o_d a))) eqn:Ec; [discriminate|]. apply negb_false_iff in Ec.
  intros H; injection H as <-.
  assert (Ha : inst_ok (m_res g) a) by (rewrite Forall_forall in Hopen; apply Hopen; eapply nth_error_In; eauto).
  assert (Hna : (o_node a < length (m_res g))%nat).
  { destruct Ha as (? & ? & ? & H & _). apply nth_error_Some. congruence. }
  pose proof (nth_error_instances _ _ _ _ _ Eb) as (d & Hd & Hb).
  assert (Hbok : inst_ok (m_res g ++ [(ref, tok)]) b).
  { rewrite Hb, Hnat. apply inst_ok_new. exact Hd. }
  constructor; cbn [m_log m_res m_open m_natoms].
  - rewrite !app_length. simpl. lia.
  - intros k r H. destruct (Nat.lt_ge_cases k (length (m_log g))) as [Hk|Hk].
    + rewrite nth_error_app1 in H by assumption. eauto.
    + rewrite nth_error_app2 in H by assumption.
      destruct (k - length (m_log g))%nat as [|m] eqn:Hm; simpl in H; [|destruct m; discriminate].
      injection H as <-. cbn [a_self a_other]. rewrite Hb. cbn [o_node]. lia.
  - apply Forall_app. split; [exact Hcomp|]. constructor; [exact Ec|constructor].
  - intros x. unfold all_keys, used. cbn [m_res m_log m_open]. rewrite all_keys_from_app, flat_map_app.
    cbn [flat_map a_self a_other snd app]. fold (used g).
    rewrite map_app, !cnt_app. change [key a; key b] with ([key a] ++ [key b]). rewrite cnt_app.
    pose proof (cnt_remove_nth x _ _ _ Ea) as C1. pose proof (cnt_remove_nth x _ _ _ Eb) as C2.
    rewrite map_key_instances in C2. specialize (Hcount x). unfold all_keys in Hcount. rewrite Nat.add_0_l. lia.
  - apply Forall_app. split.
    + apply Forall_remove_nth. eapply Forall_impl; [|exact Hopen]. intros o. apply inst_ok_app.
    + apply Forall_remove_nth. apply Forall_forall. intros o Ho. apply In_instances in Ho as (j' & d' & H1 & ->).
      rewrite Hnat. apply inst_ok_new. exact H1.
  - eapply Forall_impl; [|exact Hrsv]. intros o. apply inst_ok_app.
  - apply Forall_app. split.
    + eapply Forall_impl; [|exact Hlog]. intros r [H1 H2]. split; apply inst_ok_app; assumption.
    + constructor; [|constructor]. cbn [a_self a_other]. split; [apply inst_ok_app; exact Ha|exact Hbok].
  - rewrite app_length. simpl length. rewrite off_app_last, Hnat. reflexivity.
  - change (Qred (m_mass g + t_mass tok) == total (map mass_of (m_res g ++ [(ref, tok)])))%Q.
    apply (Qeq_trans _ (m_mass g + t_mass tok)%Q); [apply Qred_correct|]. rewrite map_app, total_app, Hmass. unfold total, mass_of. cbn [map fold_right snd]. ring.
Qed.

(* ------------------------------------------------------------------------------------------ *)
(* re-arrangements of the open list *)
Lemma inst_ok_set_wt res a w t : inst_ok res a -> inst_ok res (set_wt a w t).
Proof. intros (ref & tok & d & H1 & H2 & H3). exists ref, tok, d. cbn [set_wt o_node o_k o_d]. auto. Qed.

Lemma with_open_setwt rsv g a w t : GInv rsv g -> m_open g = [a] -> GInv rsv (with_open g [set_wt a w t]).
Proof.
  intros [Hlen Htree Hcomp Hcount Hopen Hrsv Hlog Hnat Hmass] Ho.
  constructor; cbn [with_open m_log m_res m_open m_natoms m_mass]; auto.
  - intros x. specialize (Hcount x). rewrite Ho in Hcount. exact Hcount.
  - rewrite Ho in Hopen. inversion Hopen; subst. constructor; [apply inst_ok_set_wt; assumption|constructor].
Qed.

Lemma with_open_reserve g i term :
  GInv [] g -> nth_error (m_open g) i = Some term -> GInv [term] (with_open g (remove_nth i (m_open g))).
Proof.
  intros [Hlen Htree Hcomp Hcount Hopen Hrsv Hlog Hnat Hmass] Ho.
  constructor; cbn [with_open m_log m_res m_open m_natoms m_mass]; auto.
  - intros x. specialize (Hcount x). rewrite (cnt_remove_nth x _ _ _ Ho) in Hcount. cbn [map] in *.
    unfold all_keys, used in *. cbn [with_open m_log m_res] in *. change (cnt x []) with 0%nat in *. lia.
  - apply Forall_remove_nth. exact Hopen.
  - constructor; [|constructor]. rewrite Forall_forall in Hopen. apply Hopen. eapply nth_error_In; eauto.
Qed.

Lemma with_open_unreserve g term : GInv [term] g -> GInv [] (with_open g (m_open g ++ [term])).
Proof.
  intros [Hlen Htree Hcomp Hcount Hopen Hrsv Hlog Hnat Hmass].
  constructor; cbn [with_open m_log m_res m_open m_natoms m_mass]; auto.
  - intros x. specialize (Hcount x). rewrite map_app, cnt_app. cbn [map] in *.
    unfold all_keys, used in *. cbn [with_open m_log m_res] in *. change (cnt x []) with 0%nat in *. lia.
  - apply Forall_app. split; assumption.
Qed.

(* ------------------------------------------------------------------------------------------ *)
(* what each generator function does to the residue list *)
(* a capping / starting end group of object [s]: a copy of one of its end tokens *)
Definition res_cap (s : gstoch) (ei : nat) (rt : rref * gtoken) : Prop :=
  r_elem (fst rt) = ei /\ r_kind (fst rt) = KEnd /\ nth_error (s_end s) (r_idx (fst rt)) = Some (snd rt).
(* a residue appended by a growth step: a copy of a repeat token (or of an end token, which only an
   explicit transition list can select) *)
Definition res_unit (s : gstoch) (ei : nat) (rt : rref * gtoken) : Prop :=
  r_elem (fst rt) = ei /\
  ((r_kind (fst rt) = KRep /\ nth_error (s_rep s) (r_idx (fst rt)) = Some (snd rt)) \/
   (r_kind (fst rt) = KEnd /\ nth_error (s_end s) (r_idx (fst rt)) = Some (snd rt))).

Lemma attach_res g i tok ref j g' : attach g i tok ref j = OK g' -> m_res g' = m_res g ++ [(ref, tok)].
Proof.
  unfold attach. destruct (negb (t_ok tok)); [discriminate|].
  destruct (nth_error (m_open g) i); [|discriminate]. destruct (nth_error _ j); [|discriminate].
  destruct (negb _); [discriminate|]. intros H; injection H as <-. reflexivity.
Qed.

Lemma gen_token_post tok ei prefix :
  (forall g, prefix = Some g -> GInv [] g) ->
  post (gen_token tok ei prefix)
       (fun g' => GInv [] g' /\ m_res g' = match prefix with Some g => m_res g | None => [] end ++ [(mkref ei KTok 0, tok)]).
Proof.
  intros Hp. unfold gen_token. destruct (negb (t_ok tok)) eqn:Et; [apply post_fail|].
  destruct prefix as [g|].
  - destruct (m_open g) as [|a [|? ?]] eqn:Eo; try apply post_fail.
    eapply post_bind; [apply post_true|]. intros j _. apply post_lift. intros g' H.
    split; [eapply attach_inv; eauto | eapply attach_res; eauto].
  - apply post_lift. intros g' H. split; [eapply new_mol_inv; eauto|].
    unfold new_mol in H. rewrite Et in H. injection H as <-. reflexivity.
Qed.

Lemma get_start_post s ei prefix :
  (forall g, prefix = Some g -> GInv [] g) ->
  post (get_start s ei prefix)
       (fun g' => GInv [] g' /\
                  match prefix with
                  | Some g => m_res g' = m_res g
                  | None => exists rt, m_res g' = [rt] /\ res_cap s ei rt
                  end).
Proof.
  intros Hp. unfold get_start. destruct prefix as [g|].
  - destruct (m_open g) as [|a [|? ?]] eqn:Eo; try apply post_fail.
    destruct (negb _); [apply post_fail|]. apply post_ret. split; [|reflexivity].
    apply with_open_setwt; auto.
  - destruct (negb _); [apply post_fail|].
    eapply post_bind; [apply post_true|]. intros k _.
    destruct (nth_error (endb s) k) as [[[ti bi] d]|]; [|apply post_fail].
    destruct (nth_error (s_end s) ti) as [tok|] eqn:Etok; [|apply post_fail].
    destruct (negb _); [apply post_fail|]. apply post_lift. intros g' H. split; [eapply new_mol_inv; eauto|].
    unfold new_mol in H. destruct (negb (t_ok tok)); [discriminate|]. injection H as <-.
    eexists. split; [reflexivity|]. split; [reflexivity|]. split; [reflexivity|exact Etok].
Qed.

Lemma add_unit_post rsv s ei g :
  GInv rsv g ->
  post (add_unit s ei g) (fun g' => GInv rsv g' /\ exists rt, m_res g' = m_res g ++ [rt] /\ res_unit s ei rt).
Proof.
  intros Hg. unfold add_unit. eapply post_bind; [apply post_true|]. intros i _.
  destruct (nth_error (m_open g) i) as [sb|]; [|apply post_fail].
  eapply post_bind; [apply post_true|]. intros k _.
  match goal with |- post (match ?x with _ => _ end) _ => destruct x as [[[kind toks] [[ti bi] d]]|] eqn:Ek end; [|apply post_fail].
  destruct (nth_error toks ti) as [tok|] eqn:Etok; [|apply post_fail].
  apply post_lift. intros g' H. split; [eapply attach_inv; eauto|].
  exists (mkref ei kind ti, tok). split; [eapply attach_res; eauto|]. split; [reflexivity|].
  cbn [fst snd mkref r_kind r_idx]. destruct (Nat.ltb k (length (repb s))).
  - destruct (nth_error (repb s) k); [|discriminate]. cbn [option_map] in Ek. injection Ek as <- <- _. left. auto.
  - destruct (nth_error (endb s) (k - length (repb s))); [|discriminate]. cbn [option_map] in Ek. injection Ek as <- <- _. right. auto.
Qed.

Lemma cap_loop_post s ei fuel : forall rsv g,
  GInv rsv g ->
  post (cap_loop fuel s ei g)
       (fun g' => GInv rsv g' /\ m_open g' = [] /\ exists caps, m_res g' = m_res g ++ caps /\ Forall (res_cap s ei) caps).
Proof.
  induction fuel as [|f IH]; intros rsv g Hg; cbn [cap_loop]; [apply post_nofuel|].
  destruct (m_open g) as [|o op] eqn:Eo.
  - apply post_ret. split; [exact Hg|]. split; [exact Eo|]. exists []. rewrite app_nil_r. split; [reflexivity|constructor].
  - eapply post_bind; [apply post_true|]. intros i _.
    destruct (nth_error (o :: op) i) as [sb|]; [|apply post_fail].
    eapply post_bind; [apply post_true|]. intros k _.
    destruct (nth_error (endb s) k) as [[[ti bi] d]|]; [|apply post_fail].
    destruct (nth_error (s_end s) ti) as [tok|] eqn:Etok; [|apply post_fail].
    eapply post_bind with (Q1 := fun g1 => GInv rsv g1 /\ m_res g1 = m_res g ++ [(mkref ei KEnd ti, tok)]).
    + apply post_lift. intros g1 H. split; [eapply attach_inv; eauto | eapply attach_res; eauto].
    + intros g1 [H1 H2]. eapply post_weaken; [apply IH; exact H1|].
      intros g' (G1 & G2 & caps & G3 & G4). split; [exact G1|]. split; [exact G2|].
      exists ((mkref ei KEnd ti, tok) :: caps). rewrite G3, H2, <- app_assoc. split; [reflexivity|].
      constructor; [split; [reflexivity|split; [reflexivity|exact Etok]]|exact G4].
Qed.

Lemma finalize_post s ei g :
  GInv [] g ->
  post (finalize s ei g)
       (fun g' => GInv [] g' /\ (exists caps, m_res g' = m_res g ++ caps /\ Forall (res_cap s ei) caps) /\
                  (if is_empty_terminal (s_right s) then m_open g' = [] else exists term, m_open g' = [term] /\ In term (m_open g))).
Proof.
  intros Hg. unfold finalize. destruct (is_empty_terminal (s_right s)).
  - apply post_with_fuel. intros f. eapply post_weaken; [apply cap_loop_post; exact Hg|].
    intros g' (G1 & G2 & G3). auto.
  - eapply post_bind; [apply post_true|]. intros inv _.
    eapply post_bind; [apply post_true|]. intros i _.
    destruct (nth_error (m_open g) i) as [term|] eqn:Et; [|apply post_fail].
    eapply post_bind.
    + apply post_with_fuel. intros f. apply cap_loop_post. apply with_open_reserve; eauto.
    + intros g2 (G1 & G2 & caps & G3 & G4). apply post_ret. cbn [with_open m_res m_open] in *.
      split; [apply with_open_unreserve; exact G1|]. split; [exists caps; auto|].
      exists term. rewrite G2. split; [reflexivity|]. eapply nth_error_In; eauto.
Qed.

(* ------------------------------------------------------------------------------------------ *)
(* the growth loop: stop rule (C07) and what it appends *)
Lemma total_cons x l : (total (x :: l) == x + total l)%Q.
Proof. reflexivity. Qed.

Lemma mass_step g g1 rt : GInv [] g -> GInv [] g1 -> m_res g1 = m_res g ++ [rt] -> (m_mass g1 == m_mass g + mass_of rt)%Q.
Proof.
  intros H H1 E. rewrite (gi_mass _ _ H1), (gi_mass _ _ H), E, map_app, total_app.
  cbn [map]. unfold total. cbn [fold_right]. ring.
Qed.

(* [rts]: the residues appended by the growth steps; [units] = the compared values *)
Definition units_ok (base : Q) (rts : list (rref * gtoken)) (us : list Q) : Prop :=
  length rts = length us /\
  forall j u, nth_error us j = Some u -> (u == base + total (map mass_of (firstn (S j) rts)))%Q.

Definition stop_ok (T : Q) (us : list Q) (ex : bool) : Prop :=
  exists front last, us = front ++ [last] /\ Forall (fun u => Qle_bool u T = true) front /\ (ex = false -> Qle_bool last T = false).

Definition grow_post (s : gstoch) (ei : nat) (start T : Q) (g : molgen) (units0 : list Q) (r : molgen * list Q * bool) : Prop :=
  GInv [] (fst (fst r)) /\
  exists rts caps us,
    m_res (fst (fst r)) = m_res g ++ rts ++ caps /\ Forall (res_unit s ei) rts /\ Forall (res_cap s ei) caps /\
    snd (fst r) = units0 ++ us /\ stop_ok T us (snd r) /\ units_ok (m_mass g - start) rts us /\
    (snd r = true -> m_open (fst (fst r)) = [] /\ caps = []).

Lemma grow_loop_post s ei start T fuel : forall g units0,
  GInv [] g -> post (grow_loop fuel s ei start T g units0) (grow_post s ei start T g units0).
Proof.
  induction fuel as [|f IH]; intros g units0 Hg; cbn [grow_loop]; [apply post_nofuel|].
  eapply post_bind; [apply add_unit_post; exact Hg|]. intros g1 (Hg1 & rt & Hres & Hrt).
  pose proof (mass_step _ _ _ Hg Hg1 Hres) as Hm.
  assert (Hadd : (Qred (m_mass g1 - start) == (m_mass g - start) + total (map mass_of (firstn 1 [rt])))%Q).
  { rewrite Qred_correct. cbn [firstn map]. rewrite total_cons. unfold total. cbn [fold_right]. rewrite Hm. ring. }
  destruct (m_open g1) as [|o op] eqn:Eo.
  - apply post_ret. unfold grow_post. split; [exact Hg1|]. cbn [fst snd].
    exists [rt], [], [Qred (m_mass g1 - start)]. rewrite app_nil_r.
    split; [exact Hres|]. split; [constructor; [exact Hrt|constructor]|]. split; [constructor|]. split; [reflexivity|].
    split; [exists [], (Qred (m_mass g1 - start)); split; [reflexivity|split; [constructor|discriminate]]|].
    split; [|auto].
    split; [reflexivity|]. intros [|j] u Hu; cbn [nth_error] in Hu; [|destruct j; discriminate].
    injection Hu as <-. exact Hadd.
  - eapply post_bind; [apply finalize_post; exact Hg1|]. intros fin (Hfin & (caps & Hc1 & Hc2) & _).
    destruct (Qle_bool (Qred (m_mass g1 - start)) T) eqn:Ele.
    + eapply post_weaken; [apply IH; exact Hg1|]. unfold grow_post.
      intros [[fin' units'] ex'] (G1 & rts & caps' & us & G2 & G3 & G4 & G5 & G6 & G7 & G8). cbn [fst snd] in *.
      split; [exact G1|]. exists (rt :: rts), caps', (Qred (m_mass g1 - start) :: us).
      split; [rewrite G2, Hres, <- app_assoc; reflexivity|]. split; [constructor; assumption|]. split; [exact G4|].
      split; [rewrite G5, <- app_assoc; reflexivity|].
      split.
      { destruct G6 as (front & last & -> & F1 & F2). exists (Qred (m_mass g1 - start) :: front), last.
        split; [reflexivity|]. split; [constructor; assumption|exact F2]. }
      split; [|exact G8].
      destruct G7 as [L1 L2]. split; [cbn [length]; congruence|].
      intros [|j] u Hu; cbn [nth_error] in Hu.
      * injection Hu as <-. exact Hadd.
      * apply L2 in Hu. rewrite Hu. cbn [firstn map]. rewrite (total_cons (mass_of rt)). rewrite Hm. ring.
    + apply post_ret. unfold grow_post. split; [exact Hfin|]. cbn [fst snd].
      exists [rt], caps, [Qred (m_mass g1 - start)].
      split; [rewrite Hc1, Hres, <- app_assoc; reflexivity|]. split; [constructor; [exact Hrt|constructor]|]. split; [exact Hc2|].
      split; [reflexivity|].
      split; [exists [], (Qred (m_mass g1 - start)); split; [reflexivity|split; [constructor|auto]]|].
      split; [|discriminate].
      split; [reflexivity|]. intros [|j] u Hu; cbn [nth_error] in Hu; [|destruct j; discriminate].
      injection Hu as <-. exact Hadd.
Qed.

Definition stoch_post (s : gstoch) (ei : nat) (pre : list (rref * gtoken)) (has_prefix : bool) (gi : molgen * sinfo) : Prop :=
  GInv [] (fst gi) /\
  exists st0 rts caps,
    m_res (fst gi) = pre ++ st0 ++ rts ++ caps /\
    (if has_prefix then st0 = [] else exists rt, st0 = [rt] /\ res_cap s ei rt) /\
    Forall (res_unit s ei) rts /\ Forall (res_cap s ei) caps /\
    stop_ok (si_target (snd gi)) (si_units (snd gi)) (si_exhausted (snd gi)) /\
    units_ok 0 rts (si_units (snd gi)) /\
    (si_exhausted (snd gi) = true -> m_open (fst gi) = [] /\ caps = []).

Lemma gen_stoch_post s ei prefix :
  (forall g, prefix = Some g -> GInv [] g) ->
  post (gen_stoch s ei prefix)
       (stoch_post s ei (match prefix with Some g => m_res g | None => [] end) (match prefix with Some _ => true | None => false end)).
Proof.
  intros Hp. unfold gen_stoch. destruct (negb (s_generable s)); [apply post_fail|].
  match goal with |- post (match ?b with _ => _ end) _ => destruct b end; [|apply post_fail].
  eapply post_bind; [apply get_start_post; exact Hp|]. intros g0 [Hg0 Hst].
  eapply post_bind; [apply post_true|]. intros T _.
  eapply post_bind; [apply post_with_fuel; intros f; apply grow_loop_post; exact Hg0|].
  unfold grow_post. intros [[fin units] ex] (G1 & rts & caps & us & G2 & G3 & G4 & G5 & G6 & G7 & G8). cbn [fst snd] in *.
  apply post_ret. unfold stoch_post. split; [exact G1|]. cbn [fst snd si_target si_units si_exhausted]. subst units. cbn [app].
  assert (Hu : units_ok 0 rts us).
  { destruct G7 as [L1 L2]. split; [exact L1|]. intros j u Hj. rewrite (L2 j u Hj). ring. }
  destruct prefix as [g|].
  - exists [], rts, caps. rewrite G2, Hst. cbn [app]. repeat (split; auto).
  - destruct Hst as (rt & Hst & Hrt). exists [rt], rts, caps. rewrite G2, Hst. cbn [app].
    split; [reflexivity|]. split; [exists rt; auto|]. repeat (split; auto).
Qed.

(* ------------------------------------------------------------------------------------------ *)
(* Molecule.generate: the residue list is, element by element and in the written order, the token
   itself / [start end group] ++ growth units ++ capping end groups *)
Inductive elems_res : nat -> list gelem -> list (rref * gtoken) -> list sinfo -> Prop :=
| er_nil ei : elems_res ei [] [] []
| er_tok ei t els res infos :
    elems_res (S ei) els res infos -> elems_res ei (ETok t :: els) ((mkref ei KTok 0, t) :: res) infos
| er_stoch ei (s : gstoch) els st0 rts caps info res infos :
    (st0 = [] \/ exists rt, st0 = [rt] /\ res_cap s ei rt) ->
    Forall (res_unit s ei) rts -> Forall (res_cap s ei) caps ->
    stop_ok (si_target info) (si_units info) (si_exhausted info) -> units_ok 0 rts (si_units info) ->
    elems_res (S ei) els res infos ->
    elems_res ei (EStoch s :: els) (st0 ++ rts ++ caps ++ res) (info :: infos).

Lemma gen_elems_post : forall els ei prefix infos0,
  (forall g, prefix = Some g -> GInv [] g) ->
  post (gen_elems els ei prefix infos0)
       (fun r => forall g, fst r = Some g ->
                 GInv [] g /\ exists res infos, m_res g = match prefix with Some g0 => m_res g0 | None => [] end ++ res /\
                                                 snd r = infos0 ++ infos /\ elems_res ei els res infos).
Proof.
  induction els as [|e els IH]; intros ei prefix infos0 Hp; cbn [gen_elems].
  - apply post_ret. cbn [fst snd]. intros g ->. split; [auto|]. exists [], []. rewrite !app_nil_r. repeat split. constructor.
  - destruct e as [t|s].
    + eapply post_bind; [apply gen_token_post; exact Hp|]. intros g1 [H1 H2].
      eapply post_weaken; [apply IH; intros g' E; injection E as <-; exact H1|].
      intros r Hr g Eg. destruct (Hr g Eg) as (G1 & res & infos & G2 & G3 & G4). split; [exact G1|].
      exists ((mkref ei KTok 0, t) :: res), infos. rewrite G2, H2, <- app_assoc. repeat split; auto. constructor. exact G4.
    + eapply post_bind; [apply gen_stoch_post; exact Hp|].
      unfold stoch_post. intros [g1 info] (H1 & st0 & rts & caps & H2 & H3 & H4 & H5 & H6 & H7 & H8). cbn [fst snd] in *.
      eapply post_weaken; [apply IH; intros g' E; injection E as <-; exact H1|].
      intros r Hr g Eg. destruct (Hr g Eg) as (G1 & res & infos & G2 & G3 & G4). split; [exact G1|].
      exists (st0 ++ rts ++ caps ++ res), (info :: infos). rewrite G2, H2, G3, <- !app_assoc. cbn [app].
      repeat split; auto. constructor; auto. destruct prefix; [left; exact H3|right; exact H3].
Qed.

Theorem run_gen_inv els pk tg g infos st :
  run_gen els pk tg = Done (Some g, infos) st -> GInv [] g /\ elems_res 0 els (m_res g) infos.
Proof.
  unfold run_gen, gen_molecule. intros H.
  pose proof (gen_elems_post els 0 None [] (fun g E => ltac:(discriminate)) _ _ _ H g eq_refl) as (G1 & res & infos' & G2 & G3 & G4).
  cbn [fst snd app] in *. subst. split; assumption.
Qed.

(* ------------------------------------------------------------------------------------------ *)
(* consequences of the invariant *)
Lemma compatible_spec a b : compatible a b = true -> compat_spec a b.
Proof. rewrite <- src_compat_model. apply src_compat_iff. Qed.

Lemma compat_spec_sym a b : compat_spec a b -> compat_spec b a.
Proof. unfold compat_spec, conj_sym. intros (H1 & H2 & H3 & H4 & H5). repeat split; auto; tauto. Qed.

Lemma res_keys_fst n tok x : In x (res_keys n tok) -> fst x = n.
Proof. unfold res_keys. intros H. apply in_map_iff in H as (k & <- & _). reflexivity. Qed.

Lemma all_keys_from_ge n res x : In x (all_keys_from n res) -> (n <= fst x)%nat.
Proof.
  revert n; induction res as [|rt res IH]; intros n H; cbn [all_keys_from] in H; [contradiction|].
  apply in_app_or in H as [H|H]; [apply res_keys_fst in H; lia | apply IH in H; lia].
Qed.

Lemma NoDup_app_disj {A} (l1 l2 : list A) : NoDup l1 -> NoDup l2 -> (forall x, In x l1 -> In x l2 -> False) -> NoDup (l1 ++ l2).
Proof.
  induction l1 as [|a l1 IH]; intros H1 H2 Hd; cbn [app]; [exact H2|].
  inversion H1; subst. constructor.
  - intros Hin. apply in_app_or in Hin as [Hin|Hin]; [auto|]. apply (Hd a); [left; reflexivity|exact Hin].
  - apply IH; auto. intros x Hx1 Hx2. apply (Hd x); [right; exact Hx1|exact Hx2].
Qed.

Lemma NoDup_all_keys_from n res : NoDup (all_keys_from n res).
Proof.
  revert n; induction res as [|rt res IH]; intros n; cbn [all_keys_from]; [constructor|].
  apply NoDup_app_disj.
  - unfold res_keys. apply FinFun.Injective_map_NoDup; [|apply seq_NoDup]. intros a b E. congruence.
  - apply IH.
  - intros x H1 H2. apply res_keys_fst in H1. apply all_keys_from_ge in H2. lia.
Qed.

Lemma cnt_le_1 g x : (cnt x (all_keys g) <= 1)%nat.
Proof. apply NoDup_count_occ. apply NoDup_all_keys_from. Qed.

(* no descriptor instance is used twice, and none is both used and still open (C04 iv) *)
Theorem ginv_used_once g : GInv [] g -> NoDup (used g ++ map key (m_open g)).
Proof.
  intros H. apply (NoDup_count_occ kdec). intros x. fold (cnt x (used g ++ map key (m_open g))). rewrite cnt_app.
  pose proof (gi_count _ _ H x). pose proof (cnt_le_1 g x). cbn [map] in *. change (cnt x []) with 0%nat in *. lia.
Qed.

(* fully generated: every descriptor instance of every residue formed exactly one bond (C06) *)
Theorem ginv_complete g : GInv [] g -> m_open g = [] -> forall x, In x (all_keys g) -> cnt x (used g) = 1%nat.
Proof.
  intros H Ho x Hx. pose proof (gi_count _ _ H x) as C. rewrite Ho in C. cbn [map] in C. change (cnt x []) with 0%nat in C.
  pose proof (cnt_le_1 g x). assert (cnt x (all_keys g) > 0)%nat by (apply count_occ_In; exact Hx). lia.
Qed.

(* every key of a residue's descriptors is a key of the molecule *)
Lemma all_keys_from_In res : forall n m ref tok k,
  nth_error res m = Some (ref, tok) -> (k < length (t_bds tok))%nat -> In ((n + m)%nat, k) (all_keys_from n res).
Proof.
  induction res as [|rt res IH]; intros n [|m] ref tok k H Hk; cbn [nth_error all_keys_from] in *; try discriminate.
  - injection H as ->. apply in_or_app. left. unfold res_keys. cbn [snd]. rewrite Nat.add_0_r.
    apply in_map. apply in_seq. lia.
  - apply in_or_app. right. replace (n + S m)%nat with (S n + m)%nat by lia. eapply IH; eauto.
Qed.

(* the residue graph is a rooted tree in creation order (C05): edge k joins residue k+1 to an earlier one *)
Theorem ginv_edges g : GInv [] g ->
  (length (m_edges g) + 1 = length (m_res g))%nat /\
  forall k p c o, nth_error (m_edges g) k = Some (p, c, o) -> c = S k /\ (p <= k)%nat.
Proof.
  intros H. unfold m_edges. rewrite map_length. split; [apply (gi_len _ _ H)|].
  intros k p c o E. rewrite nth_error_map in E. destruct (nth_error (m_log g) k) as [r|] eqn:Er; [|discriminate].
  unfold edge_of in E. injection E as <- <- _. apply (gi_tree _ _ H). exact Er.
Qed.

(* ... hence connected: every residue is linked to residue 0 *)
Inductive linked (edges : list (nat * nat * order)) : nat -> nat -> Prop :=
| l_refl n : linked edges n n
| l_step p c o m : In (p, c, o) edges -> linked edges p m -> linked edges c m.

Theorem ginv_connected g : GInv [] g -> forall n, (n < length (m_res g))%nat -> linked (m_edges g) n 0.
Proof.
  intros H n. induction n as [n IH] using lt_wf_ind. intros Hn.
  destruct n as [|k]; [constructor|].
  destruct (ginv_edges g H) as [L E].
  destruct (nth_error (m_edges g) k) as [[[p c] o]|] eqn:Ek.
  - destruct (E _ _ _ _ Ek) as [-> Hp]. eapply l_step; [eapply nth_error_In; exact Ek|]. apply IH; lia.
  - apply nth_error_None in Ek. lia.
Qed.

(* one inter-residue bond per residue edge, in the same order (by construction of the log) *)
Theorem bonds_edges_biject g : length (m_bonds g) = length (m_edges g) /\
  forall k r, nth_error (m_log g) k = Some r ->
    nth_error (m_bonds g) k = Some (bond_of r) /\ nth_error (m_edges g) k = Some (edge_of r).
Proof.
  unfold m_bonds, m_edges. rewrite !map_length. split; [reflexivity|]. intros k r H. rewrite !nth_error_map, H. split; reflexivity.
Qed.

(* well-formed input tokens: every descriptor sits on an atom of its token *)
Definition wf_tok (tok : gtoken) : Prop :=
  Forall (fun d => exists a, d_atom d = Some a /\ (0 <= a < t_natoms tok)%Z) (t_bds tok).

Lemma off_succ res n rt : nth_error res n = Some rt -> off res (S n) = (off res n + natoms_of rt)%Z.
Proof.
  revert n; induction res as [|x res IH]; intros [|n] H; cbn [nth_error] in H; try discriminate.
  - injection H as ->. unfold off. cbn [firstn map]. change (sumZ []) with 0%Z. change (sumZ [natoms_of rt]) with (natoms_of rt + 0)%Z. lia.
  - apply IH in H. unfold off in *. rewrite !firstn_cons. cbn [map].
    change (sumZ (natoms_of x :: map natoms_of (firstn (S n) res))) with (natoms_of x + sumZ (map natoms_of (firstn (S n) res)))%Z.
    change (sumZ (natoms_of x :: map natoms_of (firstn n res))) with (natoms_of x + sumZ (map natoms_of (firstn n res)))%Z. lia.
Qed.

(* an instance's atom lies inside the atom range of its residue *)
Lemma inst_atom_range res o :
  inst_ok res o -> (forall rt, In rt res -> wf_tok (snd rt)) ->
  exists rt, nth_error res (o_node o) = Some rt /\
             (off res (o_node o) <= atom_of o < off res (S (o_node o)))%Z.
Proof.
  intros (ref & tok & d & H1 & H2 & H3) Hwf. exists (ref, tok). split; [exact H1|].
  rewrite (off_succ _ _ _ H1). unfold natoms_of. cbn [snd].
  assert (W : wf_tok tok) by (apply (Hwf (ref, tok)); eapply nth_error_In; eauto).
  unfold wf_tok in W. rewrite Forall_forall in W. destruct (W d) as (a & Ea & Ra); [eapply nth_error_In; eauto|].
  unfold core in H3. injection H3 as _ _ _ Hat. unfold atom_of. rewrite Hat. cbn [shift_descr d_atom]. rewrite Ea. cbn [option_map]. lia.
Qed.

(* every attach joins a still-open descriptor of an earlier residue with a descriptor of the fresh
   residue, the two compatible (hence of one bond order), on atoms of those two residues (C04) *)
Theorem ginv_attach_sound g : GInv [] g -> forall k r, nth_error (m_log g) k = Some r ->
  compat_spec (o_d (a_self r)) (o_d (a_other r)) /\
  d_order (o_d (a_self r)) = d_order (o_d (a_other r)) /\
  inst_ok (m_res g) (a_self r) /\ inst_ok (m_res g) (a_other r) /\
  o_node (a_other r) = S k /\ (o_node (a_self r) <= k)%nat /\
  bond_of r = (atom_of (a_self r), atom_of (a_other r), d_order (o_d (a_other r))).
Proof.
  intros H k r Hr. pose proof (gi_compat _ _ H) as C. rewrite Forall_forall in C.
  specialize (C r (nth_error_In _ _ Hr)). apply compatible_spec in C. apply compat_spec_sym in C.
  pose proof (gi_log _ _ H) as L. rewrite Forall_forall in L. destruct (L r (nth_error_In _ _ Hr)) as [L1 L2].
  destruct (gi_tree _ _ H _ _ Hr) as [T1 T2].
  assert (O : d_order (o_d (a_self r)) = d_order (o_d (a_other r))) by (destruct C as (_ & _ & _ & O & _); exact O).
  repeat split; auto; try apply C. unfold bond_of. rewrite O. reflexivity.
Qed.

Lemma elems_res_toks ei els res infos : elems_res ei els res infos ->
  forall rt, In rt res -> exists e, In e els /\
    match e with
    | ETok t => snd rt = t
    | EStoch s => In (snd rt) (s_rep s) \/ In (snd rt) (s_end s)
    end.
Proof.
  induction 1 as [ei|ei t els res infos H IH|ei s els st0 rts caps info res infos Hst Hr Hc _ _ H IH]; intros rt Hin.
  - contradiction.
  - destruct Hin as [<-|Hin]; [exists (ETok t); split; [left; reflexivity|reflexivity]|].
    destruct (IH rt Hin) as (e & E1 & E2). exists e. split; [right; exact E1|exact E2].
  - assert (Hcap : forall x, res_cap s ei x -> In (snd x) (s_end s)) by (intros x (_ & _ & Hx); eapply nth_error_In; eauto).
    assert (Hun : forall x, res_unit s ei x -> In (snd x) (s_rep s) \/ In (snd x) (s_end s)).
    { intros x (_ & [[_ Hx]|[_ Hx]]); [left|right]; eapply nth_error_In; eauto. }
    apply in_app_or in Hin as [Hin|Hin].
    { exists (EStoch s). split; [left; reflexivity|]. destruct Hst as [->|(x & -> & Hx)]; [contradiction|].
      destruct Hin as [<-|[]]. right. auto. }
    apply in_app_or in Hin as [Hin|Hin].
    { exists (EStoch s). split; [left; reflexivity|]. rewrite Forall_forall in Hr. auto. }
    apply in_app_or in Hin as [Hin|Hin].
    { exists (EStoch s). split; [left; reflexivity|]. rewrite Forall_forall in Hc. right. auto. }
    destruct (IH rt Hin) as (e & E1 & E2). exists e. split; [right; exact E1|exact E2].
Qed.

(* ------------------------------------------------------------------------------------------ *)
(* one target per stochastic object (C07/C09): drawn targets are consumed one per EStoch element *)
Definition dpost {A} (m : run A) (n : nat) : Prop :=
  forall st a st', m st = Done a st' -> length (targets st) = (length (targets st') + n)%nat.
Lemma dpost_ret {A} (a : A) : dpost (ret a) 0.
Proof. intros st b st' E. injection E as _ <-. lia. Qed.
Lemma dpost_fail {A} e s : dpost (@fail A e s) 0.
Proof. intros st a st' E. discriminate. Qed.
Lemma dpost_failn {A} e s n : dpost (@fail A e s) n.
Proof. intros st a st' E. discriminate. Qed.
Lemma dpost_bind {A B} (m : run A) (k : A -> run B) n1 n2 : dpost m n1 -> (forall a, dpost (k a) n2) -> dpost (rbind m k) (n1 + n2).
Proof.
  intros H1 H2 st b st' E. apply rbind_done in E as (a & st1 & E1 & E2). apply H1 in E1. apply H2 in E2. lia.
Qed.
Lemma dpost_bind0 {A B} (m : run A) (k : A -> run B) n : dpost m 0 -> (forall a, dpost (k a) n) -> dpost (rbind m k) n.
Proof. intros H1 H2. change n with (0 + n)%nat. apply dpost_bind; assumption. Qed.
Lemma dpost_lift {A} (r : result A) : dpost (lift r) 0.
Proof. destruct r; [apply dpost_ret|apply dpost_fail]. Qed.
Lemma dpost_nofuel {A} n : dpost (fun _ : rstate => @OutOfFuel A) n.
Proof. intros st a st' E. discriminate. Qed.
Lemma dpost_with_fuel {A} (F : nat -> run A) n : (forall f, dpost (F f) n) -> dpost (with_fuel F) n.
Proof. intros H st a st' E. unfold with_fuel in E. eapply H; eauto. Qed.
Lemma dpost_pick c p : dpost (pick c p) 0.
Proof.
  intros st a st' E. unfold pick in E. destruct (picks st); [discriminate|].
  destruct (nth_error c n); [|discriminate]. destruct (nth_error p n); [|discriminate].
  destruct (Qle_bool _ _); [discriminate|]. injection E as _ <-. cbn [targets]. lia.
Qed.
Lemma dpost_draw : dpost draw 1.
Proof. intros st a st' E. unfold draw in E. destruct (targets st) eqn:Et; [discriminate|]. injection E as _ <-. cbn [targets length]. lia. Qed.
Lemma dpost_choose bds bond : dpost (choose bds bond) 0.
Proof.
  unfold choose. destruct (map_opt _ _); [|apply dpost_fail]. destruct (compat_idx bds bond); [apply dpost_fail|].
  destruct (Qeq_bool _ _); [apply dpost_fail|]. destruct (existsb _ _); [apply dpost_fail|]. apply dpost_pick.
Qed.
Ltac dpw extra :=
  repeat first
    [ extra
    | apply dpost_ret | apply dpost_fail | apply dpost_lift | apply dpost_choose | apply dpost_pick | apply dpost_nofuel
    | apply dpost_bind0; [|intros ?]
    | match goal with
      | |- dpost (match ?x with _ => _ end) _ => destruct x
      | |- dpost (if ?x then _ else _) _ => destruct x
      end ].
Lemma dpost_gen_token tok ei prefix : dpost (gen_token tok ei prefix) 0.
Proof. unfold gen_token. dpw ltac:(fail). Qed.
Lemma dpost_get_start s ei prefix : dpost (get_start s ei prefix) 0.
Proof. unfold get_start. dpw ltac:(fail). Qed.
Lemma dpost_add_unit s ei g : dpost (add_unit s ei g) 0.
Proof. unfold add_unit. dpw ltac:(fail). Qed.
Lemma dpost_cap_loop s ei fuel : forall g, dpost (cap_loop fuel s ei g) 0.
Proof. induction fuel as [|f IH]; intros g; cbn [cap_loop]; dpw ltac:(apply IH). Qed.
Lemma dpost_finalize s ei g : dpost (finalize s ei g) 0.
Proof. unfold finalize. dpw ltac:(apply dpost_with_fuel; intros ?; apply dpost_cap_loop). Qed.
Lemma dpost_grow_loop s ei start T fuel : forall g units, dpost (grow_loop fuel s ei start T g units) 0.
Proof.
  induction fuel as [|f IH]; intros g units; cbn [grow_loop];
    dpw ltac:(first [apply dpost_add_unit | apply dpost_finalize | apply IH]).
Qed.
Lemma dpost_gen_stoch s ei prefix : dpost (gen_stoch s ei prefix) 1.
Proof.
  unfold gen_stoch. destruct (negb _); [apply dpost_failn|]. match goal with |- dpost (match ?b with _ => _ end) _ => destruct b end; [|apply dpost_failn].
  apply dpost_bind0; [apply dpost_get_start|]. intros g0.
  change 1%nat with (1 + 0)%nat. apply dpost_bind; [apply dpost_draw|]. intros T.
  apply dpost_bind0; [apply dpost_with_fuel; intros f; apply dpost_grow_loop|]. intros [[fin units] ex]. apply dpost_ret.
Qed.
Fixpoint count_stoch (els : list gelem) : nat :=
  match els with [] => 0 | ETok _ :: r => count_stoch r | EStoch _ :: r => S (count_stoch r) end.
Lemma dpost_gen_elems : forall els ei prefix infos, dpost (gen_elems els ei prefix infos) (count_stoch els).
Proof.
  induction els as [|e els IH]; intros ei prefix infos; cbn [gen_elems count_stoch]; [apply dpost_ret|].
  destruct e.
  - apply dpost_bind0; [apply dpost_gen_token|]. intros g. apply IH.
  - change (S (count_stoch els)) with (1 + count_stoch els)%nat. apply dpost_bind; [apply dpost_gen_stoch|]. intros gi. apply IH.
Qed.

Lemma elems_res_infos ei els res infos : elems_res ei els res infos ->
  length infos = count_stoch els /\ Forall (fun i => stop_ok (si_target i) (si_units i) (si_exhausted i)) infos.
Proof.
  induction 1 as [ei|ei t els res infos H [IH1 IH2]|ei s els st0 rts caps info res infos Hst Hr Hc Hs Hu H [IH1 IH2]]; cbn [count_stoch length].
  - split; [reflexivity|constructor].
  - split; assumption.
  - split; [congruence|constructor; assumption].
Qed.

Theorem run_gen_draws els pk tg g infos st :
  run_gen els pk tg = Done (Some g, infos) st ->
  length tg = (length (targets st) + count_stoch els)%nat /\ length infos = count_stoch els.
Proof.
  intros H. split.
  - apply (dpost_gen_elems els 0 None [] _ _ _ H).
  - apply run_gen_inv in H as [_ H]. apply elems_res_infos in H as [H _]. exact H.
Qed.
