(* C09 / C11 over exact rationals: the stop event, the interval rule (telescoping), the closed form
   of the Flory-Schulz partial sums, dispatch of the translated get_distribution. *)
From Coq Require Import List ZArith QArith Qfield Qpower Lqa Lia Bool String.
From GBS Require Import Model.PyStr Model.DistFam Model.Dist Src.SrcDist.
Import ListNotations.
Open Scope Q_scope.

(* ---- the stop event ---- *)
Lemma stop_index_from_spec ms T : forall k n,
  stop_index_from k ms T = Some n <->
  exists j m, n = (k + j)%nat /\ nth_error ms j = Some m /\ T < m /\ forall i mi, (i < j)%nat -> nth_error ms i = Some mi -> mi <= T.
Proof.
  induction ms as [|m0 ms IH]; intros k n; cbn [stop_index_from].
  - split; [discriminate|]. intros (j & m & _ & H & _). destruct j; discriminate.
  - destruct (Qle_bool m0 T) eqn:E.
    + rewrite IH. apply Qle_bool_iff in E. split.
      * intros (j & m & -> & H1 & H2 & H3). exists (S j), m. split; [lia|]. split; [exact H1|]. split; [exact H2|].
        intros [|i] mi Hi Hn; cbn [nth_error] in Hn; [injection Hn as <-; exact E|]. apply (H3 i mi); [lia|exact Hn].
      * intros ([|j] & m & -> & H1 & H2 & H3); cbn [nth_error] in H1.
        -- injection H1 as <-. lra.
        -- exists j, m. split; [lia|]. split; [exact H1|]. split; [exact H2|]. intros i mi Hi Hn. apply (H3 (S i) mi); [lia|exact Hn].
    + assert (T < m0) by (apply Qnot_le_lt; intros L; apply Qle_bool_iff in L; congruence). split.
      * intros H0; injection H0 as <-. exists O, m0. split; [lia|]. split; [reflexivity|]. split; [assumption|]. intros i mi Hi; lia.
      * intros ([|j] & m & -> & H1 & H2 & H3); [f_equal; lia|].
        exfalso. specialize (H3 O m0 ltac:(lia) eq_refl). lra.
Qed.

(* block size n  <=>  M_{n-1} <= T < M_n  (all earlier cumulative masses <= T) *)
Theorem stop_event ms T n :
  stop_index ms T = Some n <->
  exists m, (1 <= n)%nat /\ nth_error ms (n - 1) = Some m /\ T < m /\ forall i mi, (i < n - 1)%nat -> nth_error ms i = Some mi -> mi <= T.
Proof.
  unfold stop_index. rewrite stop_index_from_spec. split.
  - intros (j & m & -> & H1 & H2 & H3). exists m. replace (1 + j - 1)%nat with j by lia. repeat split; auto. lia.
  - intros (m & Hn & H1 & H2 & H3). exists (n - 1)%nat, m. repeat split; auto. lia.
Qed.

(* for increasing cumulative masses the event is just the interval [M_{n-1}, M_n) *)
Theorem stop_event_increasing ms T n m mprev :
  (forall i j a b, (i < j)%nat -> nth_error ms i = Some a -> nth_error ms j = Some b -> a < b) ->
  (2 <= n)%nat -> nth_error ms (n - 1) = Some m -> nth_error ms (n - 2) = Some mprev ->
  (stop_index ms T = Some n <-> mprev <= T /\ T < m).
Proof.
  intros Hinc Hn Hm Hp. rewrite stop_event. split.
  - intros (m' & _ & H1 & H2 & H3). rewrite Hm in H1. injection H1 as <-. split; [|exact H2].
    apply (H3 (n - 2)%nat); [lia|exact Hp].
  - intros [H1 H2]. exists m. repeat split; auto; [lia|]. intros i mi Hi Hmi.
    destruct (Nat.eq_dec i (n - 2)) as [->|Hne]; [rewrite Hp in Hmi; injection Hmi as <-; exact H1|].
    assert (mi < mprev) by (apply (Hinc i (n - 2)%nat); auto; lia). lra.
Qed.

(* ---- interval rule: cdf(hi) - cdf(lo) = sum of the masses in (lo, hi] for ANY mass function ---- *)
Theorem interval_is_cdf_difference (f : nat -> Q) lo d :
  sum_to f (lo + d) - sum_to f lo == sum_to (fun k => f (lo + k)%nat) d.
Proof.
  induction d as [|d IH]; [rewrite Nat.add_0_r; cbn; ring|].
  rewrite Nat.add_succ_r. cbn [sum_to]. rewrite <- IH, Nat.add_succ_r. ring.
Qed.

(* ---- Flory-Schulz: closed form of the partial sums, for every rational a <> 1 ---- *)
Lemma Qpower_succ q (n : nat) : ~ q == 0 -> q ^ (Z.of_nat (S n)) == q * q ^ (Z.of_nat n).
Proof. intros H. rewrite Nat2Z.inj_succ, <- Z.add_1_r, Qpower_plus by exact H. cbn. ring. Qed.

Theorem fs_partial_sum a n : ~ 1 - a == 0 ->
  fs_cdf a n == 1 - (1 - a) ^ (Z.of_nat n) * (1 + inject_Z (Z.of_nat n) * a).
Proof.
  intros Ha. unfold fs_cdf. induction n as [|n IH]; [cbn [sum_to Z.of_nat Qpower inject_Z]; ring|].
  cbn [sum_to]. rewrite IH. unfold fs_pmf.
  replace (Z.of_nat (S n) - 1)%Z with (Z.of_nat n) by lia.
  rewrite (Qpower_succ (1 - a) n Ha).
  rewrite Nat2Z.inj_succ, <- Z.add_1_r, inject_Z_plus. change (inject_Z 1) with 1. ring.
Qed.

Theorem fs_pmf_nonneg a k : 0 <= a -> a <= 1 -> 0 <= fs_pmf a k.
Proof.
  intros H0 H1. unfold fs_pmf. apply Qmult_le_0_compat; [apply Qmult_le_0_compat; [apply Qmult_le_0_compat; assumption|]|].
  - change 0 with (inject_Z 0). rewrite <- Zle_Qle. lia.
  - apply Qpower_0_le. lra.
Qed.

(* ---- dispatch (over the TRANSLATED get_distribution) ---- *)
Theorem dispatch_names :
  dispatch (lit "flory_schulz(0.1)") = Some FFlorySchulz /\ dispatch (lit "gauss(100, 20)") = Some FGauss /\
  dispatch (lit "uniform(12, 72)") = Some FUniform /\ dispatch (lit "schulz_zimm(5000, 4500)") = Some FSchulzZimm /\
  dispatch (lit "log_normal(50, 1.1)") = Some FLogNormal /\ dispatch (lit "poisson(65)") = Some FPoisson.
Proof. repeat split; vm_compute; reflexivity. Qed.

(* every canonical name reaches the family whose constructor accepts that name as prefix: no family is
   shadowed by another one's substring *)
Theorem dispatch_prefix_consistent : forall f, dispatch (required_prefix f) = Some f.
Proof. intros []; vm_compute; reflexivity. Qed.

Theorem dispatch_unknown t :
  contains (lit "flory_schulz") t = false -> contains (lit "gauss") t = false -> contains (lit "uniform") t = false ->
  contains (lit "schulz_zimm") t = false -> contains (lit "log_normal") t = false -> contains (lit "poisson") t = false ->
  dispatch t = None.
Proof. intros H1 H2 H3 H4 H5 H6. unfold dispatch. rewrite H1, H2, H3, H4, H5, H6. reflexivity. Qed.
