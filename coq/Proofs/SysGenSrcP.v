(* Tie T for ensemble generation: Src/SrcSysGen.v holds the decision expressions of System.generable, system_mass, generator and
   generate as REGENERATED from system.py (their statement skeletons are checked by the translator).  The loop and the guards are
   written once more over those expressions and proved equal to Model/SysGen.v, which the C13 / C14 theorems are about. *)
From Coq Require Import List ZArith QArith Bool String Lia.
From GBS Require Import Model.PyStr Model.Num Model.Bond Model.Select Model.Sys Model.SysGen Src.SrcSysGen.
Import ListNotations.
Open Scope Q_scope.

(* while <continues>: generate; add the mass; if <member bad>: raise; yield *)
Fixpoint sys_loop_src (S acc : Q) (stream : list member) : lres :=
  if iter_continues acc S then
    match stream with
    | [] => LNeed
    | m :: r => if iter_member_bad (mb_full m) then LErr else LYield m (sys_loop_src S (acc + mb_mass m) r)
    end
  else LStop.

Theorem sys_loop_is_source : forall stream S acc, sys_loop_src S acc stream = sys_loop S acc stream.
Proof.
  induction stream as [|m r IH]; intros S acc; cbn [sys_loop_src sys_loop]; unfold iter_continues; [reflexivity|].
  destruct (Qlt_bool acc S); [|reflexivity]. unfold iter_member_bad. destruct (mb_full m); cbn [negb]; [rewrite IH; reflexivity|reflexivity].
Qed.

(* both entry points raise exactly when the system is not generable *)
Definition guard_src (generable : bool) (c : call) : bool :=
  match c with CIterate => negb (iter_refused generable) | CSingle => negb (single_refused generable) end.
Theorem guard_is_source generable c : guard_src generable c = guard generable c.
Proof. destruct c, generable; reflexivity. Qed.

(* System.generable: the flag left by the bookkeeping and every component generable *)
Fixpoint all_generable_src (gs : list bool) : bool :=
  match gs with [] => true | g :: r => if gen_mol_bad g then false else all_generable_src r end.
Definition sys_generable_src (flag : bool) (gs : list bool) : bool := if gen_flag_bad flag then false else all_generable_src gs.
Theorem sys_generable_is_source flag gs : sys_generable_src flag gs = flag && forallb (fun g => g) gs.
Proof.
  unfold sys_generable_src, gen_flag_bad. destruct flag; cbn [negb andb]; [|reflexivity].
  induction gs as [|g r IH]; [reflexivity|]. cbn [all_generable_src forallb]. unfold gen_mol_bad. destruct g; cbn [negb andb]; [exact IH|reflexivity].
Qed.

(* the single-molecule entry point returns only a fully generated molecule of a generable component *)
Definition single_src (generable g full : bool) : bool :=
  if single_refused generable then false else if single_mol_bad g then false else if single_member_bad full then false else true.
Theorem single_is_source generable g full : single_src generable g full = generable && g && full.
Proof. destruct generable, g, full; reflexivity. Qed.

(* System.system_mass: refused when not generable or empty; the masses of the components must not fall below the first by more than 1e-8 *)
Theorem system_mass_guards generable n s0 si :
  mass_refused generable = negb generable /\ mass_empty n = Nat.eqb n 0 /\ mass_inconsistent s0 si = Qlt_bool (1 # 100000000) (s0 - si).
Proof.
  repeat split. unfold mass_empty. destruct n; [reflexivity|]. apply Z.leb_gt. lia.
Qed.
