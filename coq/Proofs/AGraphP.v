(* C17: the stochastic-atom-graph model (Model/AGraph.v): nodes, static edges, soundness and
   completeness of the stochastic / termination links of descriptors without list, and the two
   refutations (transition edges leaving end groups; list descriptors doubling as termination). *)
From Coq Require Import List ZArith QArith Lqa Lia Bool Arith String.
From GBS Require Import Model.PyStr Model.Num Model.Bond Model.Select Model.Gen Model.RGraph Model.AGraph.
Import ListNotations.

(* every static edge is an internal bond of the token, in one of the two directions, and conversely *)
Theorem static_edges_spec off t e :
  In e (static_edges off t) <->
  exists x y ty, In (x, y, ty) (k_bonds t) /\ a_bt e = ty /\ a_kind e = WStatic /\ a_w e = 1%Q /\
                 ((a_u e = (off + x)%Z /\ a_v e = (off + y)%Z) \/ (a_u e = (off + y)%Z /\ a_v e = (off + x)%Z)).
Proof.
  unfold static_edges. rewrite in_flat_map. split.
  - intros ([[x y] ty] & Hin & [<-|[<-|[]]]); exists x, y, ty; cbn; repeat split; auto.
  - intros (x & y & ty & Hin & H1 & H2 & H3 & H4). exists (x, y, ty). split; [exact Hin|].
    destruct e as [u v bt k w]. cbn in *. subst.
    destruct H4 as [[-> ->]|[-> ->]]; [left|right; left]; reflexivity.
Qed.

(* node count: one node per atom of every token *)
Theorem node_count es : fst (atom_graph es) = fold_right Z.add 0%Z (map elem_natoms es).
Proof. reflexivity. Qed.

Lemma elem_natoms_tokens e : elem_natoms e = fold_right Z.add 0%Z (map natoms_tok (toks_of e)).
Proof. reflexivity. Qed.

(* ---- links inside a stochastic object ---- *)
Definition nolist (d : descr) : Prop := forall tr, qtrans d <> Some (Some tr).

(* soundness: an edge emitted for a descriptor without list joins the attachment atoms of two compatible
   descriptors, source on a repeat token, bond order of the source, weight of the partner; stochastic if the
   partner sits on a repeat token, termination if on an end token.  For a list descriptor: see the refutation. *)
Theorem stoch_edges_sound e offs x :
  In x (stoch_edges e offs) ->
  exists ti d tj o, In (ti, d) (flat e) /\ In (tj, o) (flat e) /\ (ti < nrep_of e)%nat /\ compatible d o = true /\
    a_u x = (datom d + off_of offs ti)%Z /\ a_v x = (datom o + off_of offs tj)%Z /\ a_bt x = order_code (d_order d) /\
    ((nolist d /\ (0 < wq o)%Q /\ a_w x = wq o /\ a_kind x = (if Nat.ltb tj (nrep_of e) then WStoch else WTerm)) \/
     (exists tr, qtrans d = Some (Some tr))).
Proof.
  unfold stoch_edges. rewrite in_flat_map. intros ([ti d] & Hd & Hx).
  destruct (negb (Nat.ltb ti (nrep_of e))) eqn:Et; [contradiction|]. apply negb_false_iff, Nat.ltb_lt in Et.
  destruct (qtrans d) as [[tr|]|] eqn:Eq.
  - apply in_flat_map in Hx as ([i p] & Hi & Hx). cbn [fst snd] in Hx.
    destruct (nth_error (flat e) i) as [[tj o]|] eqn:En; [|contradiction].
    destruct (compatible d o && negb (Qle_bool p 0)) eqn:Ec; [|contradiction]. apply andb_true_iff in Ec as [Ec _].
    exists ti, d, tj, o. split; [exact Hd|]. split; [eapply nth_error_In; eauto|]. split; [exact Et|]. split; [exact Ec|].
    destruct Hx as [<-|[<-|[]]]; cbn; repeat split; auto; right; eauto.
  - apply in_flat_map in Hx as ([tj o] & Ho & Hx).
    destruct (compatible d o && negb (Qle_bool (wq o) 0)) eqn:Ec; [|contradiction]. apply andb_true_iff in Ec as [Ec Ep].
    destruct Hx as [<-|[]]. exists ti, d, tj, o. cbn. repeat split; auto. left. split; [intros tr; congruence|]. repeat split; auto.
    apply negb_true_iff in Ep. apply Qnot_le_lt. intros L. apply Qle_bool_iff in L. congruence.
  - apply in_flat_map in Hx as ([tj o] & Ho & Hx).
    destruct (compatible d o && negb (Qle_bool (wq o) 0)) eqn:Ec; [|contradiction]. apply andb_true_iff in Ec as [Ec Ep].
    destruct Hx as [<-|[]]. exists ti, d, tj, o. cbn. repeat split; auto. left. split; [intros tr; congruence|]. repeat split; auto.
    apply negb_true_iff in Ep. apply Qnot_le_lt. intros L. apply Qle_bool_iff in L. congruence.
Qed.

(* completeness: every admissible pair has its edge *)
Theorem stoch_edges_complete e offs ti d tj o :
  In (ti, d) (flat e) -> In (tj, o) (flat e) -> (ti < nrep_of e)%nat -> nolist d -> compatible d o = true -> (0 < wq o)%Q ->
  In {| a_u := (datom d + off_of offs ti)%Z; a_v := (datom o + off_of offs tj)%Z; a_bt := order_code (d_order d);
        a_kind := (if Nat.ltb tj (nrep_of e) then WStoch else WTerm); a_w := wq o |} (stoch_edges e offs).
Proof.
  intros Hd Ho Ht Hn Hc Hw. unfold stoch_edges. apply in_flat_map. exists (ti, d). split; [exact Hd|].
  assert (Et : Nat.ltb ti (nrep_of e) = true) by (apply Nat.ltb_lt; exact Ht). rewrite Et. cbn [negb].
  assert (Hp : negb (Qle_bool (wq o) 0) = true).
  { apply negb_true_iff. destruct (Qle_bool (wq o) 0) eqn:E; [|reflexivity]. apply Qle_bool_iff in E. lra. }
  destruct (qtrans d) as [[tr|]|] eqn:Eq; [exfalso; eapply Hn; eauto| |];
    (apply in_flat_map; exists (tj, o); split; [exact Ho|]; rewrite Hc, Hp; cbn [andb]; left; reflexivity).
Qed.

(* no stochastic / termination edge leaves an end group *)
Theorem stoch_edges_not_from_end e offs x :
  In x (stoch_edges e offs) -> exists ti d, In (ti, d) (flat e) /\ (ti < nrep_of e)%nat /\ a_u x = (datom d + off_of offs ti)%Z.
Proof. intros H. apply stoch_edges_sound in H as (ti & d & tj & o & H1 & _ & H3 & _ & H5 & _). eauto. Qed.

(* ---- transition edges ---- *)
Theorem trans_edges_sound lhs rhs offl offr x :
  In x (trans_edges lhs rhs offl offr) ->
  exists ti dl tj dr, In (ti, dl) (flat lhs) /\ In (tj, dr) (flat rhs) /\ compatible dl dr = true /\
    a_u x = (off_of offl ti + datom dl)%Z /\ a_v x = (off_of offr tj + datom dr)%Z /\ a_bt x = order_code (d_order dl) /\
    a_kind x = WTrans /\ a_w x = wq dr /\
    match rhs with AStoch l _ _ _ => (tj < nrep_of rhs)%nat /\ exists i, inv_terminal l = Some i /\ compatible i dr = true | ATok _ => True end /\
    match lhs with AStoch _ r _ _ => exists i, inv_terminal r = Some i /\ compatible i dl = true | ATok _ => True end.
Proof.
  unfold trans_edges. rewrite in_flat_map. intros ([ti dl] & Hl & Hx). apply in_flat_map in Hx as ([tj dr] & Hr & Hx).
  destruct (negb (compatible dl dr)) eqn:Ec; [contradiction|]. apply negb_false_iff in Ec.
  match type of Hx with In _ (if ?c then _ else _) => destruct c eqn:Ok end; [|contradiction].
  destruct Hx as [<-|[]]. apply andb_true_iff in Ok as [Ok Hinto]. apply andb_true_iff in Ok as [Okr Okl].
  exists ti, dl, tj, dr. cbn. repeat split; auto.
  - destruct rhs as [t|l r rep ends]; [exact I|]. split; [apply Nat.ltb_lt; exact Hinto|].
    destruct (inv_terminal l) as [i|]; [|discriminate]. eauto.
  - destruct lhs as [t|l r rep ends]; [exact I|]. destruct (inv_terminal r) as [i|]; [|discriminate]. eauto.
Qed.

(* ---- refutations on the faithful model ---- *)
Definition sd (s : string) (a : Z) : descr :=
  {| d_sym := lit s; d_id := None; d_weight := Fin 1; d_trans := None; d_order := OSingle; d_pre := []; d_atom := Some a; d_num := 0%Z |}.
Definition mk (n : Z) (bds : list descr) (bonds : list (Z * Z * Z)) : atok :=
  {| k_tok := {| t_natoms := n; t_mass := 1; t_bds := bds; t_ok := true |}; k_bonds := bonds |}.
(* CC{[$][$]CC[$]; [$]OCCN[$]}O : atoms 0-1 prefix, 2-3 repeat unit, 4-7 end group, 8 suffix *)
Definition leak_example : list aelem :=
  [ATok (mk 2 [sd "$" 1] [(0, 1, 1)%Z]);
   AStoch (sd "$" 0) (sd "$" 0) [mk 2 [sd "$" 0; sd "$" 1] [(0, 1, 1)%Z]] [mk 4 [sd "$" 0; sd "$" 3] [(0, 1, 1); (1, 2, 1); (2, 3, 1)]%Z];
   ATok (mk 1 [sd "$" 0] [])].

(* a transition edge towards the suffix leaves an atom (4) of the END group *)
Theorem none_leaves_end_group_refuted :
  exists x, In x (snd (atom_graph leak_example)) /\ a_kind x = WTrans /\ a_u x = 4%Z /\ a_v x = 8%Z.
Proof.
  exists {| a_u := 4; a_v := 8; a_bt := 1; a_kind := WTrans; a_w := 1 |}. split; [|repeat split].
  vm_compute. repeat first [left; reflexivity | right].
Qed.

(* {[<] [<]CC[>|3 0|] [>]} : the descriptor [>|3 0|] carries a list; its stochastic edge 1 -> 0 (weight 3) is
   doubled by a TERMINATION edge 1 -> 0 (weight = the descriptor's total weight) into a repeat unit *)
Definition ld (s : string) (a : Z) (l : option (list num)) (w : Q) : descr :=
  {| d_sym := lit s; d_id := None; d_weight := Fin w; d_trans := l; d_order := OSingle; d_pre := []; d_atom := Some a; d_num := 0%Z |}.
Definition list_example : list aelem :=
  [AStoch (sd "<" 0) (sd ">" 0) [mk 2 [ld "<" 0 None 1; ld ">" 1 (Some [Fin 3; Fin 0]) 3] [(0, 1, 1)%Z]] []].
Theorem termination_into_repeat_unit_refuted :
  exists x, In x (snd (atom_graph list_example)) /\ a_kind x = WTerm /\ a_u x = 1%Z /\ a_v x = 0%Z /\ a_w x = 3%Q.
Proof.
  exists {| a_u := 1; a_v := 0; a_bt := 1; a_kind := WTerm; a_w := 3 |}. split; [|repeat split].
  vm_compute. repeat first [left; reflexivity | right].
Qed.
