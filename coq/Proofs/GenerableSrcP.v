(* Tie T for the generable chain: Src/SrcGenerable.v holds the decision expressions of BondDescriptor.generable, SmilesToken.generable,
   Stochastic.generable and Molecule.generable REGENERATED from the source (statement skeletons checked by the translator).  The chain
   rebuilt from them is proved equal to the models' (Model/Bond.v, Model/Token.v, Model/Stoch.v). *)
From Coq Require Import List ZArith QArith Ascii String Bool Lia.
From GBS Require Import Model.PyStr Model.Num Model.Bond Model.Token Model.Stoch Src.SrcGenerable.
Import ListNotations.

(* ---- the generable chain: descriptor, token, stochastic object ---- *)
Theorem descr_generable_is_source d : descr_generable_src d = generable_descr d.
Proof. reflexivity. Qed.

Fixpoint token_generable_src (bds : list descr) : bool :=
  match bds with [] => true | d :: r => if tok_bond_bad (descr_generable_src d) then false else token_generable_src r end.
Theorem token_generable_is_source t : token_generable_src (k_bds t) = token_generable t.
Proof.
  unfold token_generable. induction (k_bds t) as [|d r IH]; [reflexivity|]. cbn [token_generable_src forallb].
  unfold tok_bond_bad, descr_generable_src. fold (generable_descr d). destruct (generable_descr d); cbn [negb andb]; [exact IH|reflexivity].
Qed.

Fixpoint all_ok_src (bad : bool -> bool) (gs : list bool) : bool :=
  match gs with [] => true | g :: r => if bad g then false else all_ok_src bad r end.
Lemma forallb_map' {A B} (f : A -> B) (p : B -> bool) l : forallb p (map f l) = forallb (fun x => p (f x)) l.
Proof. induction l as [|x r IH]; [reflexivity|]. cbn [map forallb]. rewrite IH. reflexivity. Qed.
Lemma all_ok_negb gs : all_ok_src negb gs = forallb (fun g => g) gs.
Proof. induction gs as [|g r IH]; [reflexivity|]. cbn [all_ok_src forallb]. destruct g; cbn [negb andb]; [exact IH|reflexivity]. Qed.

(* for bond in self.bond_descriptors ...; for token in repeat + end ...; distribution is None; distribution not generable; the flag *)
Definition stoch_generable_src {D} (bds toks : list bool) (dist : option D) (gd flag : bool) : bool :=
  if negb (all_ok_src stoch_bond_bad bds) then false else
  if negb (all_ok_src stoch_token_bad toks) then false else
  if stoch_no_dist dist then false else if stoch_dist_bad gd then false else flag.

Theorem stoch_generable_is_source (s : pstoch) :
  stoch_generable_src (map generable_descr (ps_bds s)) (map token_generable (ps_rep s ++ ps_end s)) (ps_dist s) true true = stoch_generable s.
Proof.
  unfold stoch_generable_src, stoch_generable, stoch_bond_bad, stoch_token_bad, stoch_no_dist, stoch_dist_bad.
  rewrite !all_ok_negb, !forallb_map'.
  destruct (forallb generable_descr (ps_bds s)); cbn [negb andb]; [|reflexivity].
  destruct (forallb token_generable (ps_rep s ++ ps_end s)); cbn [negb andb]; [|reflexivity].
  destruct (ps_dist s); reflexivity.
Qed.
