(* Tie T for the system splitter: Src/SrcSysParse.v holds the string expressions and decisions of System.__init__ REGENERATED from
   system.py (statement skeleton checked).  The splitting loops rebuilt from them are proved equal to Model/SysSplit.v and Model/SystemM.v. *)
From Coq Require Import List ZArith QArith Ascii String Bool Lia.
From GBS Require Import Model.PyStr Model.Num Model.Bond Model.Token Model.Stoch Model.Mol Model.Sys Model.SysSplit Model.SystemM Src.SrcSysParse Proofs.TokenSrcP.
Import ListNotations.
Open Scope Z_scope.

Fixpoint split_system_src (fuel : nat) (text : str) (acc : list str) : result (list str * str) :=
  match fuel with
  | O => Err EFuel "split_system"
  | S f =>
      if sp_continues text then
        let end_pos := sp_end_pos text in
        if sp_unclosed end_pos then Err ERuntime "opening '.|' but no closing '|'" else
        split_system_src f (sp_rest text end_pos) (slice text None (Some end_pos) :: acc)
      else OK (rev acc, text)
  end.

Lemma continues_is text : sp_continues text = negb (find (lit ".|") text <? 0).
Proof. unfold sp_continues. destruct (find (lit ".|") text <? 0) eqn:E; [apply Z.ltb_lt in E; apply Z.leb_gt; lia|apply Z.ltb_ge in E; apply Z.leb_le; lia]. Qed.

Theorem split_system_is_source : forall fuel text acc, split_system_src fuel text acc = split_system fuel text acc.
Proof.
  induction fuel as [|f IH]; intros text acc; [reflexivity|]. cbn [split_system_src split_system]. rewrite continues_is.
  destruct (find (lit ".|") text <? 0); cbn [negb]; [reflexivity|]. cbv zeta. unfold sp_end_pos, sp_unclosed, sp_rest.
  destruct (_ <=? 0); [reflexivity|apply IH].
Qed.

Section SysParseSrc.
  Variable valid_atom : str -> bool.
  Variable fprint : num -> str.

  Fixpoint system_loop_src (fuel : nat) (text : str) (acc : list pmolecule) : result (list pmolecule * str) :=
    match fuel with
    | O => Err EFuel "system_loop"
    | S f =>
        if sp_continues text then
          let end_pos := sp_end_pos text in
          if sp_unclosed end_pos then Err ERuntime "opening '.|' but no closing '|'" else
          do m <- parse_molecule valid_atom fprint (slice text None (Some end_pos));
          system_loop_src f (sp_rest text end_pos) (m :: acc)
        else OK (rev acc, text)
    end.

  Theorem system_loop_is_source : forall fuel text acc, system_loop_src fuel text acc = system_loop valid_atom fprint fuel text acc.
  Proof.
    induction fuel as [|f IH]; intros text acc; [reflexivity|]. cbn [system_loop_src system_loop]. rewrite continues_is.
    destruct (find (lit ".|") text <? 0); cbn [negb]; [reflexivity|]. cbv zeta. unfold sp_end_pos, sp_unclosed, sp_rest.
    destruct (_ <=? 0); [reflexivity|]. destruct (parse_molecule _ _ _); cbn [Bond.bind]; [apply IH|reflexivity].
  Qed.

  (* the text left after the last specifier is a molecule of its own iff it is not empty *)
  Theorem last_piece_is_source (text : str) : sp_last_piece text = match text with [] => false | _ => true end.
  Proof. apply len_pos_is. Qed.
End SysParseSrc.
