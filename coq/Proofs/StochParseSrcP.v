(* Tie T for the stochastic-object parser: Src/SrcStochParse.v holds every string expression and decision of Stochastic.__init__
   REGENERATED from stochastic.py (statement skeleton checked by the translator; _validate and the distribution dispatch are regenerated
   into Src/SrcStoch.v and Src/SrcDist.v).  The parser rebuilt from them is proved equal to Model/Stoch.v's parse_stoch, the function
   of the C02 / C15 object theorems. *)
From Coq Require Import List ZArith QArith Ascii String Bool Lia.
From GBS Require Import Model.PyStr Model.Num Model.Bond Model.Token Model.DistFam Src.SrcDist Model.Stoch Src.SrcStochParse Proofs.StrP Proofs.TokenSrcP.
Import ListNotations.
Open Scope Z_scope.

Fixpoint back_over_src (fuel : nat) (s : str) (i : Z) : Z :=
  match fuel with
  | O => i
  | S f => if (match index s i with Some c => st_back_continues i c | None => false end) then back_over_src f s (i - 1) else i
  end.
Lemma back_over_is_source : forall fuel s i, back_over_src fuel s i = back_over fuel s i.
Proof.
  induction fuel as [|f IH]; intros s i; [reflexivity|]. cbn [back_over_src back_over]. rewrite IH.
  destruct (index s i) as [c|]; [reflexivity|]. rewrite andb_false_r. reflexivity.
Qed.

Section StochSrc.
  Variable valid_atom : str -> bool.

  Fixpoint parse_units_src (pieces : list str) (bds : list descr) (acc : list token) : result (list token * list descr) :=
    match pieces with
    | [] => OK (rev acc, bds)
    | p :: rest =>
        let p' := st_piece p in
        if st_piece_nonempty p' then do t <- parse_token valid_atom p' (Z.of_nat (List.length bds)); parse_units_src rest (bds ++ k_bds t) (t :: acc)
        else parse_units_src rest bds acc
    end.
  Lemma parse_units_is_source : forall pieces bds acc, parse_units_src pieces bds acc = parse_units valid_atom pieces bds acc.
  Proof.
    induction pieces as [|p rest IH]; intros bds acc; [reflexivity|]. cbn [parse_units_src parse_units]. cbv zeta.
    unfold st_piece, st_piece_nonempty. rewrite len_pos_is. destruct (strip p) as [|c r] eqn:E; [apply IH|].
    destruct (parse_token valid_atom (c :: r) _); cbn [Bond.bind]; [apply IH|reflexivity].
  Qed.

  Definition parse_stoch_src (text : str) : result pstoch :=
    let raw := st_raw text in
    match index raw 0 with
    | None => Err EIndex "string index out of range"
    | Some c0 =>
        if st_not_open c0 then Err ERuntime "does not start with '{'" else
        if st_no_close raw then Err ERuntime "does not end with '}'" else
        let middle := st_middle raw in
        match index middle (st_probe_pos middle) with
        | None => Err EIndex "string index out of range"
        | Some c1 =>
            if st_probe_close c1 then Err ERuntime "empty stochastic object" else
            if st_left_unterminated middle then Err ERuntime "unterminated left terminal bond descriptor" else
            do lft <- parse_descr (st_left_text middle) 0 (st_left_pre middle) None;
            let i := st_right_start middle in
            let right_text := st_right_text middle i in
            let i' := back_over_src (List.length middle) middle i in
            let right_pre := st_right_pre middle i' in
            let '(rep_text, end_text) :=
              if st_has_end middle then (st_rep_text_with_end middle, st_end_text middle) else (st_rep_text_no_end middle, []) in
            do r1 <- parse_units_src (split_char (ch ",") rep_text) [] [];
            let '(reps, bds1) := r1 in
            do r2 <- parse_units_src (split_char (ch ",") end_text) bds1 [];
            let '(ends, bds2) := r2 in
            do rgt <- parse_descr right_text (Z.of_nat (List.length bds2)) right_pre None;
            let tail := st_tail raw in
            let dist_text := if st_has_mix tail then st_dist_text_mix tail else st_dist_text tail in
            do dist <- (if st_has_dist dist_text
                        then match dispatch dist_text with
                             | None => Err ERuntime "unknown distribution type"
                             | Some f => if startswith (required_prefix f) (strip_chars dist_strip dist_text) then OK (Some (f, dist_text))
                                         else Err ERuntime "distribution text does not start with its name"
                             end
                        else OK None);
            let n := List.length bds2 in
            if existsb (fun d => match d_trans d with Some l => negb (Nat.eqb (List.length l) n) | None => false end) (bds2 ++ [lft; rgt])
            then Err ERuntime "invalid transition length" else
            OK {| ps_left := lft; ps_right := rgt; ps_rep := reps; ps_end := ends; ps_bds := bds2; ps_dist := dist |}
        end
    end.

  Theorem parse_stoch_is_source text : parse_stoch_src text = parse_stoch valid_atom text.
  Proof.
    unfold parse_stoch_src, parse_stoch. cbv zeta.
    unfold st_raw, st_not_open, st_no_close, st_middle, st_probe_pos, st_probe_close, st_left_unterminated, st_left_text, st_left_pre,
      st_right_start, st_right_text, st_right_pre, st_has_end, st_rep_text_with_end, st_end_text, st_rep_text_no_end, st_tail, st_has_mix,
      st_dist_text_mix, st_dist_text, st_has_dist.
    destruct (index (strip text) 0) as [c0|]; [|reflexivity].
    destruct (negb (Ascii.eqb c0 (ch "{"))); [reflexivity|].
    destruct (rfind (lit "}") (strip text) <? 0); [reflexivity|].
    set (middle := slice (strip text) (Some 1) (Some (rfind (lit "}") (strip text)))).
    destruct (index middle (find (lit "]") middle + 1)) as [c1|]; [|reflexivity].
    destruct (Ascii.eqb c1 (ch "}")); [reflexivity|].
    destruct (find_at (lit "]") middle 1 <=? 0); [reflexivity|].
    match goal with |- Bond.bind ?x _ = Bond.bind ?x _ => destruct x as [lft|e m]; cbn [Bond.bind]; [|reflexivity] end.
    rewrite back_over_is_source.
    destruct (contains (lit ";") middle); rewrite parse_units_is_source;
      (match goal with |- Bond.bind ?x _ = Bond.bind ?x _ => destruct x as [[reps bds1]|e m]; cbn [Bond.bind]; [|reflexivity] end);
      rewrite parse_units_is_source; reflexivity.
  Qed.
End StochSrc.
