(* Tie T for the molecule and mixture parsers: Src/SrcMolParse.v holds every string expression and decision of Molecule.__init__ and
   Mixture.__init__ REGENERATED from molecule.py / mixture.py (statement skeletons checked; the three isinstance tests and the calls of
   _create_compatible_bond_text compared as text; is_compatible regenerated from bond.py).  The parsers rebuilt from them are proved equal
   to Model/Mol.v's parse_mixture / mol_loop / parse_molecule. *)
From Coq Require Import List ZArith QArith Ascii String Bool Lia.
From GBS Require Import Model.PyStr Model.Num Model.Bond Model.Token Model.DistFam Src.SrcDist Model.Stoch Model.Mol Src.SrcBond Proofs.BondP
  Src.SrcMolParse Proofs.StrP Proofs.TokenSrcP Proofs.TotalP.
Import ListNotations.
Open Scope Z_scope.

Definition parse_mixture_src (raw : str) : result pmix :=
  match index raw 0 with
  | None => Err EIndex "string index out of range"
  | Some c =>
      if mx_not_dot c then Err ERuntime "mixture descriptions start with '.'" else
      if mx_is_percent raw then
        match py_float (mx_percent_text raw) with
        | None => Err EValue "could not convert string to float"
        | Some r => if mx_percent_bad r then Err ERuntime "invalid percent" else OK {| mx_abs := None; mx_rel := Some r |}
        end
      else
        match py_float (mx_mass_text raw) with
        | None => OK {| mx_abs := None; mx_rel := None |}
        | Some a => if mx_mass_bad a then Err ERuntime "invalid absolute mass" else OK {| mx_abs := Some a; mx_rel := None |}
        end
  end.
Theorem parse_mixture_is_source raw : parse_mixture_src raw = parse_mixture raw.
Proof. reflexivity. Qed.

Lemma zpos_nat n : Z.ltb 0 (Z.of_nat n) = negb (Nat.eqb n 0).
Proof. destruct n; [reflexivity|]. apply Z.ltb_lt. lia. Qed.
Lemma zeq0_nat n : Z.eqb (Z.of_nat n) 0 = Nat.eqb n 0.
Proof. destruct n; [reflexivity|]. apply Z.eqb_neq. lia. Qed.
Lemma zlt_nat' a b : Z.ltb (Z.of_nat a) (Z.of_nat b) = Nat.ltb a b.
Proof. destruct (Nat.ltb a b) eqn:E; [apply Nat.ltb_lt in E; apply Z.ltb_lt; lia|apply Nat.ltb_ge in E; apply Z.ltb_ge; lia]. Qed.
Lemma zle0_is z : Z.leb 0 z = negb (z <? 0).
Proof. destruct (z <? 0) eqn:E; [apply Z.ltb_lt in E; apply Z.leb_gt; lia|apply Z.ltb_ge in E; apply Z.leb_le; lia]. Qed.

Lemma existsb_ext' {A} (f g : A -> bool) l : (forall a, f a = g a) -> existsb f l = existsb g l.
Proof. intros H. induction l as [|a r IH]; [reflexivity|]. cbn [existsb]. rewrite H, IH. reflexivity. Qed.

Section MolSrc.
  Variable valid_atom : str -> bool.
  Variable fprint : num -> str.

  Fixpoint mol_loop_src (fuel : nat) (text : str) (elems : list melem) : result (str * list melem) :=
    match fuel with
    | O => Err EFuel "fuel"
    | S f =>
        if ml_continues text then
          let pre_token := ml_pre_token text in
          do pre <- (if ml_has_pre pre_token then
                       do p <- tok0 valid_atom pre_token;
                       if ml_has_elements (List.length elems) then
                         match rev elems with
                         | [] => Err EOther "unreachable"
                         | lst :: _ =>
                             do other <- last_descr_of lst;
                             if ml_pre_has_descriptors (List.length (k_bds p)) then
                               let found := existsb (fun bd => match lst with
                                                               | MStoch _ => ml_same_text fprint bd other
                                                               | MTok _ => ml_compatible bd other
                                                               end) (k_bds p) in
                               if ml_none_found found then Err ERuntime "only incompatible bond descriptors with previous element"
                               else OK (Some (pre_token, p))
                             else
                               let pt := ml_prepend (compatible_bond_text other) pre_token in
                               do p2 <- tok0 valid_atom pt; OK (Some (pt, p2))
                         end
                       else OK (Some (pre_token, p))
                     else OK None);
          let text1 := ml_text1 text in
          let ep := ml_end_pos text1 in
          if ml_end_negative ep then Err ERuntime "opening '{' but no closing '}'" else
          let ep := if (match index text1 ep with Some c => ml_dist_follows text1 ep c | None => false end) then ml_end_pos_dist text1 ep else ep in
          do st <- parse_stoch valid_atom (slice text1 None (Some ep));
          do elems' <- (if ml_pre_given (option_map snd pre) then
                          match pre with
                          | None => Err EOther "unreachable"
                          | Some (pt, p) =>
                              let min_expected := if ml_first_element (List.length elems) then 1%nat else 2%nat in
                              if ml_too_few (List.length (k_bds p)) min_expected then
                                let bt := ml_auto_descriptor (compatible_bond_text (ps_left st)) in
                                do p2 <- tok0 valid_atom (pt ++ bt)%list; OK (elems ++ [MTok p2; MStoch st])%list
                              else OK (elems ++ [MTok p; MStoch st])%list
                          end
                        else OK (elems ++ [MStoch st])%list);
          mol_loop_src f (ml_rest text1 ep) elems'
        else OK (text, elems)
    end.

  Theorem mol_loop_is_source : forall fuel text elems, mol_loop_src fuel text elems = mol_loop valid_atom fprint fuel text elems.
  Proof.
    induction fuel as [|f IH]; intros text elems; [reflexivity|]. cbn [mol_loop_src mol_loop].
    unfold ml_continues. rewrite zle0_is. destruct (find (lit "{") text <? 0); cbn [negb]; [reflexivity|]. cbv zeta.
    unfold ml_pre_token, ml_has_pre. rewrite len_pos_is.
    assert (P : (match strip (slice text None (Some (find (lit "{") text))) with
                 | [] => false | _ :: _ => true end = true -> True)) by auto.
    (* the prefix token *)
    match goal with |- Bond.bind ?a _ = Bond.bind ?b _ => assert (E : a = b) end.
    { destruct (strip (slice text None (Some (find (lit "{") text)))) as [|c0 r0] eqn:Ept; [reflexivity|].
      destruct (tok0 valid_atom (c0 :: r0)) as [p|e m]; cbn [Bond.bind]; [|reflexivity].
      unfold ml_has_elements. rewrite zpos_nat. rewrite <- (rev_length elems).
      destruct (rev elems) as [|lst rest]; cbn [List.length Nat.eqb negb]; [reflexivity|].
      destruct (last_descr_of lst) as [other|e m]; cbn [Bond.bind]; [|reflexivity].
      unfold ml_pre_has_descriptors. rewrite zpos_nat. destruct (k_bds p) as [|b0 bs] eqn:Ek; cbn [List.length Nat.eqb negb].
      - unfold ml_prepend. reflexivity.
      - unfold ml_none_found, ml_same_text, ml_compatible.
        assert (Ex : existsb (fun bd => match lst with
                                        | MStoch _ => str_eqb (print_descr fprint false bd) (print_descr fprint false other)
                                        | MTok _ => is_compatible bd other end) (b0 :: bs)
                     = existsb (fun bd => match lst with
                                          | MStoch _ => str_eqb (print_descr fprint false bd) (print_descr fprint false other)
                                          | MTok _ => compatible bd other end) (b0 :: bs)).
        { apply existsb_ext'. intros bd. destruct lst; [apply src_compat_model|reflexivity]. }
        rewrite Ex. destruct (existsb _ (b0 :: bs)); reflexivity. }
    rewrite E. clear E P.
    match goal with |- Bond.bind ?x _ = Bond.bind ?x _ => destruct x as [pre|e m]; cbn [Bond.bind]; [|reflexivity] end.
    unfold ml_text1, ml_end_pos, ml_end_negative.
    set (text1 := strip (slice text (Some (find (lit "{") text)) None)).
    destruct (find (lit "}") text1 + 1 <? 0) eqn:En; [apply Z.ltb_lt in En; pose proof (find_ge_m1 (lit "}") text1); lia|].
    unfold ml_dist_follows, ml_end_pos_dist.
    assert (Ed : (match index text1 (find (lit "}") text1 + 1) with
                  | Some c => (find (lit "}") text1 + 1 <? len text1) && Ascii.eqb c (ch "|")
                  | None => false end)
                 = ((find (lit "}") text1 + 1 <? len text1) && (match index text1 (find (lit "}") text1 + 1) with Some c => Ascii.eqb c (ch "|") | None => false end))).
    { destruct (index text1 _); [reflexivity|]. rewrite andb_false_r. reflexivity. }
    rewrite Ed.
    match goal with |- Bond.bind ?x _ = Bond.bind ?x _ => destruct x as [st|e m]; cbn [Bond.bind]; [|reflexivity] end.
    match goal with |- Bond.bind ?a _ = Bond.bind ?b _ => assert (E : a = b) end.
    { destruct pre as [[pt p]|]; cbn [option_map ml_pre_given]; [|reflexivity].
      unfold ml_first_element, ml_too_few, ml_auto_descriptor. rewrite zeq0_nat, zlt_nat'.
      destruct elems; reflexivity. }
    rewrite E.
    match goal with |- Bond.bind ?x _ = Bond.bind ?x _ => destruct x as [elems'|e m]; cbn [Bond.bind]; [|reflexivity] end.
    unfold ml_rest. apply IH.
  Qed.

  Definition parse_molecule_src (text0 : str) : result pmolecule :=
    let raw := ml_raw text0 in
    do r <- (if ml_has_mix raw then
               let start := ml_mix_start raw in
               let stop := ml_mix_stop raw start in
               let mixture_text := ml_mix_text raw start stop in
               if ml_after_mix_nonempty (ml_after_mix raw stop) then Err ERuntime "does not end with a mixture descriptor"
               else do m <- parse_mixture_src mixture_text; OK (ml_before_mix raw start, Some m)
             else OK (raw, None));
    let '(text, mix) := r in
    do le <- mol_loop_src (S (List.length text)) text [];
    let '(rest, elems) := le in
    if ml_trailing rest then
      do t <- tok0 valid_atom rest;
      do t' <- (if ml_trailing_needs_descriptor (List.length elems) (List.length (k_bds t)) then
                  match rev elems with
                  | lst :: _ => do other <- last_descr_of lst; tok0 valid_atom (compatible_bond_text other ++ rest)%list
                  | [] => Err EOther "unreachable"
                  end
                else OK t);
      OK {| ml_elems := (elems ++ [MTok t'])%list; ml_mix := mix |}
    else OK {| ml_elems := elems; ml_mix := mix |}.

  Theorem parse_molecule_is_source text0 : parse_molecule_src text0 = parse_molecule valid_atom fprint text0.
  Proof.
    unfold parse_molecule_src, parse_molecule. cbv zeta.
    unfold ml_raw, ml_has_mix, ml_mix_start, ml_mix_stop, ml_mix_text, ml_after_mix, ml_after_mix_nonempty, ml_before_mix.
    match goal with |- Bond.bind ?a _ = Bond.bind ?b _ => assert (E : a = b) end.
    { destruct (0 <=? find (lit ".|") (strip text0)); [|reflexivity]. rewrite len_pos_is.
      destruct (strip (slice (strip text0) (Some _) None)); reflexivity. }
    rewrite E.
    match goal with |- Bond.bind ?x _ = Bond.bind ?x _ => destruct x as [[text mix]|e m]; cbn [Bond.bind]; [|reflexivity] end.
    rewrite mol_loop_is_source.
    match goal with |- Bond.bind ?x _ = Bond.bind ?x _ => destruct x as [[rest elems]|e m]; cbn [Bond.bind]; [|reflexivity] end.
    unfold ml_trailing. rewrite len_pos_is. destruct rest as [|c r]; [reflexivity|].
    destruct (tok0 valid_atom (c :: r)) as [t|e m]; cbn [Bond.bind]; [|reflexivity].
    unfold ml_trailing_needs_descriptor. rewrite zpos_nat, zeq0_nat. rewrite <- (rev_length elems).
    destruct (rev elems) as [|lst rs]; cbn [List.length Nat.eqb negb andb]; [reflexivity|].
    destruct (k_bds t); reflexivity.
  Qed.
End MolSrc.
