(* Tie T for the generation layer: Src/SrcGen.v holds the decision expressions of Stochastic.generate (get_start, add_repeat_unit, the
   growth loop, finalize_mol), SmilesToken.generate and the generable chain, REGENERATED from the source; their statement skeletons are
   checked by the translator.  The functions of Model/Gen.v are written once more over those expressions, following the skeleton, and
   proved equal -- for every state of the run monad -- to the model the C04-C08 theorems are about. *)
From Coq Require Import List ZArith QArith Ascii String Bool Lia.
From GBS Require Import Model.PyStr Model.Num Model.Bond Model.Select Model.Sys Model.Gen Src.SrcGen Src.SrcCore Proofs.CoreSrcP.
Import ListNotations.
Open Scope Q_scope.

(* ---- pointwise congruence in the run monad ---- *)
Lemma rbind_ext {A B} (m : run A) (k1 k2 : A -> run B) st :
  (forall a st', k1 a st' = k2 a st') -> rbind m k1 st = rbind m k2 st.
Proof. intros H. unfold rbind. destruct (m st); auto. Qed.
Lemma rbind_ext2 {A B} (m1 m2 : run A) (k1 k2 : A -> run B) st :
  (forall st', m1 st' = m2 st') -> (forall a st', k1 a st' = k2 a st') -> rbind m1 k1 st = rbind m2 k2 st.
Proof. intros Hm H. unfold rbind. rewrite Hm. destruct (m2 st); auto. Qed.
Lemma rbind_assoc {A B C} (m : run A) (k : A -> run B) (h : B -> run C) st :
  rbind (rbind m k) h st = rbind m (fun a => rbind (k a) h) st.
Proof. unfold rbind. destruct (m st); reflexivity. Qed.
Lemma rbind_ret {A B} (a : A) (k : A -> run B) st : rbind (ret a) k st = k a st.
Proof. reflexivity. Qed.
Lemma with_fuel_ext {A} (f1 f2 : nat -> run A) st : (forall n st', f1 n st' = f2 n st') -> with_fuel f1 st = with_fuel f2 st.
Proof. intros H. unfold with_fuel. apply H. Qed.

(* ---- counts compared as Python integers ---- *)
Lemma zne1 n : negb (Z.eqb (Z.of_nat n) 1) = negb (Nat.eqb n 1).
Proof. f_equal. destruct (Nat.eqb n 1) eqn:E; [apply Nat.eqb_eq in E; subst; reflexivity|apply Nat.eqb_neq in E; apply Z.eqb_neq; lia]. Qed.
Lemma zlt_nat a b : Z.ltb (Z.of_nat a) (Z.of_nat b) = Nat.ltb a b.
Proof. destruct (Nat.ltb a b) eqn:E; [apply Nat.ltb_lt in E; apply Z.ltb_lt; lia|apply Nat.ltb_ge in E; apply Z.ltb_ge; lia]. Qed.

(* ---- get_start ---- *)
Definition get_start_src (s : gstoch) (ei : nat) (prefix : option molgen) : run molgen :=
  if no_prefix prefix then
    if left_expects_prefix s then fail ERuntime "prefix expected" else
    rdo k <- choose (descrs_of (endb s)) None ;;
    match nth_error (endb s) k with
    | None => fail EIndex "end bond"
    | Some (ti, _, _) =>
        match nth_error (s_end s) ti with
        | None => fail EIndex "end token"
        | Some tok =>
            if start_token_bad (List.length (t_bds tok)) then fail ERuntime "single bond descriptor expected"
            else lift (new_mol tok (mkref ei KEnd ti))
        end
    end
  else
    match prefix with
    | None => fail EOther "unreachable"
    | Some g =>
        if prefix_open_bad (List.length (m_open g)) then fail ERuntime "single bond descriptor expected" else
        match m_open g with
        | a :: _ =>
            if prefix_mismatch (o_d a) s then fail ERuntime "prefix not compatible with left terminal"
            else ret (with_open g [set_wt a (d_weight (s_left s)) (d_trans (s_left s))])
        | [] => fail EOther "unreachable"
        end
    end.

Theorem get_start_is_source s ei prefix st : get_start_src s ei prefix st = get_start s ei prefix st.
Proof.
  unfold get_start_src, get_start. destruct prefix as [g|]; cbn [no_prefix].
  - unfold prefix_open_bad. rewrite zne1. destruct (m_open g) as [|a [|b r]]; reflexivity.
  - unfold left_expects_prefix. destruct (negb (is_empty_terminal (s_left s))); [reflexivity|].
    apply rbind_ext. intros k st'. destruct (nth_error (endb s) k) as [[[ti bi] d]|]; [|reflexivity].
    destruct (nth_error (s_end s) ti) as [tok|]; [|reflexivity]. unfold start_token_bad. rewrite zne1. reflexivity.
Qed.

(* ---- add_repeat_unit ---- *)
Definition add_unit_src (s : gstoch) (ei : nat) (g : molgen) : run molgen :=
  rdo i <- choose (map o_d (m_open g)) None ;;
  match nth_error (m_open g) i with
  | None => fail EIndex "open"
  | Some sb =>
      rdo k <- (if has_list (o_d sb) then
                  match qtrans (o_d sb), qw (o_d sb) with
                  | Some (Some tr), Some w =>
                      if Qeq_bool w 0 then fail EValue "zero total transition weight"
                      else if existsb (fun x => negb (Qle_bool 0 x)) (trans_law tr w) then fail EValue "negative probability"
                      else pick (seq 0 (List.length tr)) (trans_law tr w)
                  | _, _ => fail EValue "non-finite weight"
                  end
                else match qw (o_d sb) with
                     | _ => choose (descrs_of (repb s)) (Some (o_d sb))
                     end) ;;
      let nrep := List.length (repb s) in
      match (if is_repeat_pick k nrep then option_map (fun x => (KRep, s_rep s, x)) (nth_error (repb s) k)
             else option_map (fun x => (KEnd, s_end s, x)) (nth_error (endb s) (k - nrep))) with
      | None => fail EIndex "connecting bond"
      | Some (kind, toks, (ti, bi, _)) =>
          match nth_error toks ti with
          | None => fail EIndex "token"
          | Some tok => lift (attach g i tok (mkref ei kind ti) bi)
          end
      end
  end.

Theorem add_unit_is_source s ei g st : add_unit_src s ei g st = add_unit s ei g st.
Proof.
  unfold add_unit_src, add_unit. apply rbind_ext. intros i st1.
  destruct (nth_error (m_open g) i) as [sb|]; [|reflexivity].
  apply rbind_ext2.
  - intros st2. unfold has_list, qtrans. destruct (d_trans (o_d sb)) as [l|]; cbn [negb].
    + destruct (map_opt _ l) as [tr|]; cbn [option_map]; [|reflexivity]. destruct (qw (o_d sb)); reflexivity.
    + reflexivity.
  - intros k st2. unfold is_repeat_pick. rewrite zlt_nat. reflexivity.
Qed.

(* ---- the capping loop of finalize_mol ---- *)
Fixpoint cap_loop_src (fuel : nat) (s : gstoch) (ei : nat) (g : molgen) : run molgen :=
  match fuel with
  | O => fun _ => OutOfFuel
  | S f =>
      if cap_continues (List.length (m_open g)) then
        rdo i <- choose (map o_d (m_open g)) None ;;
        match nth_error (m_open g) i with
        | None => fail EIndex "open"
        | Some sb =>
            rdo k <- choose (descrs_of (endb s)) (Some (o_d sb)) ;;
            match nth_error (endb s) k with
            | None => fail EIndex "end bond"
            | Some (ti, bi, _) =>
                match nth_error (s_end s) ti with
                | None => fail EIndex "end token"
                | Some tok =>
                    rdo g' <- lift (attach g i tok (mkref ei KEnd ti) bi) ;;
                    cap_loop_src f s ei g'
                end
            end
        end
      else ret g
  end.

Theorem cap_loop_is_source : forall fuel s ei g st, cap_loop_src fuel s ei g st = cap_loop fuel s ei g st.
Proof.
  induction fuel as [|f IH]; intros s ei g st; [reflexivity|]. cbn [cap_loop_src cap_loop]. unfold cap_continues.
  destruct (m_open g) as [|a r] eqn:Eo; [reflexivity|]. cbn [List.length].
  replace (Z.ltb 0 (Z.of_nat (S (List.length r)))) with true by (symmetry; apply Z.ltb_lt; lia).
  apply rbind_ext. intros i st1. destruct (nth_error (a :: r) i) as [sb|]; [|reflexivity].
  apply rbind_ext. intros k st2. destruct (nth_error (endb s) k) as [[[ti bi] d]|]; [|reflexivity].
  destruct (nth_error (s_end s) ti) as [tok|]; [|reflexivity].
  apply rbind_ext. intros g' st3. apply IH.
Qed.

(* ---- finalize_mol ---- *)
Definition finalize_src (s : gstoch) (ei : nat) (g : molgen) : run molgen :=
  rdo r <- (if right_expects_suffix s then
              rdo inv <- lift (parse_descr (compatible_bond_text (s_right s)) 0%Z [] None) ;;
              rdo i <- choose (map o_d (m_open g)) (Some inv) ;;
              match nth_error (m_open g) i with
              | None => fail EIndex "terminal"
              | Some term => ret (with_open g (remove_nth i (m_open g)), Some term)
              end
            else ret (g, None)) ;;
  rdo g2 <- with_fuel (fun f => cap_loop_src f s ei (fst r)) ;;
  ret (if reinsert (snd r) then match snd r with Some term => with_open g2 (m_open g2 ++ [term]) | None => g2 end else g2).

Lemma rbind_ret_r {A} (m : run A) st : rbind m (fun a => ret a) st = m st.
Proof. unfold rbind, ret. destruct (m st); reflexivity. Qed.

Theorem finalize_is_source s ei g st : finalize_src s ei g st = finalize s ei g st.
Proof.
  unfold finalize_src, finalize, right_expects_suffix. destruct (is_empty_terminal (s_right s)); cbn [negb].
  - rewrite rbind_ret. cbn [fst snd reinsert]. rewrite rbind_ret_r. apply with_fuel_ext. intros n st'. apply cap_loop_is_source.
  - rewrite rbind_assoc. apply rbind_ext. intros inv st1. rewrite rbind_assoc. apply rbind_ext. intros i st2.
    destruct (nth_error (m_open g) i) as [term|]; [|reflexivity].
    rewrite rbind_ret. cbn [fst snd reinsert]. apply rbind_ext2; [|reflexivity].
    intros st3. apply with_fuel_ext. intros n st'. apply cap_loop_is_source.
Qed.

(* ---- the growth loop ---- *)
Lemma mass_exceeded_is mass start T : mass_exceeded mass start T = negb (Qle_bool (Qred (mass - start)) T).
Proof.
  unfold mass_exceeded, Qlt_bool. f_equal.
  destruct (Qle_bool (mass - start) T) eqn:E1, (Qle_bool (Qred (mass - start)) T) eqn:E2; try reflexivity.
  - apply Qle_bool_iff in E1. rewrite <- (Qred_correct (mass - start)) in E1. apply Qle_bool_iff in E1. congruence.
  - apply Qle_bool_iff in E2. rewrite (Qred_correct (mass - start)) in E2. apply Qle_bool_iff in E2. congruence.
Qed.

Fixpoint grow_loop_src (fuel : nat) (s : gstoch) (ei : nat) (start T : Q) (g : molgen) (units : list Q)
  : run (molgen * list Q * bool) :=
  match fuel with
  | O => fun _ => OutOfFuel
  | S f =>
      if growth_loops then
        rdo g1 <- add_unit_src s ei g ;;
        let added := Qred (m_mass g1 - start) in
        if closed_by_growth (List.length (m_open g1)) then ret (g1, (units ++ [added])%list, true)
        else
          rdo fin <- finalize_src s ei g1 ;;
          if mass_exceeded (m_mass g1) start T then ret (fin, (units ++ [added])%list, false)
          else grow_loop_src f s ei start T g1 (units ++ [added])%list
      else fail EOther "unreachable"
  end.

Theorem grow_loop_is_source : forall fuel s ei start T g units st,
  grow_loop_src fuel s ei start T g units st = grow_loop fuel s ei start T g units st.
Proof.
  induction fuel as [|f IH]; intros s ei start T g units st; [reflexivity|]. cbn [grow_loop_src grow_loop growth_loops].
  apply rbind_ext2; [intros st'; apply add_unit_is_source|]. intros g1 st1. cbv zeta. unfold closed_by_growth.
  destruct (m_open g1) as [|a r] eqn:Eo; [reflexivity|]. cbn [List.length].
  replace (Z.eqb (Z.of_nat (S (List.length r))) 0) with false by (symmetry; apply Z.eqb_neq; lia).
  apply rbind_ext2; [intros st'; apply finalize_is_source|]. intros fin st2.
  rewrite mass_exceeded_is. destruct (Qle_bool (Qred (m_mass g1 - start)) T); cbn [negb]; [apply IH|reflexivity].
Qed.

(* ---- Stochastic.generate: the base-class guards (core.py), get_start, one draw, the growth loop ---- *)
Definition gen_stoch_src (s : gstoch) (ei : nat) (prefix : option molgen) : run (molgen * sinfo) :=
  if base_refused (s_generable s) then fail ERuntime "not generable" else
  if base_has_prefix (match prefix with Some _ => true | None => false end)
     && base_prefix_bad (match prefix with Some g => List.length (m_open g) | None => 1%nat end)
  then fail ERuntime "prefix must have exactly one open bond descriptor" else
  rdo g0 <- get_start_src s ei prefix ;;
  rdo T <- draw ;;
  rdo r <- with_fuel (fun f => grow_loop_src f s ei (m_mass g0) T g0 []) ;;
  let '(fin, units, ex) := r in
  ret (fin, {| si_target := T; si_start := m_mass g0; si_units := units; si_exhausted := ex |}).

Theorem gen_stoch_is_source s ei prefix st : gen_stoch_src s ei prefix st = gen_stoch s ei prefix st.
Proof.
  unfold gen_stoch_src, gen_stoch, base_refused, base_has_prefix, base_prefix_bad.
  destruct (negb (s_generable s)); [reflexivity|].
  assert (E : (match prefix with Some _ => true | None => false end
               && negb (Z.eqb (Z.of_nat (match prefix with Some g => List.length (m_open g) | None => 1%nat end)) 1))%bool
              = negb (match prefix with Some g => Nat.eqb (List.length (m_open g)) 1 | None => true end)).
  { destruct prefix as [g|]; cbn [andb]; [apply zne1|reflexivity]. }
  rewrite E. destruct (match prefix with Some g => Nat.eqb (List.length (m_open g)) 1 | None => true end); cbn [negb]; [|reflexivity].
  apply rbind_ext2; [intros st'; apply get_start_is_source|]. intros g0 st1.
  apply rbind_ext. intros T st2. apply rbind_ext2; [|reflexivity].
  intros st3. apply with_fuel_ext. intros n st'. apply grow_loop_is_source.
Qed.

(* ---- SmilesToken.generate ---- *)
Definition gen_token_src (tok : gtoken) (ei : nat) (prefix : option molgen) : run molgen :=
  if negb (t_ok tok) then fail ERuntime "token not generable" else
  if token_has_prefix prefix then
    match prefix with
    | Some g =>
        match m_open g with
        | [a] => rdo j <- choose (t_bds tok) (Some (o_d a)) ;; lift (attach g 0 tok (mkref ei KTok 0) j)
        | _ => fail ERuntime "prefix must have exactly one open bond descriptor"
        end
    | None => fail EOther "unreachable"
    end
  else lift (new_mol tok (mkref ei KTok 0)).
Theorem gen_token_is_source tok ei prefix st : gen_token_src tok ei prefix st = gen_token tok ei prefix st.
Proof. unfold gen_token_src, gen_token. destruct (negb (t_ok tok)); [reflexivity|]. destruct prefix; reflexivity. Qed.

